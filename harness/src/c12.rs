//! C12: intersection queries.  Segment x segment exhaustively on an integer lattice (every
//! result printed for the Coq model), plus direct evaluation of soundness / completeness for
//! line x quadratic, line x cubic and cubic x cubic queries.
use crate::util::*;
use lyon_geom::{point, CubicBezierSegment, Line, LineSegment, Point, QuadraticBezierSegment};

type P = Point<f64>;

pub const HEADER: &str =
    "From Coq Require Import QArith.\nFrom LV Require Import Base.Prelude Model.Bezier Model.LineInter Run.C12.\nOpen Scope Q_scope.";

fn orient(a: (i64, i64), b: (i64, i64), c: (i64, i64)) -> i64 {
    ((b.0 - a.0) * (c.1 - a.1) - (b.1 - a.1) * (c.0 - a.0)).signum()
}

/// Independent integer oracle: do the segments meet at exactly one point that is not a shared endpoint?
fn oracle(a: (i64, i64), b: (i64, i64), c: (i64, i64), d: (i64, i64)) -> bool {
    if a == c || a == d || b == c || b == d {
        return false;
    }
    let cr = (b.0 - a.0) * (d.1 - c.1) - (b.1 - a.1) * (d.0 - c.0);
    if cr == 0 {
        return false; // parallel, collinear, overlapping or degenerate
    }
    orient(a, b, c) * orient(a, b, d) <= 0 && orient(c, d, a) * orient(c, d, b) <= 0
}

fn seg_case(
    id: usize,
    c: [i64; 8],
    w: &mut ShardWriter,
    st: &mut Stats,
    idx: &mut std::fs::File,
) {
    use std::io::Write;
    let s1 = LineSegment { from: point(c[0] as f64, c[1] as f64), to: point(c[2] as f64, c[3] as f64) };
    let s2 = LineSegment { from: point(c[4] as f64, c[5] as f64), to: point(c[6] as f64, c[7] as f64) };
    let r = catch(|| s1.intersection_t(&s2));
    st.inc("evaluations");
    let text = format!("{:?}", c);
    let r = match r {
        Some(r) => r,
        None => {
            st.fail(jobj(&[("what", jstr("intersection_t panicked")), ("input", jstr(&text))]));
            return;
        }
    };
    let want = oracle((c[0], c[1]), (c[2], c[3]), (c[4], c[5]), (c[6], c[7]));
    st.inc(if r.is_some() { "reported_some" } else { "reported_none" });
    st.note_case(&text, want || r.is_some());
    if want != r.is_some() {
        st.fail(jobj(&[
            ("what", jstr(if want { "crossing segments not reported" } else { "intersection reported for segments that do not cross at a single non-shared point" })),
            ("input", jstr(&text)),
        ]));
    }
    if let Some((t, u)) = r {
        let (p, q) = (s1.sample(t), s2.sample(u));
        if !(0.0..=1.0).contains(&t) || !(0.0..=1.0).contains(&u) || (p - q).length() > 1e-12 {
            st.fail(jobj(&[("what", jstr("returned parameters do not locate a common point")), ("input", jstr(&text))]));
        }
        if s1.intersects(&s2) != true || s1.intersection(&s2).map(|x| (x - p).length() < 1e-12) != Some(true) {
            st.fail(jobj(&[("what", jstr("intersects / intersection disagree with intersection_t")), ("input", jstr(&text))]));
        }
    } else if s1.intersects(&s2) {
        st.fail(jobj(&[("what", jstr("intersects true but intersection_t None")), ("input", jstr(&text))]));
    }
    // ---- the segment against the infinite line through the other one, and line x line (integer oracles)
    if (c[4], c[5]) != (c[6], c[7]) {
        let (a, b, cc, d) = ((c[0], c[1]), (c[2], c[3]), (c[4], c[5]), (c[6], c[7]));
        let line = s2.to_line();
        let cr = (b.0 - a.0) * (d.1 - cc.1) - (b.1 - a.1) * (d.0 - cc.0);
        let want_t = cr != 0 && orient(cc, d, a) * orient(cc, d, b) <= 0;
        match catch(|| (s1.line_intersection_t(&line), s1.line_intersection(&line))) {
            None => st.fail(jobj(&[("what", jstr("line_intersection_t panicked")), ("input", jstr(&text))])),
            Some((lt, lp)) => {
                if lt.is_some() != want_t || lp.is_some() != want_t {
                    st.fail(jobj(&[("what", jstr("segment / line: crossing reported exactly when the segment meets the line at one point fails")), ("input", jstr(&format!("{} -> {:?}", text, lt)))]));
                }
                if let (Some(t), Some(p)) = (lt, lp) {
                    let q = s1.sample(t);
                    let off = (q - line.point).cross(line.vector).abs();
                    if !(0.0..=1.0).contains(&t) || off > 1e-9 || (p - q).length() > 1e-12 {
                        st.fail(jobj(&[("what", jstr("segment / line: the returned parameter is not on the line")), ("input", jstr(&format!("{} -> t {}", text, t)))]));
                    }
                }
            }
        }
        if (c[0], c[1]) != (c[2], c[3]) {
            let l1 = s1.to_line();
            match catch(|| l1.intersection(&line)) {
                None => st.fail(jobj(&[("what", jstr("Line::intersection panicked")), ("input", jstr(&text))])),
                Some(p) => {
                    if p.is_some() != (cr != 0) {
                        st.fail(jobj(&[("what", jstr("Line::intersection: a point is reported exactly for non-parallel lines fails")), ("input", jstr(&format!("{} -> {:?}", text, p)))]));
                    }
                    if let Some(p) = p {
                        let o1 = (p - l1.point).cross(l1.vector).abs();
                        let o2 = (p - line.point).cross(line.vector).abs();
                        if o1 > 1e-9 || o2 > 1e-9 {
                            st.fail(jobj(&[("what", jstr("Line::intersection: the point is not on both lines")), ("input", jstr(&format!("{} -> {:?}", text, p)))]));
                        }
                    }
                }
            }
        }
    }
    let out = match r {
        Some((t, u)) => glist(vec![gq64(t), gq64(u)]),
        None => "[]".to_string(),
    };
    if id % 997 == 0 {
        st.sample(format!("{} -> {:?}", text, r));
        st.sample_ctr = 4; // keep sampling
    }
    writeln!(idx, "{}\t{} -> {:?}", id, text, r).ok();
    w.push(format!(
        "(mkI {} [{}]%Z {})",
        id,
        c.iter().map(|v| gz(*v)).collect::<Vec<_>>().join("; "),
        out
    ));
}

fn curve_checks(args: &Args, st: &mut Stats) {
    let mut rng = Rng::new(args.seed ^ 0x12);
    let n = if args.thorough() { 20000 } else { 2500 };
    let g = |r: &mut Rng| point((r.unit_f64() - 0.5) * 20.0, (r.unit_f64() - 0.5) * 20.0);
    for _ in 0..n {
        let r = &mut rng;
        // ---- quadratic x line: soundness of every reported t; completeness on a constructed transversal
        let q = QuadraticBezierSegment { from: g(r), ctrl: g(r), to: g(r) };
        // a line through two points of the curve, well separated
        let (ta, tb) = (0.15 + 0.25 * r.unit_f64(), 0.6 + 0.25 * r.unit_f64());
        let (pa, pb) = (q.sample(ta), q.sample(tb));
        if (pb - pa).length() > 0.5 {
            let line = Line { point: pa, vector: pb - pa };
            let res = catch(|| q.line_intersections_t(&line));
            st.inc("evaluations");
            st.inc("quad_line");
            st.note_case(&format!("{:?}{:?}", q, line), true);
            match res {
                None => st.fail(jobj(&[("what", jstr("quadratic line_intersections_t panicked")), ("input", jstr(&format!("{:?} {:?}", q, line)))])),
                Some(ts) => {
                    let scale = (pb - pa).length();
                    for t in ts.iter() {
                        let p = q.sample(*t);
                        let d = (p - pa).cross(pb - pa).abs() / scale;
                        if !(0.0..=1.0).contains(t) || d > 1e-6 {
                            st.fail(jobj(&[("what", jstr("quadratic/line: reported parameter is not on the line")), ("input", jstr(&format!("{:?} {:?} t={}", q, line, t)))]));
                        }
                    }
                    for want in [ta, tb] {
                        if !ts.iter().any(|t| (t - want).abs() < 1e-6) {
                            st.fail(jobj(&[("what", jstr("quadratic/line: transversal crossing not reported")), ("input", jstr(&format!("{:?} {:?} want t={} got {:?}", q, line, want, ts)))]));
                        }
                    }
                    // segment version
                    let seg = LineSegment { from: pa + (pa - pb) * 0.25, to: pb + (pb - pa) * 0.25 };
                    if let Some(v) = catch(|| q.line_segment_intersections_t(&seg)) {
                        for (t, u) in v.iter() {
                            if (q.sample(*t) - seg.sample(*u)).length() > 1e-5 * (1.0 + scale) {
                                st.fail(jobj(&[("what", jstr("quadratic/segment: parameters do not denote a common point")), ("input", jstr(&format!("{:?} {:?} t={} u={}", q, seg, t, u)))]));
                            }
                        }
                        for want in [ta, tb] {
                            if !v.iter().any(|(t, _)| (t - want).abs() < 1e-6) {
                                st.fail(jobj(&[("what", jstr("quadratic/segment: transversal crossing not reported")), ("input", jstr(&format!("{:?} {:?} want t={}", q, seg, want)))]));
                            }
                        }
                    }
                }
            }
        }
        // ---- cubic x line
        let c = CubicBezierSegment { from: g(r), ctrl1: g(r), ctrl2: g(r), to: g(r) };
        let (pa, pb) = (c.sample(ta), c.sample(tb));
        if (pb - pa).length() > 0.5 {
            let line = Line { point: pa, vector: pb - pa };
            st.inc("evaluations");
            st.inc("cubic_line");
            st.note_case(&format!("{:?}{:?}", c, line), true);
            match catch(|| c.line_intersections_t(&line)) {
                None => st.fail(jobj(&[("what", jstr("cubic line_intersections_t panicked")), ("input", jstr(&format!("{:?} {:?}", c, line)))])),
                Some(ts) => {
                    let scale = (pb - pa).length();
                    for t in ts.iter() {
                        let d = (c.sample(*t) - pa).cross(pb - pa).abs() / scale;
                        if !(0.0..=1.0).contains(t) || d > 1e-5 {
                            st.fail(jobj(&[("what", jstr("cubic/line: reported parameter is not on the line")), ("input", jstr(&format!("{:?} {:?} t={} d={}", c, line, t, d)))]));
                        }
                    }
                    // completeness only where the crossing is transversal and isolated
                    for want in [ta, tb] {
                        let tang = c.derivative(want);
                        let transversal = tang.cross(pb - pa).abs() > 0.2 * tang.length() * scale;
                        if transversal && !ts.iter().any(|t| (t - want).abs() < 1e-5) {
                            st.fail(jobj(&[("what", jstr("cubic/line: transversal crossing not reported")), ("input", jstr(&format!("{:?} {:?} want t={} got {:?}", c, line, want, ts)))]));
                        }
                    }
                }
            }
        }
        // ---- cubic x segment, and the point-returning variants of the queries above
        if (pb - pa).length() > 0.5 {
            let seg = LineSegment { from: pa + (pa - pb) * 0.25, to: pb + (pb - pa) * 0.25 };
            let line = Line { point: pa, vector: pb - pa };
            let scale = (pb - pa).length();
            if let Some(v) = catch(|| c.line_segment_intersections_t(&seg)) {
                for (t, u) in v.iter() {
                    if !(0.0..=1.0).contains(t) || !(0.0..=1.0).contains(u) || (c.sample(*t) - seg.sample(*u)).length() > 1e-4 * (1.0 + scale) {
                        st.fail(jobj(&[("what", jstr("cubic/segment: parameters do not denote a common point")), ("input", jstr(&format!("{:?} {:?} t={} u={}", c, seg, t, u)))]));
                    }
                }
                for want in [ta, tb] {
                    let tang = c.derivative(want);
                    let transversal = tang.cross(pb - pa).abs() > 0.2 * tang.length() * scale;
                    if transversal && !v.iter().any(|(t, _)| (t - want).abs() < 1e-5) {
                        st.fail(jobj(&[("what", jstr("cubic/segment: transversal crossing not reported")), ("input", jstr(&format!("{:?} {:?} want t={}", c, seg, want)))]));
                    }
                }
            } else {
                st.fail(jobj(&[("what", jstr("cubic line_segment_intersections_t panicked")), ("input", jstr(&format!("{:?} {:?}", c, seg)))]));
            }
            // points = samples at the parameters
            let r2 = catch(|| (c.line_intersections_t(&line), c.line_intersections(&line), c.line_segment_intersections_t(&seg), c.line_segment_intersections(&seg)));
            if let Some((ts, ps, tus, sps)) = r2 {
                if ts.len() != ps.len() || ts.iter().zip(ps.iter()).any(|(t, p)| (c.sample(*t) - *p).length() > 1e-9 * (1.0 + scale)) {
                    st.fail(jobj(&[("what", jstr("cubic line_intersections is not the samples at line_intersections_t")), ("input", jstr(&format!("{:?} {:?}", c, line)))]));
                }
                if tus.len() != sps.len() || tus.iter().zip(sps.iter()).any(|((t, _), p)| (c.sample(*t) - *p).length() > 1e-9 * (1.0 + scale)) {
                    st.fail(jobj(&[("what", jstr("cubic line_segment_intersections is not the samples at line_segment_intersections_t")), ("input", jstr(&format!("{:?} {:?}", c, seg)))]));
                }
            }
            let (qa, qb) = (q.sample(ta), q.sample(tb));
            if (qb - qa).length() > 0.5 {
                let qline = Line { point: qa, vector: qb - qa };
                let qseg = LineSegment { from: qa + (qa - qb) * 0.25, to: qb + (qb - qa) * 0.25 };
                if let Some((ts, ps, tus, sps)) = catch(|| (q.line_intersections_t(&qline), q.line_intersections(&qline), q.line_segment_intersections_t(&qseg), q.line_segment_intersections(&qseg))) {
                    if ts.len() != ps.len() || ts.iter().zip(ps.iter()).any(|(t, p)| (q.sample(*t) - *p).length() > 1e-9 * (1.0 + scale)) {
                        st.fail(jobj(&[("what", jstr("quadratic line_intersections is not the samples at line_intersections_t")), ("input", jstr(&format!("{:?} {:?}", q, qline)))]));
                    }
                    if tus.len() != sps.len() || tus.iter().zip(sps.iter()).any(|((t, _), p)| (q.sample(*t) - *p).length() > 1e-9 * (1.0 + scale)) {
                        st.fail(jobj(&[("what", jstr("quadratic line_segment_intersections is not the samples at line_segment_intersections_t")), ("input", jstr(&format!("{:?} {:?}", q, qseg)))]));
                    }
                }
            }
        }
        // ---- axis-aligned and nearly axis-aligned segments through a point of the curve, both directions
        {
            let tw = 0.1 + 0.8 * r.unit_f64();
            for variant in 0..4 {
                let horizontal = variant % 2 == 0;
                let flip = variant / 2 == 1;
                let skew = if r.chance(1, 3) { 1e-3 * (r.unit_f64() - 0.5) } else { 0.0 };
                for is_cubic in [false, true] {
                    let (pw, tang) = if is_cubic { (c.sample(tw), c.derivative(tw)) } else { (q.sample(tw), q.derivative(tw)) };
                    let (w1, w2) = (0.5 + 3.0 * r.unit_f64(), 0.5 + 3.0 * r.unit_f64());
                    let (mut a0, mut b0) = if horizontal {
                        (point(pw.x - w1, pw.y - skew * w1), point(pw.x + w2, pw.y + skew * w2))
                    } else {
                        (point(pw.x - skew * w1, pw.y - w1), point(pw.x + skew * w2, pw.y + w2))
                    };
                    if flip {
                        std::mem::swap(&mut a0, &mut b0);
                    }
                    let seg = LineSegment { from: a0, to: b0 };
                    let dir = (b0 - a0).normalize();
                    let transversal = tang.length() > 1e-6 && (tang.normalize().cross(dir)).abs() > 0.3;
                    st.inc("axis_aligned_segment_queries");
                    let res = if is_cubic { catch(|| c.line_segment_intersections_t(&seg).to_vec()) } else { catch(|| q.line_segment_intersections_t(&seg).to_vec()) };
                    let label = if is_cubic { format!("{:?} {:?} t={}", c, seg, tw) } else { format!("{:?} {:?} t={}", q, seg, tw) };
                    match res {
                        None => st.fail(jobj(&[("what", jstr("curve line_segment_intersections_t panicked")), ("input", jstr(&label))])),
                        Some(v) => {
                            for (t, u) in v.iter() {
                                let pc = if is_cubic { c.sample(*t) } else { q.sample(*t) };
                                if !(0.0..=1.0).contains(t) || !(-1e-9..=1.0 + 1e-9).contains(u) || (pc - seg.sample(*u)).length() > 1e-4 * (1.0 + w1 + w2) {
                                    st.fail(jobj(&[("what", jstr("curve/segment (axis-aligned): parameters do not denote a common point")), ("input", jstr(&format!("{} -> t={} u={}", label, t, u)))]));
                                }
                            }
                            if transversal && !v.iter().any(|(t, _)| (t - tw).abs() < 1e-5) {
                                st.fail(jobj(&[("what", jstr("curve/segment (axis-aligned): transversal crossing not reported")), ("input", jstr(&format!("{} -> {:?}", label, v)))]));
                            }
                        }
                    }
                }
            }
        }
        // ---- cubic x quadratic: soundness of every reported pair / point
        {
            let q2 = QuadraticBezierSegment { from: g(r), ctrl: g(r), to: g(r) };
            st.inc("cubic_quadratic");
            match catch(|| (c.quadratic_intersections_t(&q2), c.quadratic_intersections(&q2))) {
                None => st.fail(jobj(&[("what", jstr("quadratic_intersections_t panicked")), ("input", jstr(&format!("{:?} {:?}", c, q2)))])),
                Some((v, ps)) => {
                    for (t, u) in v.iter() {
                        let d = (c.sample(*t) - q2.sample(*u)).length();
                        if !(0.0..=1.0).contains(t) || !(0.0..=1.0).contains(u) || d > 1e-3 {
                            st.fail(jobj(&[("what", jstr("cubic/quadratic: parameters do not denote a common point")), ("input", jstr(&format!("{:?} {:?} t={} u={} d={}", c, q2, t, u, d)))]));
                        }
                    }
                    // the point variant sorts and de-duplicates: every point is a sample at one of the parameters, every
                    // parameter's sample is (close to) one of the points
                    let every_point = ps.iter().all(|p| v.iter().any(|(t, _)| (c.sample(*t) - *p).length() < 1e-9 * 40.0));
                    let every_t = v.iter().all(|(t, _)| ps.iter().any(|p| (c.sample(*t) - *p).length() < 1e-3));
                    if !every_point || !every_t {
                        st.fail(jobj(&[("what", jstr("quadratic_intersections is not the samples at quadratic_intersections_t")), ("input", jstr(&format!("{:?} {:?}", c, q2)))]));
                    }
                }
            }
        }
        // ---- cubic x cubic: soundness of every reported pair
        let c2 = CubicBezierSegment { from: g(r), ctrl1: g(r), ctrl2: g(r), to: g(r) };
        st.inc("evaluations");
        st.inc("cubic_cubic");
        match catch(|| c.cubic_intersections_t(&c2)) {
            None => st.fail(jobj(&[("what", jstr("cubic_intersections_t panicked")), ("input", jstr(&format!("{:?} {:?}", c, c2)))])),
            Some(v) => {
                if !v.is_empty() {
                    st.inc("cubic_cubic_with_hits");
                }
                for (t, u) in v.iter() {
                    let d = (c.sample(*t) - c2.sample(*u)).length();
                    if !(0.0..=1.0).contains(t) || !(0.0..=1.0).contains(u) || d > 1e-3 {
                        st.fail(jobj(&[("what", jstr("cubic/cubic: parameters do not denote a common point")), ("input", jstr(&format!("{:?} {:?} t={} u={} d={}", c, c2, t, u, d)))]));
                    }
                }
                if let Some(ps) = catch(|| c.cubic_intersections(&c2)) {
                    let every_point = ps.iter().all(|p| v.iter().any(|(t, _)| (c.sample(*t) - *p).length() < 1e-9 * 40.0));
                    let every_t = v.iter().all(|(t, _)| ps.iter().any(|p| (c.sample(*t) - *p).length() < 1e-3));
                    if !every_point || !every_t {
                        st.fail(jobj(&[("what", jstr("cubic_intersections is not the samples at cubic_intersections_t")), ("input", jstr(&format!("{:?} {:?}", c, c2)))]));
                    }
                }
            }
        }
    }
}

pub fn main(args: &Args) -> std::io::Result<()> {
    let mut st = Stats::default();
    let mut w = ShardWriter::new(&args.out, "c12_cases", args.shards, HEADER, "bad_cases");
    w.disabled = args.direct_only();
    let mut idx = std::fs::File::create(args.out.join("c12_index.txt"))?;
    let m: i64 = if args.thorough() { 5 } else { 4 };
    let mut id = 0usize;
    let n = m * m;
    // exhaustive: all ordered pairs of segments with endpoints on {0..m-1}^2
    for a in 0..n {
        for b in 0..n {
            for c in 0..n {
                for d in 0..n {
                    let cc = [a / m, a % m, b / m, b % m, c / m, c % m, d / m, d % m];
                    seg_case(id, cc, &mut w, &mut st, &mut idx);
                    id += 1;
                }
            }
        }
    }
    st.add("exhaustive_lattice_side", m as u64);
    // random larger lattices (exactness still holds; divisions are correctly rounded)
    let mut rng = Rng::new(args.seed);
    for _ in 0..(if args.thorough() { 20000 } else { 3000 }) {
        let mut cc = [0i64; 8];
        for v in cc.iter_mut() {
            *v = rng.range(-50, 50);
        }
        // bias towards touching configurations
        if rng.chance(1, 4) {
            // put c on the segment ab's line
            let k = rng.range(-1, 3);
            cc[4] = cc[0] + (cc[2] - cc[0]) * k;
            cc[5] = cc[1] + (cc[3] - cc[1]) * k;
        }
        seg_case(id, cc, &mut w, &mut st, &mut idx);
        id += 1;
    }
    curve_checks(args, &mut st);
    w.finish()?;
    st.write(&args.out.join("c12_stats.json"))
}
