//! C12: intersection queries.  Segment x segment exhaustively on an integer lattice (every
//! result printed for the Coq model), plus direct evaluation of soundness / completeness for
//! line x quadratic, line x cubic and cubic x cubic queries.
use crate::util::*;
use lyon_geom::{point, CubicBezierSegment, Line, LineSegment, Point, QuadraticBezierSegment};

type P = Point<f64>;

pub const HEADER: &str =
    "From Coq Require Import QArith.\nFrom LV Require Import Base.Prelude Model.Bezier Model.LineInter Run.C12.\nOpen Scope Q_scope.";

pub const HEADER_QL: &str =
    "From Coq Require Import QArith.\nFrom LV Require Import Base.Prelude Model.Bezier Model.LineInter Model.QuadLine Run.C12.\nOpen Scope Q_scope.";

/// cases for the model of QuadraticBezierSegment::line_intersections_t (Model/QuadLine.v): lattice quadratics against
/// axis-parallel lines whose direction vector has a power-of-two length, so that the line equation and the polynomial
/// coefficients are exact in f64 and only the square root and the final divisions round.  Half of the curves have their
/// control point half-way between the end points across the line: the quadratic term vanishes exactly.  Sent to Coq:
/// the curve, the equation as the code computed it, the code's square root of the discriminant, what the code returned.
fn quad_line_cases(args: &Args, st: &mut Stats) -> std::io::Result<()> {
    let mut w = ShardWriter::new(&args.out, "c12ql_cases", args.shards, HEADER_QL, "ql_bad_cases");
    w.disabled = args.direct_only();
    let mut rng = Rng::new(args.seed ^ 0x12c1);
    let n = if args.thorough() { 24000 } else { 3000 };
    let mut id = 0usize;
    for _ in 0..n {
        let r = &mut rng;
        let horizontal = r.chance(1, 2);
        let len = *r.pick(&[1.0f64, 2.0, 4.0, 0.5]) * if r.chance(1, 2) { 1.0 } else { -1.0 };
        let k2 = r.range(-20, 21) as f64 * 0.5;
        let line = if horizontal { Line { point: point(r.range(-9, 10) as f64, k2), vector: lyon_geom::vector(len, 0.0) } } else { Line { point: point(k2, r.range(-9, 10) as f64), vector: lyon_geom::vector(0.0, len) } };
        let g = |r: &mut Rng| point(r.range(-8, 9) as f64, r.range(-8, 9) as f64);
        let (from, to) = (g(r), g(r));
        let mut ctrl = g(r);
        if r.chance(1, 2) {
            // the coordinate across the line is the mean of the end points' (a half-integer at worst)
            if horizontal {
                ctrl.y = (from.y + to.y) * 0.5;
            } else {
                ctrl.x = (from.x + to.x) * 0.5;
            }
        }
        let q = QuadraticBezierSegment { from, ctrl, to };
        let eq = line.equation();
        let (ea, eb, ec) = (eq.a(), eq.b(), eq.c());
        // the polynomial as the code computes it (exact on this domain)
        let (i, j, k) = (ea * from.x + eb * from.y, ea * ctrl.x + eb * ctrl.y, ea * to.x + eb * to.y);
        let (a, b, c) = (i - j - j + k, j + j - i - i, i + ec);
        let delta = b * b - 4.0 * a * c;
        let sd = if delta >= 0.0 { delta.sqrt() } else { 0.0 };
        let out = match catch(|| q.line_intersections_t(&line).to_vec()) {
            Some(v) => v,
            None => {
                st.fail(jobj(&[("what", jstr("line x quadratic query panicked")), ("input", jstr(&format!("{:?} {:?}", q, line)))]));
                continue;
            }
        };
        st.inc("evaluations");
        st.inc("quad_line_model_cases");
        if a == 0.0 {
            st.inc("quad_line_model_cases_linear");
        }
        // the model is exact, the code rounds its square root and quotients: leave out the inputs where a rounding
        // decides a comparison (a root within 1e-9 of 0 or 1 without being equal to it, a double root reported twice
        // a unit in the last place apart)
        // (in the quadratic branch the second root is c / (a t1): an end point exactly on the line comes out as
        // 1 + 2^-52 and is dropped - a rounding at the boundary, not modelled)
        let near = |t: f64| (t.abs() < 1e-9 && (t != 0.0 || a != 0.0)) || ((t - 1.0).abs() < 1e-9 && (t != 1.0 || a != 0.0));
        let exact_roots: Vec<f64> = if a != 0.0 && delta >= 0.0 { vec![(-b - sd) / (2.0 * a), (-b + sd) / (2.0 * a)] } else if a == 0.0 && b != 0.0 { vec![-c / b] } else { vec![] };
        if exact_roots.iter().any(|t| near(*t)) || (delta == 0.0 && out.len() == 2) || (delta > 0.0 && delta < 1e-9) {
            st.inc("quad_line_model_cases_skipped_rounding");
            continue;
        }
        st.note_case(&format!("{:?} {:?}", q, line), true);
        let gp = |p: lyon_geom::Point<f64>| format!("({}, {})", gq64(p.x), gq64(p.y));
        w.push(format!(
            "(mkQL {} (mkQuad {} {} {}) {} {} {} {} {})",
            id,
            gp(from),
            gp(ctrl),
            gp(to),
            gq64(ea),
            gq64(eb),
            gq64(ec),
            gq64(sd),
            glist(out.iter().map(|t| gq64(*t)))
        ));
        id += 1;
    }
    w.finish().map(|_| ())
}

fn orient(a: (i64, i64), b: (i64, i64), c: (i64, i64)) -> i64 {
    ((b.0 - a.0) * (c.1 - a.1) - (b.1 - a.1) * (c.0 - a.0)).signum()
}

/// Independent integer oracle: do the segments meet at exactly one point that is not a shared endpoint?
fn oracle(a: (i64, i64), b: (i64, i64), c: (i64, i64), d: (i64, i64)) -> bool {
    if a == c || a == d || b == c || b == d {
        return false;
    }
    let cr = (b.0 - a.0) * (d.1 - c.1) - (b.1 - a.1) * (d.0 - c.0);
    if cr == 0 {
        return false; // parallel, collinear, overlapping or degenerate
    }
    orient(a, b, c) * orient(a, b, d) <= 0 && orient(c, d, a) * orient(c, d, b) <= 0
}

fn seg_case(
    id: usize,
    c: [i64; 8],
    w: &mut ShardWriter,
    st: &mut Stats,
    idx: &mut std::fs::File,
) {
    use std::io::Write;
    let s1 = LineSegment { from: point(c[0] as f64, c[1] as f64), to: point(c[2] as f64, c[3] as f64) };
    let s2 = LineSegment { from: point(c[4] as f64, c[5] as f64), to: point(c[6] as f64, c[7] as f64) };
    let r = catch(|| s1.intersection_t(&s2));
    st.inc("evaluations");
    let text = format!("{:?}", c);
    let r = match r {
        Some(r) => r,
        None => {
            st.fail(jobj(&[("what", jstr("intersection_t panicked")), ("input", jstr(&text))]));
            return;
        }
    };
    let want = oracle((c[0], c[1]), (c[2], c[3]), (c[4], c[5]), (c[6], c[7]));
    st.inc(if r.is_some() { "reported_some" } else { "reported_none" });
    st.note_case(&text, want || r.is_some());
    if want != r.is_some() {
        st.fail(jobj(&[
            ("what", jstr(if want { "crossing segments not reported" } else { "intersection reported for segments that do not cross at a single non-shared point" })),
            ("input", jstr(&text)),
        ]));
    }
    if let Some((t, u)) = r {
        let (p, q) = (s1.sample(t), s2.sample(u));
        if !(0.0..=1.0).contains(&t) || !(0.0..=1.0).contains(&u) || (p - q).length() > 1e-12 {
            st.fail(jobj(&[("what", jstr("returned parameters do not locate a common point")), ("input", jstr(&text))]));
        }
        if s1.intersects(&s2) != true || s1.intersection(&s2).map(|x| (x - p).length() < 1e-12) != Some(true) {
            st.fail(jobj(&[("what", jstr("intersects / intersection disagree with intersection_t")), ("input", jstr(&text))]));
        }
    } else if s1.intersects(&s2) {
        st.fail(jobj(&[("what", jstr("intersects true but intersection_t None")), ("input", jstr(&text))]));
    }
    // ---- the segment against the infinite line through the other one, and line x line (integer oracles)
    if (c[4], c[5]) != (c[6], c[7]) {
        let (a, b, cc, d) = ((c[0], c[1]), (c[2], c[3]), (c[4], c[5]), (c[6], c[7]));
        let line = s2.to_line();
        let cr = (b.0 - a.0) * (d.1 - cc.1) - (b.1 - a.1) * (d.0 - cc.0);
        let want_t = cr != 0 && orient(cc, d, a) * orient(cc, d, b) <= 0;
        match catch(|| (s1.line_intersection_t(&line), s1.line_intersection(&line))) {
            None => st.fail(jobj(&[("what", jstr("line_intersection_t panicked")), ("input", jstr(&text))])),
            Some((lt, lp)) => {
                if lt.is_some() != want_t || lp.is_some() != want_t {
                    st.fail(jobj(&[("what", jstr("segment / line: crossing reported exactly when the segment meets the line at one point fails")), ("input", jstr(&format!("{} -> {:?}", text, lt)))]));
                }
                if let (Some(t), Some(p)) = (lt, lp) {
                    let q = s1.sample(t);
                    let off = (q - line.point).cross(line.vector).abs();
                    if !(0.0..=1.0).contains(&t) || off > 1e-9 || (p - q).length() > 1e-12 {
                        st.fail(jobj(&[("what", jstr("segment / line: the returned parameter is not on the line")), ("input", jstr(&format!("{} -> t {}", text, t)))]));
                    }
                }
            }
        }
        if (c[0], c[1]) != (c[2], c[3]) {
            let l1 = s1.to_line();
            match catch(|| l1.intersection(&line)) {
                None => st.fail(jobj(&[("what", jstr("Line::intersection panicked")), ("input", jstr(&text))])),
                Some(p) => {
                    if p.is_some() != (cr != 0) {
                        st.fail(jobj(&[("what", jstr("Line::intersection: a point is reported exactly for non-parallel lines fails")), ("input", jstr(&format!("{} -> {:?}", text, p)))]));
                    }
                    if let Some(p) = p {
                        let o1 = (p - l1.point).cross(l1.vector).abs();
                        let o2 = (p - line.point).cross(line.vector).abs();
                        if o1 > 1e-9 || o2 > 1e-9 {
                            st.fail(jobj(&[("what", jstr("Line::intersection: the point is not on both lines")), ("input", jstr(&format!("{} -> {:?}", text, p)))]));
                        }
                    }
                }
            }
        }
    }
    let out = match r {
        Some((t, u)) => glist(vec![gq64(t), gq64(u)]),
        None => "[]".to_string(),
    };
    if id % 997 == 0 {
        st.sample(format!("{} -> {:?}", text, r));
        st.sample_ctr = 4; // keep sampling
    }
    writeln!(idx, "{}\t{} -> {:?}", id, text, r).ok();
    w.push(format!(
        "(mkI {} [{}]%Z {})",
        id,
        c.iter().map(|v| gz(*v)).collect::<Vec<_>>().join("; "),
        out
    ));
}

fn curve_checks(args: &Args, st: &mut Stats) {
    let mut rng = Rng::new(args.seed ^ 0x12);
    let n = if args.thorough() { 20000 } else { 2500 };
    let g = |r: &mut Rng| point((r.unit_f64() - 0.5) * 20.0, (r.unit_f64() - 0.5) * 20.0);
    for _ in 0..n {
        let r = &mut rng;
        // ---- quadratic x line: soundness of every reported t; completeness on a constructed transversal
        let q = QuadraticBezierSegment { from: g(r), ctrl: g(r), to: g(r) };
        // a line through two points of the curve, well separated
        let (ta, tb) = (0.15 + 0.25 * r.unit_f64(), 0.6 + 0.25 * r.unit_f64());
        let (pa, pb) = (q.sample(ta), q.sample(tb));
        if (pb - pa).length() > 0.5 {
            let line = Line { point: pa, vector: pb - pa };
            let res = catch(|| q.line_intersections_t(&line));
            st.inc("evaluations");
            st.inc("quad_line");
            st.note_case(&format!("{:?}{:?}", q, line), true);
            match res {
                None => st.fail(jobj(&[("what", jstr("quadratic line_intersections_t panicked")), ("input", jstr(&format!("{:?} {:?}", q, line)))])),
                Some(ts) => {
                    let scale = (pb - pa).length();
                    for t in ts.iter() {
                        let p = q.sample(*t);
                        let d = (p - pa).cross(pb - pa).abs() / scale;
                        if !(0.0..=1.0).contains(t) || d > 1e-6 {
                            st.fail(jobj(&[("what", jstr("quadratic/line: reported parameter is not on the line")), ("input", jstr(&format!("{:?} {:?} t={}", q, line, t)))]));
                        }
                    }
                    for want in [ta, tb] {
                        if !ts.iter().any(|t| (t - want).abs() < 1e-6) {
                            st.fail(jobj(&[("what", jstr("quadratic/line: transversal crossing not reported")), ("input", jstr(&format!("{:?} {:?} want t={} got {:?}", q, line, want, ts)))]));
                        }
                    }
                    // segment version
                    let seg = LineSegment { from: pa + (pa - pb) * 0.25, to: pb + (pb - pa) * 0.25 };
                    if let Some(v) = catch(|| q.line_segment_intersections_t(&seg)) {
                        for (t, u) in v.iter() {
                            if (q.sample(*t) - seg.sample(*u)).length() > 1e-5 * (1.0 + scale) {
                                st.fail(jobj(&[("what", jstr("quadratic/segment: parameters do not denote a common point")), ("input", jstr(&format!("{:?} {:?} t={} u={}", q, seg, t, u)))]));
                            }
                        }
                        for want in [ta, tb] {
                            if !v.iter().any(|(t, _)| (t - want).abs() < 1e-6) {
                                st.fail(jobj(&[("what", jstr("quadratic/segment: transversal crossing not reported")), ("input", jstr(&format!("{:?} {:?} want t={}", q, seg, want)))]));
                            }
                        }
                    }
                }
            }
        }
        // ---- cubic x line
        let c = CubicBezierSegment { from: g(r), ctrl1: g(r), ctrl2: g(r), to: g(r) };
        let (pa, pb) = (c.sample(ta), c.sample(tb));
        if (pb - pa).length() > 0.5 {
            let line = Line { point: pa, vector: pb - pa };
            st.inc("evaluations");
            st.inc("cubic_line");
            st.note_case(&format!("{:?}{:?}", c, line), true);
            match catch(|| c.line_intersections_t(&line)) {
                None => st.fail(jobj(&[("what", jstr("cubic line_intersections_t panicked")), ("input", jstr(&format!("{:?} {:?}", c, line)))])),
                Some(ts) => {
                    let scale = (pb - pa).length();
                    for t in ts.iter() {
                        let d = (c.sample(*t) - pa).cross(pb - pa).abs() / scale;
                        if !(0.0..=1.0).contains(t) || d > 1e-5 {
                            st.fail(jobj(&[("what", jstr("cubic/line: reported parameter is not on the line")), ("input", jstr(&format!("{:?} {:?} t={} d={}", c, line, t, d)))]));
                        }
                    }
                    // completeness only where the crossing is transversal and isolated
                    for want in [ta, tb] {
                        let tang = c.derivative(want);
                        let transversal = tang.cross(pb - pa).abs() > 0.2 * tang.length() * scale;
                        if transversal && !ts.iter().any(|t| (t - want).abs() < 1e-5) {
                            st.fail(jobj(&[("what", jstr("cubic/line: transversal crossing not reported")), ("input", jstr(&format!("{:?} {:?} want t={} got {:?}", c, line, want, ts)))]));
                        }
                    }
                }
            }
        }
        // ---- cubic x segment, and the point-returning variants of the queries above
        if (pb - pa).length() > 0.5 {
            let seg = LineSegment { from: pa + (pa - pb) * 0.25, to: pb + (pb - pa) * 0.25 };
            let line = Line { point: pa, vector: pb - pa };
            let scale = (pb - pa).length();
            if let Some(v) = catch(|| c.line_segment_intersections_t(&seg)) {
                for (t, u) in v.iter() {
                    if !(0.0..=1.0).contains(t) || !(0.0..=1.0).contains(u) || (c.sample(*t) - seg.sample(*u)).length() > 1e-4 * (1.0 + scale) {
                        st.fail(jobj(&[("what", jstr("cubic/segment: parameters do not denote a common point")), ("input", jstr(&format!("{:?} {:?} t={} u={}", c, seg, t, u)))]));
                    }
                }
                for want in [ta, tb] {
                    let tang = c.derivative(want);
                    let transversal = tang.cross(pb - pa).abs() > 0.2 * tang.length() * scale;
                    if transversal && !v.iter().any(|(t, _)| (t - want).abs() < 1e-5) {
                        st.fail(jobj(&[("what", jstr("cubic/segment: transversal crossing not reported")), ("input", jstr(&format!("{:?} {:?} want t={}", c, seg, want)))]));
                    }
                }
            } else {
                st.fail(jobj(&[("what", jstr("cubic line_segment_intersections_t panicked")), ("input", jstr(&format!("{:?} {:?}", c, seg)))]));
            }
            // points = samples at the parameters
            let r2 = catch(|| (c.line_intersections_t(&line), c.line_intersections(&line), c.line_segment_intersections_t(&seg), c.line_segment_intersections(&seg)));
            if let Some((ts, ps, tus, sps)) = r2 {
                if ts.len() != ps.len() || ts.iter().zip(ps.iter()).any(|(t, p)| (c.sample(*t) - *p).length() > 1e-9 * (1.0 + scale)) {
                    st.fail(jobj(&[("what", jstr("cubic line_intersections is not the samples at line_intersections_t")), ("input", jstr(&format!("{:?} {:?}", c, line)))]));
                }
                if tus.len() != sps.len() || tus.iter().zip(sps.iter()).any(|((t, _), p)| (c.sample(*t) - *p).length() > 1e-9 * (1.0 + scale)) {
                    st.fail(jobj(&[("what", jstr("cubic line_segment_intersections is not the samples at line_segment_intersections_t")), ("input", jstr(&format!("{:?} {:?}", c, seg)))]));
                }
            }
            let (qa, qb) = (q.sample(ta), q.sample(tb));
            if (qb - qa).length() > 0.5 {
                let qline = Line { point: qa, vector: qb - qa };
                let qseg = LineSegment { from: qa + (qa - qb) * 0.25, to: qb + (qb - qa) * 0.25 };
                if let Some((ts, ps, tus, sps)) = catch(|| (q.line_intersections_t(&qline), q.line_intersections(&qline), q.line_segment_intersections_t(&qseg), q.line_segment_intersections(&qseg))) {
                    if ts.len() != ps.len() || ts.iter().zip(ps.iter()).any(|(t, p)| (q.sample(*t) - *p).length() > 1e-9 * (1.0 + scale)) {
                        st.fail(jobj(&[("what", jstr("quadratic line_intersections is not the samples at line_intersections_t")), ("input", jstr(&format!("{:?} {:?}", q, qline)))]));
                    }
                    if tus.len() != sps.len() || tus.iter().zip(sps.iter()).any(|((t, _), p)| (q.sample(*t) - *p).length() > 1e-9 * (1.0 + scale)) {
                        st.fail(jobj(&[("what", jstr("quadratic line_segment_intersections is not the samples at line_segment_intersections_t")), ("input", jstr(&format!("{:?} {:?}", q, qseg)))]));
                    }
                }
            }
        }
        // ---- axis-aligned and nearly axis-aligned segments through a point of the curve, both directions
        {
            let tw = 0.1 + 0.8 * r.unit_f64();
            for variant in 0..4 {
                let horizontal = variant % 2 == 0;
                let flip = variant / 2 == 1;
                let skew = if r.chance(1, 3) { 1e-3 * (r.unit_f64() - 0.5) } else { 0.0 };
                for is_cubic in [false, true] {
                    let (pw, tang) = if is_cubic { (c.sample(tw), c.derivative(tw)) } else { (q.sample(tw), q.derivative(tw)) };
                    let (w1, w2) = (0.5 + 3.0 * r.unit_f64(), 0.5 + 3.0 * r.unit_f64());
                    let (mut a0, mut b0) = if horizontal {
                        (point(pw.x - w1, pw.y - skew * w1), point(pw.x + w2, pw.y + skew * w2))
                    } else {
                        (point(pw.x - skew * w1, pw.y - w1), point(pw.x + skew * w2, pw.y + w2))
                    };
                    if flip {
                        std::mem::swap(&mut a0, &mut b0);
                    }
                    let seg = LineSegment { from: a0, to: b0 };
                    let dir = (b0 - a0).normalize();
                    let transversal = tang.length() > 1e-6 && (tang.normalize().cross(dir)).abs() > 0.3;
                    st.inc("axis_aligned_segment_queries");
                    let res = if is_cubic { catch(|| c.line_segment_intersections_t(&seg).to_vec()) } else { catch(|| q.line_segment_intersections_t(&seg).to_vec()) };
                    let label = if is_cubic { format!("{:?} {:?} t={}", c, seg, tw) } else { format!("{:?} {:?} t={}", q, seg, tw) };
                    match res {
                        None => st.fail(jobj(&[("what", jstr("curve line_segment_intersections_t panicked")), ("input", jstr(&label))])),
                        Some(v) => {
                            for (t, u) in v.iter() {
                                let pc = if is_cubic { c.sample(*t) } else { q.sample(*t) };
                                if !(0.0..=1.0).contains(t) || !(-1e-9..=1.0 + 1e-9).contains(u) || (pc - seg.sample(*u)).length() > 1e-4 * (1.0 + w1 + w2) {
                                    st.fail(jobj(&[("what", jstr("curve/segment (axis-aligned): parameters do not denote a common point")), ("input", jstr(&format!("{} -> t={} u={}", label, t, u)))]));
                                }
                            }
                            if transversal && !v.iter().any(|(t, _)| (t - tw).abs() < 1e-5) {
                                st.fail(jobj(&[("what", jstr("curve/segment (axis-aligned): transversal crossing not reported")), ("input", jstr(&format!("{} -> {:?}", label, v)))]));
                            }
                        }
                    }
                }
            }
        }
        // ---- cubic x quadratic: soundness of every reported pair / point
        {
            let q2 = QuadraticBezierSegment { from: g(r), ctrl: g(r), to: g(r) };
            st.inc("cubic_quadratic");
            match catch(|| (c.quadratic_intersections_t(&q2), c.quadratic_intersections(&q2))) {
                None => st.fail(jobj(&[("what", jstr("quadratic_intersections_t panicked")), ("input", jstr(&format!("{:?} {:?}", c, q2)))])),
                Some((v, ps)) => {
                    for (t, u) in v.iter() {
                        let d = (c.sample(*t) - q2.sample(*u)).length();
                        if !(0.0..=1.0).contains(t) || !(0.0..=1.0).contains(u) || d > 1e-3 {
                            st.fail(jobj(&[("what", jstr("cubic/quadratic: parameters do not denote a common point")), ("input", jstr(&format!("{:?} {:?} t={} u={} d={}", c, q2, t, u, d)))]));
                        }
                    }
                    // the point variant sorts and de-duplicates: every point is a sample at one of the parameters, every
                    // parameter's sample is (close to) one of the points
                    let every_point = ps.iter().all(|p| v.iter().any(|(t, _)| (c.sample(*t) - *p).length() < 1e-9 * 40.0));
                    let every_t = v.iter().all(|(t, _)| ps.iter().any(|p| (c.sample(*t) - *p).length() < 1e-3));
                    if !every_point || !every_t {
                        st.fail(jobj(&[("what", jstr("quadratic_intersections is not the samples at quadratic_intersections_t")), ("input", jstr(&format!("{:?} {:?}", c, q2)))]));
                    }
                }
            }
        }
        // ---- a cubic collapsed to a single point of the curve, in either order: whatever pair is reported denotes the
        // common point (the receiver's parameter first)
        {
            let td = r.range(0, 16) as f64 / 16.0;
            let pd = c.sample(td);
            let dot = CubicBezierSegment { from: pd, ctrl1: pd, ctrl2: pd, to: pd };
            st.inc("cubic_point_curve");
            for (first, second, lbl) in [(&c, &dot, "curve x point"), (&dot, &c, "point x curve")] {
                match catch(|| first.cubic_intersections_t(second)) {
                    None => st.fail(jobj(&[("what", jstr("cubic_intersections_t panicked")), ("input", jstr(&format!("{} {:?} {:?}", lbl, first, second)))])),
                    Some(v) => {
                        if !v.is_empty() {
                            st.inc("cubic_point_curve_with_hits");
                        }
                        for (t, u) in v.iter() {
                            let d = (first.sample(*t) - second.sample(*u)).length();
                            if !(0.0..=1.0).contains(t) || !(0.0..=1.0).contains(u) || d > 1e-3 {
                                st.fail(jobj(&[("what", jstr("cubic/cubic with a point curve: parameters do not denote a common point")), ("input", jstr(&format!("{} {:?} {:?} t={} u={} d={}", lbl, first, second, t, u, d)))]));
                            }
                        }
                    }
                }
            }
        }
        // ---- cubic x cubic: soundness of every reported pair
        let c2 = CubicBezierSegment { from: g(r), ctrl1: g(r), ctrl2: g(r), to: g(r) };
        st.inc("evaluations");
        st.inc("cubic_cubic");
        match catch(|| c.cubic_intersections_t(&c2)) {
            None => st.fail(jobj(&[("what", jstr("cubic_intersections_t panicked")), ("input", jstr(&format!("{:?} {:?}", c, c2)))])),
            Some(v) => {
                if !v.is_empty() {
                    st.inc("cubic_cubic_with_hits");
                }
                for (t, u) in v.iter() {
                    let d = (c.sample(*t) - c2.sample(*u)).length();
                    if !(0.0..=1.0).contains(t) || !(0.0..=1.0).contains(u) || d > 1e-3 {
                        st.fail(jobj(&[("what", jstr("cubic/cubic: parameters do not denote a common point")), ("input", jstr(&format!("{:?} {:?} t={} u={} d={}", c, c2, t, u, d)))]));
                    }
                }
                if let Some(ps) = catch(|| c.cubic_intersections(&c2)) {
                    let every_point = ps.iter().all(|p| v.iter().any(|(t, _)| (c.sample(*t) - *p).length() < 1e-9 * 40.0));
                    let every_t = v.iter().all(|(t, _)| ps.iter().any(|p| (c.sample(*t) - *p).length() < 1e-3));
                    if !every_point || !every_t {
                        st.fail(jobj(&[("what", jstr("cubic_intersections is not the samples at cubic_intersections_t")), ("input", jstr(&format!("{:?} {:?}", c, c2)))]));
                    }
                }
            }
        }
    }
}

/// line x cubic / quadratic in f32: lattice curves moved by an affine map (generic cubics, degree-elevated
/// quadratics, cubics with a linear derivative), a line through two well separated curve points that it
/// crosses transversally.  Soundness: every reported parameter is on the line (1e-3 of the curve's size);
/// completeness: both crossings are reported.  K16: in f32 the closed-form root finder cannot decide the
/// number of real roots when the cubic coefficient of the projected polynomial is tiny against the others.
fn curve_checks_f32(args: &Args, st: &mut Stats) {
    type S = f32;
    let mut rng = Rng::new(args.seed ^ 0x1275);
    let n = if args.thorough() { 120000 } else { 15000 };
    for it in 0..n {
        let r = &mut rng;
        let g = |r: &mut Rng| point(r.range(-9, 9) as S, r.range(-9, 9) as S);
        let q = QuadraticBezierSegment { from: g(r), ctrl: g(r), to: g(r) };
        let straight_q = ((q.ctrl - q.from).cross(q.to - q.from)).abs() < 0.5;
        let base = match it % 3 {
            2 => CubicBezierSegment { from: g(r), ctrl1: g(r), ctrl2: g(r), to: g(r) },
            0 => q.to_cubic(),
            _ => {
                let (p0, p1, p2) = (g(r), g(r), g(r));
                CubicBezierSegment { from: p0, ctrl1: p1, ctrl2: p2, to: point(p0.x - 3.0 * (p1.x - p2.x), p0.y - 3.0 * (p1.y - p2.y)) }
            }
        };
        if it % 3 == 0 && straight_q {
            continue; // a line through two points of a straight curve overlaps it
        }
        let t = lyon_geom::euclid::default::Transform2D::<S>::new(
            0.3 + r.unit_f64() as S, (r.unit_f64() - 0.5) as S, (r.unit_f64() - 0.5) as S, 0.3 + r.unit_f64() as S,
            (r.unit_f64() * 10.0 - 5.0) as S, (r.unit_f64() * 10.0 - 5.0) as S);
        let c = CubicBezierSegment { from: t.transform_point(base.from), ctrl1: t.transform_point(base.ctrl1), ctrl2: t.transform_point(base.ctrl2), to: t.transform_point(base.to) };
        let (ta, tb) = (0.15 + 0.3 * r.unit_f64() as S, 0.55 + 0.3 * r.unit_f64() as S);
        let (pa, pb) = (c.sample(ta), c.sample(tb));
        if (pb - pa).length() < 0.5 {
            continue;
        }
        let line = Line { point: pa, vector: pb - pa };
        let dir = line.vector.normalize();
        let (da, db) = (c.derivative(ta), c.derivative(tb));
        if da.length() < 0.5 || db.length() < 0.5 || da.normalize().cross(dir).abs() < 0.2 || db.normalize().cross(dir).abs() < 0.2 {
            continue;
        }
        st.inc("evaluations");
        st.inc("cubic_line_f32");
        let label = format!("{:?} {:?}", c, line);
        st.note_case(&label, true);
        let scale = 1.0 + c.from.to_vector().length().max(c.to.to_vector().length()).max(c.ctrl1.to_vector().length()).max(c.ctrl2.to_vector().length());
        // coefficients of the polynomial the query solves (for the K16 classification)
        let (from, c1, c2, to) = (c.from.to_vector(), c.ctrl1.to_vector(), c.ctrl2.to_vector(), c.to.to_vector());
        let p1 = to - from + (c1 - c2) * 3.0;
        let p2 = from * 3.0 + (c2 - c1 * 2.0) * 3.0;
        let p3 = (c1 - from) * 3.0;
        let (ka, kb, kc) = (line.vector.y * p1.x - line.vector.x * p1.y, line.vector.y * p2.x - line.vector.x * p2.y, line.vector.y * p3.x - line.vector.x * p3.y);
        let tiny_leading = ka.abs() <= 2e-3 * kb.abs().max(kc.abs());
        match catch(|| (c.line_intersections_t(&line), c.line_intersections(&line))) {
            None => st.fail(jobj(&[("what", jstr("cubic line_intersections_t panicked (f32)")), ("input", jstr(&label))])),
            Some((ts, pts)) => {
                for t in ts.iter() {
                    let d = ((c.sample(*t) - pa).cross(line.vector) / line.vector.length()).abs();
                    if !(0.0..=1.0).contains(t) || d > 1e-3 * scale {
                        st.fail(jobj(&[("what", jstr("cubic/line (f32): reported parameter is not on the line")), ("input", jstr(&format!("{} t={} distance {}", label, t, d)))]));
                        break;
                    }
                }
                if pts.len() != ts.len() || pts.iter().zip(ts.iter()).any(|(p, t)| (*p - c.sample(*t)).length() > 1e-4 * scale) {
                    st.fail(jobj(&[("what", jstr("cubic/line (f32): line_intersections is not the curve sampled at line_intersections_t")), ("input", jstr(&label))]));
                }
                for want in [ta, tb] {
                    if !ts.iter().any(|t| (c.sample(*t) - c.sample(want)).length() < 1e-2 * scale) {
                        let mut f = vec![("what", jstr("cubic/line (f32): transversal crossing not reported")), ("input", jstr(&format!("{} want t={} got {:?}", label, want, ts)))];
                        if tiny_leading {
                            f.push(("class", jstr("K16")));
                        }
                        st.fail(jobj(&f));
                        break;
                    }
                }
            }
        }
        // the quadratic itself (moved by the same map), when it is not straight
        if it % 3 == 0 {
            let q2 = QuadraticBezierSegment { from: t.transform_point(q.from), ctrl: t.transform_point(q.ctrl), to: t.transform_point(q.to) };
            let (pa, pb) = (q2.sample(ta), q2.sample(tb));
            if (pb - pa).length() < 0.5 {
                continue;
            }
            let line = Line { point: pa, vector: pb - pa };
            st.inc("quad_line_f32");
            let label = format!("{:?} {:?}", q2, line);
            match catch(|| q2.line_intersections_t(&line)) {
                None => st.fail(jobj(&[("what", jstr("quadratic line_intersections_t panicked (f32)")), ("input", jstr(&label))])),
                Some(ts) => {
                    for t in ts.iter() {
                        let d = ((q2.sample(*t) - pa).cross(line.vector) / line.vector.length()).abs();
                        if !(0.0..=1.0).contains(t) || d > 1e-3 * scale {
                            st.fail(jobj(&[("what", jstr("quadratic/line (f32): reported parameter is not on the line")), ("input", jstr(&format!("{} t={} distance {}", label, t, d)))]));
                            break;
                        }
                    }
                    for want in [ta, tb] {
                        if !ts.iter().any(|t| (q2.sample(*t) - q2.sample(want)).length() < 1e-2 * scale) {
                            st.fail(jobj(&[("what", jstr("quadratic/line (f32): transversal crossing not reported")), ("input", jstr(&format!("{} want t={} got {:?}", label, want, ts)))]));
                            break;
                        }
                    }
                }
            }
        }
    }
}

/// Degree-elevated quadratics at SMALL scale (control points on the integer lattice times 2^-7 .. 2^-10) against a unit-direction
/// line through two well-separated points of the curve: the cubic coefficient of the polynomial `line_intersections_t` solves is
/// (numerically) zero, so `cubic_polynomial_roots` takes its quadratic branch, and the discriminant c^2 - 4bd - not scaled by the
/// coefficients - is positive but often BELOW the absolute epsilon used for "double root".  Only cases are kept where lyon's own
/// thresholds select the quadratic branch (|a| < eps <= |b| / 4) and the discriminant is robustly positive (two transversal,
/// well-separated crossings); there both crossings must be reported and every reported parameter must be on the line
/// (tolerances relative to the size of the curve).
fn small_scale_elevated_checks(args: &Args, st: &mut Stats) {
    type S = f32;
    let mut rng = Rng::new(args.seed ^ 0x12e1);
    let n = if args.thorough() { 40000 } else { 6000 };
    for it in 0..n {
        let r = &mut rng;
        let s: S = [1.0 / 128.0, 1.0 / 256.0, 1.0 / 512.0, 1.0 / 1024.0][it % 4];
        let g = |r: &mut Rng| point(r.range(-9, 9) as S * s, r.range(-9, 9) as S * s);
        let q = QuadraticBezierSegment { from: g(r), ctrl: g(r), to: g(r) };
        if ((q.ctrl - q.from).cross(q.to - q.from)).abs() < 4.0 * s * s {
            continue;
        }
        let c = q.to_cubic();
        let (ta, tb) = (0.15 + 0.3 * r.unit_f64() as S, 0.55 + 0.3 * r.unit_f64() as S);
        let (pa, pb) = (c.sample(ta), c.sample(tb));
        if (pb - pa).length() < 1.0 * s {
            continue;
        }
        let dir = (pb - pa).normalize();
        let line = Line { point: pa, vector: dir };
        let (da, db) = (c.derivative(ta), c.derivative(tb));
        if da.length() < 0.5 * s || db.length() < 0.5 * s || da.normalize().cross(dir).abs() < 0.3 || db.normalize().cross(dir).abs() < 0.3 {
            continue;
        }
        // the polynomial lyon solves, with lyon's own operation order
        let (from, c1, c2, to) = (c.from.to_vector(), c.ctrl1.to_vector(), c.ctrl2.to_vector(), c.to.to_vector());
        let p1 = to - from + (c1 - c2) * 3.0;
        let p2 = from * 3.0 + (c2 - c1 * 2.0) * 3.0;
        let p3 = (c1 - from) * 3.0;
        let cc = line.point.y * line.vector.x - line.point.x * line.vector.y;
        let (ka, kb, kc, kd) = (dir.y * p1.x - dir.x * p1.y, dir.y * p2.x - dir.x * p2.y, dir.y * p3.x - dir.x * p3.y, dir.y * from.x - dir.x * from.y + cc);
        let eps: S = 1e-5; // Scalar::epsilon_for(m) for f32 and m < 8
        let delta = kc * kc - 4.0 * kb * kd;
        if !(ka.abs() < 0.25 * eps && kb.abs() >= 4.0 * eps) || delta < 0.05 * (kc * kc).max((4.0 * kb * kd).abs()) {
            st.inc("small_scale_outside_the_quadratic_regime");
            continue;
        }
        st.inc("evaluations");
        st.inc("cubic_line_small_scale");
        if delta < eps {
            st.inc("cubic_line_small_scale_delta_below_epsilon");
        }
        let label = format!("{:?} {:?} (polynomial {} {} {} {}, discriminant {})", c, line, ka, kb, kc, kd, delta);
        st.note_case(&label, true);
        match catch(|| c.line_intersections_t(&line)) {
            None => st.fail(jobj(&[("what", jstr("cubic line_intersections_t panicked (small scale)")), ("input", jstr(&label))])),
            Some(ts) => {
                let extent = 9.0 * s;
                for t in ts.iter() {
                    let d = (c.sample(*t) - pa).cross(dir).abs();
                    if !(0.0..=1.0).contains(t) || d > 2e-2 * extent {
                        st.fail(jobj(&[("what", jstr("cubic/line (small scale): reported parameter is not on the line")), ("input", jstr(&format!("{} t={} distance {}", label, t, d)))]));
                        break;
                    }
                }
                for want in [ta, tb] {
                    if !ts.iter().any(|t| (*t - want).abs() < 3e-2) {
                        st.fail(jobj(&[("what", jstr("cubic/line (small scale): transversal crossing not reported")), ("input", jstr(&format!("{} want t={} got {:?}", label, want, ts)))]));
                        break;
                    }
                }
            }
        }
    }
}

/// utils::cubic_polynomial_roots (the root finder behind the line x cubic queries): every reported
/// root is a root, and well-separated real roots are all reported
fn root_checks(args: &Args, st: &mut Stats) {
    use lyon_geom::utils::cubic_polynomial_roots;
    let mut rng = Rng::new(args.seed ^ 0x1274);
    let n = if args.thorough() { 40000 } else { 5000 };
    for it in 0..n {
        let k = *rng.pick(&[1.0f64, -1.0, 2.0, -3.0, 0.5, 10.0]);
        let r = |rng: &mut Rng| rng.range(-32, 32) as f64 / 8.0;
        let (coef, expect): ([f64; 4], Vec<f64>) = match it % 5 {
            0 | 1 => {
                // three distinct real roots, at least 1/4 apart
                let mut rs = [r(&mut rng), r(&mut rng), r(&mut rng)];
                rs.sort_by(|a, b| a.partial_cmp(b).unwrap());
                if rs[1] - rs[0] < 0.25 || rs[2] - rs[1] < 0.25 {
                    continue;
                }
                ([k, -k * (rs[0] + rs[1] + rs[2]), k * (rs[0] * rs[1] + rs[0] * rs[2] + rs[1] * rs[2]), -k * rs[0] * rs[1] * rs[2]], rs.to_vec())
            }
            2 => {
                // one real root and a complex pair: (x - r0)(x^2 + p x + q), p^2 < 4 q
                let r0 = r(&mut rng);
                let p = r(&mut rng);
                let q = p * p / 4.0 + 0.25 + rng.below(16) as f64 / 4.0;
                ([k, k * (p - r0), k * (q - p * r0), -k * q * r0], vec![r0])
            }
            3 => {
                // quadratic (a = 0) with two distinct roots
                let (r0, r1) = (r(&mut rng), r(&mut rng));
                if (r0 - r1).abs() < 0.25 {
                    continue;
                }
                ([0.0, k, -k * (r0 + r1), k * r0 * r1], vec![r0.min(r1), r0.max(r1)])
            }
            _ => {
                // linear
                let r0 = r(&mut rng);
                ([0.0, 0.0, k, -k * r0], vec![r0])
            }
        };
        st.inc("evaluations");
        st.inc("polynomial_root_cases");
        let label = format!("{:?} (roots {:?})", coef, expect);
        st.note_case(&label, true);
        match catch(|| cubic_polynomial_roots(coef[0], coef[1], coef[2], coef[3])) {
            None => st.fail(jobj(&[("what", jstr("cubic_polynomial_roots panicked")), ("input", jstr(&label))])),
            Some(got) => {
                let eval = |x: f64| ((coef[0] * x + coef[1]) * x + coef[2]) * x + coef[3];
                let scale = coef.iter().fold(0.0f64, |m, c| m.max(c.abs())) * 100.0;
                for x in got.iter() {
                    if !x.is_finite() || eval(*x).abs() > 1e-6 * scale {
                        st.fail(jobj(&[("what", jstr("cubic_polynomial_roots reports a value that is not a root")), ("input", jstr(&format!("{} -> {:?}", label, got)))]));
                        break;
                    }
                }
                for e in &expect {
                    if !got.iter().any(|x| (x - e).abs() < 1e-6) {
                        st.fail(jobj(&[("what", jstr("cubic_polynomial_roots misses a well-separated real root")), ("input", jstr(&format!("{} -> {:?}", label, got)))]));
                        break;
                    }
                }
            }
        }
    }
}

/// the rest of the segment / line query family on integer lattices, against exact integer oracles:
/// axis-aligned line intersections, intersects_line, overlaps_line, overlaps_segment, contains_segment,
/// Line::intersects_box
/// line x quadratic where the quadratic term of the projected polynomial vanishes EXACTLY: the control point is the
/// mid-point of the end points moved along the line's direction, so along the line's normal the curve is linear in t and
/// crosses the line at one known parameter.  Soundness (every reported parameter is on the line) and completeness (the
/// crossing is reported when its parameter is in [0, 1]), through line_intersections_t, line_intersections,
/// line_segment_intersections_t and the cubic raised from the quadratic.
fn linear_projection_checks(args: &Args, st: &mut Stats) {
    let mut rng = Rng::new(args.seed ^ 0x12a0);
    let n = if args.thorough() { 40000 } else { 6000 };
    for _ in 0..n {
        let r = &mut rng;
        // line through p with integer direction d; normal nrm
        let d = (r.range(-4, 5) as f64, r.range(-4, 5) as f64);
        if d == (0.0, 0.0) {
            continue;
        }
        let nrm = (-d.1, d.0);
        // end points at signed distances h0 != h1 (in units of |nrm|^2) from the line, control point in the middle
        let p = (r.range(-6, 7) as f64, r.range(-6, 7) as f64);
        let (h0, h1) = (r.range(-6, 7) as f64, r.range(-6, 7) as f64);
        if h0 == h1 {
            continue;
        }
        let (s0, s1, sm) = (r.range(-5, 6) as f64, r.range(-5, 6) as f64, r.range(-8, 9) as f64 * 0.5);
        let from = point(p.0 + s0 * d.0 + h0 * nrm.0, p.1 + s0 * d.1 + h0 * nrm.1);
        let to = point(p.0 + s1 * d.0 + h1 * nrm.0, p.1 + s1 * d.1 + h1 * nrm.1);
        let hm = (h0 + h1) * 0.5;
        let ctrl = point(p.0 + sm * d.0 + hm * nrm.0, p.1 + sm * d.1 + hm * nrm.1);
        let q = QuadraticBezierSegment { from, ctrl, to };
        let line = Line { point: point(p.0, p.1), vector: lyon_geom::vector(d.0, d.1) };
        // h(t) = h0 + t (h1 - h0): crossing at t* = h0 / (h0 - h1)
        let tstar = h0 / (h0 - h1);
        let label = format!("{:?} x {:?} (crossing at t = {})", q, line, tstar);
        st.inc("evaluations");
        st.inc("quadratic_linear_projection");
        st.note_case(&label, true);
        let scale = 1.0 + from.to_vector().length() + ctrl.to_vector().length() + to.to_vector().length();
        let dist = |pt: lyon_geom::Point<f64>| ((pt.x - p.0) * nrm.0 + (pt.y - p.1) * nrm.1).abs() / (nrm.0 * nrm.0 + nrm.1 * nrm.1).sqrt();
        let inside = tstar > 1e-9 && tstar < 1.0 - 1e-9;
        match catch(|| (q.line_intersections_t(&line).to_vec(), q.line_intersections(&line).to_vec(), q.to_cubic().line_intersections_t(&line).to_vec())) {
            None => st.fail(jobj(&[("what", jstr("line x quadratic query panicked")), ("input", jstr(&label))])),
            Some((ts, ps, tc)) => {
                for t in ts.iter() {
                    if !(0.0..=1.0).contains(t) || dist(q.sample(*t)) > 1e-9 * scale {
                        st.fail(jobj(&[("what", jstr("line x quadratic (linear projection): a reported parameter is not on the line")), ("input", jstr(&format!("{} -> t = {} at distance {}", label, t, dist(q.sample(*t)))))]));
                    }
                }
                for pt in ps.iter() {
                    if dist(*pt) > 1e-9 * scale {
                        st.fail(jobj(&[("what", jstr("line x quadratic (linear projection): a reported point is not on the line")), ("input", jstr(&format!("{} -> {:?}", label, pt)))]));
                    }
                }
                if inside && !ts.iter().any(|t| (t - tstar).abs() < 1e-9) {
                    st.fail(jobj(&[("what", jstr("line x quadratic (linear projection): the transversal crossing is not reported")), ("input", jstr(&format!("{} -> {:?}", label, ts)))]));
                }
                if inside && ps.len() != ts.len() {
                    st.fail(jobj(&[("what", jstr("line_intersections and line_intersections_t disagree")), ("input", jstr(&label))]));
                }
                for t in tc.iter() {
                    if !(0.0..=1.0).contains(t) || dist(q.sample(*t)) > 1e-6 * scale {
                        st.fail(jobj(&[("what", jstr("line x raised cubic (linear projection): a reported parameter is not on the line")), ("input", jstr(&format!("{} -> t = {}", label, t)))]));
                    }
                }
                if inside && !tc.iter().any(|t| (t - tstar).abs() < 1e-6) {
                    st.fail(jobj(&[("what", jstr("line x raised cubic (linear projection): the transversal crossing is not reported")), ("input", jstr(&format!("{} -> {:?}", label, tc)))]));
                }
            }
        }
        // the same line as a long segment
        let big = 64.0;
        let seg = LineSegment { from: point(p.0 - big * d.0, p.1 - big * d.1), to: point(p.0 + big * d.0, p.1 + big * d.1) };
        match catch(|| q.line_segment_intersections_t(&seg).to_vec()) {
            None => st.fail(jobj(&[("what", jstr("segment x quadratic query panicked")), ("input", jstr(&label))])),
            Some(v) => {
                for (t, u) in v.iter() {
                    if !(0.0..=1.0).contains(t) || !(-1e-9..=1.0 + 1e-9).contains(u) || (q.sample(*t) - seg.sample(*u)).length() > 1e-7 * scale * big {
                        st.fail(jobj(&[("what", jstr("segment x quadratic (linear projection): parameters do not denote a common point")), ("input", jstr(&format!("{} -> t={} u={}", label, t, u)))]));
                    }
                }
                if inside && !v.iter().any(|(t, _)| (t - tstar).abs() < 1e-9) {
                    st.fail(jobj(&[("what", jstr("segment x quadratic (linear projection): the transversal crossing is not reported")), ("input", jstr(&format!("{} -> {:?}", label, v)))]));
                }
            }
        }
    }
}

fn line_family_checks(args: &Args, st: &mut Stats) {
    use lyon_geom::Box2D;
    let mut rng = Rng::new(args.seed ^ 0x1273);
    let n = if args.thorough() { 60000 } else { 8000 };
    let pt = |p: (i64, i64)| point(p.0 as f64, p.1 as f64);
    for it in 0..n {
        let m = if it % 2 == 0 { 4 } else { 30 };
        let mut g = |r: &mut Rng| (r.range(-m, m), r.range(-m, m));
        let (a, b) = (g(&mut rng), g(&mut rng));
        if a == b {
            continue;
        }
        let seg = LineSegment { from: pt(a), to: pt(b) };
        st.inc("evaluations");
        st.inc("line_family_cases");
        // axis-aligned lines
        let k = rng.range(-m - 1, m + 1);
        for horizontal in [true, false] {
            let (f, t) = if horizontal { (a.1, b.1) } else { (a.0, b.0) };
            let expect = f != t && ((f <= k && k <= t) || (t <= k && k <= f));
            let label = format!("{:?} {} = {}", seg, if horizontal { "y" } else { "x" }, k);
            st.note_case(&label, true);
            let got = catch(|| if horizontal { (seg.horizontal_line_intersection_t(k as f64), seg.horizontal_line_intersection(k as f64)) } else { (seg.vertical_line_intersection_t(k as f64), seg.vertical_line_intersection(k as f64)) });
            match got {
                None => st.fail(jobj(&[("what", jstr("axis-aligned line intersection panicked")), ("input", jstr(&label))])),
                Some((tt, pp)) => {
                    if tt.is_some() != expect || pp.is_some() != expect {
                        st.fail(jobj(&[("what", jstr("axis-aligned line intersection reported exactly when the line does not meet the segment (or missed)")), ("input", jstr(&format!("{} -> {:?}", label, tt)))]));
                    } else if let (Some(t), Some(p)) = (tt, pp) {
                        let q = seg.sample(t);
                        let c = if horizontal { q.y } else { q.x };
                        let cp = if horizontal { p.y } else { p.x };
                        if !(0.0..=1.0).contains(&t) || (c - k as f64).abs() > 1e-9 || (cp - k as f64).abs() > 1e-9 {
                            st.fail(jobj(&[("what", jstr("axis-aligned line intersection parameter does not locate the crossing")), ("input", jstr(&format!("{} -> t {} point {:?}", label, t, p)))]));
                        }
                    }
                }
            }
        }
        // a second segment / line, biased towards collinear configurations
        let (mut c, mut d) = (g(&mut rng), g(&mut rng));
        if rng.chance(1, 2) {
            let (k1, k2) = (rng.range(-2, 4), rng.range(-2, 4));
            let (dx, dy) = (b.0 - a.0, b.1 - a.1);
            // integer points on the line through a and b (steps of half the direction when it is even)
            let (sx, sy, den) = if dx % 2 == 0 && dy % 2 == 0 { (dx / 2, dy / 2, 1) } else { (dx, dy, 1) };
            let _ = den;
            c = (a.0 + sx * k1, a.1 + sy * k1);
            d = (a.0 + sx * k2, a.1 + sy * k2);
        }
        if c == d {
            continue;
        }
        let other = LineSegment { from: pt(c), to: pt(d) };
        let line = Line { point: pt(c), vector: lyon_geom::vector((d.0 - c.0) as f64, (d.1 - c.1) as f64) };
        let collinear = orient(a, b, c) == 0 && orient(a, b, d) == 0;
        let label = format!("{:?} vs {:?}", seg, other);
        let got = catch(|| (seg.intersects_line(&line), seg.line_intersection_t(&line).is_some(), seg.overlaps_line(&line), seg.overlaps_segment(&other), seg.contains_segment(&other)));
        match got {
            None => st.fail(jobj(&[("what", jstr("segment / line query panicked")), ("input", jstr(&label))])),
            Some((il, lit, ol, os, cs)) => {
                if il != lit {
                    st.fail(jobj(&[("what", jstr("intersects_line disagrees with line_intersection_t")), ("input", jstr(&label))]));
                }
                if ol != collinear {
                    st.fail(jobj(&[("what", jstr("overlaps_line is not collinearity of the segment with the line")), ("input", jstr(&label))]));
                }
                // projections on the segment's direction: self spans [0, L], other spans [lo, hi]
                let (vx, vy) = (b.0 - a.0, b.1 - a.1);
                let l = vx * vx + vy * vy;
                let pc = vx * (c.0 - a.0) + vy * (c.1 - a.1);
                let pd = vx * (d.0 - a.0) + vy * (d.1 - a.1);
                let (lo, hi) = (pc.min(pd), pc.max(pd));
                let share_more_than_a_point = collinear && lo.max(0) < hi.min(l);
                if os != share_more_than_a_point {
                    st.fail(jobj(&[("what", jstr("overlaps_segment is not 'collinear and sharing more than a point'")), ("input", jstr(&format!("{} -> {}", label, os)))]));
                }
                let contained = collinear && lo >= 0 && hi <= l;
                if cs != contained {
                    st.fail(jobj(&[("what", jstr("contains_segment is not 'collinear and inside'")), ("input", jstr(&format!("{} -> {}", label, cs)))]));
                }
            }
        }
        // Line x box: the line meets the closed box iff its corners are not all strictly on one side
        let (p, q) = (g(&mut rng), g(&mut rng));
        let (x0, x1, y0, y1) = (p.0.min(q.0), p.0.max(q.0), p.1.min(q.1), p.1.max(q.1));
        let bx = Box2D { min: point(x0 as f64, y0 as f64), max: point(x1 as f64, y1 as f64) };
        let sides: Vec<i64> = [(x0, y0), (x1, y0), (x0, y1), (x1, y1)].iter().map(|k| orient(c, d, *k)).collect();
        let meets = sides.iter().any(|s| *s == 0) || (sides.iter().any(|s| *s > 0) && sides.iter().any(|s| *s < 0));
        let touches_only = !(sides.iter().any(|s| *s > 0) && sides.iter().any(|s| *s < 0));
        let label = format!("{:?} box {:?}", line, bx);
        match catch(|| line.intersects_box(&bx)) {
            None => st.fail(jobj(&[("what", jstr("Line::intersects_box panicked")), ("input", jstr(&label))])),
            Some(got) => {
                if got && !meets {
                    st.fail(jobj(&[("what", jstr("Line::intersects_box reports a box that lies strictly on one side of the line")), ("input", jstr(&label))]));
                }
                if !got && meets && !touches_only {
                    st.fail(jobj(&[("what", jstr("Line::intersects_box misses a box with corners strictly on both sides of the line")), ("input", jstr(&label))]));
                }
            }
        }
    }
}

/// Triangle::contains_point and Triangle::intersects_line_segment on integer lattices, against an
/// exact integer oracle (boundary positions, where rounding of the barycentric sum decides, are
/// left out of the containment oracle; for the segment test both directions are exact)
fn triangle_checks(args: &Args, st: &mut Stats) {
    use lyon_geom::Triangle;
    let mut rng = Rng::new(args.seed ^ 0x1272);
    let n = if args.thorough() { 60000 } else { 8000 };
    let pt = |p: (i64, i64)| point(p.0 as f64, p.1 as f64);
    for it in 0..n {
        let m = if it % 2 == 0 { 5 } else { 40 };
        let mut g = |r: &mut Rng| (r.range(-m, m), r.range(-m, m));
        let (a, b, c) = (g(&mut rng), g(&mut rng), g(&mut rng));
        if orient(a, b, c) == 0 {
            continue;
        }
        let tri = Triangle { a: pt(a), b: pt(b), c: pt(c) };
        st.inc("evaluations");
        st.inc("triangle_cases");
        let p = g(&mut rng);
        let (o1, o2, o3) = (orient(a, b, p), orient(b, c, p), orient(c, a, p));
        let inside = o1 != 0 && o1 == o2 && o2 == o3;
        let outside = (o1 != 0 && o2 != 0 && o1 != o2) || (o2 != 0 && o3 != 0 && o2 != o3) || (o1 != 0 && o3 != 0 && o1 != o3);
        let label = format!("{:?} point {:?}", tri, p);
        st.note_case(&label, true);
        match catch(|| tri.contains_point(pt(p))) {
            None => st.fail(jobj(&[("what", jstr("Triangle::contains_point panicked")), ("input", jstr(&label))])),
            Some(got) => {
                if inside && !got {
                    st.fail(jobj(&[("what", jstr("Triangle::contains_point misses a point strictly inside the triangle")), ("input", jstr(&label))]));
                }
                if outside && got {
                    st.fail(jobj(&[("what", jstr("Triangle::contains_point accepts a point strictly outside the triangle")), ("input", jstr(&label))]));
                }
            }
        }
        // segment test: by definition an edge crossing (C12's segment predicate) or the start point inside
        let (q, r2) = (g(&mut rng), g(&mut rng));
        let seg = LineSegment { from: pt(q), to: pt(r2) };
        let crosses = oracle(a, b, q, r2) || oracle(b, c, q, r2) || oracle(a, c, q, r2);
        let (s1, s2, s3) = (orient(a, b, q), orient(b, c, q), orient(c, a, q));
        let q_inside = s1 != 0 && s1 == s2 && s2 == s3;
        let q_boundary = !q_inside && !((s1 != 0 && s2 != 0 && s1 != s2) || (s2 != 0 && s3 != 0 && s2 != s3) || (s1 != 0 && s3 != 0 && s1 != s3));
        let label = format!("{:?} segment {:?}", tri, seg);
        match catch(|| tri.intersects_line_segment(&seg)) {
            None => st.fail(jobj(&[("what", jstr("Triangle::intersects_line_segment panicked")), ("input", jstr(&label))])),
            Some(got) => {
                if (crosses || q_inside) && !got {
                    st.fail(jobj(&[("what", jstr("Triangle::intersects_line_segment misses a segment that crosses an edge or starts inside")), ("input", jstr(&label))]));
                }
                if !crosses && !q_inside && !q_boundary && got {
                    st.fail(jobj(&[("what", jstr("Triangle::intersects_line_segment reports a segment that neither crosses an edge nor starts inside")), ("input", jstr(&label))]));
                }
            }
        }
        // triangle / triangle: sound (a reported intersection has an edge crossing, a contained vertex or equality)
        let (d, e, f) = (g(&mut rng), g(&mut rng), g(&mut rng));
        if orient(d, e, f) != 0 {
            let other = Triangle { a: pt(d), b: pt(e), c: pt(f) };
            let edges1 = [(a, b), (b, c), (a, c)];
            let edges2 = [(d, e), (e, f), (d, f)];
            let any_cross = edges1.iter().any(|x| edges2.iter().any(|y| oracle(x.0, x.1, y.0, y.1)));
            let strictly_in = |t: [(i64, i64); 3], p: (i64, i64)| {
                let (u1, u2, u3) = (orient(t[0], t[1], p), orient(t[1], t[2], p), orient(t[2], t[0], p));
                u1 != 0 && u1 == u2 && u2 == u3
            };
            let on_boundary = |t: [(i64, i64); 3], p: (i64, i64)| {
                let (u1, u2, u3) = (orient(t[0], t[1], p), orient(t[1], t[2], p), orient(t[2], t[0], p));
                !(u1 != 0 && u1 == u2 && u2 == u3) && !((u1 != 0 && u2 != 0 && u1 != u2) || (u2 != 0 && u3 != 0 && u2 != u3) || (u1 != 0 && u3 != 0 && u1 != u3))
            };
            let expect = any_cross || strictly_in([d, e, f], a) || strictly_in([a, b, c], d) || tri == other;
            let fuzzy = on_boundary([d, e, f], a) || on_boundary([a, b, c], d);
            let label = format!("{:?} x {:?}", tri, other);
            match catch(|| tri.intersects(&other)) {
                None => st.fail(jobj(&[("what", jstr("Triangle::intersects panicked")), ("input", jstr(&label))])),
                Some(got) => {
                    if expect && !got {
                        st.fail(jobj(&[("what", jstr("Triangle::intersects misses triangles with crossing edges or a vertex strictly inside")), ("input", jstr(&label))]));
                    }
                    if !expect && !fuzzy && got {
                        st.fail(jobj(&[("what", jstr("Triangle::intersects reports triangles without a crossing edge or a contained vertex")), ("input", jstr(&label))]));
                    }
                }
            }
        }
    }
}

// =====================================================================================================================
// cubic x cubic beyond generic position: straight cubics (line x curve, line x line), reversed / shared-end-point /
// looping pairs, point curves at an extremum, and all of it moved to large coordinates (f64 and f32).
//
// Soundness (the property: "every parameter returned by a ... curve-curve intersection query denotes a point that lies
// on both primitives (within rounding)"): for every returned (t1, t2), both are in [0, 1] and the two curves, evaluated
// HERE in f64 by de Casteljau on the control points that were actually passed (after rounding to f32 in the f32 runs),
// are within `cc_bound` of each other.  The bound follows the precision the implementation documents for itself: the
// parameter intervals are refined to 1e-9 (f64) / 5e-6 (f32) and candidate points are accepted at a squared distance of
// EPSILON (1e-8 / 1e-4), growing with the size of the coordinates (`epsilon_for_point`).
// Completeness is only demanded where the property demands it: a (straight) line crossing a curve or another line
// transversally at well separated interior points whose position is known by construction.
// =====================================================================================================================
type C64 = CubicBezierSegment<f64>;

/// the coordinate scales: base coordinates are about +-10, so the magnitudes are ~5, 50, 500, 5e3, 5e4 (all f64 / f32
/// arms of `epsilon_for_point` up to there), 5e6 (last f32 arm, second f64 arm), 5e8, 5e10 (remaining f64 arms)
const CC_LEVELS: [f64; 8] = [0.5, 5.0, 50.0, 500.0, 5000.0, 5e5, 5e7, 5e9];

/// allowed distance between the two sampled points for coordinates of magnitude m.
/// * straight x curved and straight x straight cubics are solved in closed form (line equation + cubic roots): only
///   rounding, amplified by the conditioning of a transversal crossing, separates the two points -
///   1e-8 max(1, m) in f64, 5e-5 max(1, m) in f32 (measured on three thorough runs: at most 7e-11 m and 9e-6 m).
/// * everything else goes through fat-line clipping, which documents its own precision: parameter intervals are
///   refined to 1e-9 (f64) / 5e-6 (f32), i.e. a distance of that times the speed of the curves (a few times m), and a
///   point is accepted on a curve at a SQUARED distance below `epsilon_for_point`: 1e-8 in f64 (a distance of 1e-4; the
///   larger entries of that table are below the first term), and in f32 0.001 / 0.01 / 0.1 / 0.25 / 0.5 / 1 for
///   coordinates below 10 / 100 / 1000 / 1e4 / 1e6 / beyond (distances 0.032, 0.1, 0.32, 0.5, 0.71, 1).  The bound is
///   the larger of the two (10 % above the acceptance distance): f64 max(1.1e-4, 1e-6 m), f32 max(acceptance, 1e-4 m)
///   (1e-4 m is the 1e-3 max(1, m / 10) used for the generic cubic x cubic check above; measured: f64 at most 3e-7 m,
///   f32 at most 1.7e-5 m beyond the acceptance distances, which are reached).
fn cc_bound(m: f64, single: bool, closed_form: bool) -> f64 {
    match (single, closed_form) {
        (false, true) => 1e-8 * m.max(1.0),
        (true, true) => 5e-5 * m.max(1.0),
        (false, false) => (1e-6 * m).max(1.1e-4),
        (true, false) => {
            let accept2: f64 = if m < 10.0 {
                0.001
            } else if m < 100.0 {
                0.01
            } else if m < 1000.0 {
                0.1
            } else if m < 10000.0 {
                0.25
            } else if m < 1e6 {
                0.5
            } else {
                1.0
            };
            (1e-4 * m).max(1.1 * accept2.sqrt())
        }
    }
}

fn lerp_p(a: P, b: P, t: f64) -> P {
    point(a.x + (b.x - a.x) * t, a.y + (b.y - a.y) * t)
}

/// de Casteljau evaluation (independent of CubicBezierSegment::sample)
fn bez(c: &C64, t: f64) -> P {
    let (p01, p12, p23) = (lerp_p(c.from, c.ctrl1, t), lerp_p(c.ctrl1, c.ctrl2, t), lerp_p(c.ctrl2, c.to, t));
    lerp_p(lerp_p(p01, p12, t), lerp_p(p12, p23, t), t)
}

/// derivative: three times the quadratic on the control polygon's edges
fn bez_d(c: &C64, t: f64) -> lyon_geom::Vector<f64> {
    let (d0, d1, d2) = (c.ctrl1 - c.from, c.ctrl2 - c.ctrl1, c.to - c.ctrl2);
    let s = 1.0 - t;
    (d0 * (s * s) + d1 * (2.0 * s * t) + d2 * (t * t)) * 3.0
}

fn cmag(cs: &[&C64]) -> f64 {
    let mut m = 0.0f64;
    for c in cs {
        for p in [c.from, c.ctrl1, c.ctrl2, c.to] {
            m = m.max(p.x.abs()).max(p.y.abs());
        }
    }
    m
}

fn cmap(c: &C64, off: (f64, f64), scale: f64) -> C64 {
    let f = |p: P| point((p.x + off.0) * scale, (p.y + off.1) * scale);
    CubicBezierSegment { from: f(c.from), ctrl1: f(c.ctrl1), ctrl2: f(c.ctrl2), to: f(c.to) }
}

fn creverse(c: &C64) -> C64 {
    CubicBezierSegment { from: c.to, ctrl1: c.ctrl2, ctrl2: c.ctrl1, to: c.from }
}

/// a.cubic_intersections_t(b) in f64, or in f32 on the rounded curves; returns the curves that were actually queried
/// (exactly, as f64) and the pairs (None: the call panicked)
fn cc_query(a: &C64, b: &C64, single: bool) -> (C64, C64, Option<Vec<(f64, f64)>>) {
    if single {
        let (x, y) = (a.to_f32(), b.to_f32());
        let v = catch(|| x.cubic_intersections_t(&y).iter().map(|(t, u)| (*t as f64, *u as f64)).collect::<Vec<_>>());
        (x.to_f64(), y.to_f64(), v)
    } else {
        let v = catch(|| a.cubic_intersections_t(b).to_vec());
        (*a, *b, v)
    }
}

fn counter_max(st: &mut Stats, key: &str, v: u64) {
    let e = st.counters.entry(key.to_string()).or_insert(0);
    if v > *e {
        *e = v;
    }
}

fn tag(single: bool) -> &'static str {
    if single {
        "f32"
    } else {
        "f64"
    }
}

/// query + soundness of every returned pair; returns the queried curves and the pairs (empty after a panic)
fn cc_run(st: &mut Stats, fam: &str, single: bool, a: &C64, b: &C64) -> (C64, C64, Vec<(f64, f64)>) {
    let (qa, qb, v) = cc_query(a, b, single);
    st.inc("evaluations");
    st.inc(&format!("cc_{}_{}_queries", fam, tag(single)));
    let label = format!("{} {:?} x {:?}", tag(single), qa, qb);
    let v = match v {
        Some(v) => v,
        None => {
            st.fail(jobj(&[("what", jstr(&format!("cubic_intersections_t panicked ({})", fam))), ("input", jstr(&label))]));
            return (qa, qb, vec![]);
        }
    };
    let bound = cc_bound(cmag(&[&qa, &qb]), single, fam.starts_with("line_"));
    let mut worst = 0.0f64;
    let mut reported = false;
    for (t, u) in v.iter() {
        let d = (bez(&qa, *t) - bez(&qb, *u)).length();
        let ok = (0.0..=1.0).contains(t) && (0.0..=1.0).contains(u) && d <= bound;
        if d.is_finite() {
            worst = worst.max(d / bound);
        }
        if !ok && !reported {
            reported = true;
            st.fail(jobj(&[
                ("what", jstr(&format!("cubic x cubic ({}, {}): returned parameters do not denote a common point", fam, tag(single)))),
                ("input", jstr(&format!("{} -> t1={} t2={} distance {} (allowed {})", label, t, u, d, bound))),
            ]));
        }
    }
    if !v.is_empty() {
        st.inc(&format!("cc_{}_{}_queries_with_pairs", fam, tag(single)));
    }
    counter_max(st, &format!("cc_{}_{}_worst_distance_ppm_of_allowed", fam, tag(single)), (worst * 1e6) as u64);
    (qa, qb, v)
}

/// picks a precision and a coordinate level
fn cc_level(r: &mut Rng, max_f64_levels: u64) -> (bool, f64, (f64, f64)) {
    let single = r.chance(1, 3);
    let lv = if single { r.below(6.min(max_f64_levels)) } else { r.below(max_f64_levels) };
    (single, CC_LEVELS[lv as usize], (r.range(-5, 5) as f64, r.range(-5, 5) as f64))
}

/// family 1: a straight cubic (control points on its baseline: at 1/3 and 2/3, unevenly spaced, overshooting the
/// end points, or equal to them) against a curved cubic that it crosses at two known parameters ta, tb, in both
/// argument orders.  Even cases: the curve is random and the baseline goes through c(ta), c(tb), extended beyond them
/// (f64, magnitudes up to 5e4: beyond that the rounding of the control points takes them off the baseline by more than
/// the implementation's flatness threshold).  Odd cases: the straight cubic is on an integer lattice (exactly collinear
/// at every scale, in f32 as well) and the curve is solved to pass through two points of it at ta, tb.
/// Completeness: where both crossings are transversal (sine of the angle >= 0.2, speed not small) and the third root of
/// the line on the curve is not within 0.02 of them, each must be reported at a curve parameter within 1e-6 (f64) /
/// 1e-4 (f32).  In f32 a miss with a tiny cubic coefficient of the projected polynomial is the known K16.
fn straight_x_curve_checks(args: &Args, st: &mut Stats) {
    let mut rng = Rng::new(args.seed ^ 0x12c2);
    let n = if args.thorough() { 15000 } else { 2000 };
    for it in 0..n {
        let r = &mut rng;
        let lattice = it % 2 == 1;
        let (single, scale, off) = if lattice { cc_level(r, 8) } else { (false, CC_LEVELS[r.below(5) as usize], (r.range(-5, 5) as f64, r.range(-5, 5) as f64)) };
        let (ta, tb) = (0.15 + 0.25 * r.unit_f64(), 0.6 + 0.25 * r.unit_f64());
        let g = |r: &mut Rng, w: f64| point((r.unit_f64() - 0.5) * w, (r.unit_f64() - 0.5) * w);
        let (curve, straight, kind): (C64, C64, &str) = if !lattice {
            let c = cmap(&CubicBezierSegment { from: g(r, 20.0), ctrl1: g(r, 20.0), ctrl2: g(r, 20.0), to: g(r, 20.0) }, off, scale);
            let (pa, pb) = (bez(&c, ta), bez(&c, tb));
            if (pb - pa).length() < 0.5 * scale {
                continue;
            }
            let (e1, e2) = (0.1 + 0.4 * r.unit_f64(), 0.1 + 0.4 * r.unit_f64());
            let (from, to) = (pa - (pb - pa) * e1, pb + (pb - pa) * e2);
            let (s1, s2, kind) = match r.below(4) {
                0 => (1.0 / 3.0, 2.0 / 3.0, "thirds"),
                1 => (r.unit_f64(), r.unit_f64(), "uneven"),
                2 => (-1.0 + 3.0 * r.unit_f64(), -1.0 + 3.0 * r.unit_f64(), "overshooting"),
                _ => (0.0, 1.0, "at the end points"),
            };
            let s = CubicBezierSegment { from, ctrl1: from + (to - from) * s1, ctrl2: from + (to - from) * s2, to };
            (c, if r.chance(1, 2) { creverse(&s) } else { s }, kind)
        } else {
            let a = (r.range(-4, 4) as f64, r.range(-4, 4) as f64);
            let u = (r.range(-2, 2) as f64, r.range(-2, 2) as f64);
            if u == (0.0, 0.0) {
                continue;
            }
            let (k1, k2, kind) = match r.below(4) {
                0 => (2, 4, "thirds"),
                1 => (r.range(0, 6), r.range(0, 6), "uneven"),
                2 => (r.range(-3, 9), r.range(-3, 9), "overshooting"),
                _ => (0, 6, "at the end points"),
            };
            let on = |k: f64| point(a.0 + k * u.0, a.1 + k * u.1);
            let s = CubicBezierSegment { from: on(0.0), ctrl1: on(k1 as f64), ctrl2: on(k2 as f64), to: on(6.0) };
            // the curve goes through two points of the baseline at ta and tb
            let (mut sa, mut sb) = (0.1 + 0.35 * r.unit_f64(), 0.55 + 0.35 * r.unit_f64());
            if r.chance(1, 2) {
                std::mem::swap(&mut sa, &mut sb);
            }
            let (pa, pb) = (on(6.0 * sa), on(6.0 * sb));
            let (f, t) = (g(r, 16.0), g(r, 16.0));
            // 3(1-t)^2 t C1 + 3(1-t) t^2 C2 = P - (1-t)^3 F - t^3 T at t = ta, tb
            let w = |t: f64| (3.0 * (1.0 - t) * (1.0 - t) * t, 3.0 * (1.0 - t) * t * t);
            let rhs = |p: P, tt: f64| p.to_vector() - f.to_vector() * ((1.0 - tt) * (1.0 - tt) * (1.0 - tt)) - t.to_vector() * (tt * tt * tt);
            let ((m11, m12), (m21, m22)) = (w(ta), w(tb));
            let (ra, rb) = (rhs(pa, ta), rhs(pb, tb));
            let det = m11 * m22 - m12 * m21;
            let c1 = (ra * m22 - rb * m12) / det;
            let c2 = (rb * m11 - ra * m21) / det;
            let c = CubicBezierSegment { from: f, ctrl1: c1.to_point(), ctrl2: c2.to_point(), to: t };
            (cmap(&c, off, scale), cmap(&if r.chance(1, 2) { creverse(&s) } else { s }, off, scale), kind)
        };
        st.inc("cc_line_curve_cases");
        st.inc(&format!("cc_line_curve_cases_{}", kind.replace(' ', "_")));
        st.note_case(&format!("{}{:?}{:?}", tag(single), straight, curve), true);
        for straight_first in [true, false] {
            let (qa, qb, v) = if straight_first { cc_run(st, "line_curve", single, &straight, &curve) } else { cc_run(st, "line_curve", single, &curve, &straight) };
            let (qs, qc) = if straight_first { (qa, qb) } else { (qb, qa) };
            // the crossings, on the curves as queried (f32: the rounding of the control points moves them by ~1e-7)
            let dir = qs.to - qs.from;
            let size = [qc.ctrl1, qc.ctrl2, qc.to].iter().fold(0.0f64, |m, p| m.max((*p - qc.from).length()));
            // third root of the line on the curve from the sum of the roots of n . (B(t) - pa)
            let nrm = lyon_geom::vector(-dir.y, dir.x);
            let a3 = nrm.dot((qc.to - qc.from) + (qc.ctrl1 - qc.ctrl2) * 3.0);
            let a2 = nrm.dot((qc.from.to_vector() - qc.ctrl1.to_vector() * 2.0 + qc.ctrl2.to_vector()) * 3.0);
            let t3 = if a3 != 0.0 { -a2 / a3 - ta - tb } else { f64::INFINITY };
            // K16 (see curve_checks_f32): in f32 the root finder behind the line x cubic query loses real roots when the
            // cubic coefficient of the projected polynomial is tiny against the others - same criterion as there
            let a1 = nrm.dot((qc.ctrl1 - qc.from) * 3.0);
            let tiny_leading = single && a3.abs() <= 2e-3 * a2.abs().max(a1.abs());
            let demand = |tw: f64| {
                let d = bez_d(&qc, tw);
                d.length() > 0.05 * size && d.cross(dir).abs() > 0.2 * d.length() * dir.length() && !((t3 - tw).abs() < 0.02)
            };
            if !(demand(ta) && demand(tb)) {
                continue;
            }
            st.inc(&format!("cc_line_curve_{}_transversal_pairs_demanded", tag(single)));
            // measured: f64 below 1e-9, f32 at most 1e-5
            let tol = if single { 1e-4 } else { 1e-6 };
            for want in [ta, tb] {
                let best = v.iter().map(|(t1, t2)| ((if straight_first { *t2 } else { *t1 }) - want).abs()).fold(f64::INFINITY, f64::min);
                if best < tol {
                    counter_max(st, &format!("cc_line_curve_{}_worst_parameter_error_e9", tag(single)), (best.min(1.0) * 1e9) as u64);
                }
                if !(best < tol) {
                    let mut f = vec![
                        ("what", jstr(&format!("straight cubic x curved cubic ({}): transversal crossing not reported", tag(single)))),
                        ("input", jstr(&format!("{} {} control points; {:?} x {:?} ({} first): want curve t={} got {:?}", tag(single), kind, qs, qc, if straight_first { "straight" } else { "curve" }, want, v))),
                    ];
                    if tiny_leading {
                        f.push(("class", jstr("K16")));
                    }
                    st.fail(jobj(&f));
                    break;
                }
            }
        }
    }
}

/// family 2: two straight cubics on an integer lattice (end points a, a + 6u and c, c + 6w; control points a + k u,
/// k = 2, 4 / uneven in 0..6 / overshooting in -3..9 / 0, 6), scaled: general position, a forced interior crossing at
/// a lattice point, parallel, collinear and overlapping, touching at an end point.  Soundness always; completeness
/// where the BASELINES cross at a single point strictly inside both (decided in integers): some returned pair must
/// locate that point on both.
fn straight_x_straight_checks(args: &Args, st: &mut Stats) {
    let mut rng = Rng::new(args.seed ^ 0x12c3);
    let n = if args.thorough() { 15000 } else { 2000 };
    for it in 0..n {
        let r = &mut rng;
        let (single, scale, off) = cc_level(r, 8);
        let nz = |r: &mut Rng| loop {
            let u = (r.range(-2, 2), r.range(-2, 2));
            if u != (0, 0) {
                return u;
            }
        };
        let a = (r.range(-4, 4), r.range(-4, 4));
        let u = nz(r);
        let (c, w, kind): ((i64, i64), (i64, i64), &str) = match it % 5 {
            0 => ((r.range(-6, 6), r.range(-6, 6)), nz(r), "general"),
            1 => {
                let w = nz(r);
                if u.0 * w.1 - u.1 * w.0 == 0 {
                    continue;
                }
                let (i, j) = (r.range(1, 5), r.range(1, 5));
                ((a.0 + i * u.0 - j * w.0, a.1 + i * u.1 - j * w.1), w, "crossing")
            }
            2 => {
                let sg = if r.chance(1, 2) { 1 } else { -1 };
                ((a.0 + r.range(-3, 3), a.1 + r.range(-3, 3)), (sg * u.0, sg * u.1), "parallel")
            }
            3 => {
                let sg = if r.chance(1, 2) { 1 } else { -1 };
                let k = r.range(-5, 5);
                ((a.0 + k * u.0, a.1 + k * u.1), (sg * u.0, sg * u.1), "collinear")
            }
            _ => {
                let i = r.range(0, 6);
                ((a.0 + i * u.0, a.1 + i * u.1), nz(r), "touching")
            }
        };
        let (b, d) = ((a.0 + 6 * u.0, a.1 + 6 * u.1), (c.0 + 6 * w.0, c.1 + 6 * w.1));
        let ks = |r: &mut Rng| match r.below(4) {
            0 => (2, 4),
            1 => (r.range(0, 6), r.range(0, 6)),
            2 => (r.range(-3, 9), r.range(-3, 9)),
            _ => (0, 6),
        };
        let mk = |p: (i64, i64), v: (i64, i64), k: (i64, i64)| {
            let on = |k: i64| point((p.0 + k * v.0) as f64, (p.1 + k * v.1) as f64);
            CubicBezierSegment { from: on(0), ctrl1: on(k.0), ctrl2: on(k.1), to: on(6) }
        };
        let (ka, kc) = (ks(r), ks(r));
        let (mut s1, mut s2) = (mk(a, u, ka), mk(c, w, kc));
        if r.chance(1, 2) {
            s1 = creverse(&s1);
        }
        if r.chance(1, 2) {
            s2 = creverse(&s2);
        }
        let (s1, s2) = (cmap(&s1, off, scale), cmap(&s2, off, scale));
        st.inc("cc_line_line_cases");
        st.inc(&format!("cc_line_line_cases_{}", kind));
        st.note_case(&format!("{}{:?}{:?}", tag(single), s1, s2), true);
        // exact position of the crossing of the baselines
        let cr = |p: (i64, i64), q: (i64, i64)| p.0 * q.1 - p.1 * q.0;
        let (ab, cd, ac) = ((b.0 - a.0, b.1 - a.1), (d.0 - c.0, d.1 - c.1), (c.0 - a.0, c.1 - a.1));
        let den = cr(ab, cd);
        let (sn, un) = (cr(ac, cd), cr(ac, ab));
        let inside = |num: i64| den != 0 && num * den.signum() > 0 && num * den.signum() < den.abs();
        let crossing = inside(sn) && inside(un);
        let x = if den != 0 {
            let s = sn as f64 / den as f64;
            point((a.0 as f64 + s * ab.0 as f64 + off.0) * scale, (a.1 as f64 + s * ab.1 as f64 + off.1) * scale)
        } else {
            point(0.0, 0.0)
        };
        if crossing {
            st.inc(&format!("cc_line_line_{}_interior_crossings_demanded", tag(single)));
        }
        for swap in [false, true] {
            let (qa, qb, v) = if swap { cc_run(st, "line_line", single, &s2, &s1) } else { cc_run(st, "line_line", single, &s1, &s2) };
            if crossing {
                let bound = cc_bound(cmag(&[&qa, &qb]), single, true);
                if !v.iter().any(|(t1, t2)| (bez(&qa, *t1) - x).length() <= bound && (bez(&qb, *t2) - x).length() <= bound) {
                    st.fail(jobj(&[
                        ("what", jstr(&format!("straight cubic x straight cubic ({}): crossing strictly inside both baselines not reported", tag(single)))),
                        ("input", jstr(&format!("{} {} {:?} x {:?}: crossing at {:?}, got {:?}", tag(single), kind, qa, qb, x, v))),
                    ]));
                }
            }
        }
    }
}

/// family 3: pairs that are not in general position - the same cubic twice, a cubic and its reverse, the reverse with
/// one control point moved, two cubics sharing an end point (chained, fanning out of a common start, meeting in a
/// common end, closing a loop together), a cubic against a closed loop (from == to), and two random curved cubics of
/// which the second is translated to cross the first at chosen parameters - at all coordinate levels.  Whatever is
/// returned must be sound and nothing may panic.
fn special_pair_checks(args: &Args, st: &mut Stats) {
    let mut rng = Rng::new(args.seed ^ 0x12c4);
    let n = if args.thorough() { 15000 } else { 2000 };
    for it in 0..n {
        let r = &mut rng;
        let (single, scale, off) = cc_level(r, 8);
        let g = |r: &mut Rng| if r.chance(1, 4) { point(r.range(-10, 10) as f64, r.range(-10, 10) as f64) } else { point((r.unit_f64() - 0.5) * 20.0, (r.unit_f64() - 0.5) * 20.0) };
        let c1 = CubicBezierSegment { from: g(r), ctrl1: g(r), ctrl2: g(r), to: g(r) };
        let mut c2 = CubicBezierSegment { from: g(r), ctrl1: g(r), ctrl2: g(r), to: g(r) };
        let kind = match it % 9 {
            0 => {
                c2 = c1;
                "identical"
            }
            1 => {
                c2 = creverse(&c1);
                "reversed"
            }
            2 => {
                c2 = creverse(&c1);
                if r.chance(1, 2) {
                    c2.ctrl1 = g(r);
                } else {
                    c2.ctrl2 = g(r);
                }
                "reversed_one_control_moved"
            }
            3 => {
                c2.from = c1.to;
                "chained"
            }
            4 => {
                c2.from = c1.from;
                "common_start"
            }
            5 => {
                c2.to = c1.to;
                "common_end"
            }
            6 => {
                c2.from = c1.to;
                c2.to = c1.from;
                "closing"
            }
            7 => {
                c2.to = c2.from;
                "closed_loop"
            }
            _ => {
                let (ta, tb) = (0.1 + 0.8 * r.unit_f64(), 0.1 + 0.8 * r.unit_f64());
                let sh = bez(&c1, ta) - bez(&c2, tb);
                c2 = CubicBezierSegment { from: c2.from + sh, ctrl1: c2.ctrl1 + sh, ctrl2: c2.ctrl2 + sh, to: c2.to + sh };
                "translated_to_cross"
            }
        };
        let (c1, c2) = (cmap(&c1, off, scale), cmap(&c2, off, scale));
        st.inc("cc_special_cases");
        st.inc(&format!("cc_special_cases_{}", kind));
        st.note_case(&format!("{}{:?}{:?}", tag(single), c1, c2), true);
        let fam = format!("special_{}", kind);
        let (_, _, v1) = cc_run(st, &fam, single, &c1, &c2);
        let (_, _, v2) = cc_run(st, &fam, single, &c2, &c1);
        if kind == "translated_to_cross" && (!v1.is_empty() || !v2.is_empty()) {
            st.inc(&format!("cc_special_translated_to_cross_{}_reported", tag(single)));
        }
    }
}

/// a cubic collapsed to a point placed at (or up to the acceptance distance beyond) an extremum of the other curve,
/// where the x- and the y-parameter solvers both come back empty: the tip of a straight axis-parallel cubic whose
/// control points overshoot its end points, and a cusp that is a corner of the curve's bounding box, approached
/// diagonally.  The implementation accepts the point at a squared distance below EPSILON, i.e. a distance of 1e-4 in
/// f64 and 1e-2 in f32: the bound here is that distance (plus rounding), or `cc_bound` where that is larger.
fn point_at_extremum_checks(args: &Args, st: &mut Stats) {
    let mut rng = Rng::new(args.seed ^ 0x12c5);
    let n = if args.thorough() { 15000 } else { 2000 };
    for it in 0..n {
        let r = &mut rng;
        let single = r.chance(1, 3);
        let accept = if single { 1e-2 } else { 1e-4 };
        // (base curve, parameter of the extremum, outward direction)
        let (c, tx, out, kind): (C64, f64, lyon_geom::Vector<f64>, &str) = if it % 2 == 0 {
            // straight, axis-parallel, position along the axis: 0, k1, k2, 6 (times a step), overshooting beyond 6 or below 0
            let (k1, k2) = (r.range(-6, 14) as f64, r.range(-6, 14) as f64);
            let step = *r.pick(&[0.5f64, 1.0, 1.5, 2.0]);
            let o = (r.range(-4, 4) as f64, r.range(-4, 4) as f64);
            let horizontal = r.chance(1, 2);
            let on = |k: f64| if horizontal { point(o.0 + k * step, o.1) } else { point(o.0, o.1 + k * step) };
            let c = CubicBezierSegment { from: on(0.0), ctrl1: on(k1), ctrl2: on(k2), to: on(6.0) };
            // position phi(t) = 3 (1-t)^2 t k1 + 3 (1-t) t^2 k2 + 6 t^3: extrema by a fine scan + bisection on phi'
            let dphi = |t: f64| 3.0 * ((1.0 - t) * (1.0 - t) * k1 + 2.0 * (1.0 - t) * t * (k2 - k1) + t * t * (6.0 - k2));
            let phi = |t: f64| 3.0 * (1.0 - t) * (1.0 - t) * t * k1 + 3.0 * (1.0 - t) * t * t * k2 + 6.0 * t * t * t;
            let mut ext: Vec<f64> = vec![];
            let m = 400;
            for i in 0..m {
                let (mut lo, mut hi) = (i as f64 / m as f64, (i + 1) as f64 / m as f64);
                if dphi(lo) * dphi(hi) < 0.0 {
                    for _ in 0..60 {
                        let mid = 0.5 * (lo + hi);
                        if dphi(lo) * dphi(mid) <= 0.0 {
                            hi = mid;
                        } else {
                            lo = mid;
                        }
                    }
                    ext.push(0.5 * (lo + hi));
                }
            }
            // only a tip beyond the end points is outside the x / y range the solvers accept
            ext.retain(|t| phi(*t) > 6.0 + 0.05 || phi(*t) < -0.05);
            if ext.is_empty() {
                continue;
            }
            let t = *r.pick(&ext);
            let sgn = if phi(t) > 6.0 { 1.0 } else { -1.0 };
            (c, t, if horizontal { lyon_geom::vector(sgn, 0.0) } else { lyon_geom::vector(0.0, sgn) }, "tip_of_overshooting_straight_cubic")
        } else {
            // x'(t) = al (t - ts)(t - p), y'(t) = be (t - ts)(t - q) with p, q outside [0, 1]: a cusp at ts where both
            // coordinates are extremal
            let ts = 0.2 + 0.6 * r.unit_f64();
            let outside = |r: &mut Rng| if r.chance(1, 2) { 1.3 + 2.0 * r.unit_f64() } else { -0.3 - 2.0 * r.unit_f64() };
            let (p, q) = (outside(r), outside(r));
            let (al, be) = ((2.0 + 6.0 * r.unit_f64()) * if r.chance(1, 2) { 1.0 } else { -1.0 }, (2.0 + 6.0 * r.unit_f64()) * if r.chance(1, 2) { 1.0 } else { -1.0 });
            // Bernstein coefficients of a t^2 + b t + c: c, c + b / 2, c + b + a; the curve's edges are a third of them
            let bern = |a: f64, z: f64| {
                let (b, c) = (-a * (ts + z), a * ts * z);
                (c / 3.0, (c + b / 2.0) / 3.0, (c + b + a) / 3.0)
            };
            let ((x0, x1, x2), (y0, y1, y2)) = (bern(al, p), bern(be, q));
            let f = point(r.range(-3, 3) as f64, r.range(-3, 3) as f64);
            let c1 = point(f.x + x0, f.y + y0);
            let c2 = point(c1.x + x1, c1.y + y1);
            let to = point(c2.x + x2, c2.y + y2);
            let c = CubicBezierSegment { from: f, ctrl1: c1, ctrl2: c2, to };
            // just before ts, (t - ts)(t - p) has the sign of -(ts - p): x' > 0 there means a maximum, outward is +x
            let sx = if al * (ts - p) > 0.0 { -1.0 } else { 1.0 };
            let sy = if be * (ts - q) > 0.0 { -1.0 } else { 1.0 };
            (c, ts, lyon_geom::vector(sx, sy) * std::f64::consts::FRAC_1_SQRT_2, "cusp_in_a_corner_of_the_bounding_box")
        };
        // the whole curve is behind the extremum (sanity of the construction)
        if (0..=20).any(|i| (bez(&c, i as f64 / 20.0) - bez(&c, tx)).dot(out) > 1e-9) {
            st.inc("cc_point_at_extremum_construction_rejected");
            continue;
        }
        // moderate scales only: the acceptance distance does not grow with the coordinates
        let scale = *r.pick(&[1.0f64, 1.0, 4.0, 0.5]);
        let c = cmap(&c, (0.0, 0.0), scale);
        let tip = bez(&c, tx);
        let nudge = match r.below(4) {
            0 => 0.0,
            1 | 2 => accept * 0.9 * r.unit_f64(),
            _ => accept * (1.1 + r.unit_f64()),
        };
        let pt = tip + out * nudge;
        let dot = CubicBezierSegment { from: pt, ctrl1: pt, ctrl2: pt, to: pt };
        st.inc("cc_point_at_extremum_cases");
        st.inc(&format!("cc_point_at_extremum_cases_{}", kind));
        st.note_case(&format!("{}{:?}{:?}", tag(single), c, pt), true);
        for point_first in [true, false] {
            let (qa, qb, v) = if point_first { cc_query(&dot, &c, single) } else { cc_query(&c, &dot, single) };
            st.inc("evaluations");
            let label = format!("{} {} {:?} x {:?} (point {} beyond the extremum at t={})", tag(single), kind, qa, qb, nudge, tx);
            match v {
                None => st.fail(jobj(&[("what", jstr("cubic_intersections_t panicked (point at an extremum)")), ("input", jstr(&label))])),
                Some(v) => {
                    if !v.is_empty() {
                        st.inc(&format!("cc_point_at_extremum_{}_reported", tag(single)));
                    }
                    let bound = cc_bound(cmag(&[&qa, &qb]), single, false).max(accept * 1.05);
                    for (t, u) in v.iter() {
                        let dd = (bez(&qa, *t) - bez(&qb, *u)).length();
                        if !((0.0..=1.0).contains(t) && (0.0..=1.0).contains(u) && dd <= bound) {
                            st.fail(jobj(&[
                                ("what", jstr(&format!("cubic x point cubic at an extremum ({}): returned parameters do not denote a common point", tag(single)))),
                                ("input", jstr(&format!("{} -> t1={} t2={} distance {} (allowed {})", label, t, u, dd, bound))),
                            ]));
                            break;
                        }
                    }
                }
            }
        }
    }
}

/// utils::cubic_polynomial_roots on polynomials with exactly known roots: scale * (x - r1)(x - r2)(x - r3) with integer
/// roots (or eighths of integers) and a scale that keeps the coefficients exact (a few fixed ones, or a power of two placing the largest
/// coefficient in a random binade) (distinct, double, triple roots, roots at 0, no x^2 term),
/// scale * (x - r1)(x^2 + p x + q) without further real roots, and the degenerate a == 0 (quadratic: distinct, double,
/// complex), a == b == 0 (linear) and a == b == c == 0 forms.  Soundness: every returned value is within 1e-6
/// (relative to max(1, |root|)) of a true root - 1e-5 at a double root and 1e-3 at a triple root, where evaluating the
/// expanded polynomial in floating point cannot locate the root any better (errors of eps^(1/2), eps^(1/3)).
/// Completeness: every simple real root (all at least 1 apart, 1/8 for the eighths) is returned within 1e-6.  The f32
/// pass uses 1e-3 / 3e-2 / 1e-1.  The roots are integers in -9..9 or eighths in -1.5..1.5: the solver decides that a
/// leading coefficient is negligible by an absolute threshold chosen for roots of the order of 1 (the curve
/// parameters), so polynomials whose roots are all far from [0, 1] AND whose cubic coefficient is 1e-4 of the others
/// are outside what the intersection queries rely on.
fn integer_root_checks(args: &Args, st: &mut Stats) {
    use lyon_geom::utils::cubic_polynomial_roots;
    let mut rng = Rng::new(args.seed ^ 0x12c6);
    let n = if args.thorough() { 15000 } else { 2000 };
    for it in 0..n {
        let r = &mut rng;
        let single = it % 4 == 3;
        let k = *r.pick(&[1.0f64, -1.0, 2.0, -3.0, 0.5, 10.0, -0.25, 100.0, 1000.0, 0.015625, 7.0]);
        // the roots are r / den: integers in -9..9, or eighths in -1.5..1.5 (the parameter range the intersection queries
        // care about, and its neighbourhood)
        let den: i64 = if r.chance(1, 3) { 8 } else { 1 };
        let rmax = if den == 8 { 12 } else { 9 };
        let root = |r: &mut Rng| r.range(-rmax, rmax);
        // (coefficients of the monic-times-k polynomial as integers, true roots with multiplicity)
        let (ci, roots, kind): ([i64; 4], Vec<(i64, u32)>, &str) = match r.below(12) {
            0 | 1 | 2 => {
                let mut rs = [root(r), root(r), root(r)];
                rs.sort();
                let c = [1, -(rs[0] + rs[1] + rs[2]), rs[0] * rs[1] + rs[0] * rs[2] + rs[1] * rs[2], -rs[0] * rs[1] * rs[2]];
                let mut m: Vec<(i64, u32)> = vec![];
                for x in rs {
                    match m.last_mut() {
                        Some(l) if l.0 == x => l.1 += 1,
                        _ => m.push((x, 1)),
                    }
                }
                (c, m, "three_real_roots")
            }
            3 => {
                let (x, y) = (root(r), root(r));
                let c = [1, -(2 * x + y), x * x + 2 * x * y, -x * x * y];
                (c, if x == y { vec![(x, 3)] } else { vec![(x, 2), (y, 1)] }, "double_root")
            }
            4 => {
                let x = root(r);
                ([1, -3 * x, 3 * x * x, -x * x * x], vec![(x, 3)], "triple_root")
            }
            5 => {
                // no x^2 term: roots x, y, -(x + y)
                let (x, y) = (root(r).clamp(-9, 9), root(r).clamp(-9, 9));
                let mut rs = [x, y, -(x + y)];
                rs.sort();
                let c = [1, 0, rs[0] * rs[1] + rs[0] * rs[2] + rs[1] * rs[2], -rs[0] * rs[1] * rs[2]];
                let mut m: Vec<(i64, u32)> = vec![];
                for x in rs {
                    match m.last_mut() {
                        Some(l) if l.0 == x => l.1 += 1,
                        _ => m.push((x, 1)),
                    }
                }
                (c, m, "no_square_term")
            }
            6 => {
                // (x - x0)(x^2 + p x + q), p^2 < 4 q
                let (x0, p) = (root(r), r.range(-6, 6));
                let q = p * p / 4 + 1 + r.range(0, 8);
                ([1, p - x0, q - p * x0, -q * x0], vec![(x0, 1)], "one_real_root")
            }
            7 | 8 => {
                let (x, y) = (root(r), root(r));
                ([0, 1, -(x + y), x * y], if x == y { vec![(x, 2)] } else { vec![(x.min(y), 1), (x.max(y), 1)] }, "quadratic")
            }
            9 => {
                let p = r.range(-6, 6);
                let q = p * p / 4 + 1 + r.range(0, 8);
                ([0, 1, p, q], vec![], "quadratic_without_real_roots")
            }
            10 => ([0, 0, 1, -root(r)], vec![], "linear"),
            _ => ([0, 0, 0, r.range(-3, 3)], vec![], "constant"),
        };
        let roots = if kind == "linear" { vec![(-ci[3], 1)] } else { roots };
        let ci = [ci[0] * den * den * den, ci[1] * den * den, ci[2] * den, ci[3]];
        let roots: Vec<(f64, u32)> = roots.iter().map(|(x, m)| (*x as f64 / den as f64, *m)).collect();
        // half of the cases: instead of the listed scales, a power of two that puts the largest coefficient in a random
        // binade [2^e, 2^(e+1)) (the solver's thresholds depend on the magnitude of the coefficients)
        let cmax = ci.iter().map(|c| c.abs()).max().unwrap();
        let k = if cmax > 0 && r.chance(1, 2) {
            let e = r.range(0, if single { 20 } else { 36 }) as i32;
            let l = 63 - (cmax as u64).leading_zeros() as i32; // floor(log2(cmax))
            (2.0f64).powi(e - l) * if r.chance(1, 2) { 1.0 } else { -1.0 }
        } else {
            k
        };
        let coef = [k * ci[0] as f64, k * ci[1] as f64, k * ci[2] as f64, k * ci[3] as f64];
        if single && coef.iter().any(|c| (*c as f32) as f64 != *c) {
            continue; // not exact in f32
        }
        st.inc("evaluations");
        st.inc(&format!("integer_root_cases_{}", tag(single)));
        st.inc(&format!("integer_root_cases_{}", kind));
        let label = format!("{} cubic_polynomial_roots({:?}, {:?}, {:?}, {:?}) (true roots with multiplicity {:?})", tag(single), coef[0], coef[1], coef[2], coef[3], roots);
        st.note_case(&label, true);
        let got: Option<Vec<f64>> = if single {
            let c = [coef[0] as f32, coef[1] as f32, coef[2] as f32, coef[3] as f32];
            catch(|| cubic_polynomial_roots(c[0], c[1], c[2], c[3]).iter().map(|x| *x as f64).collect())
        } else {
            catch(|| cubic_polynomial_roots(coef[0], coef[1], coef[2], coef[3]).to_vec())
        };
        let got = match got {
            Some(g) => g,
            None => {
                st.fail(jobj(&[("what", jstr("cubic_polynomial_roots panicked")), ("input", jstr(&label))]));
                continue;
            }
        };
        let tol = |mult: u32| match (single, mult) {
            (false, 1) => 1e-6,
            (false, 2) => 1e-5,
            (false, _) => 1e-3,
            (true, 1) => 1e-3,
            (true, 2) => 3e-2,
            (true, _) => 1e-1,
        };
        for x in got.iter() {
            let mut ok = false;
            for (rt, mult) in roots.iter() {
                let e = (x - *rt).abs() / rt.abs().max(1.0);
                if e <= tol(*mult) {
                    ok = true;
                    counter_max(st, &format!("integer_root_{}_worst_error_e12_multiplicity_{}", tag(single), mult), (e * 1e12) as u64);
                }
            }
            if !ok {
                st.fail(jobj(&[("what", jstr(&format!("cubic_polynomial_roots ({}) reports a value that is not a root", tag(single)))), ("input", jstr(&format!("{} -> {:?}", label, got)))]));
                break;
            }
        }
        for (rt, mult) in roots.iter() {
            if *mult == 1 && !got.iter().any(|x| (x - *rt).abs() / rt.abs().max(1.0) <= tol(1)) {
                st.fail(jobj(&[("what", jstr(&format!("cubic_polynomial_roots ({}) misses a simple real root well separated from the others", tag(single)))), ("input", jstr(&format!("{} -> {:?}", label, got)))]));
                break;
            }
        }
    }
}


pub fn main(args: &Args) -> std::io::Result<()> {
    let mut st = Stats::default();
    let mut w = ShardWriter::new(&args.out, "c12_cases", args.shards, HEADER, "bad_cases");
    w.disabled = args.direct_only();
    let mut idx = std::fs::File::create(args.out.join("c12_index.txt"))?;
    let m: i64 = if args.thorough() { 5 } else { 4 };
    let mut id = 0usize;
    let n = m * m;
    // exhaustive: all ordered pairs of segments with endpoints on {0..m-1}^2
    for a in 0..n {
        for b in 0..n {
            for c in 0..n {
                for d in 0..n {
                    let cc = [a / m, a % m, b / m, b % m, c / m, c % m, d / m, d % m];
                    seg_case(id, cc, &mut w, &mut st, &mut idx);
                    id += 1;
                }
            }
        }
    }
    st.add("exhaustive_lattice_side", m as u64);
    // random larger lattices (exactness still holds; divisions are correctly rounded)
    let mut rng = Rng::new(args.seed);
    for _ in 0..(if args.thorough() { 20000 } else { 3000 }) {
        let mut cc = [0i64; 8];
        for v in cc.iter_mut() {
            *v = rng.range(-50, 50);
        }
        // bias towards touching configurations
        if rng.chance(1, 4) {
            // put c on the segment ab's line
            let k = rng.range(-1, 3);
            cc[4] = cc[0] + (cc[2] - cc[0]) * k;
            cc[5] = cc[1] + (cc[3] - cc[1]) * k;
        }
        seg_case(id, cc, &mut w, &mut st, &mut idx);
        id += 1;
    }
    curve_checks(args, &mut st);
    triangle_checks(args, &mut st);
    line_family_checks(args, &mut st);
    linear_projection_checks(args, &mut st);
    root_checks(args, &mut st);
    curve_checks_f32(args, &mut st);
    small_scale_elevated_checks(args, &mut st);
    straight_x_curve_checks(args, &mut st);
    straight_x_straight_checks(args, &mut st);
    special_pair_checks(args, &mut st);
    point_at_extremum_checks(args, &mut st);
    integer_root_checks(args, &mut st);
    quad_line_cases(args, &mut st)?;
    w.finish()?;
    st.write(&args.out.join("c12_stats.json"))
}
