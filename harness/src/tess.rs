//! Shared helpers for the tessellator properties: path specifications, every public entry point
//! of the fill and stroke tessellators, and a recording / fault-injecting geometry builder.
#![allow(dead_code)]
use crate::util::*;
use lyon_path::geom::euclid::default::Box2D;
use lyon_path::math::{point, vector, Angle, Point};
use lyon_path::{LineCap, LineJoin, Path, Polygon, Winding};
use lyon_tessellation::geometry_builder::{BuffersBuilder, MaxIndex, VertexBuffers};
use lyon_tessellation::{
    FillGeometryBuilder, FillOptions, FillTessellator, FillVertex, GeometryBuilder,
    GeometryBuilderError, StrokeGeometryBuilder, StrokeOptions, StrokeTessellator, StrokeVertex,
    TessellationResult, VertexId,
};
use lyon_path::traits::{Build, PathBuilder};

#[derive(Clone, Debug)]
pub enum Seg {
    Line(Point, Vec<f32>),
    Quad(Point, Point, Vec<f32>),
    Cubic(Point, Point, Point, Vec<f32>),
}

#[derive(Clone, Debug)]
pub struct Sub {
    pub start: Point,
    pub start_attrs: Vec<f32>,
    pub segs: Vec<Seg>,
    pub close: bool,
}

#[derive(Clone, Debug)]
pub struct PathSpec {
    pub n_attr: usize,
    pub subs: Vec<Sub>,
}

impl PathSpec {
    pub fn polygonal(&self) -> bool {
        self.subs.iter().all(|s| s.segs.iter().all(|g| matches!(g, Seg::Line(..))))
    }
    pub fn build(&self) -> Path {
        let mut b = Path::builder_with_attributes(self.n_attr);
        self.replay(&mut b);
        b.build()
    }
    /// issue the builder calls on any PathBuilder
    pub fn replay<B: PathBuilder>(&self, b: &mut B) {
        for s in &self.subs {
            b.begin(s.start, &s.start_attrs);
            for g in &s.segs {
                match g {
                    Seg::Line(p, a) => {
                        b.line_to(*p, a);
                    }
                    Seg::Quad(c, p, a) => {
                        b.quadratic_bezier_to(*c, *p, a);
                    }
                    Seg::Cubic(c1, c2, p, a) => {
                        b.cubic_bezier_to(*c1, *c2, *p, a);
                    }
                }
            }
            b.end(s.close);
        }
    }
    pub fn from_polylines(polys: &[Vec<(f32, f32)>], close: &[bool]) -> PathSpec {
        PathSpec {
            n_attr: 0,
            subs: polys
                .iter()
                .zip(close.iter())
                .filter(|(p, _)| !p.is_empty())
                .map(|(p, c)| Sub {
                    start: point(p[0].0, p[0].1),
                    start_attrs: vec![],
                    segs: p[1..].iter().map(|q| Seg::Line(point(q.0, q.1), vec![])).collect(),
                    close: *c,
                })
                .collect(),
        }
    }
    pub fn text(&self) -> String {
        format!("{:?}", self)
    }
}

#[derive(Clone, Copy, Debug, PartialEq)]
pub enum Entry {
    TessellatePath,
    Tessellate,
    WithIds,
    Polygon,
    Builder,
    BuilderWithAttributes,
}

pub const FILL_ENTRIES: [Entry; 6] =
    [Entry::TessellatePath, Entry::Tessellate, Entry::WithIds, Entry::Polygon, Entry::Builder, Entry::BuilderWithAttributes];

/// Run a fill through the chosen entry point.  `Polygon` falls back to `Tessellate` when the path
/// is not a single closed/open polyline.
pub fn run_fill(
    entry: Entry,
    tess: &mut FillTessellator,
    spec: &PathSpec,
    options: &FillOptions,
    out: &mut dyn FillGeometryBuilder,
) -> TessellationResult {
    match entry {
        Entry::TessellatePath => {
            let p = spec.build();
            tess.tessellate_path(&p, options, out)
        }
        Entry::Tessellate => {
            let p = spec.build();
            tess.tessellate(p.iter(), options, out)
        }
        Entry::WithIds => {
            let p = spec.build();
            if spec.n_attr > 0 {
                tess.tessellate_with_ids(p.id_iter(), &p, Some(&p), options, out)
            } else {
                tess.tessellate_with_ids(p.id_iter(), &p, None, options, out)
            }
        }
        Entry::Polygon => {
            if spec.subs.len() == 1 && spec.polygonal() && spec.n_attr == 0 {
                let s = &spec.subs[0];
                let mut pts = vec![s.start];
                for g in &s.segs {
                    if let Seg::Line(p, _) = g {
                        pts.push(*p);
                    }
                }
                tess.tessellate_polygon(Polygon { points: &pts, closed: s.close }, options, out)
            } else {
                let p = spec.build();
                tess.tessellate(p.iter(), options, out)
            }
        }
        Entry::Builder => {
            if spec.n_attr == 0 {
                let mut b = tess.builder(options, out);
                for s in &spec.subs {
                    b.begin(s.start);
                    for g in &s.segs {
                        match g {
                            Seg::Line(p, _) => {
                                b.line_to(*p);
                            }
                            Seg::Quad(c, p, _) => {
                                b.quadratic_bezier_to(*c, *p);
                            }
                            Seg::Cubic(c1, c2, p, _) => {
                                b.cubic_bezier_to(*c1, *c2, *p);
                            }
                        }
                    }
                    b.end(s.close);
                }
                b.build()
            } else {
                let mut b = tess.builder_with_attributes(spec.n_attr, options, out);
                spec.replay(&mut b);
                b.build()
            }
        }
        Entry::BuilderWithAttributes => {
            let mut b = tess.builder_with_attributes(spec.n_attr, options, out);
            spec.replay(&mut b);
            b.build()
        }
    }
}

pub fn run_stroke(
    entry: Entry,
    tess: &mut StrokeTessellator,
    spec: &PathSpec,
    options: &StrokeOptions,
    out: &mut dyn StrokeGeometryBuilder,
) -> TessellationResult {
    match entry {
        Entry::TessellatePath => {
            let p = spec.build();
            tess.tessellate_path(&p, options, out)
        }
        Entry::Tessellate => {
            let p = spec.build();
            tess.tessellate(p.iter(), options, out)
        }
        Entry::WithIds => {
            let p = spec.build();
            if spec.n_attr > 0 {
                tess.tessellate_with_ids(p.id_iter(), &p, Some(&p), options, out)
            } else {
                tess.tessellate_with_ids(p.id_iter(), &p, None, options, out)
            }
        }
        Entry::Polygon => {
            if spec.subs.len() == 1 && spec.polygonal() && spec.n_attr == 0 {
                let s = &spec.subs[0];
                let mut pts = vec![s.start];
                for g in &s.segs {
                    if let Seg::Line(p, _) = g {
                        pts.push(*p);
                    }
                }
                tess.tessellate_polygon(Polygon { points: &pts, closed: s.close }, options, out)
            } else {
                let p = spec.build();
                tess.tessellate(p.iter(), options, out)
            }
        }
        Entry::Builder | Entry::BuilderWithAttributes => {
            // every other program reaches its join / caps / miter limit through the builder's setters,
            // starting from a builder created with different ones
            let via_setters = (spec.subs.len() + spec.subs.iter().map(|s| s.segs.len()).sum::<usize>()) % 2 == 1;
            let mut other = *options;
            if via_setters {
                other.line_join = if options.line_join == LineJoin::Round { LineJoin::Miter } else { LineJoin::Round };
                other.start_cap = if options.start_cap == LineCap::Square { LineCap::Butt } else { LineCap::Square };
                other.end_cap = if options.end_cap == LineCap::Round { LineCap::Butt } else { LineCap::Round };
                other.miter_limit = options.miter_limit + 3.0;
            }
            macro_rules! apply_setters {
                ($b:expr) => {
                    if via_setters {
                        $b.set_line_join(options.line_join);
                        $b.set_start_cap(options.start_cap);
                        $b.set_end_cap(options.end_cap);
                        $b.set_miter_limit(options.miter_limit);
                    }
                };
            }
            if spec.n_attr == 0 && entry == Entry::Builder {
                let mut b = tess.builder(&other, out);
                apply_setters!(b.inner_mut());
                for s in &spec.subs {
                    b.begin(s.start);
                    for g in &s.segs {
                        match g {
                            Seg::Line(p, _) => {
                                b.line_to(*p);
                            }
                            Seg::Quad(c, p, _) => {
                                b.quadratic_bezier_to(*c, *p);
                            }
                            Seg::Cubic(c1, c2, p, _) => {
                                b.cubic_bezier_to(*c1, *c2, *p);
                            }
                        }
                    }
                    b.end(s.close);
                }
                b.build()
            } else {
                let mut b = tess.builder_with_attributes(spec.n_attr, &other, out);
                apply_setters!(b);
                spec.replay(&mut b);
                b.build()
            }
        }
    }
}

#[derive(Clone, Debug)]
pub enum Shape {
    Rect(f32, f32, f32, f32),
    Circle(f32, f32, f32),
    Ellipse(f32, f32, f32, f32, f32),
}

pub fn run_fill_shape(tess: &mut FillTessellator, s: &Shape, options: &FillOptions, out: &mut dyn FillGeometryBuilder) -> TessellationResult {
    match s {
        Shape::Rect(x, y, w, h) => tess.tessellate_rectangle(&Box2D { min: point(*x, *y), max: point(x + w, y + h) }, options, out),
        Shape::Circle(x, y, r) => tess.tessellate_circle(point(*x, *y), *r, options, out),
        Shape::Ellipse(x, y, rx, ry, rot) => {
            tess.tessellate_ellipse(point(*x, *y), vector(*rx, *ry), Angle::radians(*rot), Winding::Positive, options, out)
        }
    }
}

pub fn run_stroke_shape(tess: &mut StrokeTessellator, s: &Shape, options: &StrokeOptions, out: &mut dyn StrokeGeometryBuilder) -> TessellationResult {
    match s {
        Shape::Rect(x, y, w, h) => tess.tessellate_rectangle(&Box2D { min: point(*x, *y), max: point(x + w, y + h) }, options, out),
        Shape::Circle(x, y, r) => tess.tessellate_circle(point(*x, *y), *r, options, out),
        Shape::Ellipse(x, y, rx, ry, rot) => {
            tess.tessellate_ellipse(point(*x, *y), vector(*rx, *ry), Angle::radians(*rot), Winding::Positive, options, out)
        }
    }
}

// ---------------------------------------------------------------- recording builder

#[derive(Clone, Debug, PartialEq)]
pub enum GCall {
    Begin,
    Vertex(Option<u32>), // Some(id) accepted, None refused
    Tri(u32, u32, u32),
    End,
    Abort,
}

/// Records every call and forwards it to a real `BuffersBuilder`; optionally refuses the k-th
/// vertex (counted from 0 since the creation of the recorder) without forwarding it.
pub struct Recorder<'l, I: 'l> {
    pub inner: BuffersBuilder<'l, Point, I, lyon_tessellation::geometry_builder::Positions>,
    pub calls: Vec<GCall>,
    pub fail_at: Option<usize>,
    pub seen: usize,
    /// positions of the vertices accepted, by id
    pub positions: Vec<(u32, Point)>,
    /// everything else a vertex carries (bit patterns): stroke: position on path, normal, advancement, width,
    /// side, source, interpolated attributes; fill: sources, interpolated attributes
    pub data: Vec<Vec<u64>>,
}

impl<'l, I> Recorder<'l, I> {
    pub fn new(buffers: &'l mut VertexBuffers<Point, I>, fail_at: Option<usize>) -> Self {
        Recorder {
            inner: BuffersBuilder::new(buffers, lyon_tessellation::geometry_builder::Positions),
            calls: Vec::new(),
            fail_at,
            seen: 0,
            positions: Vec::new(),
            data: Vec::new(),
        }
    }
}

impl<'l, I> GeometryBuilder for Recorder<'l, I>
where
    I: std::ops::Add + From<VertexId> + MaxIndex,
{
    fn begin_geometry(&mut self) {
        self.calls.push(GCall::Begin);
        self.inner.begin_geometry();
    }
    fn end_geometry(&mut self) {
        self.calls.push(GCall::End);
        self.inner.end_geometry();
    }
    fn add_triangle(&mut self, a: VertexId, b: VertexId, c: VertexId) {
        self.calls.push(GCall::Tri(a.0, b.0, c.0));
        self.inner.add_triangle(a, b, c);
    }
    fn abort_geometry(&mut self) {
        self.calls.push(GCall::Abort);
        self.inner.abort_geometry();
    }
}

impl<'l, I> FillGeometryBuilder for Recorder<'l, I>
where
    I: std::ops::Add + From<VertexId> + MaxIndex,
{
    fn add_fill_vertex(&mut self, v: FillVertex) -> Result<VertexId, GeometryBuilderError> {
        let k = self.seen;
        self.seen += 1;
        if self.fail_at == Some(k) {
            self.calls.push(GCall::Vertex(None));
            return Err(GeometryBuilderError::TooManyVertices);
        }
        let pos = v.position();
        let mut v = v;
        {
            let mut d: Vec<u64> = Vec::new();
            for s in v.sources() {
                match s {
                    lyon_tessellation::VertexSource::Endpoint { id } => d.extend([1, id.0 as u64]),
                    lyon_tessellation::VertexSource::Edge { from, to, t } => d.extend([2, from.0 as u64, to.0 as u64, t.to_bits() as u64]),
                }
            }
            d.push(u64::MAX);
            d.extend(v.interpolated_attributes().iter().map(|a| a.to_bits() as u64));
            self.data.push(d);
        }
        let r = self.inner.add_fill_vertex(v);
        self.calls.push(GCall::Vertex(r.as_ref().ok().map(|i| i.0)));
        if let Ok(id) = &r {
            self.positions.push((id.0, pos));
        }
        r
    }
}

impl<'l, I> StrokeGeometryBuilder for Recorder<'l, I>
where
    I: std::ops::Add + From<VertexId> + MaxIndex,
{
    fn add_stroke_vertex(&mut self, v: StrokeVertex) -> Result<VertexId, GeometryBuilderError> {
        let k = self.seen;
        self.seen += 1;
        if self.fail_at == Some(k) {
            self.calls.push(GCall::Vertex(None));
            return Err(GeometryBuilderError::TooManyVertices);
        }
        let pos = v.position();
        let mut v = v;
        {
            let mut d: Vec<u64> = vec![
                v.position_on_path().x.to_bits() as u64, v.position_on_path().y.to_bits() as u64,
                v.normal().x.to_bits() as u64, v.normal().y.to_bits() as u64,
                v.advancement().to_bits() as u64, v.line_width().to_bits() as u64,
                if v.side() == lyon_tessellation::Side::Positive { 1 } else { 0 },
            ];
            match v.source() {
                lyon_tessellation::VertexSource::Endpoint { id } => d.extend([1, id.0 as u64]),
                lyon_tessellation::VertexSource::Edge { from, to, t } => d.extend([2, from.0 as u64, to.0 as u64, t.to_bits() as u64]),
            }
            d.push(u64::MAX);
            d.extend(v.interpolated_attributes().iter().map(|a| a.to_bits() as u64));
            self.data.push(d);
        }
        let r = self.inner.add_stroke_vertex(v);
        self.calls.push(GCall::Vertex(r.as_ref().ok().map(|i| i.0)));
        if let Ok(id) = &r {
            self.positions.push((id.0, pos));
        }
        r
    }
}

/// the protocol, evaluated directly on a recorded trace (independent of the Coq checker)
pub fn trace_ok(success: bool, t: &[GCall]) -> Result<(), String> {
    if t.is_empty() {
        return if success { Err("a successful call never touched the geometry builder (no begin/end)".into()) } else { Ok(()) };
    }
    if t[0] != GCall::Begin {
        return Err("first call is not begin_geometry".into());
    }
    let mut known = std::collections::BTreeSet::new();
    let mut refused = false;
    for (i, c) in t[1..].iter().enumerate() {
        let last = i + 2 == t.len();
        match c {
            GCall::Begin => return Err("second begin_geometry".into()),
            GCall::Vertex(Some(id)) => {
                known.insert(*id);
            }
            GCall::Vertex(None) => refused = true,
            GCall::Tri(a, b, c) => {
                if !(known.contains(a) && known.contains(b) && known.contains(c)) {
                    return Err(format!("triangle ({}, {}, {}) uses an id not returned since begin_geometry", a, b, c));
                }
            }
            GCall::End => {
                if !last {
                    return Err("calls after end_geometry".into());
                }
                if !success {
                    return Err("end_geometry although the call returned an error".into());
                }
                if refused {
                    return Err("end_geometry although a vertex was refused".into());
                }
                return Ok(());
            }
            GCall::Abort => {
                if !last {
                    return Err("calls after abort_geometry".into());
                }
                if success {
                    return Err("abort_geometry although the call returned Ok".into());
                }
                return Ok(());
            }
        }
    }
    Err("neither end_geometry nor abort_geometry after begin_geometry".into())
}

pub fn gtrace(t: &[GCall]) -> String {
    glist(t.iter().map(|c| match c {
        GCall::Begin => "GBegin Z".to_string(),
        GCall::Vertex(Some(id)) => format!("GVertex Z 0 (Some {})", id),
        GCall::Vertex(None) => "GVertex Z 0 None".to_string(),
        GCall::Tri(a, b, c) => format!("GTri Z {} {} {}", a, b, c),
        GCall::End => "GEnd Z".to_string(),
        GCall::Abort => "GAbort Z".to_string(),
    }))
}

// ---------------------------------------------------------------- path generators

pub fn lattice_poly(r: &mut Rng, max_pts: usize, grid: i64) -> Vec<(f32, f32)> {
    let n = 1 + r.below(max_pts as u64) as usize;
    (0..n).map(|_| (r.range(0, grid) as f32, r.range(0, grid) as f32)).collect()
}

pub fn random_polygonal(r: &mut Rng, max_subs: usize, max_pts: usize, grid: i64) -> PathSpec {
    let k = 1 + r.below(max_subs as u64) as usize;
    let polys: Vec<Vec<(f32, f32)>> = (0..k).map(|_| lattice_poly(r, max_pts, grid)).collect();
    let close: Vec<bool> = (0..k).map(|_| r.chance(2, 3)).collect();
    PathSpec::from_polylines(&polys, &close)
}

pub fn random_curved(r: &mut Rng, n_attr: usize, max_subs: usize, max_segs: usize, grid: i64) -> PathSpec {
    let attrs = |r: &mut Rng| -> Vec<f32> { (0..n_attr).map(|_| r.range(-50, 50) as f32).collect() };
    let pt = |r: &mut Rng| point(r.range(0, grid) as f32, r.range(0, grid) as f32);
    let k = 1 + r.below(max_subs as u64) as usize;
    let mut subs = Vec::new();
    for _ in 0..k {
        let start = pt(r);
        let start_attrs = attrs(r);
        let m = r.below(max_segs as u64 + 1) as usize;
        let mut segs = Vec::new();
        for _ in 0..m {
            segs.push(match r.below(4) {
                0 | 1 => Seg::Line(pt(r), attrs(r)),
                2 => Seg::Quad(pt(r), pt(r), attrs(r)),
                _ => Seg::Cubic(pt(r), pt(r), pt(r), attrs(r)),
            });
        }
        subs.push(Sub { start, start_attrs, segs, close: r.chance(2, 3) });
    }
    PathSpec { n_attr, subs }
}
