//! C04: geometry-builder protocol, index validity, all-or-nothing on error.
//! Fault enumeration: for every entry point of fill / stroke / basic shapes and a set of inputs,
//! the builder refuses the k-th vertex for EVERY k up to the un-faulted vertex count; plus
//! natural index overflow with u16 buffers pre-filled close to 65535.  The recorded call traces
//! go to the Coq-verified trace checker and the BuffersBuilder model; the same facts are
//! evaluated directly here.
use crate::tess::*;
use crate::util::*;
use lyon_path::math::{point, Point};
use lyon_tessellation::geometry_builder::VertexBuffers;
use lyon_tessellation::{FillOptions, FillTessellator, LineCap, LineJoin, StrokeOptions, StrokeTessellator};
use std::panic::AssertUnwindSafe;

pub const HEADER: &str = "From LV Require Import Base.Prelude Model.GeomBuilder Run.C04.\nOpen Scope Z_scope.";

#[derive(Clone, Debug)]
enum Job {
    Fill(Entry, PathSpec),
    Stroke(Entry, PathSpec, LineJoin, LineCap),
    /// the width read from attribute 0 (StrokeOptions::variable_line_width): the other loop of the stroke tessellator
    StrokeVar(Entry, PathSpec, LineJoin, LineCap),
    FillShape(Shape),
    StrokeShape(Shape),
    /// invalid tolerance (0, negative, NaN): an error return, never a panic, buffers untouched
    FillTol(Entry, PathSpec, f32),
    FillShapeTol(Shape, f32),
}

struct RunOut {
    ok: Option<bool>, // None = panicked
    calls: Vec<GCall>,
    nverts_after: usize,
    indices_after: Vec<u32>,
    seen: usize,
}

fn run_job_u16(job: &Job, pre_v: usize, pre_i: &[u16], fail_at: Option<usize>) -> RunOut {
    let mut buffers: VertexBuffers<Point, u16> = VertexBuffers::new();
    buffers.vertices = vec![point(-1.0, -1.0); pre_v];
    buffers.indices = pre_i.to_vec();
    let (ok, calls, seen) = {
        let mut rec = Recorder::new(&mut buffers, fail_at);
        let ok = catch(AssertUnwindSafe(|| exec(job, &mut rec))).map(|r| r.is_ok());
        (ok, rec.calls.clone(), rec.seen)
    };
    RunOut { ok, calls, nverts_after: buffers.vertices.len(), indices_after: buffers.indices.iter().map(|i| *i as u32).collect(), seen }
}

fn run_job_u32(job: &Job, pre_v: usize, pre_i: &[u32], fail_at: Option<usize>) -> RunOut {
    let mut buffers: VertexBuffers<Point, u32> = VertexBuffers::new();
    buffers.vertices = vec![point(-1.0, -1.0); pre_v];
    buffers.indices = pre_i.to_vec();
    let (ok, calls, seen) = {
        let mut rec = Recorder::new(&mut buffers, fail_at);
        let ok = catch(AssertUnwindSafe(|| exec(job, &mut rec))).map(|r| r.is_ok());
        (ok, rec.calls.clone(), rec.seen)
    };
    RunOut { ok, calls, nverts_after: buffers.vertices.len(), indices_after: buffers.indices.clone(), seen }
}

fn exec<I>(job: &Job, rec: &mut Recorder<I>) -> lyon_tessellation::TessellationResult
where
    I: std::ops::Add + From<lyon_tessellation::VertexId> + lyon_tessellation::geometry_builder::MaxIndex,
{
    match job {
        Job::Fill(e, spec) => run_fill(*e, &mut FillTessellator::new(), spec, &FillOptions::tolerance(0.05), rec),
        Job::Stroke(e, spec, j, c) => {
            let o = StrokeOptions::tolerance(0.05).with_line_width(1.5).with_line_join(*j).with_line_cap(*c);
            run_stroke(*e, &mut StrokeTessellator::new(), spec, &o, rec)
        }
        Job::StrokeVar(e, spec, j, c) => {
            let o = StrokeOptions::tolerance(0.05).with_line_width(1.5).with_line_join(*j).with_line_cap(*c).with_variable_line_width(0);
            run_stroke(*e, &mut StrokeTessellator::new(), spec, &o, rec)
        }
        Job::FillShape(s) => run_fill_shape(&mut FillTessellator::new(), s, &FillOptions::tolerance(0.05), rec),
        Job::FillTol(e, spec, t) => run_fill(*e, &mut FillTessellator::new(), spec, &FillOptions::tolerance(*t), rec),
        Job::FillShapeTol(s, t) => run_fill_shape(&mut FillTessellator::new(), s, &FillOptions::tolerance(*t), rec),
        Job::StrokeShape(s) => run_stroke_shape(&mut StrokeTessellator::new(), s, &StrokeOptions::tolerance(0.05).with_line_width(1.0), rec),
    }
}

/// forwards everything to `inner` but refuses the k-th vertex; used to drive builders other than the plain
/// BuffersBuilder (the inverted-winding adapter) through the same faults
struct FailAt<B> {
    inner: B,
    fail_at: Option<usize>,
    seen: usize,
}
impl<B: lyon_tessellation::GeometryBuilder> lyon_tessellation::GeometryBuilder for FailAt<B> {
    fn begin_geometry(&mut self) {
        self.inner.begin_geometry()
    }
    fn end_geometry(&mut self) {
        self.inner.end_geometry()
    }
    fn add_triangle(&mut self, a: lyon_tessellation::VertexId, b: lyon_tessellation::VertexId, c: lyon_tessellation::VertexId) {
        self.inner.add_triangle(a, b, c)
    }
    fn abort_geometry(&mut self) {
        self.inner.abort_geometry()
    }
}
impl<B: lyon_tessellation::FillGeometryBuilder> lyon_tessellation::FillGeometryBuilder for FailAt<B> {
    fn add_fill_vertex(&mut self, v: lyon_tessellation::FillVertex) -> Result<lyon_tessellation::VertexId, lyon_tessellation::GeometryBuilderError> {
        self.seen += 1;
        if self.fail_at == Some(self.seen - 1) {
            return Err(lyon_tessellation::GeometryBuilderError::TooManyVertices);
        }
        self.inner.add_fill_vertex(v)
    }
}
impl<B: lyon_tessellation::StrokeGeometryBuilder> lyon_tessellation::StrokeGeometryBuilder for FailAt<B> {
    fn add_stroke_vertex(&mut self, v: lyon_tessellation::StrokeVertex) -> Result<lyon_tessellation::VertexId, lyon_tessellation::GeometryBuilderError> {
        self.seen += 1;
        if self.fail_at == Some(self.seen - 1) {
            return Err(lyon_tessellation::GeometryBuilderError::TooManyVertices);
        }
        self.inner.add_stroke_vertex(v)
    }
}

fn exec_fill_dyn(job: &Job, fb: &mut dyn lyon_tessellation::FillGeometryBuilder) -> lyon_tessellation::TessellationResult {
    match job {
        Job::Fill(e, spec) => run_fill(*e, &mut FillTessellator::new(), spec, &FillOptions::tolerance(0.05), fb),
        Job::FillShape(s) => run_fill_shape(&mut FillTessellator::new(), s, &FillOptions::tolerance(0.05), fb),
        Job::FillTol(e, spec, t) => run_fill(*e, &mut FillTessellator::new(), spec, &FillOptions::tolerance(*t), fb),
        Job::FillShapeTol(s, t) => run_fill_shape(&mut FillTessellator::new(), s, &FillOptions::tolerance(*t), fb),
        _ => Ok(()),
    }
}
fn exec_stroke_dyn(job: &Job, sb: &mut dyn lyon_tessellation::StrokeGeometryBuilder) -> lyon_tessellation::TessellationResult {
    match job {
        Job::Stroke(e, spec, j, c) => {
            let o = StrokeOptions::tolerance(0.05).with_line_width(1.5).with_line_join(*j).with_line_cap(*c);
            run_stroke(*e, &mut StrokeTessellator::new(), spec, &o, sb)
        }
        Job::StrokeVar(e, spec, j, c) => {
            let o = StrokeOptions::tolerance(0.05).with_line_width(1.5).with_line_join(*j).with_line_cap(*c).with_variable_line_width(0);
            run_stroke(*e, &mut StrokeTessellator::new(), spec, &o, sb)
        }
        Job::StrokeShape(s) => run_stroke_shape(&mut StrokeTessellator::new(), s, &StrokeOptions::tolerance(0.05).with_line_width(1.0), sb),
        _ => Ok(()),
    }
}

/// the inverted-winding adapter around a BuffersBuilder: same all-or-nothing contract, evaluated directly on the
/// buffers (u16 indices, pre-filled; refusal of the k-th vertex and natural overflow)
fn inverted_winding_checks(job: &Job, st: &mut Stats, nv: usize) {
    use lyon_tessellation::geometry_builder::{BuffersBuilder, Positions};
    let is_stroke = matches!(job, Job::Stroke(..) | Job::StrokeVar(..) | Job::StrokeShape(_));
    let mut faults: Vec<(usize, Option<usize>)> = vec![(4, None)];
    for k in [0usize, 1, 2, 5, 11] {
        if k < nv {
            faults.push((4, Some(k)));
        }
    }
    for j in [0usize, 1, 3, 7] {
        if j <= nv {
            faults.push((65535 - j, None));
        }
    }
    for (pre_v, fail_at) in faults {
        let mut buffers: VertexBuffers<Point, u16> = VertexBuffers::new();
        buffers.vertices = vec![point(-1.0, -1.0); pre_v];
        buffers.indices = vec![0, 1, 2, 2, 1, 3];
        let before_i = buffers.indices.clone();
        st.inc("inverted_winding_runs");
        let r = {
            let mut fb = FailAt { inner: BuffersBuilder::new(&mut buffers, Positions).with_inverted_winding(), fail_at, seen: 0 };
            catch(AssertUnwindSafe(|| if is_stroke { exec_stroke_dyn(job, &mut fb).is_ok() } else { exec_fill_dyn(job, &mut fb).is_ok() }))
        };
        let text = format!("with_inverted_winding {:?} pre-filled {} vertices, refusing vertex {:?}", job, pre_v, fail_at);
        match r {
            None => st.fail(jobj(&[("what", jstr("tessellation through the inverted-winding builder panicked")), ("input", jstr(&text))])),
            Some(false) => {
                if buffers.vertices.len() != pre_v || buffers.indices != before_i {
                    st.fail(jobj(&[("what", jstr("a failed call through the inverted-winding builder did not restore the caller's buffers")), ("input", jstr(&format!("{} -> {} vertices, {} indices", text, buffers.vertices.len(), buffers.indices.len())))]));
                }
            }
            Some(true) => {
                let n = buffers.vertices.len();
                if buffers.indices[..6] != before_i[..] || buffers.indices[6..].iter().any(|i| (*i as usize) < pre_v || (*i as usize) >= n) || (buffers.indices.len() - 6) % 3 != 0 {
                    st.fail(jobj(&[("what", jstr("a successful call through the inverted-winding builder touched earlier contents or produced indices outside the new vertices")), ("input", jstr(&text))]));
                }
            }
        }
    }
}

/// with_vertex_offset(k): the indices of the new triangles are those of the plain builder plus k, nothing else
/// changes (also on failure)
fn vertex_offset_checks(job: &Job, st: &mut Stats, nv: usize) {
    use lyon_tessellation::geometry_builder::{BuffersBuilder, Positions};
    let is_stroke = matches!(job, Job::Stroke(..) | Job::StrokeVar(..) | Job::StrokeShape(_));
    let run = |offset: u32, fail_at: Option<usize>| -> Option<(bool, usize, Vec<u32>)> {
        let mut buffers: VertexBuffers<Point, u32> = VertexBuffers::new();
        buffers.vertices = vec![point(-1.0, -1.0); 4];
        buffers.indices = vec![0, 1, 2, 2, 1, 3];
        let ok = {
            let mut fb = FailAt { inner: BuffersBuilder::new(&mut buffers, Positions).with_vertex_offset(offset), fail_at, seen: 0 };
            catch(AssertUnwindSafe(|| if is_stroke { exec_stroke_dyn(job, &mut fb).is_ok() } else { exec_fill_dyn(job, &mut fb).is_ok() }))?
        };
        Some((ok, buffers.vertices.len(), buffers.indices))
    };
    // simple_builder (u16 indices, positions) on pre-filled buffers: same vertices / indices as the generic one,
    // and the all-or-nothing guarantee when a vertex is refused
    {
        use lyon_tessellation::geometry_builder::simple_builder;
        let run16 = |simple: bool, fail_at: Option<usize>| -> Option<(bool, Vec<Point>, Vec<u16>)> {
            let mut buffers: VertexBuffers<Point, u16> = VertexBuffers::new();
            buffers.vertices = vec![point(-1.0, -1.0); 4];
            buffers.indices = vec![0, 1, 2, 2, 1, 3];
            let ok = if simple {
                let mut fb = FailAt { inner: simple_builder(&mut buffers), fail_at, seen: 0 };
                catch(AssertUnwindSafe(|| if is_stroke { exec_stroke_dyn(job, &mut fb).is_ok() } else { exec_fill_dyn(job, &mut fb).is_ok() }))?
            } else {
                let mut fb = FailAt { inner: BuffersBuilder::new(&mut buffers, Positions), fail_at, seen: 0 };
                catch(AssertUnwindSafe(|| if is_stroke { exec_stroke_dyn(job, &mut fb).is_ok() } else { exec_fill_dyn(job, &mut fb).is_ok() }))?
            };
            Some((ok, buffers.vertices, buffers.indices))
        };
        for fail_at in [None, Some(1usize)] {
            if fail_at.map_or(false, |k| k >= nv) {
                continue;
            }
            st.inc("simple_builder_runs");
            let text = format!("simple_builder {:?} refusing vertex {:?}", job, fail_at);
            match (run16(true, fail_at), run16(false, fail_at)) {
                (Some(a), Some(b)) => {
                    if a.0 != b.0 || a.1.len() != b.1.len() || a.2 != b.2 || a.1.iter().zip(b.1.iter()).any(|(p, q)| p.x.to_bits() != q.x.to_bits() || p.y.to_bits() != q.y.to_bits()) {
                        st.fail(jobj(&[("what", jstr("simple_builder gives different buffers than BuffersBuilder::new(.., Positions)")), ("input", jstr(&text))]));
                    }
                    if !a.0 && (a.1.len() != 4 || a.2.len() != 6) {
                        st.fail(jobj(&[("what", jstr("simple_builder: a failed tessellation left vertices or indices behind")), ("input", jstr(&text))]));
                    }
                }
                _ => st.fail(jobj(&[("what", jstr("tessellation into a simple_builder panicked")), ("input", jstr(&text))])),
            }
        }
    }
    // a closure as vertex constructor gives the buffers of the Positions constructor; the NoOutput builder accepts the
    // same calls (same success, no panic) and hands out consecutive vertex ids
    {
        st.inc("closure_and_no_output_runs");
        let text = format!("closure constructor / NoOutput {:?}", job);
        let r = catch(AssertUnwindSafe(|| {
            let mut b1: VertexBuffers<Point, u32> = VertexBuffers::new();
            let mut b2: VertexBuffers<Point, u32> = VertexBuffers::new();
            let (ok1, ok2, ok3);
            if is_stroke {
                ok1 = exec_stroke_dyn(job, &mut BuffersBuilder::new(&mut b1, Positions)).is_ok();
                ok2 = exec_stroke_dyn(job, &mut BuffersBuilder::new(&mut b2, |v: lyon_tessellation::StrokeVertex| v.position())).is_ok();
                ok3 = exec_stroke_dyn(job, &mut lyon_tessellation::geometry_builder::NoOutput::new()).is_ok();
            } else {
                ok1 = exec_fill_dyn(job, &mut BuffersBuilder::new(&mut b1, Positions)).is_ok();
                ok2 = exec_fill_dyn(job, &mut BuffersBuilder::new(&mut b2, |v: lyon_tessellation::FillVertex| v.position())).is_ok();
                ok3 = exec_fill_dyn(job, &mut lyon_tessellation::geometry_builder::NoOutput::new()).is_ok();
            }
            let same = b1.indices == b2.indices && b1.vertices.len() == b2.vertices.len() && b1.vertices.iter().zip(b2.vertices.iter()).all(|(p, q)| p.x.to_bits() == q.x.to_bits() && p.y.to_bits() == q.y.to_bits());
            (ok1, ok2, ok3, same)
        }));
        match r {
            None => st.fail(jobj(&[("what", jstr("tessellation into a closure-constructed BuffersBuilder or NoOutput panicked")), ("input", jstr(&text))])),
            Some((ok1, ok2, ok3, same)) => {
                if ok1 != ok2 || !same {
                    st.fail(jobj(&[("what", jstr("a closure vertex constructor gives different buffers than Positions")), ("input", jstr(&text))]));
                }
                if ok1 != ok3 {
                    st.fail(jobj(&[("what", jstr("NoOutput succeeds / fails where BuffersBuilder does not")), ("input", jstr(&text))]));
                }
            }
        }
    }
    for fail_at in [None, Some(1usize)] {
        if let Some(k) = fail_at {
            if k >= nv {
                continue;
            }
        }
        st.inc("vertex_offset_runs");
        let text = format!("with_vertex_offset(100) {:?} refusing vertex {:?}", job, fail_at);
        match (run(0, fail_at), run(100, fail_at)) {
            (Some((ok0, nv0, i0)), Some((ok1, nv1, i1))) => {
                let shifted: Vec<u32> = i0.iter().enumerate().map(|(k, i)| if k < 6 { *i } else { i + 100 }).collect();
                if ok0 != ok1 || nv0 != nv1 || shifted != i1 {
                    st.fail(jobj(&[("what", jstr("a vertex offset changes more than the indices of the new triangles")), ("input", jstr(&text))]));
                }
            }
            _ => st.fail(jobj(&[("what", jstr("tessellation with a vertex offset panicked")), ("input", jstr(&text))])),
        }
    }
}

/// one geometry builder object serving several tessellations in a row (batching): a failure in a later one
/// must leave the buffers as they were after the earlier, successful ones
fn builder_reuse_checks(jobs: &[Job], st: &mut Stats) {
    use lyon_tessellation::geometry_builder::{BuffersBuilder, Positions};
    let fills: Vec<&Job> = jobs.iter().filter(|j| matches!(j, Job::Fill(..) | Job::FillShape(_))).collect();
    let strokes: Vec<&Job> = jobs.iter().filter(|j| matches!(j, Job::Stroke(..) | Job::StrokeVar(..) | Job::StrokeShape(_))).collect();
    for (k, first) in fills.iter().enumerate().take(24) {
        let second = strokes[k % strokes.len()];
        let third = fills[(k * 7 + 3) % fills.len()];
        for fail_at in [0usize, 1, 3] {
            let mut buffers: VertexBuffers<Point, u32> = VertexBuffers::new();
            buffers.vertices = vec![point(-1.0, -1.0); 5];
            buffers.indices = vec![0, 1, 2];
            st.inc("builder_reuse_runs");
            let text = format!("one BuffersBuilder for {:?}, then {:?}, then {:?} refusing vertex {}", first, second, third, fail_at);
            let r = catch(AssertUnwindSafe(|| {
                let mut fb = FailAt { inner: BuffersBuilder::new(&mut buffers, Positions), fail_at: None, seen: 0 };
                let a = exec_fill_dyn(first, &mut fb).is_ok();
                let b = exec_stroke_dyn(second, &mut fb).is_ok();
                let snapshot = (fb.inner.buffers().vertices.len(), fb.inner.buffers().indices.clone());
                fb.fail_at = Some(fail_at);
                fb.seen = 0;
                let c = exec_fill_dyn(third, &mut fb).is_ok();
                let after = (fb.inner.buffers().vertices.len(), fb.inner.buffers().indices.clone());
                (a, b, c, snapshot, after)
            }));
            match r {
                None => st.fail(jobj(&[("what", jstr("batched tessellation through one builder panicked")), ("input", jstr(&text))])),
                Some((a, b, c, snapshot, after)) => {
                    if !a || !b {
                        continue;
                    }
                    if !c && snapshot != after {
                        st.fail(jobj(&[("what", jstr("a failed call did not restore the buffers a re-used geometry builder had after its earlier calls")), ("input", jstr(&format!("{} -> {} vertices / {} indices before, {} / {} after", text, snapshot.0, snapshot.1.len(), after.0, after.1.len())))]));
                    }
                    if c && (after.1.len() < snapshot.1.len() || after.1[..snapshot.1.len()] != snapshot.1[..]) {
                        st.fail(jobj(&[("what", jstr("a later call through a re-used geometry builder changed earlier indices")), ("input", jstr(&text))]));
                    }
                }
            }
        }
    }
}

struct Cx<'a> {
    w: &'a mut ShardWriter,
    st: &'a mut Stats,
    idx: &'a mut std::fs::File,
    id: usize,
}

fn report(cx: &mut Cx, job: &Job, kind: &str, modulus: u64, max: u64, pre_v: usize, pre_i: &[u32], fail_at: Option<usize>, o: &RunOut) {
    use std::io::Write;
    let label = format!("{} fail_at={:?} prefill=({} vertices, {} indices) index={} {:?}", kind, fail_at, pre_v, pre_i.len(), if modulus == 65536 { "u16" } else { "u32" }, job);
    cx.st.inc("evaluations");
    cx.st.inc(&format!("kind_{}", kind));
    cx.st.note_case(&label, o.calls.len() > 2);
    let ok = match o.ok {
        Some(b) => b,
        None => {
            cx.st.fail(jobj(&[("what", jstr("tessellation panicked")), ("input", jstr(&label))]));
            return;
        }
    };
    cx.st.inc(if ok { "returned_ok" } else { "returned_err" });
    // ---- direct evaluation
    if fail_at.map(|k| k < o.seen).unwrap_or(false) && ok {
        cx.st.fail(jobj(&[("what", jstr("the builder refused a vertex but the call returned Ok")), ("input", jstr(&label))]));
    }
    if let Err(e) = trace_ok(ok, &o.calls) {
        cx.st.fail(jobj(&[("what", jstr(&format!("geometry-builder protocol violated: {}", e))), ("input", jstr(&format!("{} trace {:?}", label, o.calls)))]));
    }
    if !ok {
        if o.nverts_after != pre_v || o.indices_after != pre_i {
            cx.st.fail(jobj(&[
                ("what", jstr("a failed call did not leave the caller's buffers as they were")),
                ("input", jstr(&format!("{}: vertices {} -> {}, indices {} -> {}", label, pre_v, o.nverts_after, pre_i.len(), o.indices_after.len()))),
            ]));
        }
    } else {
        if o.indices_after.len() < pre_i.len() || o.indices_after[..pre_i.len()] != pre_i[..] || o.nverts_after < pre_v {
            cx.st.fail(jobj(&[("what", jstr("earlier buffer contents were modified by a successful call")), ("input", jstr(&label))]));
        }
        for i in &o.indices_after[pre_i.len().min(o.indices_after.len())..] {
            if (*i as usize) < pre_v || (*i as usize) >= o.nverts_after {
                cx.st.fail(jobj(&[("what", jstr("a new index does not point at a new vertex")), ("input", jstr(&format!("{} index {}", label, i)))]));
                break;
            }
        }
    }
    cx.st.sample(format!("{} -> ok={} {} calls", label, ok, o.calls.len()));
    writeln!(cx.idx, "{}\t{}", cx.id, label).ok();
    cx.w.push(format!(
        "(mkGC {} {} {} {} {} {} {} {} {})",
        cx.id,
        gbool(ok),
        modulus,
        max,
        pre_v,
        glist(pre_i.iter().map(|i| format!("{}", i))),
        gtrace(&o.calls),
        o.nverts_after,
        glist(o.indices_after.iter().map(|i| format!("{}", i)))
    ));
    cx.id += 1;
}

fn jobs(args: &Args, rng: &mut Rng) -> Vec<Job> {
    let mut v = Vec::new();
    let sq = PathSpec::from_polylines(&[vec![(0.0, 0.0), (4.0, 0.0), (4.0, 4.0), (0.0, 4.0)]], &[true]);
    let bow = PathSpec::from_polylines(&[vec![(0.0, 0.0), (4.0, 4.0), (4.0, 0.0), (0.0, 4.0)], vec![(1.0, 1.0), (2.0, 1.0), (1.5, 3.0)]], &[true, false]);
    let mut curved = random_curved(rng, 0, 2, 3, 8);
    curved.subs[0].close = true;
    let attr = random_curved(rng, 2, 2, 3, 8);
    let empty = PathSpec { n_attr: 0, subs: vec![] };
    let single = PathSpec::from_polylines(&[vec![(1.0, 1.0)]], &[true]);
    let mut specs = vec![sq, bow, curved, attr, empty, single];
    let extra = if args.thorough() { 12 } else { 2 };
    for _ in 0..extra {
        specs.push(random_polygonal(rng, 3, 6, 6));
        let na = rng.below(3) as usize;
        specs.push(random_curved(rng, na, 2, 4, 8));
    }
    for spec in &specs {
        for e in FILL_ENTRIES {
            if spec.n_attr > 0 && matches!(e, Entry::Tessellate | Entry::Polygon) {
                continue;
            }
            v.push(Job::Fill(e, spec.clone()));
        }
        for (k, e) in FILL_ENTRIES.iter().enumerate() {
            if spec.n_attr > 0 && matches!(e, Entry::Tessellate | Entry::Polygon) {
                continue;
            }
            let joins = [LineJoin::Miter, LineJoin::Round, LineJoin::Bevel, LineJoin::MiterClip];
            let caps = [LineCap::Butt, LineCap::Round, LineCap::Square];
            v.push(Job::Stroke(*e, spec.clone(), joins[k % 4], caps[k % 3]));
        }
    }
    // variable line width (attribute 0; widths change slowly against the edge lengths): paths with custom attributes
    // through the entry points that carry them
    {
        use crate::tess::{Seg, Sub};
        let p = |x: f32, y: f32| lyon_path::math::point(x, y);
        let vw = PathSpec {
            n_attr: 1,
            subs: vec![
                Sub { start: p(0.0, 0.0), start_attrs: vec![1.0], segs: vec![Seg::Line(p(10.0, 0.0), vec![1.5]), Seg::Line(p(10.0, 10.0), vec![1.0]), Seg::Line(p(0.0, 10.0), vec![2.0])], close: true },
                Sub { start: p(20.0, 0.0), start_attrs: vec![2.0], segs: vec![Seg::Quad(p(30.0, 0.0), p(30.0, 10.0), vec![1.0]), Seg::Cubic(p(30.0, 20.0), p(20.0, 20.0), p(20.0, 30.0), vec![1.5])], close: false },
            ],
        };
        let joins = [LineJoin::Miter, LineJoin::Round, LineJoin::Bevel, LineJoin::MiterClip];
        let caps = [LineCap::Butt, LineCap::Round, LineCap::Square];
        for (k, e) in FILL_ENTRIES.iter().enumerate() {
            if matches!(e, Entry::Tessellate | Entry::Polygon) {
                continue;
            }
            v.push(Job::StrokeVar(*e, vw.clone(), joins[k % 4], caps[k % 3]));
        }
    }
    for s in [
        Shape::Rect(0.0, 0.0, 3.0, 2.0),
        Shape::Circle(1.0, 1.0, 2.0),
        Shape::Circle(1.0, 1.0, 0.0),
        Shape::Circle(0.0, 0.0, 50.0),
        Shape::Ellipse(0.0, 0.0, 3.0, 2.0, 0.5),
        Shape::Rect(1.0, 1.0, 0.0, 0.0),
    ] {
        v.push(Job::FillShape(s.clone()));
        v.push(Job::StrokeShape(s));
    }
    // invalid tolerances on polygonal input and on the shapes
    let sq2 = PathSpec::from_polylines(&[vec![(0.0, 0.0), (4.0, 0.0), (4.0, 4.0), (0.0, 4.0)]], &[true]);
    for t in [0.0f32, -1.0, f32::NAN] {
        for e in FILL_ENTRIES {
            v.push(Job::FillTol(e, sq2.clone(), t));
        }
        for s in [Shape::Rect(0.0, 0.0, 3.0, 2.0), Shape::Circle(1.0, 1.0, 2.0), Shape::Ellipse(0.0, 0.0, 3.0, 2.0, 0.5)] {
            v.push(Job::FillShapeTol(s, t));
        }
    }
    v
}

pub fn main(args: &Args) -> std::io::Result<()> {
    let mut st = Stats::default();
    let mut w = ShardWriter::new(&args.out, "c04_cases", args.shards, HEADER, "bad_cases");
    w.disabled = args.direct_only();
    let mut idx = std::fs::File::create(args.out.join("c04_index.txt"))?;
    let mut rng = Rng::new(args.seed ^ 0x04);
    let js = jobs(args, &mut rng);
    let mut cx = Cx { w: &mut w, st: &mut st, idx: &mut idx, id: 0 };
    let pre_i: Vec<u32> = vec![0, 1, 2, 2, 1, 3];
    for job in &js {
        // un-faulted run on pre-existing buffer contents
        let base = run_job_u32(job, 4, &pre_i, None);
        report(&mut cx, job, "unfaulted", 4294967296, 4294967295, 4, &pre_i, None, &base);
        let nv = base.seen;
        cx.st.add("fault_positions", nv as u64);
        inverted_winding_checks(job, cx.st, nv);
        vertex_offset_checks(job, cx.st, nv);
        // the builder refuses the k-th vertex, for every k
        let step = if args.thorough() || nv <= 60 { 1 } else { (nv / 60).max(1) };
        let mut k = 0;
        while k < nv {
            let o = run_job_u32(job, 4, &pre_i, Some(k));
            report(&mut cx, job, "refused_vertex", 4294967296, 4294967295, 4, &pre_i, Some(k), &o);
            k += step;
        }
        // natural overflow of a u16 index buffer: pre-filled so that the j-th new vertex is one too many
        let pre16: Vec<u16> = vec![0, 1, 2];
        let pre16_32: Vec<u32> = pre16.iter().map(|i| *i as u32).collect();
        for j in [0usize, 1, 2, 3, 5, 9] {
            if j > nv {
                continue;
            }
            let pre_v = 65535 - j;
            let o = run_job_u16(job, pre_v, &pre16, None);
            report(&mut cx, job, "u16_overflow", 65536, 65535, pre_v, &pre16_32, None, &o);
        }
    }
    drop(cx);
    builder_reuse_checks(&js, &mut st);
    w.finish()?;
    st.write(&args.out.join("c04_stats.json"))
}
