//! Shared helpers: deterministic PRNG, Gallina literal printing, shard writer, stats.
#![allow(dead_code)]
use std::collections::BTreeMap;
use std::fmt::Write as _;
use std::io::Write as _;
use std::path::{Path, PathBuf};

/// splitmix64: every random choice of a run derives from one seed.
#[derive(Clone)]
pub struct Rng(pub u64);

impl Rng {
    pub fn new(seed: u64) -> Self {
        Rng(seed.wrapping_mul(0x9E37_79B9_7F4A_7C15) ^ 0xD1B5_4A32_D192_ED03)
    }
    pub fn next_u64(&mut self) -> u64 {
        self.0 = self.0.wrapping_add(0x9E37_79B9_7F4A_7C15);
        let mut z = self.0;
        z = (z ^ (z >> 30)).wrapping_mul(0xBF58_476D_1CE4_E5B9);
        z = (z ^ (z >> 27)).wrapping_mul(0x94D0_49BB_1331_11EB);
        z ^ (z >> 31)
    }
    /// uniform in 0..n (n > 0)
    pub fn below(&mut self, n: u64) -> u64 {
        self.next_u64() % n
    }
    pub fn range(&mut self, lo: i64, hi: i64) -> i64 {
        lo + self.below((hi - lo + 1) as u64) as i64
    }
    pub fn chance(&mut self, num: u64, den: u64) -> bool {
        self.below(den) < num
    }
    pub fn pick<'a, T>(&mut self, xs: &'a [T]) -> &'a T {
        &xs[self.below(xs.len() as u64) as usize]
    }
    pub fn unit_f64(&mut self) -> f64 {
        (self.next_u64() >> 11) as f64 / (1u64 << 53) as f64
    }
}

// ---------------------------------------------------------------- Gallina

pub fn gz(v: i64) -> String {
    if v < 0 {
        format!("({})", v)
    } else {
        format!("{}", v)
    }
}

pub const NAN_SENTINEL: i64 = 987_654_321;

/// An integer-valued float as a Z literal; NaN / non-integers map to a sentinel the
/// model never produces.
pub fn gzf(v: f32) -> String {
    if v.is_finite() && v == v.trunc() && v.abs() < 1.0e9 {
        gz(v as i64)
    } else {
        gz(NAN_SENTINEL)
    }
}

pub fn gbool(b: bool) -> &'static str {
    if b {
        "true"
    } else {
        "false"
    }
}

pub fn glist<I: IntoIterator<Item = String>>(items: I) -> String {
    let v: Vec<String> = items.into_iter().collect();
    format!("[{}]", v.join("; "))
}

pub fn gopt(o: Option<String>) -> String {
    match o {
        Some(s) => format!("(Some {})", s),
        None => "None".to_string(),
    }
}

pub fn gpair(a: &str, b: &str) -> String {
    format!("({}, {})", a, b)
}

/// exact rational value of a finite f64 as a Gallina Q literal `(num # den)` with den a power of two
pub fn gq64(v: f64) -> String {
    let (n, d) = f64_to_ratio(v);
    format!("({} # {})", gz_big(&n), d)
}

pub fn gq32(v: f32) -> String {
    gq64(v as f64)
}

fn gz_big(s: &str) -> String {
    if s.starts_with('-') {
        format!("({})", s)
    } else {
        s.to_string()
    }
}

/// Decompose a finite f64 into (numerator as decimal string, denominator as decimal string).
pub fn f64_to_ratio(v: f64) -> (String, String) {
    assert!(v.is_finite());
    if v == 0.0 {
        return ("0".into(), "1".into());
    }
    let bits = v.to_bits();
    let sign = if (bits >> 63) != 0 { -1i128 } else { 1 };
    let exp = ((bits >> 52) & 0x7ff) as i32;
    let frac = bits & ((1u64 << 52) - 1);
    let (mut m, mut e) = if exp == 0 {
        (frac as u128, -1074)
    } else {
        ((frac | (1u64 << 52)) as u128, exp - 1075)
    };
    while m % 2 == 0 && e < 0 {
        m /= 2;
        e += 1;
    }
    if e >= 0 {
        // integer value: m * 2^e ; keep it within what we print
        let big = big_mul_pow2(m, e as u32);
        let s = if sign < 0 { format!("-{}", big) } else { big };
        (s, "1".into())
    } else {
        let den = big_mul_pow2(1, (-e) as u32);
        let s = if sign < 0 { format!("-{}", m) } else { format!("{}", m) };
        (s, den)
    }
}

/// decimal string of m * 2^k for arbitrary k (simple bignum on decimal digits)
fn big_mul_pow2(m: u128, k: u32) -> String {
    let mut digits: Vec<u8> = m.to_string().bytes().rev().map(|b| b - b'0').collect();
    for _ in 0..k {
        let mut carry = 0u8;
        for d in digits.iter_mut() {
            let v = *d * 2 + carry;
            *d = v % 10;
            carry = v / 10;
        }
        if carry > 0 {
            digits.push(carry);
        }
    }
    digits.iter().rev().map(|d| (b'0' + d) as char).collect()
}

// ---------------------------------------------------------------- shards

/// Writes Gallina case literals into `shards` files `<prefix>_<i>.v`, round-robin.
pub struct ShardWriter {
    pub dir: PathBuf,
    pub prefix: String,
    pub header: String,
    pub footer_fn: String,
    bufs: Vec<Vec<String>>,
    next: usize,
    pub disabled: bool,
}

impl ShardWriter {
    /// `header`: the Require/Open Scope lines; `footer_fn`: name of the function applied to `cases`.
    pub fn new(dir: &Path, prefix: &str, shards: usize, header: &str, footer_fn: &str) -> Self {
        ShardWriter {
            dir: dir.to_path_buf(),
            prefix: prefix.to_string(),
            header: header.to_string(),
            footer_fn: footer_fn.to_string(),
            bufs: vec![Vec::new(); shards.max(1)],
            next: 0,
            disabled: false,
        }
    }
    pub fn push(&mut self, case_literal: String) {
        if self.disabled {
            self.next += 1;
            return;
        }
        let n = self.bufs.len();
        self.bufs[self.next % n].push(case_literal);
        self.next += 1;
    }
    pub fn count(&self) -> usize {
        self.next
    }
    pub fn finish(self) -> std::io::Result<Vec<PathBuf>> {
        let mut out = Vec::new();
        for (i, b) in self.bufs.iter().enumerate() {
            if b.is_empty() {
                continue;
            }
            let p = self.dir.join(format!("{}_{}.v", self.prefix, i));
            let mut f = std::io::BufWriter::new(std::fs::File::create(&p)?);
            writeln!(f, "{}", self.header)?;
            writeln!(f, "Definition cases := [")?;
            for (j, c) in b.iter().enumerate() {
                if j + 1 < b.len() {
                    writeln!(f, "{};", c)?;
                } else {
                    writeln!(f, "{}", c)?;
                }
            }
            writeln!(f, "].")?;
            writeln!(f, "Eval vm_compute in ({} cases).", self.footer_fn)?;
            out.push(p);
        }
        Ok(out)
    }
}

// ---------------------------------------------------------------- stats

/// Counters + samples written as JSON for the evidence file.
#[derive(Default)]
pub struct Stats {
    pub counters: BTreeMap<String, u64>,
    pub samples: Vec<String>,
    pub failures: Vec<String>, // JSON objects (already serialised)
    pub distinct: std::collections::BTreeSet<u64>,
    pub distinct_nontrivial: std::collections::BTreeSet<u64>,
    pub sample_ctr: u64,
    pub classified_kept: u64,
    pub per_class: BTreeMap<String, u64>,
    pub unclassified_kept: u64,
}

impl Stats {
    pub fn inc(&mut self, k: &str) {
        *self.counters.entry(k.to_string()).or_insert(0) += 1;
    }
    pub fn add(&mut self, k: &str, n: u64) {
        *self.counters.entry(k.to_string()).or_insert(0) += n;
    }
    /// keeps a few cases spread over the run (not just the first, smallest ones)
    pub fn sample(&mut self, s: String) {
        self.sample_ctr += 1;
        let c = self.sample_ctr;
        if (c == 5 || c == 60 || c == 400 || c == 1500 || c == 1700 || c == 2000 || c == 5000) && s.len() < 1500 {
            self.samples.push(s);
        }
    }
    pub fn note_case(&mut self, canonical: &str, nontrivial: bool) {
        let h = fnv(canonical);
        self.distinct.insert(h);
        if nontrivial {
            self.distinct_nontrivial.insert(h);
        }
    }
    pub fn fail(&mut self, json_obj: String) {
        // failures that carry a known-finding class are kept up to 40 per run, the others up to 200,
        // so that an unclassified failure is never crowded out by known ones
        if let Some(i) = json_obj.find("\"class\":") {
            // keep up to 15 examples per known-finding class
            let cls: String = json_obj[i + 8..].chars().skip_while(|c| *c != '"').skip(1).take_while(|c| *c != '"').collect();
            let k = self.per_class.entry(cls).or_insert(0);
            *k += 1;
            if *k <= 15 {
                self.failures.push(json_obj);
            }
            self.inc("direct_failures_classified");
        } else {
            self.unclassified_kept += 1;
            if self.unclassified_kept <= 200 {
                self.failures.push(json_obj);
            }
            self.inc("direct_failures_unclassified");
        }
        self.inc("direct_failures");
    }
    pub fn write(&self, path: &Path) -> std::io::Result<()> {
        let mut s = String::new();
        s.push_str("{\n \"counters\": {");
        let mut first = true;
        for (k, v) in &self.counters {
            if !first {
                s.push(',');
            }
            first = false;
            write!(s, "\n  {}: {}", jstr(k), v).unwrap();
        }
        s.push_str("\n },\n");
        write!(s, " \"distinct\": {},\n", self.distinct.len()).unwrap();
        write!(s, " \"distinct_nontrivial\": {},\n", self.distinct_nontrivial.len()).unwrap();
        s.push_str(" \"samples\": [");
        for (i, x) in self.samples.iter().enumerate() {
            if i > 0 {
                s.push(',');
            }
            write!(s, "\n  {}", jstr(x)).unwrap();
        }
        s.push_str("\n ],\n \"failures\": [");
        for (i, x) in self.failures.iter().enumerate() {
            if i > 0 {
                s.push(',');
            }
            write!(s, "\n  {}", x).unwrap();
        }
        s.push_str("\n ]\n}\n");
        std::fs::write(path, s)
    }
}

pub fn fnv(s: &str) -> u64 {
    let mut h: u64 = 0xcbf29ce484222325;
    for b in s.bytes() {
        h ^= b as u64;
        h = h.wrapping_mul(0x100000001b3);
    }
    h
}

pub fn jstr(s: &str) -> String {
    let mut o = String::with_capacity(s.len() + 2);
    o.push('"');
    for c in s.chars() {
        match c {
            '"' => o.push_str("\\\""),
            '\\' => o.push_str("\\\\"),
            '\n' => o.push_str("\\n"),
            '\r' => o.push_str("\\r"),
            '\t' => o.push_str("\\t"),
            c if (c as u32) < 0x20 => {
                write!(o, "\\u{:04x}", c as u32).unwrap();
            }
            c => o.push(c),
        }
    }
    o.push('"');
    o
}

/// JSON object from key / already-serialised-value pairs.
pub fn jobj(fields: &[(&str, String)]) -> String {
    let parts: Vec<String> = fields.iter().map(|(k, v)| format!("{}: {}", jstr(k), v)).collect();
    format!("{{{}}}", parts.join(", "))
}

/// Run `f`, catching panics (the default panic hook is silenced by main).
pub fn catch<T, F: FnOnce() -> T + std::panic::UnwindSafe>(f: F) -> Option<T> {
    std::panic::catch_unwind(f).ok()
}

pub struct Args {
    pub tier: String,
    pub seed: u64,
    pub out: PathBuf,
    pub shards: usize,
    pub replay: Option<String>,
    pub extra: Vec<String>,
}

impl Args {
    pub fn thorough(&self) -> bool {
        self.tier == "thorough"
    }
    /// search mode: only evaluate the property directly, do not print cases for the model
    pub fn direct_only(&self) -> bool {
        self.extra.iter().any(|a| a == "--direct-only")
    }
}

/// Leave a note naming the input being processed: if the library hangs or aborts (stack overflow) the driver
/// reports it as the failing input.  Removed by `clear_breadcrumb` when the run completes.
pub fn breadcrumb(out: &Path, text: &str) {
    let _ = std::fs::write(out.join("current_case.txt"), text);
}
pub fn clear_breadcrumb(out: &Path) {
    let _ = std::fs::remove_file(out.join("current_case.txt"));
}
