//! C16: flatten / transform adapters.  Builder programs with curves and 0..3 attributes
//! x exact transforms x tolerances x nesting orders.
use crate::tess::*;
use crate::util::*;
use lyon_path::builder::{Build, Flattened, PathBuilder};
use lyon_path::geom::euclid::default::Transform2D;
use lyon_path::geom::{CubicBezierSegment, QuadraticBezierSegment};
use lyon_path::iterator::PathIterator;
use lyon_path::math::{point, Point};
use lyon_path::{Attributes, EndpointId, Event, Path, PathEvent};
use std::panic::AssertUnwindSafe;

pub const HEADER: &str =
    "From Coq Require Import QArith.\nFrom LV Require Import Base.Prelude Model.Flatten Run.C16.\nOpen Scope Q_scope.";

#[derive(Clone, Debug, PartialEq)]
enum Call {
    Begin(Point, Vec<f32>),
    Line(Point, Vec<f32>),
    Curve, // a curve reached the wrapped builder: must not happen behind Flattened
    End(bool),
}

struct Rec {
    n: usize,
    calls: Vec<Call>,
}
impl PathBuilder for Rec {
    fn num_attributes(&self) -> usize {
        self.n
    }
    fn begin(&mut self, at: Point, a: Attributes) -> EndpointId {
        self.calls.push(Call::Begin(at, a.to_vec()));
        EndpointId(0)
    }
    fn end(&mut self, close: bool) {
        self.calls.push(Call::End(close));
    }
    fn line_to(&mut self, to: Point, a: Attributes) -> EndpointId {
        self.calls.push(Call::Line(to, a.to_vec()));
        EndpointId(0)
    }
    fn quadratic_bezier_to(&mut self, _c: Point, _to: Point, _a: Attributes) -> EndpointId {
        self.calls.push(Call::Curve);
        EndpointId(0)
    }
    fn cubic_bezier_to(&mut self, _c1: Point, _c2: Point, _to: Point, _a: Attributes) -> EndpointId {
        self.calls.push(Call::Curve);
        EndpointId(0)
    }
}
impl Build for Rec {
    type PathType = Vec<Call>;
    fn build(self) -> Vec<Call> {
        self.calls
    }
}

fn gq(v: f32) -> String {
    if v.is_finite() {
        gq32(v)
    } else {
        "(123456789 # 1)".into()
    }
}
fn gp(p: Point) -> String {
    format!("({}, {})", gq(p.x), gq(p.y))
}
fn ga(a: &[f32]) -> String {
    glist(a.iter().map(|v| gq(*v)))
}

fn positions(path: &Path) -> Vec<PathEvent> {
    path.iter().collect()
}

pub fn main(args: &Args) -> std::io::Result<()> {
    use std::io::Write;
    let mut st = Stats::default();
    let mut w = ShardWriter::new(&args.out, "c16_cases", args.shards, HEADER, "bad_cases");
    w.disabled = args.direct_only();
    let mut idx = std::fs::File::create(args.out.join("c16_index.txt"))?;
    let mut rng = Rng::new(args.seed ^ 0x16);
    let n = if args.thorough() { 6000 } else { 800 };
    let mut id = 0usize;
    for it in 0..n {
        let n_attr = (it % 4) as usize;
        let mut spec = random_curved(&mut rng, n_attr, 3, 4, 12);
        // attribute values far apart so that stale data is visible
        let mut k = 0.0f32;
        for s in spec.subs.iter_mut() {
            k += 100.0;
            for (i, a) in s.start_attrs.iter_mut().enumerate() {
                *a = k + i as f32;
            }
            for g in s.segs.iter_mut() {
                k += 100.0;
                let a = match g {
                    Seg::Line(_, a) | Seg::Quad(_, _, a) | Seg::Cubic(_, _, _, a) => a,
                };
                for (i, v) in a.iter_mut().enumerate() {
                    *v = k + i as f32;
                }
            }
        }
        // sometimes start a sub-path directly with a curve
        if it % 3 == 0 {
            for s in spec.subs.iter_mut() {
                if let Some(first) = s.segs.first_mut() {
                    if let Seg::Line(p, a) = first.clone() {
                        *first = Seg::Quad(point(p.x + 3.0, p.y - 2.0), p, a);
                    }
                }
            }
        }
        let tol = *rng.pick(&[1.0f32, 0.25, 0.05]);
        let label = format!("{:?} tol {}", spec, tol);
        st.inc("evaluations");
        st.inc(&format!("nattr_{}", n_attr));
        let has_curve = spec.subs.iter().any(|s| s.segs.iter().any(|g| !matches!(g, Seg::Line(..))));
        st.note_case(&label, has_curve);

        // ---------------- builder::Flattened around a recording builder
        let r = catch(AssertUnwindSafe(|| {
            let mut fb = Flattened::new(Rec { n: n_attr, calls: vec![] }, tol);
            spec.replay(&mut fb);
            fb.build()
        }));
        let calls = match r {
            Some(c) => c,
            None => {
                st.fail(jobj(&[("what", jstr("builder::Flattened panicked")), ("input", jstr(&label))]));
                continue;
            }
        };
        // the adapters' setters: a tolerance / transform set before the first command is the one given at construction
        {
            let via_setter = catch(AssertUnwindSafe(|| {
                let mut fb = Flattened::new(Rec { n: n_attr, calls: vec![] }, tol * 7.0 + 1.0);
                fb.set_tolerance(tol);
                spec.replay(&mut fb);
                fb.build()
            }));
            if via_setter.as_ref() != Some(&calls) {
                st.fail(jobj(&[("what", jstr("Flattened::set_tolerance before the first command differs from constructing with that tolerance")), ("input", jstr(&label))]));
            }
        }
        // expected calls: oracle = for_each_flattened_with_t, attributes lerp(prev, attr, t)
        let mut expect: Vec<Call> = Vec::new();
        let mut ops_lit: Vec<String> = Vec::new();
        for s in &spec.subs {
            expect.push(Call::Begin(s.start, s.start_attrs.clone()));
            ops_lit.push(format!("FBegin _ _ _ {} {}", gp(s.start), ga(&s.start_attrs)));
            let mut cur = s.start;
            let mut prev = s.start_attrs.clone();
            for g in &s.segs {
                match g {
                    Seg::Line(p, a) => {
                        expect.push(Call::Line(*p, a.clone()));
                        ops_lit.push(format!("FLine _ _ _ {} {}", gp(*p), ga(a)));
                        cur = *p;
                        prev = a.clone();
                    }
                    Seg::Quad(c, p, a) => {
                        let mut pts = Vec::new();
                        QuadraticBezierSegment { from: cur, ctrl: *c, to: *p }.for_each_flattened_with_t(tol, &mut |l, t| pts.push((l.to, t.end)));
                        for (q, t) in &pts {
                            let at: Vec<f32> = if *t == 1.0 { a.clone() } else { prev.iter().zip(a.iter()).map(|(x, y)| x * (1.0 - t) + y * t).collect() };
                            expect.push(Call::Line(*q, at));
                        }
                        ops_lit.push(format!("FCurve _ _ _ {} {} {}", glist(pts.iter().map(|(q, t)| format!("({}, {})", gp(*q), gq(*t)))), gp(*p), ga(a)));
                        cur = *p;
                        prev = a.clone();
                    }
                    Seg::Cubic(c1, c2, p, a) => {
                        let mut pts = Vec::new();
                        CubicBezierSegment { from: cur, ctrl1: *c1, ctrl2: *c2, to: *p }.for_each_flattened_with_t(tol, &mut |l, t| pts.push((l.to, t.end)));
                        for (q, t) in &pts {
                            let at: Vec<f32> = if *t == 1.0 { a.clone() } else { prev.iter().zip(a.iter()).map(|(x, y)| x * (1.0 - t) + y * t).collect() };
                            expect.push(Call::Line(*q, at));
                        }
                        ops_lit.push(format!("FCurve _ _ _ {} {} {}", glist(pts.iter().map(|(q, t)| format!("({}, {})", gp(*q), gq(*t)))), gp(*p), ga(a)));
                        cur = *p;
                        prev = a.clone();
                    }
                }
            }
            expect.push(Call::End(s.close));
            ops_lit.push(format!("FEnd _ _ _ {}", gbool(s.close)));
        }
        if calls.iter().any(|c| *c == Call::Curve) {
            st.fail(jobj(&[("what", jstr("flattened path still contains a curve")), ("input", jstr(&label))]));
        }
        if calls != expect {
            // say which clause fails
            let same_pos = calls.len() == expect.len()
                && calls.iter().zip(expect.iter()).all(|(a, b)| match (a, b) {
                    (Call::Begin(p, _), Call::Begin(q, _)) | (Call::Line(p, _), Call::Line(q, _)) => p == q,
                    (Call::End(x), Call::End(y)) => x == y,
                    _ => false,
                });
            let what = if same_pos {
                "a point inserted by flattening does not carry attributes interpolated between the curve's end points"
            } else {
                "builder::Flattened does not emit the flattened program (positions / endpoints)"
            };
            st.fail(jobj(&[("what", jstr(what)), ("input", jstr(&format!("{} got {:?} expected {:?}", label, calls, expect)))]));
        }
        // ---------------- same through the stored path: iterator adapter and for_each_flattened
        let path = spec.build();
        let via_iter: Vec<PathEvent> = path.iter().flattened(tol).collect();
        if via_iter.iter().any(|e| matches!(e, Event::Quadratic { .. } | Event::Cubic { .. })) {
            st.fail(jobj(&[("what", jstr("iterator::Flattened still yields a curve")), ("input", jstr(&label))]));
        }
        let lines_iter: Vec<Point> = via_iter.iter().filter_map(|e| if let Event::Line { to, .. } = e { Some(*to) } else { None }).collect();
        let lines_builder: Vec<Point> = calls.iter().filter_map(|c| if let Call::Line(p, _) = c { Some(*p) } else { None }).collect();
        if lines_iter.len() != lines_builder.len() || lines_iter.iter().zip(lines_builder.iter()).any(|(a, b)| (*a - *b).length() > tol) {
            st.fail(jobj(&[("what", jstr("iterator::Flattened and builder::Flattened disagree")), ("input", jstr(&label))]));
        }
        {
            // IterWithAttributes::for_each_flattened: attributes of inserted points are lerped
            let mut got: Vec<(Point, Vec<f32>)> = Vec::new();
            // every edge starts where (and with the attributes with which) the previous one ended
            let mut prev: Option<(Point, Vec<f32>)> = None;
            let mut chain_ok = true;
            path.iter_with_attributes().for_each_flattened(tol, &mut |e| match e {
                Event::Begin { at } => prev = Some((at.0, at.1.to_vec())),
                Event::Line { from, to } => {
                    if prev.as_ref() != Some(&(from.0, from.1.to_vec())) {
                        chain_ok = false;
                    }
                    got.push((to.0, to.1.to_vec()));
                    prev = Some((to.0, to.1.to_vec()));
                }
                Event::End { last, .. } => {
                    if prev.as_ref() != Some(&(last.0, last.1.to_vec())) {
                        chain_ok = false;
                    }
                }
                _ => chain_ok = false,
            });
            if !chain_ok {
                st.fail(jobj(&[("what", jstr("IterWithAttributes::for_each_flattened: an edge does not start where, or with the attributes with which, the previous one ended")), ("input", jstr(&label))]));
            }
            let want: Vec<(Point, Vec<f32>)> = expect.iter().filter_map(|c| if let Call::Line(p, a) = c { Some((*p, a.clone())) } else { None }).collect();
            if got != want {
                st.fail(jobj(&[("what", jstr("IterWithAttributes::for_each_flattened differs from the flattened program")), ("input", jstr(&label))]));
            }
        }
        // ---------------- transforms: while building, while iterating, after storing
        let m: Vec<f32> = (0..6).map(|_| rng.range(-3, 3) as f32).collect();
        let tr = Transform2D::new(m[0], m[1], m[2], m[3], m[4], m[5]);
        let r = catch(AssertUnwindSafe(|| {
            let mut tb = lyon_path::builder::Transformed::new(Path::builder_with_attributes(n_attr), tr);
            spec.replay(&mut tb);
            let a = tb.build();
            let b: Vec<PathEvent> = path.iter().transformed(&tr).collect();
            let c = path.clone().transformed(&tr);
            // set_transform before the first command
            let mut tb2 = lyon_path::builder::Transformed::new(Path::builder_with_attributes(n_attr), Transform2D::identity());
            tb2.set_transform(tr);
            spec.replay(&mut tb2);
            let a2 = tb2.build();
            if positions(&a2) != positions(&a) {
                panic!("set_transform differs");
            }
            (a, b, c)
        }));
        match r {
            None => st.fail(jobj(&[("what", jstr("transform adapter panicked")), ("input", jstr(&label))])),
            Some((a, b, c)) => {
                if positions(&a) != b || positions(&c) != b {
                    st.fail(jobj(&[("what", jstr("transforming while building / iterating / after storing give different positions")), ("input", jstr(&format!("{} transform {:?}", label, m)))]));
                }
                let attrs = |p: &Path| -> Vec<Vec<f32>> { p.iter_with_attributes().map(|e| match e { Event::Begin { at } => at.1.to_vec(), Event::Line { to, .. } | Event::Quadratic { to, .. } | Event::Cubic { to, .. } => to.1.to_vec(), Event::End { .. } => vec![] }).collect() };
                if attrs(&a) != attrs(&path) || attrs(&c) != attrs(&path) {
                    st.fail(jobj(&[("what", jstr("transform adapters changed the attributes")), ("input", jstr(&label))]));
                }
                // nesting orders: each is made of lines only and keeps every (transformed) endpoint in order
                let ft: Vec<PathEvent> = path.iter().transformed(&tr).flattened(tol).collect();
                let tf: Vec<PathEvent> = path.iter().flattened(tol).transformed(&tr).collect();
                for (name, evs) in [("flattened(transformed)", &ft), ("transformed(flattened)", &tf)] {
                    if evs.iter().any(|e| matches!(e, Event::Quadratic { .. } | Event::Cubic { .. })) {
                        st.fail(jobj(&[("what", jstr(&format!("{} still yields a curve", name))), ("input", jstr(&label))]));
                    }
                    let pts: Vec<Point> = evs.iter().filter_map(|e| match e { Event::Begin { at } => Some(*at), Event::Line { to, .. } => Some(*to), _ => None }).collect();
                    let mut k = 0;
                    let mut ok = true;
                    for e in &b {
                        let want = match e { Event::Begin { at } => Some(*at), Event::Line { to, .. } | Event::Quadratic { to, .. } | Event::Cubic { to, .. } => Some(*to), _ => None };
                        if let Some(p) = want {
                            while k < pts.len() && pts[k] != p {
                                k += 1;
                            }
                            if k == pts.len() {
                                ok = false;
                                break;
                            }
                            k += 1;
                        }
                    }
                    if !ok {
                        st.fail(jobj(&[("what", jstr(&format!("{} lost an original endpoint", name))), ("input", jstr(&format!("{} transform {:?}", label, m)))]));
                    }
                }
            }
        }
        // ---------------- the routes the property names: Path::builder().flattened(e) / .transformed(m) / .with_svg(),
        // through the `Build` trait's adapters (builders with attributes), the NoAttributes builder's own adapters, and
        // WithSvg::{flattened, transformed, set_transform}
        {
            let want_lines: Vec<(Point, Vec<f32>)> = expect.iter().filter_map(|c| match c { Call::Begin(p, a) | Call::Line(p, a) => Some((*p, a.clone())), _ => None }).collect();
            let read = |p: &Path| -> Vec<(Point, Vec<f32>)> {
                p.iter_with_attributes().filter_map(|e| match e { Event::Begin { at } => Some((at.0, at.1.to_vec())), Event::Line { to, .. } => Some((to.0, to.1.to_vec())), Event::Quadratic { to, .. } | Event::Cubic { to, .. } => Some((to.0, vec![f32::NAN])), Event::End { .. } => None }).collect()
            };
            let r = catch(AssertUnwindSafe(|| {
                use lyon_path::traits::Build;
                let mut fb = Path::builder_with_attributes(n_attr).flattened(tol);
                spec.replay(&mut fb);
                let f = fb.build();
                let mut tb = Path::builder_with_attributes(n_attr).transformed(tr);
                spec.replay(&mut tb);
                let t = tb.build();
                (f, t)
            }));
            match r {
                None => st.fail(jobj(&[("what", jstr("builder_with_attributes().flattened / .transformed panicked")), ("input", jstr(&label))])),
                Some((f, t)) => {
                    if read(&f) != want_lines {
                        st.fail(jobj(&[("what", jstr("Path::builder_with_attributes(n).flattened(e) does not build the flattened program")), ("input", jstr(&label))]));
                    }
                    let tb: Vec<PathEvent> = path.iter().transformed(&tr).collect();
                    if positions(&t) != tb {
                        st.fail(jobj(&[("what", jstr("Path::builder_with_attributes(n).transformed(m) differs from transforming the iterator")), ("input", jstr(&label))]));
                    }
                }
            }
            if n_attr == 0 {
                let r = catch(AssertUnwindSafe(|| {
                    // NoAttributes adapters
                    let mut fb = Path::builder().flattened(tol);
                    let mut tb = Path::builder().transformed(tr);
                    // with_svg + its adapters; set_transform before the first command
                    let mut sf = Path::builder().with_svg().flattened(tol);
                    let mut stb = Path::builder().with_svg().transformed(Transform2D::identity());
                    stb.set_transform(tr);
                    for sub in &spec.subs {
                        fb.begin(sub.start);
                        tb.begin(sub.start);
                        sf.move_to(sub.start);
                        stb.move_to(sub.start);
                        for g in &sub.segs {
                            match g {
                                Seg::Line(p, _) => {
                                    fb.line_to(*p);
                                    tb.line_to(*p);
                                    sf.line_to(*p);
                                    stb.line_to(*p);
                                }
                                Seg::Quad(c, p, _) => {
                                    fb.quadratic_bezier_to(*c, *p);
                                    tb.quadratic_bezier_to(*c, *p);
                                    sf.quadratic_bezier_to(*c, *p);
                                    stb.quadratic_bezier_to(*c, *p);
                                }
                                Seg::Cubic(c1, c2, p, _) => {
                                    fb.cubic_bezier_to(*c1, *c2, *p);
                                    tb.cubic_bezier_to(*c1, *c2, *p);
                                    sf.cubic_bezier_to(*c1, *c2, *p);
                                    stb.cubic_bezier_to(*c1, *c2, *p);
                                }
                            }
                        }
                        if sub.close {
                            fb.close();
                            tb.close();
                            sf.close();
                            stb.close();
                        } else {
                            fb.end(false);
                            tb.end(false);
                        }
                    }
                    (fb.build(), tb.build(), sf.build(), stb.build())
                }));
                match r {
                    None => st.fail(jobj(&[("what", jstr("Path::builder() adapter route panicked")), ("input", jstr(&label))])),
                    Some((f, t, sf, stb)) => {
                        let tb: Vec<PathEvent> = path.iter().transformed(&tr).collect();
                        if read(&f) != want_lines {
                            st.fail(jobj(&[("what", jstr("Path::builder().flattened(e) does not build the flattened program")), ("input", jstr(&label))]));
                        }
                        if positions(&t) != tb {
                            st.fail(jobj(&[("what", jstr("Path::builder().transformed(m) differs from transforming the iterator")), ("input", jstr(&label))]));
                        }
                        // through with_svg an open sub-path is ended by the next move_to / build: same events
                        if read(&sf) != want_lines || positions(&sf) != positions(&f) {
                            st.fail(jobj(&[("what", jstr("Path::builder().with_svg().flattened(e) does not build the flattened program")), ("input", jstr(&label))]));
                        }
                        if positions(&stb) != tb {
                            st.fail(jobj(&[("what", jstr("with_svg().transformed + set_transform differs from transforming the iterator")), ("input", jstr(&label))]));
                        }
                    }
                }
            }
        }
        st.sample(format!("{} -> {} calls", label, calls.len()));
        writeln!(idx, "{}\t{}", id, label).ok();
        w.push(format!(
            "(mkAC {} {}%Z {} {})",
            id,
            n_attr,
            glist(ops_lit),
            glist(calls.iter().map(|c| match c {
                Call::Begin(p, a) => format!("CBegin _ _ {} {}", gp(*p), ga(a)),
                Call::Line(p, a) => format!("CLine _ _ {} {}", gp(*p), ga(a)),
                Call::Curve => "CEnd _ _ true".to_string(),
                Call::End(c) => format!("CEnd _ _ {}", gbool(*c)),
            }))
        ));
        id += 1;
    }
    w.finish()?;
    st.write(&args.out.join("c16_stats.json"))
}
