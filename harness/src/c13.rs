//! C13: elliptic arcs.  SVG endpoint form -> centre form (all flag combinations, radii too small,
//! rotations), round trip, Bezier approximations.  The algebraic part is compared with the Coq
//! model (oracles: cos/sin of the rotation, square roots); everything is also checked directly.
use crate::util::*;
use lyon_geom::{point, vector, Angle, Arc, ArcFlags, CubicBezierSegment, Point, QuadraticBezierSegment, SvgArc};
use std::panic::AssertUnwindSafe;

pub const HEADER: &str =
    "From Coq Require Import QArith.\nFrom LV Require Import Base.Prelude Model.Bezier Model.Arc Run.C13.\nOpen Scope Q_scope.";

fn gq(v: f64) -> String {
    if v.is_finite() {
        gq64(v)
    } else {
        "(123456789 # 1)".into()
    }
}

fn ellipse_dist(arc: &Arc<f64>, p: Point<f64>) -> f64 {
    // distance from p to the ellipse (dense sampling of the full ellipse)
    let mut d = f64::MAX;
    let full = Arc { center: arc.center, radii: arc.radii, start_angle: Angle::radians(0.0), sweep_angle: Angle::radians(2.0 * std::f64::consts::PI), x_rotation: arc.x_rotation };
    let n = 4096;
    for i in 0..n {
        let q = full.sample(i as f64 / n as f64);
        d = d.min((q - p).length());
    }
    d
}

pub fn main(args: &Args) -> std::io::Result<()> {
    use std::io::Write;
    let mut st = Stats::default();
    let mut w = ShardWriter::new(&args.out, "c13_cases", args.shards, HEADER, "bad_cases");
    w.disabled = args.direct_only();
    let mut idx = std::fs::File::create(args.out.join("c13_index.txt"))?;
    let mut rng = Rng::new(args.seed ^ 0x13);
    let n = if args.thorough() { 12000 } else { 1500 };
    let mut id = 0usize;
    let pi = std::f64::consts::PI;
    for it in 0..n {
        let from = point(rng.range(-10, 10) as f64, rng.range(-10, 10) as f64);
        let mut to = point(rng.range(-10, 10) as f64, rng.range(-10, 10) as f64);
        if to == from {
            to.x += 3.0;
        }
        // radii: normal, too small (scaled up), equal, tiny
        let chord = (to - from).length();
        let (rx, ry) = match it % 5 {
            0 => (chord * (0.6 + rng.unit_f64()), chord * (0.6 + rng.unit_f64())),
            1 => (chord * 0.2, chord * 0.3),
            2 => (chord, chord),
            3 => (chord * 0.5, chord * 0.5),
            _ => (1.0 + rng.below(20) as f64, 1.0 + rng.below(20) as f64),
        };
        let rot = match it % 3 {
            0 => 0.0,
            1 => (0.6f64).acos(), // 3-4-5 rotation
            _ => rng.range(-12, 12) as f64 * 0.3,
        };
        let flags = ArcFlags { large_arc: (it / 5) % 2 == 0, sweep: (it / 10) % 2 == 0 };
        let sa = SvgArc { from, to, radii: vector(if it % 7 == 0 { -rx } else { rx }, ry), x_rotation: Angle::radians(rot), flags };
        let label = format!("{:?}", sa);
        st.inc("evaluations");
        st.inc(&format!("flags_{}_{}", flags.large_arc as u8, flags.sweep as u8));
        st.note_case(&label, true);
        let r = catch(AssertUnwindSafe(|| {
            let arc = sa.to_arc();
            let back = arc.to_svg_arc();
            let mut quads: Vec<(QuadraticBezierSegment<f64>, f64, f64)> = Vec::new();
            arc.for_each_quadratic_bezier_with_t(&mut |q, t| quads.push((*q, t.start, t.end)));
            let mut cubics: Vec<CubicBezierSegment<f64>> = Vec::new();
            arc.for_each_cubic_bezier(&mut |c| cubics.push(*c));
            (arc, back, quads, cubics)
        }));
        let (arc, back, quads, cubics) = match r {
            Some(x) => x,
            None => {
                st.fail(jobj(&[("what", jstr("arc conversion panicked")), ("input", jstr(&label))]));
                continue;
            }
        };
        let scale = 1.0 + chord + rx.abs() + ry.abs();
        // ---- the consumers: the same arc through the SVG builder (arc_to / relative_arc_to) and through the
        // parser's A command must start at the current point, end at the requested point and stay on the ellipse
        {
            use lyon_path::traits::SvgPathBuilder;
            let f32p = |p: Point<f64>| lyon_path::math::point(p.x as f32, p.y as f32);
            let radii32 = lyon_path::math::vector(sa.radii.x as f32, sa.radii.y as f32);
            let rot32 = lyon_path::math::Angle::radians(rot as f32);
            let fl = lyon_path::ArcFlags { large_arc: flags.large_arc, sweep: flags.sweep };
            let via_builder = catch(AssertUnwindSafe(|| {
                let mut b = lyon_path::Path::svg_builder();
                b.move_to(f32p(from));
                if it % 2 == 0 {
                    b.arc_to(radii32, rot32, fl, f32p(to));
                } else {
                    b.relative_arc_to(radii32, rot32, fl, f32p(to) - f32p(from));
                }
                b.build()
            }));
            let via_parser = catch(AssertUnwindSafe(|| {
                let text = format!("M {} {} A {} {} {} {} {} {} {}", from.x, from.y, sa.radii.x as f32, sa.radii.y as f32, (rot as f32).to_degrees(), flags.large_arc as u8, flags.sweep as u8, to.x, to.y);
                let mut b = lyon_path::Path::builder();
                let r = lyon_extra::parser::PathParser::new().parse(&lyon_extra::parser::ParserOptions::DEFAULT, &mut lyon_extra::parser::Source::new(text.chars()), &mut b);
                (r.is_ok(), b.build())
            }));
            let check = |what: &str, path: &lyon_path::Path, st: &mut Stats| {
                let tol = 4e-3 * scale;
                let mut last = None;
                let mut first_from = None;
                let mut worst = 0.0f64;
                for e in path.iter() {
                    match e {
                        lyon_path::PathEvent::Line { from: a, to: b } => {
                            // only a negligible connector to the start of the arc is expected
                            if (b - a).length() as f64 > tol && !sa.is_straight_line() {
                                worst = f64::MAX;
                            }
                            first_from.get_or_insert(a);
                            last = Some(b);
                        }
                        lyon_path::PathEvent::Quadratic { from: a, ctrl, to: b } => {
                            first_from.get_or_insert(a);
                            let q = QuadraticBezierSegment { from: point(a.x as f64, a.y as f64), ctrl: point(ctrl.x as f64, ctrl.y as f64), to: point(b.x as f64, b.y as f64) };
                            for i in 0..=8 {
                                worst = worst.max(ellipse_dist(&arc, q.sample(i as f64 / 8.0)));
                            }
                            last = Some(b);
                        }
                        _ => {}
                    }
                }
                let rmax = arc.radii.x.max(arc.radii.y);
                let end_ok = last.map_or(false, |l| ((l.x as f64 - to.x).hypot(l.y as f64 - to.y)) <= tol);
                let start_ok = first_from.map_or(false, |l| ((l.x as f64 - from.x).hypot(l.y as f64 - from.y)) <= tol);
                if !end_ok || !start_ok {
                    st.fail(jobj(&[("what", jstr(&format!("{}: the arc does not run from the current point to the requested end point", what))), ("input", jstr(&format!("{} -> {:?}", label, path)))]));
                } else if !sa.is_straight_line() && worst > 0.012 * rmax + tol {
                    st.fail(jobj(&[("what", jstr(&format!("{}: the emitted curves stray from the ellipse of the arc", what))), ("input", jstr(&format!("{} -> {:?} (worst {})", label, path, worst)))]));
                }
            };
            st.inc("consumer_checks");
            match via_builder {
                None => st.fail(jobj(&[("what", jstr("WithSvg::arc_to panicked")), ("input", jstr(&label))])),
                Some(p) => check("SVG builder arc_to", &p, &mut st),
            }
            match via_parser {
                None => st.fail(jobj(&[("what", jstr("parsing an A command panicked")), ("input", jstr(&label))])),
                Some((ok, p)) => {
                    if !ok {
                        st.fail(jobj(&[("what", jstr("parsing a well-formed A command failed")), ("input", jstr(&label))]));
                    } else {
                        check("parser A command", &p, &mut st);
                    }
                }
            }
        }
        // ---- direct checks
        if (arc.from() - from).length() > 1e-7 * scale || (arc.to() - to).length() > 1e-7 * scale {
            st.fail(jobj(&[("what", jstr("centre-form arc does not start / end at the given points")), ("input", jstr(&format!("{} -> {:?}: from {:?} to {:?}", label, arc, arc.from(), arc.to())))]));
        }
        // radii: as given (absolute value) unless too small, then scaled uniformly so that the chord fits
        let (arx, ary) = (rx.abs(), ry.abs());
        let k = arc.radii.x / arx;
        if (arc.radii.y / ary - k).abs() > 1e-9 * k.max(1.0) || k < 1.0 - 1e-12 {
            st.fail(jobj(&[("what", jstr("radii were not kept or scaled up uniformly")), ("input", jstr(&format!("{} -> {:?}", label, arc.radii)))]));
        }
        let scaled = k > 1.0 + 1e-9;
        // direction and size selected by the flags
        let sw = arc.sweep_angle.radians;
        // radii too small for the chord are scaled by the smallest factor that makes it fit (SVG F.6.6): the square
        // root of (x'/rx)^2 + (y'/ry)^2 with (x', y') the half chord in the ellipse's frame; the chord is then a diameter
        {
            let (c0, s0) = (rot.cos(), rot.sin());
            let hd = ((from.x - to.x) / 2.0, (from.y - to.y) / 2.0);
            let p = (c0 * hd.0 + s0 * hd.1, -s0 * hd.0 + c0 * hd.1);
            let rf = p.0 * p.0 / (arx * arx) + p.1 * p.1 / (ary * ary);
            let want = if rf > 1.0 { rf.sqrt() } else { 1.0 };
            if (k - want).abs() > 1e-7 * want {
                st.fail(jobj(&[("what", jstr("radii too small for the chord are not scaled by the smallest factor that makes it fit")), ("input", jstr(&format!("{} -> radii {:?}: factor {} expected {}", label, arc.radii, k, want)))]));
            }
            if rf > 1.0 + 1e-6 && (sw.abs() - pi).abs() > 1e-5 {
                st.fail(jobj(&[("what", jstr("an arc whose radii were scaled up to fit the chord does not sweep half a turn")), ("input", jstr(&format!("{} -> sweep {}", label, sw)))]));
            }
        }
        if (flags.sweep && sw < -1e-9) || (!flags.sweep && sw > 1e-9) {
            st.fail(jobj(&[("what", jstr("sweep direction does not follow the sweep flag")), ("input", jstr(&format!("{} -> sweep {}", label, sw)))]));
        }
        if !scaled && (sw.abs() - pi).abs() > 1e-6 {
            if (sw.abs() > pi) != flags.large_arc {
                st.fail(jobj(&[("what", jstr("sweep size does not follow the large-arc flag")), ("input", jstr(&format!("{} -> sweep {}", label, sw)))]));
            }
        }
        if sw.abs() > 2.0 * pi + 1e-9 {
            st.fail(jobj(&[("what", jstr("sweep exceeds a full turn")), ("input", jstr(&format!("{} -> sweep {}", label, sw)))]));
        }
        // converting back returns the original (when the radii were not changed and the sweep is not ~pi)
        if !scaled && (sw.abs() - pi).abs() > 1e-6 && sw.abs() > 1e-6 {
            let same = (back.from - from).length() < 1e-7 * scale
                && (back.to - to).length() < 1e-7 * scale
                && (back.radii.x - arx).abs() < 1e-9 * scale
                && (back.radii.y - ary).abs() < 1e-9 * scale
                && back.flags.large_arc == flags.large_arc
                && back.flags.sweep == flags.sweep;
            if !same {
                st.fail(jobj(&[("what", jstr("to_svg_arc(from_svg_arc(a)) is not a")), ("input", jstr(&format!("{} -> {:?}", label, back)))]));
            }
        }
        // Bezier sequences: connected, on the arc's end points, parameter ranges in order ending at 1, close to the ellipse
        let rmax = arc.radii.x.max(arc.radii.y);
        if !quads.is_empty() {
            if (quads[0].0.from - arc.from()).length() > 1e-9 * scale || (quads.last().unwrap().0.to - arc.to()).length() > 1e-7 * scale {
                st.fail(jobj(&[("what", jstr("quadratic sequence does not start / end on the arc's end points")), ("input", jstr(&label))]));
            }
            if quads[0].1 != 0.0 || quads.last().unwrap().2 != 1.0 {
                st.fail(jobj(&[("what", jstr("quadratic sequence parameter ranges do not run from 0 to exactly 1")), ("input", jstr(&label))]));
            }
            for wq in quads.windows(2) {
                if wq[0].0.to != wq[1].0.from || wq[0].2 != wq[1].1 || !(wq[0].1 < wq[0].2) {
                    st.fail(jobj(&[("what", jstr("quadratic sequence is not connected / ordered")), ("input", jstr(&label))]));
                    break;
                }
            }
            let mut worst = 0.0f64;
            for (q, _, _) in &quads {
                for i in 0..=8 {
                    worst = worst.max(ellipse_dist(&arc, q.sample(i as f64 / 8.0)));
                }
            }
            st.add("quad_dev_permille_of_radius_max", 0);
            if worst > 0.012 * rmax + 1e-9 {
                st.fail(jobj(&[("what", jstr("quadratic approximation strays from the ellipse")), ("input", jstr(&format!("{} worst {} radius {}", label, worst, rmax)))]));
            }
        } else if sw.abs() > 1e-9 {
            st.fail(jobj(&[("what", jstr("no quadratic produced for a non-empty arc")), ("input", jstr(&label))]));
        }
        if !cubics.is_empty() {
            if (cubics[0].from - arc.from()).length() > 1e-9 * scale || (cubics.last().unwrap().to - arc.to()).length() > 1e-7 * scale {
                st.fail(jobj(&[("what", jstr("cubic sequence does not start / end on the arc's end points")), ("input", jstr(&label))]));
            }
            for wc in cubics.windows(2) {
                if wc[0].to != wc[1].from {
                    st.fail(jobj(&[("what", jstr("cubic sequence is not connected")), ("input", jstr(&label))]));
                    break;
                }
            }
            let mut worst = 0.0f64;
            for c in &cubics {
                for i in 0..=8 {
                    worst = worst.max(ellipse_dist(&arc, c.sample(i as f64 / 8.0)));
                }
            }
            if worst > 0.004 * rmax + 1e-9 {
                st.fail(jobj(&[("what", jstr("cubic approximation strays from the ellipse")), ("input", jstr(&format!("{} worst {} radius {}", label, worst, rmax)))]));
            }
        }
        // ---- model case (oracle values recomputed exactly the way the code computes them)
        {
            let two_pi = 2.0 * pi;
            let xr = rot % two_pi;
            let (c, s) = (xr.cos(), xr.sin());
            let hd = ((from.x - to.x) / 2.0, (from.y - to.y) / 2.0);
            let p = (c * hd.0 + s * hd.1, -s * hd.0 + c * hd.1);
            let (mut mrx, mut mry) = (arx, ary);
            let rf = p.0 * p.0 / (mrx * mrx) + p.1 * p.1 / (mry * mry);
            let sqrt_rf = rf.sqrt();
            if rf > 1.0 {
                mrx *= sqrt_rf;
                mry *= sqrt_rf;
            }
            let rxry = mrx * mry;
            let (rxpy, rypx) = (mrx * p.1, mry * p.0);
            let ssq = rxpy * rxpy + rypx * rypx;
            let sqrt_coe = ((rxry * rxry - ssq) / ssq).abs().sqrt();
            let sv = (arc.start_angle.radians.cos(), arc.start_angle.radians.sin());
            let ea = arc.start_angle.radians + arc.sweep_angle.radians;
            let ev = (ea.cos(), ea.sin());
            st.sample(format!("{} -> {:?}", label, arc));
            writeln!(idx, "{}\t{}", id, label).ok();
            w.push(format!(
                "(mkArc {} (mkSvgArc ({}, {}) ({}, {}) {} {} {} {}) {} {} {} {} ({}, {}) {} {} ({}, {}) ({}, {}))",
                id,
                gq(from.x), gq(from.y), gq(to.x), gq(to.y), gq(sa.radii.x), gq(sa.radii.y), gbool(flags.large_arc), gbool(flags.sweep),
                gq(c), gq(s), gq(sqrt_rf), gq(sqrt_coe),
                gq(arc.center.x), gq(arc.center.y), gq(arc.radii.x), gq(arc.radii.y),
                gq(sv.0), gq(sv.1), gq(ev.0), gq(ev.1)
            ));
            id += 1;
        }
    }
    w.finish()?;
    st.write(&args.out.join("c13_stats.json"))
}
