//! C13: elliptic arcs.  SVG endpoint form -> centre form (all flag combinations, radii too small,
//! rotations), round trip, Bezier approximations.  The algebraic part is compared with the Coq
//! model (oracles: cos/sin of the rotation, square roots); everything is also checked directly.
//! The second half of the file audits every public method of `Arc<S>`, `SvgArc<S>` and `ArcFlags`
//! in f64 and f32 against an independent f64 reference of the ellipse (counters `audit_<method>`,
//! measured worst cases `audit_worst_<scalar>_<quantity>`).
use crate::util::*;
use lyon_geom::{point, vector, Angle, Arc, ArcFlags, CubicBezierSegment, Point, QuadraticBezierSegment, SvgArc};
use std::panic::AssertUnwindSafe;

pub const HEADER: &str =
    "From Coq Require Import QArith.\nFrom LV Require Import Base.Prelude Model.Bezier Model.Arc Run.C13.\nOpen Scope Q_scope.";

fn gq(v: f64) -> String {
    if v.is_finite() {
        gq64(v)
    } else {
        "(123456789 # 1)".into()
    }
}

fn ellipse_dist(arc: &Arc<f64>, p: Point<f64>) -> f64 {
    // distance from p to the ellipse (dense sampling of the full ellipse)
    let mut d = f64::MAX;
    let full = Arc { center: arc.center, radii: arc.radii, start_angle: Angle::radians(0.0), sweep_angle: Angle::radians(2.0 * std::f64::consts::PI), x_rotation: arc.x_rotation };
    let n = 4096;
    for i in 0..n {
        let q = full.sample(i as f64 / n as f64);
        d = d.min((q - p).length());
    }
    d
}

pub fn main(args: &Args) -> std::io::Result<()> {
    use std::io::Write;
    let mut st = Stats::default();
    let mut w = ShardWriter::new(&args.out, "c13_cases", args.shards, HEADER, "bad_cases");
    w.disabled = args.direct_only();
    let mut idx = std::fs::File::create(args.out.join("c13_index.txt"))?;
    let mut rng = Rng::new(args.seed ^ 0x13);
    let n = if args.thorough() { 12000 } else { 1500 };
    let mut id = 0usize;
    let pi = std::f64::consts::PI;
    for it in 0..n {
        let from = point(rng.range(-10, 10) as f64, rng.range(-10, 10) as f64);
        let mut to = point(rng.range(-10, 10) as f64, rng.range(-10, 10) as f64);
        if to == from {
            to.x += 3.0;
        }
        // radii: normal, too small (scaled up), equal, tiny
        let chord = (to - from).length();
        let (rx, ry) = match it % 5 {
            0 => (chord * (0.6 + rng.unit_f64()), chord * (0.6 + rng.unit_f64())),
            1 => (chord * 0.2, chord * 0.3),
            2 => (chord, chord),
            3 => (chord * 0.5, chord * 0.5),
            _ => (1.0 + rng.below(20) as f64, 1.0 + rng.below(20) as f64),
        };
        let rot = match it % 3 {
            0 => 0.0,
            1 => (0.6f64).acos(), // 3-4-5 rotation
            _ => rng.range(-12, 12) as f64 * 0.3,
        };
        let flags = ArcFlags { large_arc: (it / 5) % 2 == 0, sweep: (it / 10) % 2 == 0 };
        let sa = SvgArc { from, to, radii: vector(if it % 7 == 0 { -rx } else { rx }, ry), x_rotation: Angle::radians(rot), flags };
        let label = format!("{:?}", sa);
        st.inc("evaluations");
        st.inc(&format!("flags_{}_{}", flags.large_arc as u8, flags.sweep as u8));
        st.note_case(&label, true);
        let r = catch(AssertUnwindSafe(|| {
            let arc = sa.to_arc();
            let back = arc.to_svg_arc();
            let mut quads: Vec<(QuadraticBezierSegment<f64>, f64, f64)> = Vec::new();
            arc.for_each_quadratic_bezier_with_t(&mut |q, t| quads.push((*q, t.start, t.end)));
            let mut cubics: Vec<CubicBezierSegment<f64>> = Vec::new();
            arc.for_each_cubic_bezier(&mut |c| cubics.push(*c));
            (arc, back, quads, cubics)
        }));
        let (arc, back, quads, cubics) = match r {
            Some(x) => x,
            None => {
                st.fail(jobj(&[("what", jstr("arc conversion panicked")), ("input", jstr(&label))]));
                continue;
            }
        };
        let scale = 1.0 + chord + rx.abs() + ry.abs();
        // ---- the consumers: the same arc through the SVG builder (arc_to / relative_arc_to) and through the
        // parser's A command must start at the current point, end at the requested point and stay on the ellipse
        {
            use lyon_path::traits::SvgPathBuilder;
            let f32p = |p: Point<f64>| lyon_path::math::point(p.x as f32, p.y as f32);
            let radii32 = lyon_path::math::vector(sa.radii.x as f32, sa.radii.y as f32);
            let rot32 = lyon_path::math::Angle::radians(rot as f32);
            let fl = lyon_path::ArcFlags { large_arc: flags.large_arc, sweep: flags.sweep };
            let via_builder = catch(AssertUnwindSafe(|| {
                let mut b = lyon_path::Path::svg_builder();
                b.move_to(f32p(from));
                if it % 2 == 0 {
                    b.arc_to(radii32, rot32, fl, f32p(to));
                } else {
                    b.relative_arc_to(radii32, rot32, fl, f32p(to) - f32p(from));
                }
                b.build()
            }));
            let via_parser = catch(AssertUnwindSafe(|| {
                let text = format!("M {} {} A {} {} {} {} {} {} {}", from.x, from.y, sa.radii.x as f32, sa.radii.y as f32, (rot as f32).to_degrees(), flags.large_arc as u8, flags.sweep as u8, to.x, to.y);
                let mut b = lyon_path::Path::builder();
                let r = lyon_extra::parser::PathParser::new().parse(&lyon_extra::parser::ParserOptions::DEFAULT, &mut lyon_extra::parser::Source::new(text.chars()), &mut b);
                (r.is_ok(), b.build())
            }));
            let check = |what: &str, path: &lyon_path::Path, st: &mut Stats| {
                let tol = 4e-3 * scale;
                let mut last = None;
                let mut first_from = None;
                let mut worst = 0.0f64;
                for e in path.iter() {
                    match e {
                        lyon_path::PathEvent::Line { from: a, to: b } => {
                            // only a negligible connector to the start of the arc is expected
                            if (b - a).length() as f64 > tol && !sa.is_straight_line() {
                                worst = f64::MAX;
                            }
                            first_from.get_or_insert(a);
                            last = Some(b);
                        }
                        lyon_path::PathEvent::Quadratic { from: a, ctrl, to: b } => {
                            first_from.get_or_insert(a);
                            let q = QuadraticBezierSegment { from: point(a.x as f64, a.y as f64), ctrl: point(ctrl.x as f64, ctrl.y as f64), to: point(b.x as f64, b.y as f64) };
                            for i in 0..=8 {
                                worst = worst.max(ellipse_dist(&arc, q.sample(i as f64 / 8.0)));
                            }
                            last = Some(b);
                        }
                        _ => {}
                    }
                }
                let rmax = arc.radii.x.max(arc.radii.y);
                let end_ok = last.map_or(false, |l| ((l.x as f64 - to.x).hypot(l.y as f64 - to.y)) <= tol);
                let start_ok = first_from.map_or(false, |l| ((l.x as f64 - from.x).hypot(l.y as f64 - from.y)) <= tol);
                if !end_ok || !start_ok {
                    st.fail(jobj(&[("what", jstr(&format!("{}: the arc does not run from the current point to the requested end point", what))), ("input", jstr(&format!("{} -> {:?}", label, path)))]));
                } else if !sa.is_straight_line() && worst > 0.012 * rmax + tol {
                    st.fail(jobj(&[("what", jstr(&format!("{}: the emitted curves stray from the ellipse of the arc", what))), ("input", jstr(&format!("{} -> {:?} (worst {})", label, path, worst)))]));
                }
            };
            st.inc("consumer_checks");
            match via_builder {
                None => st.fail(jobj(&[("what", jstr("WithSvg::arc_to panicked")), ("input", jstr(&label))])),
                Some(p) => check("SVG builder arc_to", &p, &mut st),
            }
            match via_parser {
                None => st.fail(jobj(&[("what", jstr("parsing an A command panicked")), ("input", jstr(&label))])),
                Some((ok, p)) => {
                    if !ok {
                        st.fail(jobj(&[("what", jstr("parsing a well-formed A command failed")), ("input", jstr(&label))]));
                    } else {
                        check("parser A command", &p, &mut st);
                    }
                }
            }
        }
        // ---- direct checks
        if (arc.from() - from).length() > 1e-7 * scale || (arc.to() - to).length() > 1e-7 * scale {
            st.fail(jobj(&[("what", jstr("centre-form arc does not start / end at the given points")), ("input", jstr(&format!("{} -> {:?}: from {:?} to {:?}", label, arc, arc.from(), arc.to())))]));
        }
        // radii: as given (absolute value) unless too small, then scaled uniformly so that the chord fits
        let (arx, ary) = (rx.abs(), ry.abs());
        let k = arc.radii.x / arx;
        if (arc.radii.y / ary - k).abs() > 1e-9 * k.max(1.0) || k < 1.0 - 1e-12 {
            st.fail(jobj(&[("what", jstr("radii were not kept or scaled up uniformly")), ("input", jstr(&format!("{} -> {:?}", label, arc.radii)))]));
        }
        let scaled = k > 1.0 + 1e-9;
        // direction and size selected by the flags
        let sw = arc.sweep_angle.radians;
        // radii too small for the chord are scaled by the smallest factor that makes it fit (SVG F.6.6): the square
        // root of (x'/rx)^2 + (y'/ry)^2 with (x', y') the half chord in the ellipse's frame; the chord is then a diameter
        {
            let (c0, s0) = (rot.cos(), rot.sin());
            let hd = ((from.x - to.x) / 2.0, (from.y - to.y) / 2.0);
            let p = (c0 * hd.0 + s0 * hd.1, -s0 * hd.0 + c0 * hd.1);
            let rf = p.0 * p.0 / (arx * arx) + p.1 * p.1 / (ary * ary);
            let want = if rf > 1.0 { rf.sqrt() } else { 1.0 };
            if (k - want).abs() > 1e-7 * want {
                st.fail(jobj(&[("what", jstr("radii too small for the chord are not scaled by the smallest factor that makes it fit")), ("input", jstr(&format!("{} -> radii {:?}: factor {} expected {}", label, arc.radii, k, want)))]));
            }
            if rf > 1.0 + 1e-6 && (sw.abs() - pi).abs() > 1e-5 {
                st.fail(jobj(&[("what", jstr("an arc whose radii were scaled up to fit the chord does not sweep half a turn")), ("input", jstr(&format!("{} -> sweep {}", label, sw)))]));
            }
        }
        if (flags.sweep && sw < -1e-9) || (!flags.sweep && sw > 1e-9) {
            st.fail(jobj(&[("what", jstr("sweep direction does not follow the sweep flag")), ("input", jstr(&format!("{} -> sweep {}", label, sw)))]));
        }
        if !scaled && (sw.abs() - pi).abs() > 1e-6 {
            if (sw.abs() > pi) != flags.large_arc {
                st.fail(jobj(&[("what", jstr("sweep size does not follow the large-arc flag")), ("input", jstr(&format!("{} -> sweep {}", label, sw)))]));
            }
        }
        if sw.abs() > 2.0 * pi + 1e-9 {
            st.fail(jobj(&[("what", jstr("sweep exceeds a full turn")), ("input", jstr(&format!("{} -> sweep {}", label, sw)))]));
        }
        // converting back returns the original (when the radii were not changed and the sweep is not ~pi)
        if !scaled && (sw.abs() - pi).abs() > 1e-6 && sw.abs() > 1e-6 {
            let same = (back.from - from).length() < 1e-7 * scale
                && (back.to - to).length() < 1e-7 * scale
                && (back.radii.x - arx).abs() < 1e-9 * scale
                && (back.radii.y - ary).abs() < 1e-9 * scale
                && back.flags.large_arc == flags.large_arc
                && back.flags.sweep == flags.sweep;
            if !same {
                st.fail(jobj(&[("what", jstr("to_svg_arc(from_svg_arc(a)) is not a")), ("input", jstr(&format!("{} -> {:?}", label, back)))]));
            }
        }
        // Bezier sequences: connected, on the arc's end points, parameter ranges in order ending at 1, close to the ellipse
        let rmax = arc.radii.x.max(arc.radii.y);
        if !quads.is_empty() {
            if (quads[0].0.from - arc.from()).length() > 1e-9 * scale || (quads.last().unwrap().0.to - arc.to()).length() > 1e-7 * scale {
                st.fail(jobj(&[("what", jstr("quadratic sequence does not start / end on the arc's end points")), ("input", jstr(&label))]));
            }
            if quads[0].1 != 0.0 || quads.last().unwrap().2 != 1.0 {
                st.fail(jobj(&[("what", jstr("quadratic sequence parameter ranges do not run from 0 to exactly 1")), ("input", jstr(&label))]));
            }
            for wq in quads.windows(2) {
                if wq[0].0.to != wq[1].0.from || wq[0].2 != wq[1].1 || !(wq[0].1 < wq[0].2) {
                    st.fail(jobj(&[("what", jstr("quadratic sequence is not connected / ordered")), ("input", jstr(&label))]));
                    break;
                }
            }
            let mut worst = 0.0f64;
            for (q, _, _) in &quads {
                for i in 0..=8 {
                    worst = worst.max(ellipse_dist(&arc, q.sample(i as f64 / 8.0)));
                }
            }
            st.add("quad_dev_permille_of_radius_max", 0);
            if worst > 0.012 * rmax + 1e-9 {
                st.fail(jobj(&[("what", jstr("quadratic approximation strays from the ellipse")), ("input", jstr(&format!("{} worst {} radius {}", label, worst, rmax)))]));
            }
        } else if sw.abs() > 1e-9 {
            st.fail(jobj(&[("what", jstr("no quadratic produced for a non-empty arc")), ("input", jstr(&label))]));
        }
        if !cubics.is_empty() {
            if (cubics[0].from - arc.from()).length() > 1e-9 * scale || (cubics.last().unwrap().to - arc.to()).length() > 1e-7 * scale {
                st.fail(jobj(&[("what", jstr("cubic sequence does not start / end on the arc's end points")), ("input", jstr(&label))]));
            }
            for wc in cubics.windows(2) {
                if wc[0].to != wc[1].from {
                    st.fail(jobj(&[("what", jstr("cubic sequence is not connected")), ("input", jstr(&label))]));
                    break;
                }
            }
            let mut worst = 0.0f64;
            for c in &cubics {
                for i in 0..=8 {
                    worst = worst.max(ellipse_dist(&arc, c.sample(i as f64 / 8.0)));
                }
            }
            if worst > 0.004 * rmax + 1e-9 {
                st.fail(jobj(&[("what", jstr("cubic approximation strays from the ellipse")), ("input", jstr(&format!("{} worst {} radius {}", label, worst, rmax)))]));
            }
        }
        // ---- model case (oracle values recomputed exactly the way the code computes them)
        {
            let two_pi = 2.0 * pi;
            let xr = rot % two_pi;
            let (c, s) = (xr.cos(), xr.sin());
            let hd = ((from.x - to.x) / 2.0, (from.y - to.y) / 2.0);
            let p = (c * hd.0 + s * hd.1, -s * hd.0 + c * hd.1);
            let (mut mrx, mut mry) = (arx, ary);
            let rf = p.0 * p.0 / (mrx * mrx) + p.1 * p.1 / (mry * mry);
            let sqrt_rf = rf.sqrt();
            if rf > 1.0 {
                mrx *= sqrt_rf;
                mry *= sqrt_rf;
            }
            let rxry = mrx * mry;
            let (rxpy, rypx) = (mrx * p.1, mry * p.0);
            let ssq = rxpy * rxpy + rypx * rypx;
            let sqrt_coe = ((rxry * rxry - ssq) / ssq).abs().sqrt();
            let sv = (arc.start_angle.radians.cos(), arc.start_angle.radians.sin());
            let ea = arc.start_angle.radians + arc.sweep_angle.radians;
            let ev = (ea.cos(), ea.sin());
            st.sample(format!("{} -> {:?}", label, arc));
            writeln!(idx, "{}\t{}", id, label).ok();
            w.push(format!(
                "(mkArc {} (mkSvgArc ({}, {}) ({}, {}) {} {} {} {}) {} {} {} {} ({}, {}) {} {} ({}, {}) ({}, {}))",
                id,
                gq(from.x), gq(from.y), gq(to.x), gq(to.y), gq(sa.radii.x), gq(sa.radii.y), gbool(flags.large_arc), gbool(flags.sweep),
                gq(c), gq(s), gq(sqrt_rf), gq(sqrt_coe),
                gq(arc.center.x), gq(arc.center.y), gq(arc.radii.x), gq(arc.radii.y),
                gq(sv.0), gq(sv.1), gq(ev.0), gq(ev.1)
            ));
            id += 1;
        }
    }
    // ---- audit of every public method of arc.rs against the independent reference, in both scalar types
    audit::<f64>(&mut st, args);
    audit::<f32>(&mut st, args);
    w.finish()?;
    st.write(&args.out.join("c13_stats.json"))
}

// ====================================================================================================================
// Audit of every public method of `Arc<S>`, `SvgArc<S>` and `ArcFlags` (arc.rs), in f64 and f32, against an independent
// reference: the ellipse point at angle a is center + R(x_rotation) * (rx cos a, ry sin a) and the parameter t of an arc
// maps to the angle start_angle + t * sweep_angle.  The reference is always evaluated in f64 on the exact values of the
// arc's fields; `ME` is the machine epsilon of the scalar type under test and every tolerance is a small multiple of
// ME * (magnitude of the coordinates + radius * magnitude of the angles), i.e. of what the representation can resolve.
// ====================================================================================================================

use lyon_geom::{LineSegment, Scalar, Segment};
use std::collections::BTreeMap;
use std::ops::Range;

trait Sc: Scalar + 'static {
    const NAME: &'static str;
    const ME: f64;
    fn to64(self) -> f64;
    fn of64(v: f64) -> Self;
}
impl Sc for f64 {
    const NAME: &'static str = "f64";
    const ME: f64 = f64::EPSILON;
    fn to64(self) -> f64 {
        self
    }
    fn of64(v: f64) -> Self {
        v
    }
}
impl Sc for f32 {
    const NAME: &'static str = "f32";
    const ME: f64 = f32::EPSILON as f64;
    fn to64(self) -> f64 {
        self as f64
    }
    fn of64(v: f64) -> Self {
        v as f32
    }
}

type P2 = (f64, f64);
fn p64<S: Sc>(p: Point<S>) -> P2 {
    (p.x.to64(), p.y.to64())
}
fn v64<S: Sc>(p: lyon_geom::Vector<S>) -> P2 {
    (p.x.to64(), p.y.to64())
}
fn dist(a: P2, b: P2) -> f64 {
    (a.0 - b.0).hypot(a.1 - b.1)
}
fn seg_dist(p: P2, a: P2, b: P2) -> f64 {
    let (vx, vy) = (b.0 - a.0, b.1 - a.1);
    let l2 = vx * vx + vy * vy;
    if l2 == 0.0 {
        return dist(p, a);
    }
    let t = (((p.0 - a.0) * vx + (p.1 - a.1) * vy) / l2).max(0.0).min(1.0);
    dist(p, (a.0 + vx * t, a.1 + vy * t))
}
/// difference of two angles brought into (-pi, pi]
fn ang_diff(a: f64, b: f64) -> f64 {
    let two_pi = 2.0 * std::f64::consts::PI;
    let mut d = (a - b) % two_pi;
    if d > std::f64::consts::PI {
        d -= two_pi;
    }
    if d <= -std::f64::consts::PI {
        d += two_pi;
    }
    d
}

/// The independent reference (f64).
#[derive(Clone, Copy, Debug)]
struct RefArc {
    cx: f64,
    cy: f64,
    rx: f64,
    ry: f64,
    start: f64,
    sweep: f64,
    rot: f64,
}

impl RefArc {
    fn of<S: Sc>(a: &Arc<S>) -> RefArc {
        RefArc { cx: a.center.x.to64(), cy: a.center.y.to64(), rx: a.radii.x.to64(), ry: a.radii.y.to64(), start: a.start_angle.radians.to64(), sweep: a.sweep_angle.radians.to64(), rot: a.x_rotation.radians.to64() }
    }
    fn rmax(&self) -> f64 {
        self.rx.abs().max(self.ry.abs())
    }
    fn rmin(&self) -> f64 {
        self.rx.abs().min(self.ry.abs())
    }
    fn ang_mag(&self) -> f64 {
        self.start.abs() + self.sweep.abs()
    }
    fn angle(&self, t: f64) -> f64 {
        self.start + t * self.sweep
    }
    fn at_angle(&self, a: f64) -> P2 {
        let (ex, ey) = (self.rx * a.cos(), self.ry * a.sin());
        let (c, s) = (self.rot.cos(), self.rot.sin());
        (self.cx + c * ex - s * ey, self.cy + s * ex + c * ey)
    }
    fn at(&self, t: f64) -> P2 {
        self.at_angle(self.angle(t))
    }
    /// derivative with respect to the angle
    fn d_angle(&self, a: f64) -> P2 {
        let (ex, ey) = (-self.rx * a.sin(), self.ry * a.cos());
        let (c, s) = (self.rot.cos(), self.rot.sin());
        (c * ex - s * ey, s * ex + c * ey)
    }
    /// coordinates of p in the frame in which the ellipse is the unit circle
    fn unit(&self, p: P2) -> P2 {
        let (dx, dy) = (p.0 - self.cx, p.1 - self.cy);
        let (c, s) = (self.rot.cos(), self.rot.sin());
        ((c * dx + s * dy) / self.rx, (-s * dx + c * dy) / self.ry)
    }
    /// an upper bound of the distance from p to the ellipse (exact up to the angle between the ray from the centre and
    /// the normal): the distance between p and the point of the ellipse on the same ray of the unit-circle frame
    fn ellipse_dev(&self, p: P2) -> f64 {
        let u = self.unit(p);
        let l = u.0.hypot(u.1);
        if l == 0.0 {
            return self.rmin();
        }
        let local = (self.rx * u.0 / l).hypot(self.ry * u.1 / l);
        (l - 1.0).abs() * local
    }
    /// what a coordinate in the scalar type can resolve on this arc: 8 ME (|centre| + rmax (2 + |angles|))
    fn pt_tol(&self, me: f64) -> f64 {
        8.0 * me * (self.cx.abs() + self.cy.abs() + self.rmax() * (2.0 + self.ang_mag()))
    }
    /// exact coordinate ranges over the swept angles: x(a) = cx + A cos(a - a0), y(a) = cy + B cos(a - a1)
    fn ranges(&self) -> ((f64, f64), (f64, f64)) {
        let (c, s) = (self.rot.cos(), self.rot.sin());
        let one = |centre: f64, pc: f64, ps: f64, ends: (f64, f64)| {
            let amp = pc.hypot(ps);
            let ph = ps.atan2(pc);
            let (lo, hi) = if self.sweep >= 0.0 { (self.start, self.start + self.sweep) } else { (self.start + self.sweep, self.start) };
            let two_pi = 2.0 * std::f64::consts::PI;
            let mut mn = ends.0.min(ends.1);
            let mut mx = ends.0.max(ends.1);
            let k = ((lo - ph) / two_pi).ceil();
            if ph + k * two_pi <= hi {
                mx = centre + amp;
            }
            let k = ((lo - ph - std::f64::consts::PI) / two_pi).ceil();
            if ph + std::f64::consts::PI + k * two_pi <= hi {
                mn = centre - amp;
            }
            (mn, mx)
        };
        let (p0, p1) = (self.at(0.0), self.at(1.0));
        (one(self.cx, self.rx * c, -self.ry * s, (p0.0, p1.0)), one(self.cy, self.rx * s, self.ry * c, (p0.1, p1.1)))
    }
    fn polyline_length(&self, n: usize) -> f64 {
        let mut l = 0.0;
        let mut prev = self.at(0.0);
        for i in 1..=n {
            let p = self.at(i as f64 / n as f64);
            l += dist(prev, p);
            prev = p;
        }
        l
    }
}

struct Au<'a> {
    st: &'a mut Stats,
    name: &'static str,
    worst: BTreeMap<String, (f64, String)>,
    listed: BTreeMap<String, u32>,
}

impl<'a> Au<'a> {
    fn inc(&mut self, k: &str) {
        self.st.inc(&format!("audit_{}", k));
    }
    fn bad(&mut self, what: &str, input: String) {
        if std::env::var("LVH_AUDIT_VERBOSE").is_ok() {
            eprintln!("BAD\t{}\t{}\t{}", self.name, what, input);
        }
        // C13 speaks of the conversion between the two forms and of the Bezier sequences; the drift of the f32 flattening
        // ITERATOR over hundreds of steps belongs to flattening (C09) and is recorded as an observation here (DESIGN 10.10)
        if what.starts_with("the flattened() iterator does not end on the arc's end point") {
            self.st.inc("observed outside the property's statement: the flattened() iterator does not end on the arc's end point");
            return;
        }
        // known finding K21: end points closer together than the angles of the centre form can resolve - the difference of
        // the two angles gets the sign of a rounding error and the correction by a full turn does the rest
        let class = if what == "the sweep size does not follow the large-arc flag" || what == "the sweep direction does not follow the sweep flag" { Some("K21") } else { None };
        if let Some(c) = class {
            let k = self.listed.entry(what.to_string()).or_insert(0);
            *k += 1;
            if *k <= 4 {
                self.st.fail(jobj(&[("what", jstr(&format!("arc audit ({}): {}", self.name, what))), ("input", jstr(&input)), ("class", jstr(c))]));
            } else {
                self.st.inc("audit_known_finding_cases_not_listed");
            }
            return;
        }
        // every failure is counted; the first ten of each kind are listed (so that no kind crowds the others out of the list)
        let k = self.listed.entry(what.to_string()).or_insert(0);
        *k += 1;
        if *k <= 10 {
            self.st.fail(jobj(&[("what", jstr(&format!("arc audit ({}): {}", self.name, what))), ("input", jstr(&input))]));
        } else {
            self.st.inc("direct_failures");
            self.st.inc("direct_failures_unclassified");
            self.st.inc("audit_failures_counted_but_not_listed");
        }
    }
    fn worst(&mut self, key: &str, v: f64, label: &str) {
        if !v.is_finite() {
            return;
        }
        let e = self.worst.entry(key.to_string()).or_insert((0.0, String::new()));
        if v > e.0 {
            *e = (v, label.to_string());
        }
    }
    fn finish(self) {
        let verbose = std::env::var("LVH_AUDIT_VERBOSE").is_ok();
        for (k, (v, l)) in &self.worst {
            self.st.add(&format!("audit_worst_{}_{}", self.name, k), v.ceil() as u64);
            if verbose {
                eprintln!("worst {} {} = {} at {}", self.name, k, v, l);
            }
        }
    }
}

fn dyadic(rng: &mut Rng) -> f64 {
    rng.range(1, 63) as f64 / 64.0
}

fn mk_arc<S: Sc>(cx: f64, cy: f64, rx: f64, ry: f64, start: f64, sweep: f64, rot: f64) -> Arc<S> {
    Arc { center: point(S::of64(cx), S::of64(cy)), radii: vector(S::of64(rx), S::of64(ry)), start_angle: Angle::radians(S::of64(start)), sweep_angle: Angle::radians(S::of64(sweep)), x_rotation: Angle::radians(S::of64(rot)) }
}

/// radii equal / different / ratio up to 50 / tiny (1e-3) / huge (1e4); sweeps of both signs, tiny, exact multiples of
/// pi/4, up to and beyond a full turn, exactly zero; rotations and start angles of any size
fn gen_centre<S: Sc>(rng: &mut Rng, it: usize) -> (Arc<S>, &'static str) {
    let pi = std::f64::consts::PI;
    let sgn = |rng: &mut Rng| if rng.chance(1, 2) { 1.0 } else { -1.0 };
    let swap = |rng: &mut Rng, a: f64, b: f64| if rng.chance(1, 2) { (a, b) } else { (b, a) };
    let (rx, ry, rcls) = match it % 6 {
        0 => {
            let r = 1.0 + rng.below(20) as f64;
            (r, r, "circle")
        }
        1 => (1.0 + rng.below(20) as f64, 1.0 + rng.below(20) as f64, "ellipse"),
        2 => {
            let r = 0.5 * (1 + rng.below(4)) as f64;
            let k = (2 + rng.below(49)) as f64;
            let (a, b) = swap(rng, r * k, r);
            (a, b, "eccentric")
        }
        3 => {
            // 1e-3 .. 9e-3, one time in four 1e-5 .. 9e-5
            let r = if rng.chance(1, 4) { 1e-5 } else { 1e-3 } * (1 + rng.below(9)) as f64;
            let k = *rng.pick(&[1.0, 1.0, 2.0, 5.0]);
            let (a, b) = swap(rng, r * k, r);
            (a, b, "tiny")
        }
        4 => {
            let r = 1e4 * (1 + rng.below(9)) as f64;
            let k = *rng.pick(&[1.0, 1.0, 2.0, 50.0]);
            let (a, b) = swap(rng, r, r / k);
            (a, b, "huge")
        }
        _ => (0.5 + rng.unit_f64() * 30.0, 0.5 + rng.unit_f64() * 30.0, "ellipse"),
    };
    let sweep = match rng.below(12) {
        0 | 1 => sgn(rng) * (0.1 + rng.unit_f64() * (2.0 * pi - 0.2)),
        2 => sgn(rng) * rng.unit_f64() * pi,
        3 => sgn(rng) * 1e-6 * (1 + rng.below(9)) as f64,
        4 => sgn(rng) * (1 + rng.below(8)) as f64 * pi / 4.0,
        5 | 6 => sgn(rng) * (2.0 * pi + 0.001 + rng.unit_f64() * (2.0 * pi - 0.002)),
        7 => sgn(rng) * (2.0 * pi - 1e-3 * rng.unit_f64()),
        8 => sgn(rng) * 2.0 * pi,
        9 => sgn(rng) * (pi + rng.unit_f64() * pi),
        10 => {
            if rng.chance(1, 4) {
                0.0
            } else {
                sgn(rng) * (pi + (rng.unit_f64() - 0.5) * 1e-6)
            }
        }
        _ => (rng.unit_f64() - 0.5) * 4.0 * pi,
    };
    let start = match rng.below(4) {
        0 => 0.0,
        1 => rng.range(-4, 4) as f64 * pi / 2.0,
        2 => (rng.unit_f64() - 0.5) * 4.0 * pi,
        _ => sgn(rng) * (10.0 + rng.unit_f64() * 90.0),
    };
    let rot = match rng.below(5) {
        0 => 0.0,
        1 => rng.range(-8, 8) as f64 * pi / 2.0,
        2 => (rng.unit_f64() - 0.5) * 2.0 * pi,
        3 => sgn(rng) * (2.0 * pi + rng.unit_f64() * 14.0),
        _ => rng.range(-12, 12) as f64 * 0.25,
    };
    let (cx, cy, cls) = if rcls == "tiny" {
        if rng.chance(1, 2) {
            (0.0, 0.0, rcls)
        } else {
            (rng.range(-8, 8) as f64 / 8.0, rng.range(-8, 8) as f64 / 8.0, rcls)
        }
    } else if rng.chance(1, 8) {
        (rng.range(-10, 10) as f64 * 100.0, rng.range(-10, 10) as f64 * 100.0, if rcls == "huge" { "huge" } else { "far" })
    } else if rng.chance(1, 4) {
        (0.0, 0.0, rcls)
    } else {
        (rng.range(-10, 10) as f64, rng.range(-10, 10) as f64, rcls)
    };
    (mk_arc(cx, cy, rx, ry, start, sweep, rot), cls)
}

// ---------------------------------------------------------------------------------------------------- sample & co
fn g_sample<S: Sc>(au: &mut Au, arc: &Arc<S>, r: &RefArc, rng: &mut Rng, label: &str) {
    let me = S::ME;
    let tol = r.pt_tol(me);
    let atol = 4.0 * me * r.ang_mag() + 1e-300;
    let vtol = 8.0 * me * r.rmax() * (2.0 + r.ang_mag());
    let ts = [0.0, 1.0, 0.5, 0.25, dyadic(rng), rng.unit_f64()];
    for &t0 in &ts {
        let ts_ = S::of64(t0);
        let t = ts_.to64();
        au.inc("get_angle");
        let ga = arc.get_angle(ts_).radians.to64();
        if (ga - r.angle(t)).abs() > atol {
            au.bad("get_angle(t) is not start_angle + t * sweep_angle", format!("{} t={}: {} expected {}", label, t, ga, r.angle(t)));
        }
        au.inc("sample");
        let p = arc.sample(ts_);
        let d = dist(p64(p), r.at(t));
        au.worst("sample_error_in_tol_permille", 1000.0 * d / tol, label);
        if !(d <= tol) {
            au.bad("sample(t) is not the reference ellipse point", format!("{} t={}: {:?} expected {:?} (distance {}, allowed {})", label, t, p, r.at(t), d, tol));
        }
        au.inc("x_y");
        if arc.x(ts_) != p.x || arc.y(ts_) != p.y {
            au.bad("x(t) / y(t) are not the coordinates of sample(t)", format!("{} t={}", label, t));
        }
        au.inc("sample_tangent");
        let tv = v64(arc.sample_tangent(ts_));
        let want = r.d_angle(r.angle(t));
        if !(dist(tv, want) <= vtol) {
            au.bad("sample_tangent(t) is not the derivative of the reference ellipse with respect to the angle", format!("{} t={}: {:?} expected {:?}", label, t, tv, want));
        }
        au.inc("derivative");
        let dv = v64(Segment::derivative(arc, ts_));
        let wantd = (want.0 * r.sweep, want.1 * r.sweep);
        if !(dist(dv, wantd) <= vtol * (1.0 + r.sweep.abs())) {
            au.bad("Segment::derivative(t) is not the derivative of the reference with respect to t", format!("{} t={}: {:?} expected {:?}", label, t, dv, wantd));
        }
        // direction of motion for increasing t: with a negative sweep the derivative with respect to the angle points backwards
        if r.sweep != 0.0 {
            let motion = (want.0 * r.sweep.signum(), want.1 * r.sweep.signum());
            let dot = motion.0 * tv.0 + motion.1 * tv.1;
            if dot < 0.0 {
                au.inc("sample_tangent_points_against_the_motion");
            } else {
                au.inc("sample_tangent_points_along_the_motion");
            }
            let cross = motion.0 * tv.1 - motion.1 * tv.0;
            if !(cross.abs() <= vtol * r.rmax()) {
                au.bad("sample_tangent(t) is not parallel to the direction of motion", format!("{} t={}", label, t));
            }
        }
    }
    au.inc("end_angle");
    let ea = arc.end_angle().radians.to64();
    if (ea - (r.start + r.sweep)).abs() > atol {
        au.bad("end_angle() is not start_angle + sweep_angle", format!("{}: {}", label, ea));
    }
    au.inc("from_to");
    if arc.from() != arc.sample(S::ZERO) || arc.to() != arc.sample(S::ONE) {
        au.bad("from() / to() are not sample(0) / sample(1)", label.to_string());
    }
    if !(dist(p64(arc.from()), r.at_angle(r.start)) <= tol) || !(dist(p64(arc.to()), r.at_angle(r.start + r.sweep)) <= tol) {
        au.bad("from() / to() are not the reference points at the start / end angle", format!("{}: {:?} {:?}", label, arc.from(), arc.to()));
    }
}

// ---------------------------------------------------------------------------------------------------- split & co
fn g_split<S: Sc>(au: &mut Au, arc: &Arc<S>, r: &RefArc, rng: &mut Rng, label: &str) {
    let me = S::ME;
    let tol = 3.0 * r.pt_tol(me);
    let us = [0.0, 1.0, 0.5, dyadic(rng), rng.unit_f64()];
    let near = |p: Point<S>, q: P2| dist(p64(p), q) <= tol;
    for &t0 in &[0.0, 1.0, dyadic(rng), rng.unit_f64()] {
        let ts_ = S::of64(t0);
        let t = ts_.to64();
        au.inc("split");
        let (s0, s1) = arc.split(ts_);
        au.inc("before_split");
        au.inc("after_split");
        if arc.before_split(ts_) != s0 || arc.after_split(ts_) != s1 {
            au.bad("before_split / after_split are not the two halves of split", format!("{} t={}", label, t));
        }
        if Segment::split(arc, ts_) != (s0, s1) || Segment::before_split(arc, ts_) != s0 || Segment::after_split(arc, ts_) != s1 {
            au.bad("Segment::split / before_split / after_split differ from the inherent methods", format!("{} t={}", label, t));
        }
        // end points of the pieces
        if s0.from() != arc.from() {
            au.bad("the first piece of split does not start exactly on the arc's start point", format!("{} t={}", label, t));
        }
        if s0.to() != s1.from() {
            au.bad("the two pieces of split do not meet exactly", format!("{} t={}: {:?} / {:?}", label, t, s0.to(), s1.from()));
        }
        let d = dist(p64(s1.to()), p64(arc.to()));
        if s1.to() == arc.to() {
            au.inc("split_second_piece_ends_bit_exactly_on_to");
        } else {
            au.inc("split_second_piece_end_differs_in_the_last_bits");
        }
        au.worst("split_end_distance_in_tol_permille", 1000.0 * d / tol, label);
        if !(d <= tol) {
            au.bad("the second piece of split does not end on the arc's end point", format!("{} t={}: {:?} vs {:?}", label, t, s1.to(), arc.to()));
        }
        for &u0 in &us {
            let us_ = S::of64(u0);
            let u = us_.to64();
            if !near(s0.sample(us_), r.at(t * u)) {
                au.bad("first piece of split: parameter u is not t*u of the arc", format!("{} t={} u={}: {:?} expected {:?}", label, t, u, s0.sample(us_), r.at(t * u)));
            }
            if !near(s1.sample(us_), r.at(t + (1.0 - t) * u)) {
                au.bad("second piece of split: parameter u is not t+(1-t)*u of the arc", format!("{} t={} u={}: {:?} expected {:?}", label, t, u, s1.sample(us_), r.at(t + (1.0 - t) * u)));
            }
        }
    }
    // sub-range
    for k in 0..3 {
        let (mut a, mut b) = (dyadic(rng), dyadic(rng));
        if k == 0 {
            a = 0.0;
            b = 1.0;
        } else if k == 1 && rng.chance(1, 2) {
            a = 0.0;
        }
        if a > b {
            std::mem::swap(&mut a, &mut b);
        }
        au.inc("split_range");
        let sr = arc.split_range(S::of64(a)..S::of64(b));
        if Segment::split_range(arc, S::of64(a)..S::of64(b)) != sr {
            au.bad("Segment::split_range differs from the inherent method", format!("{} {}..{}", label, a, b));
        }
        for &u0 in &us {
            let us_ = S::of64(u0);
            let u = us_.to64();
            if !near(sr.sample(us_), r.at(a + (b - a) * u)) {
                au.bad("split_range(a..b): parameter u is not a+(b-a)*u of the arc", format!("{} {}..{} u={}: {:?} expected {:?}", label, a, b, u, sr.sample(us_), r.at(a + (b - a) * u)));
            }
        }
        if !near(sr.from(), r.at(a)) || !near(sr.to(), r.at(b)) {
            au.bad("split_range(a..b) does not start / end on the arc's points at a / b", format!("{} {}..{}", label, a, b));
        }
        if a == 0.0 && sr.from() != arc.from() {
            au.bad("split_range(0..b) does not start exactly on the arc's start point", format!("{} {}..{}", label, a, b));
        }
    }
    // flip
    au.inc("flip");
    let f = arc.flip();
    if Segment::flip(arc) != f {
        au.bad("Segment::flip differs from the inherent method", label.to_string());
    }
    if f.from() != arc.to() {
        au.bad("flip() does not start exactly on the arc's end point", format!("{}: {:?} vs {:?}", label, f.from(), arc.to()));
    }
    if f.to() == arc.from() {
        au.inc("flip_ends_bit_exactly_on_from");
    } else {
        au.inc("flip_end_differs_in_the_last_bits");
    }
    if !near(f.to(), p64(arc.from())) {
        au.bad("flip() does not end on the arc's start point", format!("{}: {:?} vs {:?}", label, f.to(), arc.from()));
    }
    for &u0 in &us {
        let us_ = S::of64(u0);
        let u = us_.to64();
        if !near(f.sample(us_), r.at(1.0 - u)) {
            au.bad("flip(): parameter u is not 1-u of the arc", format!("{} u={}: {:?} expected {:?}", label, u, f.sample(us_), r.at(1.0 - u)));
        }
    }
    if f.center != arc.center || f.radii != arc.radii || f.x_rotation != arc.x_rotation {
        au.bad("flip() changes the ellipse", label.to_string());
    }
}

// ---------------------------------------------------------------------------------------------------- Beziers
/// One curve of an approximation: its end points, 15 interior samples and the parameter range it claims (if any).
struct Piece {
    from: P2,
    to: P2,
    inner: Vec<P2>,
    t: Option<(f64, f64)>,
}

const QUAD_ALLOWED: f64 = 0.012; // what the checks above allow: fraction of the larger radius
const CUBIC_ALLOWED: f64 = 0.004;

fn check_pieces(au: &mut Au, kind: &str, allowed: f64, pieces: &[Piece], r: &RefArc, me: f64, cls: &str, label: &str, from: P2, to: P2, from_exact: bool, to_exact: bool) {
    let two_pi = 2.0 * std::f64::consts::PI;
    let tol = r.pt_tol(me);
    if r.sweep == 0.0 {
        // nothing to approximate: lyon emits no curve at all (counted, not flagged)
        if pieces.is_empty() {
            au.inc(&format!("{}_zero_sweep_emits_nothing", kind));
        } else {
            au.inc(&format!("{}_zero_sweep_emits_curves", kind));
        }
        return;
    }
    if pieces.is_empty() {
        au.bad(&format!("no {} Bezier is produced for an arc with a non-zero sweep", kind), label.to_string());
        return;
    }
    let n = pieces.len();
    let clamped = r.sweep.abs() > two_pi;
    let eff = r.sweep.signum() * r.sweep.abs().min(two_pi);
    // start on the arc's start point: how exactly
    let d0 = dist(pieces[0].from, from);
    au.worst(&format!("{}_first_from_distance_in_tol_permille", kind), 1000.0 * d0 / tol, label);
    if from_exact {
        au.inc(&format!("{}_first_from_bit_exact", kind));
    } else {
        au.inc(&format!("{}_first_from_not_bit_exact", kind));
        au.bad(&format!("the {} sequence does not start exactly on the arc's start point", kind), format!("{}: {:?} vs {:?}", label, pieces[0].from, from));
    }
    if clamped {
        // |sweep| beyond a full turn: the conversion clamps the sweep to one turn (counted, not flagged; see the report):
        // the curves go once around the ellipse and come back to the start point
        au.inc(&format!("{}_sweep_beyond_full_turn_clamped_to_one_turn", kind));
        let back = r.at_angle(r.start + eff);
        if !(dist(pieces[n - 1].to, back) <= 3.0 * tol) {
            au.bad(&format!("the {} sequence of an arc sweeping more than a full turn does not close after one turn", kind), label.to_string());
        }
    } else {
        let d1 = dist(pieces[n - 1].to, to);
        au.worst(&format!("{}_last_to_distance_in_tol_permille", kind), 1000.0 * d1 / tol, label);
        if to_exact {
            au.inc(&format!("{}_last_to_bit_exact", kind));
        } else {
            au.inc(&format!("{}_last_to_differs_in_the_last_bits", kind));
        }
        if !(d1 <= 2.0 * tol) {
            au.bad(&format!("the {} sequence does not end on the arc's end point", kind), format!("{}: {:?} vs {:?} (distance {}, allowed {})", label, pieces[n - 1].to, to, d1, 2.0 * tol));
        }
    }
    // parameter ranges: from 0 to exactly 1, chained, increasing
    if pieces[0].t.is_some() {
        let ts: Vec<(f64, f64)> = pieces.iter().map(|p| p.t.unwrap()).collect();
        if ts[0].0 != 0.0 || ts[n - 1].1 != 1.0 {
            au.bad(&format!("the {} parameter ranges do not run from 0 to exactly 1", kind), format!("{}: {:?}", label, ts));
        }
        if ts.windows(2).any(|w| w[0].1 != w[1].0) || ts.iter().any(|x| !(x.0 < x.1)) {
            au.bad(&format!("the {} parameter ranges are not chained / increasing", kind), format!("{}: {:?}", label, ts));
        }
    }
    let mut worst = 0.0f64;
    let mut worst_out = 0.0f64;
    let step = eff / n as f64;
    for (i, p) in pieces.iter().enumerate() {
        // each curve covers its share of the parameter range, in order: its end points are the arc's points there
        let (t0, t1) = p.t.unwrap_or((i as f64 / n as f64, (i + 1) as f64 / n as f64));
        let (a0, a1) = (r.start + eff * t0, r.start + eff * t1);
        let slack = 2.0 * tol + r.rmax() * eff.abs() * 8.0 * me * n as f64;
        if !(dist(p.from, r.at_angle(a0)) <= slack) || !(dist(p.to, r.at_angle(a1)) <= slack) {
            au.bad(&format!("a {} curve does not join the arc's points at the ends of its parameter range", kind), format!("{} curve {} of {} range {}..{}: {:?} -> {:?} expected {:?} -> {:?}", label, i, n, t0, t1, p.from, p.to, r.at_angle(a0), r.at_angle(a1)));
        }
        let amid = 0.5 * (a0 + a1);
        for q in p.inner.iter().chain([p.from, p.to].iter()) {
            worst = worst.max(r.ellipse_dev(*q));
            // how far beyond the ends of its share of the ellipse the curve goes, in units of its angular length
            let u = r.unit(*q);
            let off = ang_diff(u.1.atan2(u.0), amid).abs() - 0.5 * (a1 - a0).abs();
            worst_out = worst_out.max(off / step.abs());
        }
    }
    let ratio = worst / r.rmax();
    au.worst(&format!("{}_deviation_ppm_of_rmax_{}", kind, cls), 1e6 * ratio, label);
    let noise = 4.0 * tol / r.rmax();
    if !(ratio <= allowed + noise) {
        au.bad(&format!("the {} approximation strays from the ellipse by more than {} of the larger radius [{}]", kind, allowed, cls), format!("{}: worst deviation {} = {} of the radius {} ({} curves)", label, worst, ratio, r.rmax(), n));
    }
    // each curve stays on the part of the ellipse between its end points (a point that the scalar type cannot tell from an
    // end point counts as being there)
    let noise_a = 4.0 * tol / r.rmin() / step.abs();
    au.worst(&format!("{}_overshoot_permille_of_step", kind), 1000.0 * (worst_out - noise_a).max(0.0), label);
    if !(worst_out <= 0.02 + noise_a) {
        au.bad(&format!("a {} curve leaves the part of the ellipse between its end points [{}]", kind, cls), format!("{}: it goes {} times its own angular length ({}) beyond one of them", label, worst_out, step.abs()));
    }
}

fn g_bezier<S: Sc>(au: &mut Au, arc: &Arc<S>, r: &RefArc, cls: &str, label: &str) {
    let mut quads_t: Vec<(QuadraticBezierSegment<S>, Range<S>)> = Vec::new();
    arc.for_each_quadratic_bezier_with_t(&mut |q: &QuadraticBezierSegment<S>, t: Range<S>| {
        if quads_t.len() < 100_000 {
            quads_t.push((*q, t))
        }
    });
    let mut quads: Vec<QuadraticBezierSegment<S>> = Vec::new();
    arc.for_each_quadratic_bezier(&mut |q: &QuadraticBezierSegment<S>| {
        if quads.len() < 100_000 {
            quads.push(*q)
        }
    });
    let mut cubics: Vec<CubicBezierSegment<S>> = Vec::new();
    arc.for_each_cubic_bezier(&mut |c: &CubicBezierSegment<S>| {
        if cubics.len() < 100_000 {
            cubics.push(*c)
        }
    });
    au.inc("for_each_quadratic_bezier");
    au.inc("for_each_quadratic_bezier_with_t");
    au.inc("for_each_cubic_bezier");
    if quads.len() != quads_t.len() || quads.iter().zip(quads_t.iter()).any(|(a, b)| *a != b.0) {
        au.bad("for_each_quadratic_bezier and for_each_quadratic_bezier_with_t produce different curves", label.to_string());
    }
    // connected: exactly
    if quads_t.windows(2).any(|w| w[0].0.to != w[1].0.from) {
        au.bad("the quadratic sequence is not connected", label.to_string());
    }
    if cubics.windows(2).any(|w| w[0].to != w[1].from) {
        au.bad("the cubic sequence is not connected", label.to_string());
    }
    let k = |j: usize| S::of64(j as f64 / 16.0);
    let qp: Vec<Piece> = quads_t.iter().map(|(q, t)| Piece { from: p64(q.from), to: p64(q.to), inner: (1..16).map(|j| p64(q.sample(k(j)))).collect(), t: Some((t.start.to64(), t.end.to64())) }).collect();
    let cp: Vec<Piece> = cubics.iter().map(|c| Piece { from: p64(c.from), to: p64(c.to), inner: (1..16).map(|j| p64(c.sample(k(j)))).collect(), t: None }).collect();
    let (from, to) = (arc.from(), arc.to());
    check_pieces(au, "quadratic", QUAD_ALLOWED, &qp, r, S::ME, cls, label, p64(from), p64(to), quads.first().map_or(true, |q| q.from == from), quads.last().map_or(true, |q| q.to == to));
    check_pieces(au, "cubic", CUBIC_ALLOWED, &cp, r, S::ME, cls, label, p64(from), p64(to), cubics.first().map_or(true, |q| q.from == from), cubics.last().map_or(true, |q| q.to == to));
}

// ---------------------------------------------------------------------------------------------------- flattening
fn g_flatten<S: Sc>(au: &mut Au, arc: &Arc<S>, r: &RefArc, rng: &mut Rng, label: &str) {
    let me = S::ME;
    let rel = *rng.pick(&[0.1, 0.01, 0.01, 1e-3, 1e-3, 1e-5]);
    let tolerance = S::of64(r.rmax() * rel);
    let tl = tolerance.to64();
    let label = format!("{} tolerance {}", label, tl);
    let cap = 1_000_000;
    let mut segs: Vec<LineSegment<S>> = Vec::new();
    arc.for_each_flattened(tolerance, &mut |s: &LineSegment<S>| {
        if segs.len() < cap {
            segs.push(*s)
        }
    });
    let mut segs_t: Vec<(LineSegment<S>, Range<S>)> = Vec::new();
    arc.for_each_flattened_with_t(tolerance, &mut |s: &LineSegment<S>, t: Range<S>| {
        if segs_t.len() < cap {
            segs_t.push((*s, t))
        }
    });
    let pts: Vec<Point<S>> = arc.flattened(tolerance).take(cap).collect();
    let mut segs_tr: Vec<(LineSegment<S>, Range<S>)> = Vec::new();
    Segment::for_each_flattened_with_t(arc, tolerance, &mut |s: &LineSegment<S>, t: Range<S>| {
        if segs_tr.len() < cap {
            segs_tr.push((*s, t))
        }
    });
    au.inc("for_each_flattened");
    au.inc("for_each_flattened_with_t");
    au.inc("flattened");
    let n = segs.len();
    if n == 0 || n >= cap {
        au.bad("for_each_flattened produced no segment / more than a million segments", label.clone());
        return;
    }
    if segs_t.len() != n || pts.len() != n || segs_tr.len() != n {
        au.bad("for_each_flattened, for_each_flattened_with_t, the Segment trait and the flattened() iterator do not produce the same number of points", format!("{}: {} / {} / {} / {} segments", label, n, segs_t.len(), segs_tr.len(), pts.len()));
        return;
    }
    if segs_tr != segs_t {
        au.bad("Segment::for_each_flattened_with_t differs from the inherent method", label.clone());
    }
    if (0..n).any(|i| segs[i] != segs_t[i].0) {
        au.bad("for_each_flattened and for_each_flattened_with_t do not produce the same points", label.clone());
    }
    // the iterator: the same points; its last point is the arc's end point
    if (0..n - 1).any(|i| pts[i] != segs[i].to) {
        au.bad("the flattened() iterator and for_each_flattened do not produce the same points", label.clone());
    }
    if pts[n - 1] == arc.to() {
        au.inc("flattened_iterator_ends_bit_exactly_on_to");
    } else {
        au.inc("flattened_iterator_end_differs_in_the_last_bits");
    }
    {
        // every step of the iterator replaces the arc by the rest of it, which rounds the start angle: its last point is the
        // end of the last remainder, not `to()` itself; it must still be the arc's end point as far as the flattening tolerance
        // and the resolution of the scalar type can tell
        let d = dist(p64(pts[n - 1]), p64(arc.to()));
        let allowed = tl + 2.0 * r.pt_tol(me);
        if tl > 100.0 * r.pt_tol(me) {
            au.worst("flattened_iterator_end_distance_permille_of_tolerance", 1000.0 * d / tl, &label);
        }
        au.worst("flattened_iterator_end_distance_permille_of_allowed", 1000.0 * d / allowed, &label);
        if !(d <= allowed) {
            au.bad("the flattened() iterator does not end on the arc's end point", format!("{}: {:?} vs {:?} after {} steps: {} apart, the tolerance and the resolution allow {}", label, pts[n - 1], arc.to(), n, d, allowed));
        }
    }
    if segs[0].from != arc.from() || segs[n - 1].to != arc.to() {
        au.bad("the flattened arc does not start / end exactly on the arc's end points", label.clone());
    }
    if segs.windows(2).any(|w| w[0].to != w[1].from) {
        au.bad("the flattened arc is not connected", label.clone());
    }
    let ts: Vec<(f64, f64)> = segs_t.iter().map(|x| (x.1.start.to64(), x.1.end.to64())).collect();
    if ts[0].0 != 0.0 || ts[n - 1].1 != 1.0 {
        au.bad("the parameter ranges of the flattened arc do not run from 0 to exactly 1", label.clone());
    }
    if ts.windows(2).any(|w| w[0].1 != w[1].0) || ts.iter().any(|x| !(x.0 <= x.1)) || (n > 1 && ts.iter().take(n - 1).any(|x| !(x.0 < x.1))) {
        au.bad("the parameter ranges of the flattened arc are not chained / increasing", format!("{}: {:?}", label, &ts[..n.min(6)]));
    }
    // the points are the arc's points at the reported parameters (the parameters and the points are produced by two
    // different recurrences, each step of which rounds: the allowance grows with the number of steps)
    let tol = r.pt_tol(me) + r.rmax() * r.ang_mag() * 4.0 * me * n as f64;
    let mut worst = 0.0f64;
    for (i, s) in segs.iter().enumerate() {
        worst = worst.max(dist(p64(s.to), r.at(ts[i].1)));
    }
    au.worst("flattened_point_vs_parameter_in_tol_permille", 1000.0 * worst / tol, &label);
    if !(worst <= tol) {
        au.bad("a point of the flattened arc is not the arc's point at the reported parameter", format!("{}: off by {} (allowed {})", label, worst, tol));
    }
    // deviation: circular arcs must be within the tolerance (sagitta of every chord); eccentric ellipses are only counted (K10)
    let circular = r.rx == r.ry;
    let mut dev = 0.0f64;
    for (i, s) in segs.iter().enumerate() {
        let (a, b) = (p64(s.from), p64(s.to));
        if circular {
            let mid = (0.5 * (a.0 + b.0), 0.5 * (a.1 + b.1));
            dev = dev.max(r.rx - dist(mid, (r.cx, r.cy)));
        } else {
            for j in 0..=8 {
                let q = r.at(ts[i].0 + (ts[i].1 - ts[i].0) * j as f64 / 8.0);
                dev = dev.max(seg_dist(q, a, b));
            }
        }
    }
    if circular {
        au.inc("flattened_circular_arcs");
        if tl > 100.0 * tol {
            au.worst("flattened_circle_deviation_permille_of_tolerance", 1000.0 * dev / tl, &label);
        }
        if !(dev <= tl * 1.001 + tol) {
            au.bad("the flattened circular arc is farther from the arc than the tolerance", format!("{}: {} ({} segments)", label, dev, n));
        }
    } else {
        au.inc("flattened_elliptic_arcs");
        if tl > 100.0 * tol {
            au.worst("flattened_ellipse_deviation_permille_of_tolerance", 1000.0 * dev / tl, &label);
        }
        if dev > tl * 1.001 + tol {
            au.inc("flattened_elliptic_arcs_beyond_tolerance_K10_not_flagged");
        }
    }
}

// ---------------------------------------------------------------------------------------------------- boxes
fn g_box<S: Sc>(au: &mut Au, arc: &Arc<S>, r: &RefArc, label: &str) {
    let me = S::ME;
    let tol = r.pt_tol(me);
    let btol = 4.0 * tol;
    let ((lx, hx), (ly, hy)) = r.ranges();
    au.inc("bounding_box");
    let b = arc.bounding_box();
    let (bmin, bmax) = (p64(b.min), p64(b.max));
    // contains every point of the arc, is touched on all four sides: it is the reference range
    let e = [(bmin.0 - lx).abs(), (bmax.0 - hx).abs(), (bmin.1 - ly).abs(), (bmax.1 - hy).abs()];
    let w = e.iter().cloned().fold(0.0, f64::max);
    au.worst("bounding_box_error_in_tol_permille", 1000.0 * w / tol, label);
    if bmin.0 > lx + btol || bmax.0 < hx - btol || bmin.1 > ly + btol || bmax.1 < hy - btol {
        au.bad("bounding_box does not contain the arc", format!("{}: {:?} but the arc spans x {}..{} y {}..{}", label, b, lx, hx, ly, hy));
    } else if !(w <= btol) {
        au.bad("bounding_box is not touched by the arc on all four sides", format!("{}: {:?} but the arc spans x {}..{} y {}..{}", label, b, lx, hx, ly, hy));
    }
    // ... and every sample
    for i in 0..=64 {
        let p = r.at(i as f64 / 64.0);
        if p.0 < bmin.0 - btol || p.0 > bmax.0 + btol || p.1 < bmin.1 - btol || p.1 > bmax.1 + btol {
            au.bad("bounding_box does not contain a sample of the arc", format!("{}: {:?} sample {}/64 {:?}", label, b, i, p));
            break;
        }
    }
    au.inc("fast_bounding_box");
    let f = arc.fast_bounding_box();
    let (fmin, fmax) = (p64(f.min), p64(f.max));
    if fmin.0 > lx + tol || fmax.0 < hx - tol || fmin.1 > ly + tol || fmax.1 < hy - tol {
        au.bad("fast_bounding_box does not contain the arc", format!("{}: {:?} but the arc spans x {}..{} y {}..{}", label, f, lx, hx, ly, hy));
    }
    if fmin.0 > bmin.0 + tol || fmax.0 < bmax.0 - tol || fmin.1 > bmin.1 + tol || fmax.1 < bmax.1 - tol {
        au.bad("fast_bounding_box does not contain bounding_box", format!("{}: {:?} vs {:?}", label, f, b));
    }
    // how conservative: it is the box of the rotated rectangle [-rx, rx] x [-ry, ry] (measured, not required)
    {
        let (c, s) = (r.rot.cos().abs(), r.rot.sin().abs());
        let (hw, hh) = (r.rx * c + r.ry * s, r.rx * s + r.ry * c);
        let wf = [(fmin.0 - (r.cx - hw)).abs(), (fmax.0 - (r.cx + hw)).abs(), (fmin.1 - (r.cy - hh)).abs(), (fmax.1 - (r.cy + hh)).abs()].iter().cloned().fold(0.0, f64::max);
        au.worst("fast_bounding_box_vs_rotated_rectangle_in_tol_permille", 1000.0 * wf / tol, label);
    }
    au.inc("bounding_range_x");
    au.inc("bounding_range_y");
    au.inc("fast_bounding_range_x");
    au.inc("fast_bounding_range_y");
    if arc.bounding_range_x() != (b.min.x, b.max.x) || arc.bounding_range_y() != (b.min.y, b.max.y) {
        au.bad("bounding_range_x / y are not the sides of bounding_box", label.to_string());
    }
    if arc.fast_bounding_range_x() != (f.min.x, f.max.x) || arc.fast_bounding_range_y() != (f.min.y, f.max.y) {
        au.bad("fast_bounding_range_x / y are not the sides of fast_bounding_box", label.to_string());
    }
    // extremum parameters: within [0, 1], and the coordinate's derivative vanishes there
    let vtol = 16.0 * me * (7.0 + r.ang_mag()) * r.rmax();
    for is_x in [true, false] {
        let mut ts: Vec<S> = Vec::new();
        if is_x {
            au.inc("for_each_local_x_extremum_t");
            arc.for_each_local_x_extremum_t(&mut |t: S| ts.push(t));
        } else {
            au.inc("for_each_local_y_extremum_t");
            arc.for_each_local_y_extremum_t(&mut |t: S| ts.push(t));
        }
        for t in ts {
            let t = t.to64();
            if !(0.0..=1.0).contains(&t) {
                au.bad("an extremum parameter is outside [0, 1]", format!("{}: {} ({})", label, t, if is_x { "x" } else { "y" }));
                continue;
            }
            if t == 0.0 || t == 1.0 {
                au.inc("extremum_parameter_exactly_at_an_end");
            }
            let d = r.d_angle(r.angle(t));
            let dc = if is_x { d.0 } else { d.1 };
            au.worst("extremum_derivative_in_tol_permille", 1000.0 * dc.abs() / vtol, label);
            if !(dc.abs() <= vtol) {
                au.bad("the coordinate's derivative does not vanish at a reported extremum parameter", format!("{}: t={} ({}) derivative {} (allowed {})", label, t, if is_x { "x" } else { "y" }, dc, vtol));
            }
        }
    }
}

// ---------------------------------------------------------------------------------------------------- length
fn g_length<S: Sc>(au: &mut Au, arc: &Arc<S>, r: &RefArc, rng: &mut Rng, label: &str) {
    let me = S::ME;
    let rel = *rng.pick(&[0.01, 1e-3]);
    let tolerance = S::of64(r.rmax() * rel);
    let tl = tolerance.to64();
    au.inc("approximate_length");
    let len = arc.approximate_length(tolerance).to64();
    if Segment::approximate_length(arc, tolerance).to64() != len {
        au.bad("Segment::approximate_length differs from the inherent method", label.to_string());
    }
    let want = r.polyline_length(4096);
    let nseg = r.sweep.abs() / (2.0 * (1.0 - rel).acos()) + 3.0;
    let noise = nseg * (r.pt_tol(me) + r.rmax() * r.sweep.abs() * 8.0 * me * nseg);
    let label = format!("{} tolerance {}", label, tl);
    // an inscribed polyline is never longer than the curve
    if !(len <= want * (1.0 + 1e-6) + noise) {
        au.bad("approximate_length is longer than the arc", format!("{}: {} but the arc is {} long", label, len, want));
    }
    let circular = r.rx == r.ry;
    // chords of sagitta `tolerance` on a circle are shorter than their arcs by tolerance / (3 r), relatively
    let deficit = 1.05 * rel / 3.0;
    if circular {
        if want * deficit > 100.0 * noise {
            au.worst("length_deficit_permille_of_allowed", 1000.0 * ((want - len) / want) / deficit, &label);
        }
        if !(len >= want * (1.0 - deficit) - noise) {
            au.bad("approximate_length of a circular arc is shorter than what the tolerance allows", format!("{}: {} but the arc is {} long", label, len, want));
        }
    } else if len < want * (1.0 - deficit) - noise {
        au.inc("length_of_elliptic_arcs_short_by_more_than_the_circle_bound_K10_not_flagged");
    }
    let t = S::of64(dyadic(rng));
    let parts = arc.before_split(t).approximate_length(tolerance).to64() + arc.after_split(t).approximate_length(tolerance).to64();
    if circular {
        if !((parts - len).abs() <= deficit * want + noise) {
            au.bad("the lengths of the two pieces of a split circular arc do not add up to the length of the whole", format!("{} t={}: {} vs {}", label, t, parts, len));
        }
    } else {
        if (parts - len).abs() > deficit * want + noise {
            au.inc("length_of_elliptic_arcs_not_additive_within_the_circle_bound_K10_not_flagged");
        }
        if !(parts <= want * (1.0 + 1e-6) + 2.0 * noise) {
            au.bad("the lengths of the two pieces of a split arc add up to more than the length of the arc", format!("{} t={}: {} vs {}", label, t, parts, want));
        }
    }
}

// ---------------------------------------------------------------------------------------------------- to_svg_arc and back
fn g_to_svg<S: Sc>(au: &mut Au, arc: &Arc<S>, r: &RefArc, label: &str) {
    let me = S::ME;
    let pi = std::f64::consts::PI;
    au.inc("to_svg_arc");
    let sa = arc.to_svg_arc();
    if sa.from != arc.from() || sa.to != arc.to() || sa.radii != arc.radii || sa.x_rotation != arc.x_rotation {
        au.bad("to_svg_arc does not keep the end points / radii / rotation", format!("{} -> {:?}", label, sa));
    }
    // flags: direction and size of the sweep
    if r.sweep != 0.0 && sa.flags.sweep != (r.sweep > 0.0) {
        au.bad("to_svg_arc: the sweep flag is not the direction of the sweep", format!("{} -> {:?}", label, sa.flags));
    }
    if (r.sweep.abs() - pi).abs() > 4.0 * me * pi && sa.flags.large_arc != (r.sweep.abs() > pi) {
        au.bad("to_svg_arc: the large-arc flag is not whether the sweep exceeds a half turn", format!("{} -> {:?}", label, sa.flags));
    }
    if sa.is_straight_line() {
        // from == to bit for bit (sweep 0 or a whole number of turns): nothing to convert back (to_arc is documented to refuse)
        au.inc("to_svg_arc_gives_coincident_end_points");
        return;
    }
    let s = r.sweep.abs();
    if s >= 2.0 * pi {
        au.inc("to_svg_arc_of_a_sweep_of_a_full_turn_or_more_not_converted_back");
        return;
    }
    au.inc("to_svg_arc_then_to_arc");
    let back = sa.to_arc();
    let rb = RefArc::of(&back);
    // conditioning of the end point form: the centre is found from a square root of 1 - rf which loses half of the digits
    // when the chord is a diameter (sweep ~ pi), and from the direction of the chord which is lost when the end points
    // nearly coincide (sweep ~ 0 or ~ 2 pi); eccentricity multiplies both
    let ratio = r.rmax() / r.rmin();
    let scale = r.cx.abs() + r.cy.abs() + r.rmax() * (2.0 + r.ang_mag());
    let near_pi = (s - pi).abs() < 0.05;
    let near_0 = s.min(2.0 * pi - s);
    let (d0, d1) = (dist(p64(back.from()), p64(arc.from())), dist(p64(back.to()), p64(arc.to())));
    au.worst("round_trip_end_point_error_in_units_of_ME_scale", d0.max(d1) / (me * scale), label);
    if !(d0.max(d1) <= 64.0 * me * scale) {
        au.bad("to_svg_arc then to_arc: the end points moved", format!("{} -> {:?} -> {:?}: {:?} {:?} vs {:?} {:?}", label, sa, back, back.from(), back.to(), arc.from(), arc.to()));
    }
    // (radii that just fit are scaled up when rounding makes the chord look too long: by what the coordinates can resolve)
    let rtol = 64.0 * me * ratio * ratio * (1.0 + (r.cx.abs() + r.cy.abs()) / r.rmin());
    if back.radii != arc.radii && !((rb.rx / r.rx - 1.0).abs() <= rtol && (rb.ry / r.ry - 1.0).abs() <= rtol) {
        au.bad("to_svg_arc then to_arc: the radii changed", format!("{} -> {:?} -> {:?}", label, sa, back));
    }
    if near_0 < 0.05 {
        au.inc("round_trip_nearly_coincident_end_points_only_end_points_compared");
        return;
    }
    let mut w = 0.0f64;
    for i in 0..=8 {
        let t = S::of64(i as f64 / 8.0);
        w = w.max(dist(p64(back.sample(t)), r.at(t.to64())));
    }
    let bucket = if near_pi { "half_turn" } else { "regular" };
    au.worst(&format!("round_trip_{}_error_in_units_of_ME_scale_ratio", bucket), w / (me * scale * ratio), label);
    let allowed = if near_pi { me.sqrt() * scale * ratio * 8.0 } else { 256.0 * me * scale * ratio / near_0.min(1.0) };
    if !(w <= allowed) {
        au.bad("to_svg_arc then to_arc does not give the same points at the same parameters", format!("{} -> {:?} -> {:?}: off by {} (allowed {})", label, sa, back, w, allowed));
    }
}

// ---------------------------------------------------------------------------------------------------- cast, circle, flags
fn g_misc<S: Sc>(au: &mut Au, arc: &Arc<S>, r: &RefArc, label: &str) {
    au.inc("cast");
    let a64 = arc.cast::<f64>();
    let r64 = RefArc::of(&a64);
    if (r64.cx, r64.cy, r64.rx, r64.ry, r64.start, r64.sweep, r64.rot) != (r.cx, r.cy, r.rx, r.ry, r.start, r.sweep, r.rot) {
        au.bad("cast::<f64>() changes a field", format!("{} -> {:?}", label, a64));
    }
    let a32 = arc.cast::<f32>();
    if (a32.center.x, a32.center.y, a32.radii.x, a32.radii.y, a32.start_angle.radians, a32.sweep_angle.radians, a32.x_rotation.radians) != (r.cx as f32, r.cy as f32, r.rx as f32, r.ry as f32, r.start as f32, r.sweep as f32, r.rot as f32) {
        au.bad("cast::<f32>() is not the rounding of every field", format!("{} -> {:?}", label, a32));
    }
    if arc.cast::<S>() != *arc {
        au.bad("cast to the same scalar type changes the arc", label.to_string());
    }
    au.inc("circle");
    let c = Arc::circle(arc.center, arc.radii.x);
    let rc = RefArc::of(&c);
    let want = RefArc { cx: r.cx, cy: r.cy, rx: r.rx, ry: r.rx, start: 0.0, sweep: 2.0 * S::PI().to64(), rot: 0.0 };
    if (rc.cx, rc.cy, rc.rx, rc.ry, rc.start, rc.rot) != (want.cx, want.cy, want.rx, want.ry, 0.0, 0.0) || (rc.sweep - 2.0 * std::f64::consts::PI).abs() > 8.0 * S::ME {
        au.bad("Arc::circle is not the full circle of the given centre and radius, starting at angle 0", format!("{} -> {:?}", label, c));
    }
    let tol = rc.pt_tol(S::ME);
    for i in 0..=16 {
        let t = S::of64(i as f64 / 16.0);
        let p = p64(c.sample(t));
        let a = 2.0 * std::f64::consts::PI * i as f64 / 16.0;
        let q = (r.cx + r.rx * a.cos(), r.cy + r.rx * a.sin());
        if !(dist(p, q) <= tol) {
            au.bad("Arc::circle: a sample is not the point of the circle at that fraction of the turn", format!("{} -> {:?} t={}/16: {:?} expected {:?}", label, c, i, p, q));
            break;
        }
    }
    if !(dist(p64(c.from()), p64(c.to())) <= tol) {
        au.bad("Arc::circle does not close", format!("{} -> {:?}", label, c));
    }
}

fn audit_centre<S: Sc>(au: &mut Au, arc: &Arc<S>, cls: &str, rng: &mut Rng) {
    let label = format!("{:?}", arc);
    let r = RefArc::of(arc);
    au.st.note_case(&format!("{} {}", S::NAME, label), true);
    au.inc(&format!("arcs_{}", S::NAME));
    au.inc(&format!("arcs_class_{}", cls));
    au.inc(if r.sweep < 0.0 {
        "arcs_negative_sweep"
    } else if r.sweep > 0.0 {
        "arcs_positive_sweep"
    } else {
        "arcs_zero_sweep"
    });
    if r.sweep.abs() > 2.0 * std::f64::consts::PI {
        au.inc("arcs_beyond_a_full_turn");
    }
    let run = |name: &str, au: &mut Au, f: &mut dyn FnMut(&mut Au)| {
        if catch(AssertUnwindSafe(|| f(au))).is_none() {
            au.bad(&format!("{} panicked", name), label.clone());
        }
    };
    let mut r1 = rng.clone();
    run("sample / sample_tangent / get_angle", au, &mut |au| g_sample(au, arc, &r, &mut r1, &label));
    let mut r2 = Rng::new(rng.next_u64());
    run("split / split_range / flip", au, &mut |au| g_split(au, arc, &r, &mut r2, &label));
    let bcls = if r.sweep.abs() < 1e-3 {
        "tiny_sweep"
    } else if cls == "tiny" {
        "tiny_radii"
    } else if cls == "far" {
        "far_centre"
    } else {
        "regular"
    };
    run("for_each_quadratic_bezier / for_each_cubic_bezier", au, &mut |au| g_bezier(au, arc, &r, bcls, &label));
    let mut r3 = Rng::new(rng.next_u64());
    run("for_each_flattened / flattened", au, &mut |au| g_flatten(au, arc, &r, &mut r3, &label));
    run("bounding_box / extrema", au, &mut |au| g_box(au, arc, &r, &label));
    let mut r4 = Rng::new(rng.next_u64());
    run("approximate_length", au, &mut |au| g_length(au, arc, &r, &mut r4, &label));
    run("to_svg_arc / to_arc", au, &mut |au| g_to_svg(au, arc, &r, &label));
    run("cast / circle", au, &mut |au| g_misc(au, arc, &r, &label));
}

// ---------------------------------------------------------------------------------------------------- SVG end point form
fn gen_svg<S: Sc>(rng: &mut Rng, it: usize) -> (SvgArc<S>, &'static str) {
    let pi = std::f64::consts::PI;
    let flags = ArcFlags { large_arc: it % 2 == 0, sweep: (it / 2) % 2 == 0 };
    let lat = |rng: &mut Rng| (rng.range(-10, 10) as f64, rng.range(-10, 10) as f64);
    let from = lat(rng);
    let mut to = lat(rng);
    if to == from {
        to.0 += 3.0;
    }
    let chord = dist(from, to);
    let any_rot = |rng: &mut Rng| match rng.below(5) {
        0 => 0.0,
        1 => rng.range(-8, 8) as f64 * pi / 2.0,
        2 => (rng.unit_f64() - 0.5) * 2.0 * pi,
        3 => (if rng.chance(1, 2) { 1.0 } else { -1.0 }) * (2.0 * pi + rng.unit_f64() * 14.0),
        _ => (0.6f64).acos(),
    };
    let mk = |from: P2, to: P2, rx: f64, ry: f64, rot: f64| SvgArc { from: point(S::of64(from.0), S::of64(from.1)), to: point(S::of64(to.0), S::of64(to.1)), radii: vector(S::of64(rx), S::of64(ry)), x_rotation: Angle::radians(S::of64(rot)), flags };
    match (it / 4) % 13 {
        0 => (mk(from, to, chord * (0.6 + rng.unit_f64()), chord * (0.6 + rng.unit_f64()), any_rot(rng)), "normal"),
        12 => {
            // end points that nearly coincide: 1e-3 of the radius apart down to the last bit of the coordinates
            let r = (1 + rng.below(20)) as f64;
            let from = if rng.chance(1, 3) { (0.0, 0.0) } else { from };
            let d = r * (10.0f64).powi(-(3 + rng.below(if S::NAME == "f32" { 6 } else { 15 }) as i32));
            let (dx, dy) = match rng.below(3) {
                0 => (d, 0.0),
                1 => (0.0, -d),
                _ => (-d * 0.6, d * 0.8),
            };
            let mut sa = mk(from, (from.0 + dx, from.1 + dy), r, if rng.chance(1, 2) { r } else { (1 + rng.below(20)) as f64 }, if rng.chance(1, 2) { 0.0 } else { any_rot(rng) });
            if sa.to == sa.from {
                // the offset is below the resolution of the coordinates: the next representable abscissa
                let x = sa.from.x.to64();
                let next = if S::NAME == "f32" { f32::from_bits((x as f32).to_bits() + 1) as f64 } else { f64::from_bits(x.to_bits() + 1) };
                sa.to.x = S::of64(if x >= 0.0 { next } else { -(if S::NAME == "f32" { f32::from_bits((-x as f32).to_bits() - 1) as f64 } else { f64::from_bits((-x).to_bits() - 1) }) });
            }
            (sa, "nearly_coincident")
        }
        1 => (mk(from, to, chord * 0.2, chord * 0.3, any_rot(rng)), "too_small"),
        2 => {
            // the end points exactly a diameter apart: rf == 1 exactly
            let r = (1 + rng.below(10)) as f64;
            let (a, b) = if rng.chance(1, 2) { ((from.0 - r, from.1), (from.0 + r, from.1)) } else { ((from.0 + r, from.1), (from.0 - r, from.1)) };
            (mk(a, b, r, (1 + rng.below(20)) as f64, 0.0), "diameter")
        }
        3 => {
            let r = (1 + rng.below(10)) as f64;
            let (a, b) = if rng.chance(1, 2) { ((from.0, from.1 - r), (from.0, from.1 + r)) } else { ((from.0, from.1 + r), (from.0, from.1 - r)) };
            (mk(a, b, (1 + rng.below(20)) as f64, r, 0.0), "diameter")
        }
        4 => (mk(from, from, 1.0 + rng.below(9) as f64, 1.0 + rng.below(9) as f64, any_rot(rng)), "coincident"),
        5 => {
            // zero of either sign; one time in four a radius that is not zero but below lyon's EPSILON of either scalar type
            let z = *rng.pick(&[0.0, -0.0, 1e-9, 1e-5]);
            let r = 1.0 + rng.below(9) as f64;
            let (rx, ry) = match rng.below(3) {
                0 => (z, r),
                1 => (r, z),
                _ => (z, z),
            };
            (mk(from, to, rx, ry, any_rot(rng)), "zero_radius")
        }
        6 => {
            let (rx, ry) = (chord * (0.3 + rng.unit_f64()), chord * (0.3 + rng.unit_f64()));
            let (rx, ry) = match rng.below(3) {
                0 => (-rx, ry),
                1 => (rx, -ry),
                _ => (-rx, -ry),
            };
            (mk(from, to, rx, ry, any_rot(rng)), "negative")
        }
        7 => {
            let r = 1e-3 * (1 + rng.below(9)) as f64;
            let k = *rng.pick(&[1.0, 2.0, 5.0]);
            if rng.chance(1, 2) {
                // far too small for the chord: scaled up
                (mk(from, to, r * k, r, any_rot(rng)), "tiny")
            } else {
                // a tiny arc near the origin with a chord of its own size
                let a = (rng.range(-4, 4) as f64 / 8.0, rng.range(-4, 4) as f64 / 8.0);
                let b = (a.0 + r * (rng.range(1, 8) as f64 / 8.0), a.1 + r * (rng.range(-8, 8) as f64 / 8.0));
                (mk(a, b, r * k, r, any_rot(rng)), "tiny")
            }
        }
        8 => {
            let r = 1e4 * (1 + rng.below(9)) as f64;
            let k = *rng.pick(&[1.0, 2.0, 50.0]);
            (mk(from, to, r, r / k, any_rot(rng)), "huge")
        }
        9 => {
            let k = (2 + rng.below(49)) as f64;
            let r = chord * (0.1 + rng.unit_f64());
            let (rx, ry) = if rng.chance(1, 2) { (r * k, r) } else { (r, r * k) };
            (mk(from, to, rx, ry, any_rot(rng)), "eccentric")
        }
        10 => {
            // the chord along (or across) the rotation axis
            let rot = (to.1 - from.1).atan2(to.0 - from.0) + if rng.chance(1, 2) { 0.0 } else { pi / 2.0 };
            let (rx, ry) = match rng.below(3) {
                0 => (chord / 2.0, chord * (0.2 + rng.unit_f64())),
                1 => (chord * (0.2 + rng.unit_f64()), chord / 2.0),
                _ => (chord * (0.3 + rng.unit_f64()), chord * (0.3 + rng.unit_f64())),
            };
            (mk(from, to, rx, ry, rot), "collinear")
        }
        _ => {
            // a circle whose diameter is the chord, under rotations that are multiples of a quarter turn or exceed a turn
            let rot = if rng.chance(1, 2) { rng.range(-8, 8) as f64 * pi / 2.0 } else { (if rng.chance(1, 2) { 1.0 } else { -1.0 }) * (2.0 * pi + rng.unit_f64() * 14.0) };
            (mk(from, to, chord / 2.0, chord / 2.0, rot), "half_chord_radius")
        }
    }
}

fn audit_svg<S: Sc>(au: &mut Au, sa: &SvgArc<S>, kind: &str, rng: &mut Rng) {
    let label = format!("{:?}", sa);
    let me = S::ME;
    let pi = std::f64::consts::PI;
    au.st.note_case(&format!("{} {}", S::NAME, label), true);
    au.inc(&format!("svg_arcs_{}", S::NAME));
    au.inc(&format!("svg_arcs_kind_{}", kind));
    au.inc(&format!("svg_arcs_flags_{}_{}", sa.flags.large_arc as u8, sa.flags.sweep as u8));
    let (from, to) = (p64(sa.from), p64(sa.to));
    let (rx, ry) = (sa.radii.x.to64(), sa.radii.y.to64());
    let rot = sa.x_rotation.radians.to64();
    // ---- is_straight_line: SVG renders a straight line when a radius is zero and omits the arc when the end points coincide
    au.inc("is_straight_line");
    let straight = match catch(AssertUnwindSafe(|| sa.is_straight_line())) {
        Some(x) => x,
        None => {
            au.bad("is_straight_line panicked", label.clone());
            return;
        }
    };
    let zero_radius = rx == 0.0 || ry == 0.0;
    let same = from == to;
    if (zero_radius || same) && !straight {
        au.bad("is_straight_line is false for a zero radius / coincident end points", label.clone());
    }
    if !zero_radius && !same && rx.abs() >= 1e-3 && ry.abs() >= 1e-3 && straight {
        au.bad("is_straight_line is true for an arc with non-zero radii and distinct end points", label.clone());
    }
    // every route of SvgArc itself
    type Routes<S> = (Vec<QuadraticBezierSegment<S>>, Vec<(QuadraticBezierSegment<S>, Range<S>)>, Vec<CubicBezierSegment<S>>, Vec<LineSegment<S>>, Vec<(LineSegment<S>, Range<S>)>);
    let tolerance = S::of64(0.01 * (rx.abs().max(ry.abs())).max(1e-3));
    let routes = |tolerance: S| -> Routes<S> {
        let mut q = Vec::new();
        sa.for_each_quadratic_bezier(&mut |c: &QuadraticBezierSegment<S>| q.push(*c));
        let mut qt = Vec::new();
        sa.for_each_quadratic_bezier_with_t(&mut |c: &QuadraticBezierSegment<S>, t: Range<S>| qt.push((*c, t)));
        let mut cu = Vec::new();
        sa.for_each_cubic_bezier(&mut |c: &CubicBezierSegment<S>| cu.push(*c));
        let mut l = Vec::new();
        sa.for_each_flattened(tolerance, &mut |s: &LineSegment<S>| {
            if l.len() < 1_000_000 {
                l.push(*s)
            }
        });
        let mut lt = Vec::new();
        sa.for_each_flattened_with_t(tolerance, &mut |s: &LineSegment<S>, t: Range<S>| {
            if lt.len() < 1_000_000 {
                lt.push((*s, t))
            }
        });
        (q, qt, cu, l, lt)
    };
    au.inc("svg_for_each_quadratic_bezier");
    au.inc("svg_for_each_quadratic_bezier_with_t");
    au.inc("svg_for_each_cubic_bezier");
    au.inc("svg_for_each_flattened");
    au.inc("svg_for_each_flattened_with_t");
    let (q, qt, cu, l, lt) = match catch(AssertUnwindSafe(|| routes(tolerance))) {
        Some(x) => x,
        None => {
            au.bad("SvgArc::for_each_* panicked", label.clone());
            return;
        }
    };
    if straight {
        au.inc("svg_straight_lines");
        // to_arc is documented to refuse these ("do not convert"): whatever it does is not flagged
        match catch(AssertUnwindSafe(|| sa.to_arc())) {
            None => au.inc("to_arc_refuses_a_straight_line_by_panicking"),
            Some(_) => au.inc("to_arc_converts_a_straight_line"),
        }
        if same {
            // SVG omits the arc; lyon emits one zero-length curve (counted, not flagged)
            au.inc("svg_coincident_end_points_emit_one_zero_length_curve");
        } else if !zero_radius {
            au.inc("is_straight_line_for_small_non_zero_radii");
        }
        let on_seg = |p: P2| seg_dist(p, from, to) <= 4.0 * me * (from.0.abs() + from.1.abs() + to.0.abs() + to.1.abs());
        let one = S::ONE;
        let ok = q.len() == 1
            && qt.len() == 1
            && cu.len() == 1
            && l.len() == 1
            && lt.len() == 1
            && q[0] == qt[0].0
            && (q[0].from, q[0].to) == (sa.from, sa.to)
            && (cu[0].from, cu[0].to) == (sa.from, sa.to)
            && (l[0].from, l[0].to) == (sa.from, sa.to)
            && l[0] == lt[0].0
            && qt[0].1 == (S::ZERO..one)
            && lt[0].1 == (S::ZERO..one)
            && (1..8).all(|j| on_seg(p64(q[0].sample(S::of64(j as f64 / 8.0)))) && on_seg(p64(cu[0].sample(S::of64(j as f64 / 8.0)))));
        if !ok {
            au.bad("a straight-line SVG arc is not rendered as the one segment from its start to its end", format!("{} -> {:?} / {:?} / {:?}", label, q, cu, l));
        }
        return;
    }
    // ---- conversion
    au.inc("to_arc");
    au.inc("from_svg_arc");
    let arc = match catch(AssertUnwindSafe(|| (sa.to_arc(), Arc::from_svg_arc(sa), <Arc<S> as From<SvgArc<S>>>::from(*sa)))) {
        Some((a, b, c)) => {
            if a != b || a != c {
                au.bad("to_arc, from_svg_arc and From<SvgArc> differ", label.clone());
            }
            a
        }
        None => {
            au.bad("to_arc / from_svg_arc panicked", label.clone());
            return;
        }
    };
    let r = RefArc::of(&arc);
    let label = format!("{} -> {:?}", label, arc);
    if !(r.cx.is_finite() && r.cy.is_finite() && r.rx.is_finite() && r.ry.is_finite() && r.start.is_finite() && r.sweep.is_finite()) {
        au.bad("to_arc gives a non-finite arc", label.clone());
        return;
    }
    // the reference of the conversion (SVG implementation notes F.6.5 / F.6.6), in the frame in which the ellipse is a unit circle:
    // the half chord has length sqrt(rf) there; rf > 1: radii scaled by sqrt(rf) and the chord becomes a diameter; otherwise the
    // swept angle is 2 asin(sqrt(rf)) or its complement to a full turn
    let (arx, ary) = (rx.abs(), ry.abs());
    let (c, s) = (rot.cos(), rot.sin());
    let hd = ((from.0 - to.0) / 2.0, (from.1 - to.1) / 2.0);
    let p = (c * hd.0 + s * hd.1, -s * hd.0 + c * hd.1);
    let rf = (p.0 / arx).powi(2) + (p.1 / ary).powi(2);
    let k_want = if rf > 1.0 { rf.sqrt() } else { 1.0 };
    let ratio = arx.max(ary) / arx.min(ary);
    let (kx, ky) = (r.rx / arx, r.ry / ary);
    au.worst("svg_radius_factor_error_in_ME", ((kx / k_want - 1.0).abs().max((ky / k_want - 1.0).abs())) / me, &label);
    if !((kx / k_want - 1.0).abs() <= 16.0 * me * ratio * ratio && (ky / k_want - 1.0).abs() <= 16.0 * me * ratio * ratio) {
        au.bad("the radii are not the given ones (absolute values), scaled up by the smallest factor that makes the chord fit", format!("{}: factors {} {} expected {}", label, kx, ky, k_want));
    }
    if rf <= 1.0 - 1e-6 && (arc.radii.x.to64() != arx || arc.radii.y.to64() != ary) {
        au.bad("radii that are large enough were changed", label.clone());
    }
    if arc.x_rotation != sa.x_rotation {
        au.bad("to_arc changes the rotation", label.clone());
    }
    let ptol = 4.0 * r.pt_tol(me) + 8.0 * me * (from.0.abs() + from.1.abs() + to.0.abs() + to.1.abs());
    let (d0, d1) = (dist(p64(arc.from()), from), dist(p64(arc.to()), to));
    au.worst(&format!("svg_end_point_error_in_tol_permille_{}", kind), 1000.0 * d0.max(d1) / ptol, &label);
    if !(d0.max(d1) <= ptol) {
        au.bad("the centre-form arc does not start / end at the given points", format!("{}: from {:?} to {:?} (off by {}, allowed {})", label, arc.from(), arc.to(), d0.max(d1), ptol));
    }
    let sw = r.sweep;
    if !(sw.abs() <= 2.0 * pi * (1.0 + 4.0 * me)) {
        au.bad("the sweep exceeds a full turn", format!("{}: sweep {}", label, sw));
    }
    // direction and size selected by the flags: the signed sweep is +-(2 asin(sqrt(rf))) or its complement to a full turn.
    // The angles are found in the unit-circle frame with an absolute error of a few ME, more when the chord is close to a
    // diameter (the derivative of asin); a small arc that is shorter than this may come out as a zero sweep.
    let half = 2.0 * rf.min(1.0).sqrt().asin();
    let dir = if sa.flags.sweep { 1.0 } else { -1.0 };
    let mut sub_resolution = false;
    if rf < 1.0 - 1e-3 {
        let want = dir * if sa.flags.large_arc { 2.0 * pi - half } else { half };
        let e = (sw - want).abs();
        let allowed = 64.0 * me * 2.0 * pi / (1.0 - rf).sqrt();
        sub_resolution = half <= allowed;
        if e <= allowed {
            au.worst("svg_sweep_error_in_allowed_permille", 1000.0 * e / allowed, &label);
        } else {
            if sw != 0.0 && (sw > 0.0) != sa.flags.sweep {
                au.bad("the sweep direction does not follow the sweep flag", format!("{}: sweep {} expected {}", label, sw, want));
            } else if (sw.abs() > pi) != sa.flags.large_arc {
                au.bad("the sweep size does not follow the large-arc flag", format!("{}: sweep {} expected {}", label, sw, want));
            } else {
                au.bad("the swept angle is not the one subtended by the chord", format!("{}: sweep {} expected {} (rf {}, allowed error {})", label, sw, want, rf, allowed));
            }
        }
    } else {
        // the chord is (nearly) a diameter: both candidates are (nearly) half turns, in the direction of the flag
        let e = (sw.abs() - pi).abs();
        let allowed = 2.2 * (1.0 - rf.min(1.0)).sqrt() + 16.0 * me.sqrt() * ratio;
        if !(e <= allowed) {
            au.bad("an arc whose chord is a diameter (radii too small, or just large enough) does not sweep half a turn", format!("{}: sweep {} (rf {})", label, sw, rf));
        }
        if (sw > 0.0) != sa.flags.sweep {
            au.bad("the sweep direction does not follow the sweep flag", format!("{}: sweep {}", label, sw));
        }
    }
    if kind == "diameter" {
        // lattice inputs with rf == 1 exactly: the centre is the mid-point, both sweeps are half turns
        au.inc("svg_exact_diameter");
        let mid = ((from.0 + to.0) / 2.0, (from.1 + to.1) / 2.0);
        if !(dist((r.cx, r.cy), mid) <= 8.0 * me * (1.0 + mid.0.abs() + mid.1.abs() + r.rmax())) || !((sw.abs() - pi).abs() <= 8.0 * me) {
            au.bad("end points exactly a diameter apart: the centre is not the mid-point / the sweep is not a half turn", format!("{}: centre {:?} sweep {}", label, arc.center, sw));
        }
        if rf != 1.0 {
            au.inc("svg_exact_diameter_rf_not_exactly_one_in_the_reference");
        }
    }
    // ---- converting back returns the original
    au.inc("to_svg_arc");
    if let Some(back) = catch(AssertUnwindSafe(|| arc.to_svg_arc())) {
        let same_flags = back.flags == sa.flags;
        if !(dist(p64(back.from), from) <= ptol && dist(p64(back.to), to) <= ptol) || back.x_rotation != sa.x_rotation || back.radii != arc.radii {
            au.bad("to_svg_arc(to_arc(a)) does not return the end points / rotation / (scaled) radii of a", format!("{} -> {:?}", label, back));
        }
        // (a small arc below the resolution of the angles has no direction left; near a half turn both sizes are the same arc)
        if rf < 1.0 - 1e-3 && !same_flags && !sub_resolution {
            au.bad("to_svg_arc(to_arc(a)) does not return the flags of a", format!("{} -> {:?}", label, back));
        }
        if back.flags.sweep != sa.flags.sweep && !sub_resolution {
            au.bad("to_svg_arc(to_arc(a)) does not return the sweep flag of a", format!("{} -> {:?}", label, back));
        }
    } else {
        au.bad("to_svg_arc panicked", label.clone());
    }
    // ---- the routes of SvgArc are those of the centre form
    let same_routes = catch(AssertUnwindSafe(|| {
        let mut q2 = Vec::new();
        arc.for_each_quadratic_bezier(&mut |c: &QuadraticBezierSegment<S>| q2.push(*c));
        let mut qt2 = Vec::new();
        arc.for_each_quadratic_bezier_with_t(&mut |c: &QuadraticBezierSegment<S>, t: Range<S>| qt2.push((*c, t)));
        let mut cu2 = Vec::new();
        arc.for_each_cubic_bezier(&mut |c: &CubicBezierSegment<S>| cu2.push(*c));
        let mut l2 = Vec::new();
        arc.for_each_flattened(tolerance, &mut |s: &LineSegment<S>| {
            if l2.len() < 1_000_000 {
                l2.push(*s)
            }
        });
        let mut lt2 = Vec::new();
        arc.for_each_flattened_with_t(tolerance, &mut |s: &LineSegment<S>, t: Range<S>| {
            if lt2.len() < 1_000_000 {
                lt2.push((*s, t))
            }
        });
        q2 == q && qt2 == qt && cu2 == cu && l2 == l && lt2 == lt
    }));
    match same_routes {
        None => au.bad("a for_each_* of the converted arc panicked", label.clone()),
        Some(false) => au.bad("SvgArc::for_each_* differ from the same calls on to_arc()", label.clone()),
        Some(true) => {}
    }
    if sw == 0.0 {
        // distinct end points closer than the angles can tell: the centre form has a zero sweep and nothing is emitted
        // (counted, not flagged: the gap is below the resolution of the arc)
        au.inc("svg_distinct_end_points_converted_to_a_zero_sweep");
        if !(q.is_empty() && cu.is_empty()) {
            au.bad("curves are emitted for a zero sweep", label.clone());
        }
        return;
    }
    // they start and end on the given end points: how exactly
    for (what, first, last) in [("quadratic", q.first().map(|x| x.from), q.last().map(|x| x.to)), ("cubic", cu.first().map(|x| x.from), cu.last().map(|x| x.to)), ("flattened", l.first().map(|x| x.from), l.last().map(|x| x.to))] {
        match (first, last) {
            (Some(a), Some(b)) => {
                let (e0, e1) = (dist(p64(a), from), dist(p64(b), to));
                au.worst("svg_route_end_point_error_in_tol_permille", 1000.0 * e0.max(e1) / ptol, &label);
                if a == sa.from && b == sa.to {
                    au.inc("svg_route_end_points_bit_exact");
                } else {
                    au.inc("svg_route_end_points_differ_in_the_last_bits");
                }
                if !(e0 <= ptol && e1 <= 2.0 * ptol) {
                    au.bad(&format!("SvgArc: the {} sequence does not run from the given start point to the given end point", what), format!("{}: {:?} .. {:?}", label, a, b));
                }
            }
            _ => au.bad(&format!("SvgArc: the {} sequence is empty", what), label.clone()),
        }
    }
    // ---- and the converted arc goes through the centre-form checks
    let cls = if r.sweep.abs() < 1e-3 {
        "tiny_sweep"
    } else if kind == "tiny" {
        "tiny_radii"
    } else {
        "regular"
    };
    let run = |name: &str, au: &mut Au, f: &mut dyn FnMut(&mut Au)| {
        if catch(AssertUnwindSafe(|| f(au))).is_none() {
            au.bad(&format!("{} panicked", name), label.clone());
        }
    };
    let mut r1 = Rng::new(rng.next_u64());
    run("sample / sample_tangent / get_angle", au, &mut |au| g_sample(au, &arc, &r, &mut r1, &label));
    run("for_each_quadratic_bezier / for_each_cubic_bezier", au, &mut |au| g_bezier(au, &arc, &r, cls, &label));
    let mut r3 = Rng::new(rng.next_u64());
    run("for_each_flattened / flattened", au, &mut |au| g_flatten(au, &arc, &r, &mut r3, &label));
    run("bounding_box / extrema", au, &mut |au| g_box(au, &arc, &r, &label));
}

fn audit<S: Sc>(st: &mut Stats, args: &Args) {
    let mut rng = Rng::new(args.seed ^ 0x1313 ^ if S::NAME == "f32" { 0x3200 } else { 0x6400 });
    let (n_centre, n_svg) = if args.thorough() { (8000, 4000) } else { (1000, 500) };
    let mut au = Au { st, name: S::NAME, worst: BTreeMap::new(), listed: BTreeMap::new() };
    // ArcFlags: the default is the small arc in the negative direction (both flags false)
    au.inc("arc_flags_default");
    let d = ArcFlags::default();
    if d.large_arc || d.sweep || d != (ArcFlags { large_arc: false, sweep: false }) {
        au.bad("ArcFlags::default() is not { large_arc: false, sweep: false }", format!("{:?}", d));
    }
    for it in 0..n_centre {
        let (arc, cls) = gen_centre::<S>(&mut rng, it);
        audit_centre(&mut au, &arc, cls, &mut rng);
    }
    for it in 0..n_svg {
        let (sa, kind) = gen_svg::<S>(&mut rng, it);
        audit_svg(&mut au, &sa, kind, &mut rng);
    }
    au.finish();
}
