//! C06: stroke triangles cover the band around the path and nothing far from it.
//! Polylines in the no-fold regime (segments long against the width, turns of at most 135 degrees),
//! open and closed, all joins and caps.  The harness derives from the INPUT polyline the "must"
//! polygons (segment rectangles shrunk by the tolerance, polygons inscribed in the discs of round
//! joins / caps) and the allowed reach; the Coq checker (Checker/StrokeCover.v) decides exactly, for
//! all points of the scanned lines, that the must region is covered, and per triangle that it stays
//! within reach.  The same facts are sampled directly here on a grid.
use crate::c05::{StrokeCfg, StrokeRec};
use crate::c07::seg_dist;
use crate::tess::*;
use crate::util::*;
use lyon_path::math::Point;
use lyon_tessellation::{LineCap, LineJoin, StrokeTessellator};
use std::panic::AssertUnwindSafe;

pub const HEADER: &str =
    "From Coq Require Import QArith.\nFrom LV Require Import Base.Prelude Model.Bezier Checker.Region Checker.StrokeCover Run.C06.\nOpen Scope Q_scope.";

pub const HEADER_PLANE: &str =
    "From Coq Require Import QArith.\nFrom LV Require Import Base.Prelude Model.Bezier Checker.Region Checker.StrokeCover Checker.Slab Checker.CoverPlane Run.C06.\nOpen Scope Q_scope.";

type P = (f64, f64);

fn sub(a: P, b: P) -> P {
    (a.0 - b.0, a.1 - b.1)
}
fn add(a: P, b: P) -> P {
    (a.0 + b.0, a.1 + b.1)
}
fn mul(a: P, k: f64) -> P {
    (a.0 * k, a.1 * k)
}
fn len(a: P) -> f64 {
    a.0.hypot(a.1)
}
fn unit(a: P) -> P {
    mul(a, 1.0 / len(a))
}

/// polyline in the no-fold regime
fn gen_polyline(r: &mut Rng, width: f64) -> (Vec<(f32, f32)>, bool) {
    let closed = r.chance(1, 3);
    if closed {
        // a convex polygon: regular n-gon with jittered radius
        let n = 3 + r.below(4) as usize;
        let rad = width * (6.0 + r.below(8) as f64);
        let rot = r.unit_f64() * 6.28;
        let pts = (0..n)
            .map(|i| {
                let a = rot + i as f64 * 6.283185307 / n as f64;
                let k = 1.0 + 0.15 * (r.unit_f64() - 0.5);
                (((rad * k * a.cos()) * 8.0).round() as f32 / 8.0, ((rad * k * a.sin()) * 8.0).round() as f32 / 8.0)
            })
            .collect();
        (pts, true)
    } else {
        let n = 2 + r.below(5) as usize;
        let mut pts: Vec<(f32, f32)> = vec![(0.0, 0.0)];
        let mut dir = r.unit_f64() * 6.28;
        for _ in 1..n {
            let l = width * (4.0 + r.below(10) as f64);
            let last = *pts.last().unwrap();
            pts.push((last.0 + ((l * dir.cos()) * 8.0).round() as f32 / 8.0, last.1 + ((l * dir.sin()) * 8.0).round() as f32 / 8.0));
            // turn by at most 135 degrees either way
            dir += (r.unit_f64() - 0.5) * 2.0 * 2.35;
        }
        (pts, false)
    }
}

fn gp64(p: P) -> String {
    format!("({}, {})", gq64(p.0), gq64(p.1))
}
/// corners snapped to the 2^-10 grid (the margin of the must region allows for it): small rationals for the model
fn snap(p: P) -> P {
    ((p.0 * 1024.0).round() / 1024.0, (p.1 * 1024.0).round() / 1024.0)
}
fn gpoly(pts: &[P]) -> String {
    let n = pts.len();
    glist((0..n).map(|i| format!("({}, {})", gp64(snap(pts[i])), gp64(snap(pts[(i + 1) % n])))))
}

pub fn main(args: &Args) -> std::io::Result<()> {
    use std::io::Write;
    let mut st = Stats::default();
    let mut w = ShardWriter::new(&args.out, "c06_cases", args.shards, HEADER, "bad_cases");
    w.disabled = args.direct_only();
    // small strokes are also decided at EVERY point of the plane (slab lift, C06_plane_sub_sound)
    let mut wp = ShardWriter::new(&args.out, "c06plane_cases", args.shards, HEADER_PLANE, "plane_sub_undecided");
    wp.disabled = args.direct_only();
    let mut plane_budget = if args.thorough() { 96 } else { 16 };
    let mut idx = std::fs::File::create(args.out.join("c06_index.txt"))?;
    let mut rng = Rng::new(args.seed ^ 0x06);
    let n = if args.thorough() { 6000 } else { 800 };
    let coq_cap = if args.thorough() { 1200 } else { 160 };
    let mut id = 0usize;
    for it in 0..n {
        let width = *rng.pick(&[0.5f32, 1.0, 2.0]);
        let (mut pts, closed) = gen_polyline(&mut rng, width as f64);
        // one case in four far from the origin (all coordinates stay multiples of 1/8, exact in f32): the stroke of
        // a translated path is the translated stroke, up to the f32 resolution there (2e-5 * extent in the margin)
        if it % 4 == 3 {
            let o = *rng.pick(&[(2500.5f32, 1800.25f32), (4096.5, 3000.25), (-3000.0, 5000.5), (1000.0, -7000.75)]);
            for p in pts.iter_mut() {
                *p = (p.0 + o.0, p.1 + o.1);
            }
            st.inc("far_from_origin");
        }
        let spec = PathSpec::from_polylines(&[pts.clone()], &[closed]);
        let cfg = StrokeCfg {
            join: *rng.pick(&[LineJoin::Miter, LineJoin::MiterClip, LineJoin::Round, LineJoin::Bevel]),
            start_cap: *rng.pick(&[LineCap::Butt, LineCap::Square, LineCap::Round]),
            end_cap: *rng.pick(&[LineCap::Butt, LineCap::Square, LineCap::Round]),
            width,
            miter_limit: *rng.pick(&[1.0f32, 2.0, 4.0]),
            tol: *rng.pick(&[0.02f32, 0.1]),
            var_width: false,
        };
        let entry = *rng.pick(&[Entry::TessellatePath, Entry::Tessellate, Entry::WithIds, Entry::Builder]);
        let label = format!("{:?} {:?} closed {} :: {:?}", entry, cfg, closed, pts);
        st.inc("evaluations");
        st.inc(&format!("join_{:?}", cfg.join));
        st.inc(if closed { "closed" } else { "open" });
        st.note_case(&label, pts.len() > 2);
        let mut rec = StrokeRec::default();
        let ok = catch(AssertUnwindSafe(|| run_stroke(entry, &mut StrokeTessellator::new(), &spec, &cfg.options(), &mut rec).is_ok()));
        if ok != Some(true) {
            st.fail(jobj(&[("what", jstr("stroking failed or panicked")), ("input", jstr(&label))]));
            continue;
        }
        let hw = width as f64 * 0.5;
        let tol = cfg.tol as f64;
        let p64: Vec<P> = pts.iter().map(|p| (p.0 as f64, p.1 as f64)).collect();
        let np = p64.len();
        let nseg = if closed { np } else { np - 1 };
        let segs: Vec<(P, P)> = (0..nseg).map(|i| (p64[i], p64[(i + 1) % np])).collect();
        let extent = p64.iter().map(|p| p.0.abs().max(p.1.abs())).fold(1.0, f64::max);
        let margin = tol + 2e-5 * extent + 2.0 / 1024.0;
        // ---- must polygons
        let mut must: Vec<Vec<P>> = Vec::new();
        for (a, b) in &segs {
            let d = unit(sub(*b, *a));
            let nrm = (-d.1, d.0);
            let h = hw - margin;
            let (a2, b2) = (add(*a, mul(d, margin)), sub(*b, mul(d, margin)));
            must.push(vec![add(a2, mul(nrm, h)), add(b2, mul(nrm, h)), sub(b2, mul(nrm, h)), sub(a2, mul(nrm, h))]);
        }
        let disc = |c: P, rad: f64| -> Vec<P> { (0..12).map(|k| add(c, mul(((k as f64 * 0.5235987756).cos(), (k as f64 * 0.5235987756).sin()), rad))).collect() };
        let round_all = cfg.join == LineJoin::Round && cfg.start_cap == LineCap::Round && cfg.end_cap == LineCap::Round;
        if cfg.join == LineJoin::Round {
            let range = if closed { 0..np } else { 1..np - 1 };
            for i in range {
                must.push(disc(p64[i], hw - margin));
            }
        }
        if !closed {
            if cfg.start_cap == LineCap::Round {
                must.push(disc(p64[0], hw - margin));
            }
            if cfg.end_cap == LineCap::Round {
                must.push(disc(p64[np - 1], hw - margin));
            }
        }
        // ---- allowed reach: the largest join / cap factor present in this stroke
        let mut factor: f64 = 1.0;
        let joins: Vec<usize> = if closed { (0..np).collect() } else { (1..np.saturating_sub(1)).collect() };
        for &i in &joins {
            let d0 = unit(sub(p64[i], p64[(i + np - 1) % np]));
            let d1 = unit(sub(p64[(i + 1) % np], p64[i]));
            let cos_turn = (d0.0 * d1.0 + d0.1 * d1.1).clamp(-1.0, 1.0);
            let miter = (2.0 / (1.0 + cos_turn)).sqrt(); // 1 / cos(turn / 2)
            let ml = cfg.miter_limit as f64;
            let f = match cfg.join {
                LineJoin::Miter => if miter <= ml * 1.000001 { miter } else { 1.0 },
                LineJoin::MiterClip => if miter <= ml * 1.000001 { miter } else { (ml * ml + 1.0).sqrt() },
                _ => 1.0,
            };
            factor = factor.max(f);
        }
        if !closed && (cfg.start_cap == LineCap::Square || cfg.end_cap == LineCap::Square) {
            factor = factor.max(std::f64::consts::SQRT_2);
        }
        let reach = factor * hw + margin;
        st.inc(if round_all && !closed || (closed && cfg.join == LineJoin::Round) { "exact_band_cases" } else { "bounded_cases" });
        // ---- direct sampling
        let pos: Vec<Point> = rec.verts.iter().map(|v| v.pos).collect();
        let tris: Vec<(u32, u32, u32)> = rec.tris.iter().map(|t| (t[0], t[1], t[2])).collect();
        let inside_poly = |poly: &Vec<P>, q: P| -> bool {
            let m = poly.len();
            let mut sgn = 0i32;
            for k in 0..m {
                let (a, b) = (poly[k], poly[(k + 1) % m]);
                let c = (b.0 - a.0) * (q.1 - a.1) - (b.1 - a.1) * (q.0 - a.0);
                if c.abs() < 1e-9 {
                    return false;
                }
                let s = if c > 0.0 { 1 } else { -1 };
                if sgn == 0 {
                    sgn = s;
                } else if sgn != s {
                    return false;
                }
            }
            true
        };
        let (mut minx, mut miny, mut maxx, mut maxy) = (f64::MAX, f64::MAX, f64::MIN, f64::MIN);
        for p in &p64 {
            minx = minx.min(p.0);
            miny = miny.min(p.1);
            maxx = maxx.max(p.0);
            maxy = maxy.max(p.1);
        }
        let pad = reach + hw;
        let g = if args.thorough() { 48 } else { 32 };
        let mut bad = false;
        'grid: for gy in 0..=g {
            for gx in 0..=g {
                let q = (minx - pad + (maxx - minx + 2.0 * pad) * (gx as f64 + 0.37) / g as f64, miny - pad + (maxy - miny + 2.0 * pad) * (gy as f64 + 0.41) / g as f64);
                let (cl, _) = crate::c01::cover_f64(q, &pos, &tris);
                let d = segs.iter().map(|(a, b)| seg_dist(q, *a, *b)).fold(f64::MAX, f64::min);
                st.inc("sample_points");
                if must.iter().any(|m| inside_poly(m, q)) && cl == 0 {
                    st.fail(jobj(&[("what", jstr("a point within half the width of a segment is not covered by the stroke")), ("input", jstr(&format!("point {:?} at distance {:.4} (half width {}) :: {}", q, d, hw, label)))]));
                    bad = true;
                    break 'grid;
                }
                if cl > 0 && d > reach {
                    st.fail(jobj(&[("what", jstr("the stroke covers a point farther from the path than the join / cap reach")), ("input", jstr(&format!("point {:?} at distance {:.4} reach {:.4} :: {}", q, d, reach, label)))]));
                    bad = true;
                    break 'grid;
                }
            }
        }
        // round joins and round caps: "the covered set is exactly the set of points within half the width of the path, up
        // to the tolerance" - every point at distance half-width minus the margin from a vertex with a round join / cap
        // is within half the width of the path and must be covered (96 directions per such vertex; the 12-gons above
        // leave the arcs of the discs unchecked)
        if !bad {
            let mut centres: Vec<P> = Vec::new();
            if cfg.join == LineJoin::Round {
                let range = if closed { 0..np } else { 1..np.saturating_sub(1) };
                for i in range {
                    centres.push(p64[i]);
                }
            }
            if !closed {
                if cfg.start_cap == LineCap::Round {
                    centres.push(p64[0]);
                }
                if cfg.end_cap == LineCap::Round {
                    centres.push(p64[np - 1]);
                }
            }
            'discs: for c in &centres {
                for k in 0..96 {
                    let a = (k as f64 + 0.5) * std::f64::consts::PI / 48.0;
                    let q = (c.0 + (hw - margin) * a.cos(), c.1 + (hw - margin) * a.sin());
                    st.inc("round_arc_points");
                    let (cl, _) = crate::c01::cover_f64(q, &pos, &tris);
                    if cl == 0 {
                        st.fail(jobj(&[("what", jstr("round join / cap: a point closer to the path than half the width minus the tolerance is not covered")), ("input", jstr(&format!("point {:?} at distance {:.5} from the vertex {:?} (half width {}, tolerance {}) :: {}", q, hw - margin, c, hw, tol, label)))]));
                        bad = true;
                        break 'discs;
                    }
                }
            }
        }
        // triangle vertices within reach (all of them, not sampled)
        for v in &rec.verts {
            let q = (v.pos.x as f64, v.pos.y as f64);
            let d = segs.iter().map(|(a, b)| seg_dist(q, *a, *b)).fold(f64::MAX, f64::min);
            if d > reach && !bad {
                st.fail(jobj(&[("what", jstr("a stroke vertex lies farther from the path than the join / cap reach")), ("input", jstr(&format!("vertex {:?} at distance {:.4} reach {:.4} :: {}", v.pos, d, reach, label)))]));
                bad = true;
            }
        }
        // ---- the model: exact decision on lines / per triangle
        if id < coq_cap && rec.tris.len() <= 48 && must.len() <= 12 {
            let mut segs_q: Vec<String> = segs.iter().map(|(a, b)| format!("({}, {})", gp64(*a), gp64(*b))).collect();
            for p in &p64 {
                segs_q.push(format!("({}, {})", gp64(*p), gp64(*p)));
            }
            let gp32 = |p: Point| format!("({}, {})", gq32(p.x), gq32(p.y));
            writeln!(idx, "{}\t{}", id, label).ok();
            let lit = format!(
                "(mkCC {} {} {} {} {})",
                id,
                glist(must.iter().map(|m| gpoly(m))),
                glist(segs_q.into_iter()),
                glist(rec.tris.iter().map(|t| format!("({}, {}, {})", gp32(pos[t[0] as usize]), gp32(pos[t[1] as usize]), gp32(pos[t[2] as usize])))),
                gq64(((reach * reach) * 1024.0).ceil() / 1024.0)
            );
            if plane_budget > 0 && rec.tris.len() <= 6 && must.len() <= 3 {
                plane_budget -= 1;
                wp.push(lit.clone());
                st.inc("whole_plane_cases");
            }
            w.push(lit);
            id += 1;
        }
        if it % 50 == 0 {
            st.sample(label);
        }
    }
    w.finish()?;
    wp.finish()?;
    st.write(&args.out.join("c06_stats.json"))
}
