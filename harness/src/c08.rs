//! C08: tessellators carry no state between calls.  Random histories of fill and stroke calls on
//! ONE tessellator object (different paths, fill rules, orientations, attribute counts,
//! tolerances incl. invalid ones, entry points, injected builder failures, pre-filled buffers);
//! after every call the output is compared bit-for-bit (modulo the index offset) with what a
//! fresh tessellator produces for the same call.
use crate::tess::*;
use crate::util::*;
use lyon_path::math::{point, Point};
use lyon_path::FillRule;
use lyon_tessellation::geometry_builder::VertexBuffers;
use lyon_tessellation::{FillOptions, FillTessellator, LineCap, LineJoin, Orientation, StrokeOptions, StrokeTessellator};
use std::panic::AssertUnwindSafe;

#[derive(Clone, Debug)]
struct CallSpec {
    fill: bool,
    entry: Entry,
    spec: PathSpec,
    rule: FillRule,
    orient: Orientation,
    tol: f32,
    join: LineJoin,
    cap: LineCap,
    width: f32,
    fail_at: Option<usize>,
    prefill: usize,
    shape: Option<Shape>,
    var_width: bool,
}

type Out = (Option<bool>, Vec<u32>, Vec<[u32; 2]>, Vec<GCall>, Vec<Vec<u64>>);

fn run_call(c: &CallSpec, ft: &mut FillTessellator, stt: &mut StrokeTessellator) -> Out {
    let mut buffers: VertexBuffers<Point, u32> = VertexBuffers::new();
    buffers.vertices = vec![point(-7.0, -7.0); c.prefill];
    buffers.indices = (0..c.prefill as u32).collect();
    let (ok, calls, data) = {
        let mut rec = Recorder::new(&mut buffers, c.fail_at);
        let ok = catch(AssertUnwindSafe(|| {
            if c.fill {
                let o = FillOptions::tolerance(c.tol).with_fill_rule(c.rule).with_sweep_orientation(c.orient);
                match &c.shape {
                    Some(s) => run_fill_shape(ft, s, &o, &mut rec),
                    None => run_fill(c.entry, ft, &c.spec, &o, &mut rec),
                }
            } else {
                let mut o = StrokeOptions::tolerance(c.tol).with_line_width(c.width).with_line_join(c.join).with_line_cap(c.cap);
                if c.var_width && c.spec.n_attr > 0 && c.shape.is_none() {
                    o = o.with_variable_line_width(0);
                }
                match &c.shape {
                    Some(s) => run_stroke_shape(stt, s, &o, &mut rec),
                    None => run_stroke(c.entry, stt, &c.spec, &o, &mut rec),
                }
            }
        }))
        .map(|r| r.is_ok());
        (ok, rec.calls.clone(), rec.data.clone())
    };
    // indices relative to the first new vertex; vertex positions as bits
    let idx: Vec<u32> = buffers.indices[c.prefill.min(buffers.indices.len())..].iter().map(|i| i.wrapping_sub(c.prefill as u32)).collect();
    let pos: Vec<[u32; 2]> = buffers.vertices[c.prefill.min(buffers.vertices.len())..].iter().map(|p| [p.x.to_bits(), p.y.to_bits()]).collect();
    // the trace with ids made relative as well
    let rel: Vec<GCall> = calls
        .iter()
        .map(|g| match g {
            GCall::Vertex(Some(i)) => GCall::Vertex(Some(i.wrapping_sub(c.prefill as u32))),
            GCall::Tri(a, b, cc) => GCall::Tri(a.wrapping_sub(c.prefill as u32), b.wrapping_sub(c.prefill as u32), cc.wrapping_sub(c.prefill as u32)),
            other => other.clone(),
        })
        .collect();
    (ok, idx, pos, rel, data)
}

fn random_call(r: &mut Rng) -> CallSpec {
    let n_attr = if r.chance(1, 3) { 1 + r.below(3) as usize } else { 0 };
    let spec = match r.below(5) {
        0 => random_polygonal(r, 3, 6, 6),
        1 => PathSpec { n_attr: 0, subs: vec![] },
        2 => random_curved(r, n_attr, 2, 4, 10),
        3 => PathSpec::from_polylines(&[vec![(0.0, 0.0), (4.0, 4.0), (4.0, 0.0), (0.0, 4.0)]], &[true]),
        _ => random_curved(r, 0, 3, 3, 8),
    };
    let tol = match r.below(8) {
        0 => f32::NAN,
        1 => -1.0,
        2 => 0.0,
        3 => 1.0,
        _ => 0.05,
    };
    let mut entry = *r.pick(&FILL_ENTRIES);
    if spec.n_attr > 0 && matches!(entry, Entry::Tessellate | Entry::Polygon) {
        entry = Entry::TessellatePath;
    }
    let fill = r.chance(1, 2);
    // invalid tolerances only on the fill side, where they are a documented error return; the stroke
    // tessellator does not validate its tolerance (0 makes round joins recurse without bound in a fresh
    // tessellator as well), and C05 restricts strokes to positive tolerances
    let tol = if !fill && !(tol > 0.0) { 0.2 } else { tol };
    CallSpec {
        fill,
        entry,
        spec,
        rule: if r.chance(1, 2) { FillRule::EvenOdd } else { FillRule::NonZero },
        orient: if r.chance(1, 2) { Orientation::Vertical } else { Orientation::Horizontal },
        tol,
        join: *r.pick(&[LineJoin::Miter, LineJoin::Round, LineJoin::Bevel, LineJoin::MiterClip]),
        cap: *r.pick(&[LineCap::Butt, LineCap::Round, LineCap::Square]),
        width: *r.pick(&[1.0f32, 0.3, 3.0]),
        fail_at: if r.chance(1, 4) { Some(r.below(12) as usize) } else { None },
        prefill: r.below(4) as usize * 3,
        shape: match r.below(10) {
            0 => Some(Shape::Circle(1.0, 1.0, 3.0)),
            1 => Some(Shape::Rect(0.0, 0.0, 3.0, 2.0)),
            2 => Some(Shape::Ellipse(0.0, 0.0, 4.0, 2.0, 0.3)),
            _ => None,
        },
        var_width: r.chance(1, 3),
    }
}

pub fn main(args: &Args) -> std::io::Result<()> {
    let mut st = Stats::default();
    let mut rng = Rng::new(args.seed ^ 0x08);
    let n_hist = if args.thorough() { 40000 } else { 4000 };
    let max_len = if args.thorough() { 30 } else { 8 };
    for _ in 0..n_hist {
        let len = 1 + rng.below(max_len) as usize;
        let history: Vec<CallSpec> = (0..len).map(|_| random_call(&mut rng)).collect();
        let mut ft = FillTessellator::new();
        let mut stt = StrokeTessellator::new();
        st.inc("histories");
        for (k, c) in history.iter().enumerate() {
            if k > 0 {
                breadcrumb(&args.out, &format!("call {} of history {:?}", k, &history[..=k]));
            }
            let used = run_call(c, &mut ft, &mut stt);
            let fresh = run_call(c, &mut FillTessellator::new(), &mut StrokeTessellator::new());
            st.inc("evaluations");
            st.inc(if c.fill { "fill_calls" } else { "stroke_calls" });
            if c.fail_at.is_some() {
                st.inc("calls_with_injected_failure");
            }
            if !(c.tol > 0.0) {
                st.inc("calls_with_invalid_tolerance");
            }
            match used.0 {
                Some(true) => st.inc("returned_ok"),
                Some(false) => st.inc("returned_err"),
                None => st.inc("panicked"),
            }
            let label = format!("call {} of history {:?}", k, history.iter().take(k + 1).map(|h| format!("{}{:?}/{:?}/tol{}/fail{:?}/pre{}/{:?}", if h.fill { "fill:" } else { "stroke:" }, h.entry, h.shape, h.tol, h.fail_at, h.prefill, h.spec.subs.len())).collect::<Vec<_>>());
            st.note_case(&label, k > 0);
            if used.0.is_none() && fresh.0.is_some() {
                st.fail(jobj(&[("what", jstr("a used tessellator panicked where a fresh one does not")), ("input", jstr(&format!("{} :: {:?}", label, c)))]));
                break;
            }
            if used != fresh {
                let what = if used.0 != fresh.0 {
                    "a used tessellator returns a different result (Ok/Err) than a fresh one"
                } else if used.2 != fresh.2 {
                    "a used tessellator produces different vertices than a fresh one"
                } else if used.1 != fresh.1 {
                    "a used tessellator produces different indices than a fresh one"
                } else {
                    "a used tessellator drives the builder differently than a fresh one"
                };
                st.fail(jobj(&[("what", jstr(what)), ("input", jstr(&format!("{} :: {:?}", label, c)))]));
                break;
            }
            if k == len - 1 {
                st.sample(label);
            }
        }
    }
    clear_breadcrumb(&args.out);
    st.write(&args.out.join("c08_stats.json"))
}
