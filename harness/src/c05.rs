//! C05: stroke output is a well-formed mesh with self-consistent per-vertex data.
//! A recording StrokeGeometryBuilder reads every accessor of every vertex, through every entry
//! point, join, cap, width, miter limit, tolerance, fixed and variable width, on structured
//! (degenerate) and random paths.  Each run is decided directly here and by the Coq oracle
//! (Checker/StrokeSpec.v, exact arithmetic).
use crate::c07::{sample, seg_dist, tables_from_path, tables_sequential, EdgeGeom, Tables};
use crate::tess::*;
use crate::util::*;
use lyon_path::math::{point, Point, Vector};
use lyon_path::Side;
use lyon_tessellation::{
    GeometryBuilder, GeometryBuilderError, LineCap, LineJoin, StrokeGeometryBuilder, StrokeOptions, StrokeTessellator, StrokeVertex, VertexId, VertexSource,
};
use std::panic::AssertUnwindSafe;

pub const HEADER: &str =
    "From Coq Require Import QArith.\nFrom LV Require Import Base.Prelude Model.Bezier Checker.StrokeSpec Run.C05.\nOpen Scope Q_scope.";

#[derive(Clone, Debug)]
pub(crate) struct SV {
    pub pos: Point,
    pub on_path: Point,
    pub normal: Vector,
    pub width: f32,
    pub adv: f32,
    pub side: Side,
    pub src: VertexSource,
    pub attrs: Vec<f32>,
}

#[derive(Default)]
pub(crate) struct StrokeRec {
    pub verts: Vec<SV>,
    pub tris: Vec<[u32; 3]>,
    pub begun: usize,
    pub ended: usize,
    pub aborted: usize,
}

impl GeometryBuilder for StrokeRec {
    fn begin_geometry(&mut self) {
        self.begun += 1;
    }
    fn end_geometry(&mut self) {
        self.ended += 1;
    }
    fn abort_geometry(&mut self) {
        self.aborted += 1;
    }
    fn add_triangle(&mut self, a: VertexId, b: VertexId, c: VertexId) {
        self.tris.push([a.0, b.0, c.0]);
    }
}
impl StrokeGeometryBuilder for StrokeRec {
    fn add_stroke_vertex(&mut self, mut v: StrokeVertex) -> Result<VertexId, GeometryBuilderError> {
        let sv = SV {
            pos: v.position(),
            on_path: v.position_on_path(),
            normal: v.normal(),
            width: v.line_width(),
            adv: v.advancement(),
            side: v.side(),
            src: v.source(),
            attrs: v.interpolated_attributes().to_vec(),
        };
        self.verts.push(sv);
        Ok(VertexId(self.verts.len() as u32 - 1))
    }
}

#[derive(Clone, Debug)]
pub(crate) struct StrokeCfg {
    pub join: LineJoin,
    pub start_cap: LineCap,
    pub end_cap: LineCap,
    pub width: f32,
    pub miter_limit: f32,
    pub tol: f32,
    pub var_width: bool,
}

impl StrokeCfg {
    pub fn options(&self) -> StrokeOptions {
        let mut o = StrokeOptions::tolerance(self.tol)
            .with_line_width(self.width)
            .with_line_join(self.join)
            .with_start_cap(self.start_cap)
            .with_end_cap(self.end_cap)
            .with_miter_limit(self.miter_limit);
        if self.var_width {
            o = o.with_variable_line_width(0);
        }
        o
    }
    /// How far a vertex may be from the path, in half-widths.  Every stroke vertex is the intersection of
    /// (at most) two lines tangent to the disc of radius half_width around its point on the path; if the
    /// normals of the two lines make the angle a, the vertex is at half_width / cos(a / 2) from that point.
    ///  - round joins / caps, bevel corners, butt caps: on the disc, factor 1
    ///  - square cap corner, inner corner of a turn of up to 90 degrees: a = 90 degrees, factor sqrt 2
    ///    (sharper turns fold instead)
    ///  - miter joins: factor up to miter_limit, beyond which the join is bevelled / clipped
    ///  - miter-clip: the clip line is at miter_limit half-widths, the corners of the clipped tip up to one
    ///    half-width off the axis: sqrt(miter_limit^2 + 1)
    /// With variable width the side lines are tilted by phi = asin(rate of change of the half-width), once
    /// for a cap and up to twice for a join: a <= 90 + 2 phi.
    pub fn reach(&self, rate: f64) -> f64 {
        let phi = if self.var_width { rate.min(1.0).asin() } else { 0.0 };
        let half = std::f64::consts::FRAC_PI_4 + phi;
        let corner = if half < 1.5 { 1.0 / half.cos() } else { f64::INFINITY };
        let join = match self.join {
            LineJoin::Miter => self.miter_limit as f64,
            LineJoin::MiterClip => ((self.miter_limit as f64).powi(2) + if self.var_width { corner * corner } else { 1.0 }).sqrt(),
            _ => 1.0,
        };
        join.max(corner)
    }
}

pub(crate) fn random_cfg(r: &mut Rng, allow_var: bool) -> StrokeCfg {
    StrokeCfg {
        join: *r.pick(&[LineJoin::Miter, LineJoin::MiterClip, LineJoin::Round, LineJoin::Bevel]),
        start_cap: *r.pick(&[LineCap::Butt, LineCap::Square, LineCap::Round]),
        end_cap: *r.pick(&[LineCap::Butt, LineCap::Square, LineCap::Round]),
        width: *r.pick(&[0.01f32, 0.25, 1.0, 1.5, 3.0, 10.0]),
        miter_limit: *r.pick(&[1.0f32, 1.5, 4.0, 10.0]),
        tol: *r.pick(&[0.01f32, 0.1, 0.5]),
        var_width: allow_var && r.chance(1, 2),
    }
}

/// the flattened input path (f64 segments), dense enough for distance measurements
pub(crate) fn input_segments(spec: &PathSpec) -> Vec<((f64, f64), (f64, f64))> {
    let f = |p: &Point| (p.x as f64, p.y as f64);
    let mut out = Vec::new();
    for s in &spec.subs {
        let mut prev = s.start;
        let mut push_curve = |g: EdgeGeom, out: &mut Vec<((f64, f64), (f64, f64))>| {
            let n = 64;
            let mut a = sample(&g, 0.0);
            for i in 1..=n {
                let b = sample(&g, i as f64 / n as f64);
                out.push((a, b));
                a = b;
            }
        };
        for g in &s.segs {
            match g {
                Seg::Line(p, _) => {
                    out.push((f(&prev), f(p)));
                    prev = *p;
                }
                Seg::Quad(c, p, _) => {
                    push_curve(EdgeGeom::Quad(prev, *c, *p), &mut out);
                    prev = *p;
                }
                Seg::Cubic(c1, c2, p, _) => {
                    push_curve(EdgeGeom::Cubic(prev, *c1, *c2, *p), &mut out);
                    prev = *p;
                }
            }
        }
        if s.close {
            out.push((f(&prev), f(&s.start)));
        }
        if s.segs.is_empty() {
            out.push((f(&s.start), f(&s.start)));
        }
    }
    out
}


/// K12 domain: with variable width, the largest rate of change of the half-width along the path (per
/// unit length).  At a rate >= 1 the disc at one end of a piece contains the disc at the other end and
/// the side edges of the stroke degenerate.
pub(crate) fn width_rate(spec: &PathSpec, width: f32) -> f64 {
    let mut worst = 0.0f64;
    for s in &spec.subs {
        let mut prev = s.start;
        let mut prev_w = s.start_attrs.first().copied().unwrap_or(1.0) as f64 * width as f64 * 0.5;
        let mut pieces: Vec<(EdgeGeom, f64, f64)> = Vec::new();
        for g in &s.segs {
            let (geom, to, a) = match g {
                Seg::Line(p, a) => (EdgeGeom::Line(prev, *p), *p, a),
                Seg::Quad(c, p, a) => (EdgeGeom::Quad(prev, *c, *p), *p, a),
                Seg::Cubic(c1, c2, p, a) => (EdgeGeom::Cubic(prev, *c1, *c2, *p), *p, a),
            };
            let w = a.first().copied().unwrap_or(1.0) as f64 * width as f64 * 0.5;
            pieces.push((geom, prev_w, w));
            prev = to;
            prev_w = w;
        }
        if s.close {
            let w0 = s.start_attrs.first().copied().unwrap_or(1.0) as f64 * width as f64 * 0.5;
            pieces.push((EdgeGeom::Line(prev, s.start), prev_w, w0));
        }
        for (g, w0, w1) in pieces {
            let n = if matches!(g, EdgeGeom::Line(..)) { 1 } else { 64 };
            let mut a = sample(&g, 0.0);
            for i in 1..=n {
                let b = sample(&g, i as f64 / n as f64);
                let d = (b.0 - a.0).hypot(b.1 - a.1);
                let dw = (w1 - w0).abs() / n as f64;
                if dw > 0.0 {
                    worst = worst.max(if d > 0.0 { dw / d } else { f64::INFINITY });
                }
                a = b;
            }
        }
    }
    worst
}

/// K13 domain (variable width only): p is a join where the path turns by more than 90 degrees (by the
/// tangents of the adjacent segments; a closed sub-path also joins its last and first segments), or p lies
/// on a curved segment (end points included), where the flattened pieces are short against the width.
pub(crate) fn sharp_turn_or_curve_at(spec: &PathSpec, p: Point) -> bool {
    let pf = (p.x as f64, p.y as f64);
    for s in &spec.subs {
        // segments as (from, leaving direction, arriving direction, to, curved)
        let mut segs: Vec<(Point, Vector, Vector, Point, Option<EdgeGeom>)> = Vec::new();
        let mut prev = s.start;
        let dir = |a: Point, cands: &[Point]| -> Vector { cands.iter().map(|c| *c - a).find(|v| v.square_length() > 0.0).unwrap_or(Vector::new(0.0, 0.0)) };
        for g in &s.segs {
            match g {
                Seg::Line(q, _) => {
                    if *q != prev {
                        segs.push((prev, *q - prev, *q - prev, *q, None));
                    }
                    prev = *q;
                }
                Seg::Quad(c, q, _) => {
                    segs.push((prev, dir(prev, &[*c, *q]), -dir(*q, &[*c, prev]), *q, Some(EdgeGeom::Quad(prev, *c, *q))));
                    prev = *q;
                }
                Seg::Cubic(c1, c2, q, _) => {
                    segs.push((prev, dir(prev, &[*c1, *c2, *q]), -dir(*q, &[*c2, *c1, prev]), *q, Some(EdgeGeom::Cubic(prev, *c1, *c2, *q))));
                    prev = *q;
                }
            }
        }
        if s.close && prev != s.start {
            segs.push((prev, s.start - prev, s.start - prev, s.start, None));
        }
        for (i, sg) in segs.iter().enumerate() {
            if let Some(g) = &sg.4 {
                // on the curve?
                let near = (0..=128).any(|k| {
                    let q = sample(g, k as f64 / 128.0);
                    (q.0 - pf.0).hypot(q.1 - pf.1) < 0.2
                });
                if near {
                    return true;
                }
            }
            // join between this segment and the next one
            let next = if i + 1 < segs.len() {
                Some(&segs[i + 1])
            } else if s.close && segs.len() > 1 {
                Some(&segs[0])
            } else {
                None
            };
            if let Some(nx) = next {
                if sg.3 == p && sg.2.dot(nx.1) < 0.0 {
                    return true;
                }
            }
        }
    }
    false
}

/// cross product of the (normalised) arriving and leaving directions at the join located at p (polyline joins only)
pub(crate) fn turn_cross_at(spec: &PathSpec, p: Point) -> Option<f32> {
    for s in &spec.subs {
        let mut pts = vec![s.start];
        for g in &s.segs {
            match g {
                Seg::Line(q, _) => {
                    if *q != *pts.last().unwrap() {
                        pts.push(*q);
                    }
                }
                _ => return None,
            }
        }
        let n = pts.len();
        for i in 0..n {
            if pts[i] != p {
                continue;
            }
            let (prev, next) = if i > 0 && i + 1 < n {
                (pts[i - 1], pts[i + 1])
            } else if s.close && n > 2 {
                (pts[(i + n - 1) % n], pts[(i + 1) % n])
            } else {
                continue;
            };
            let (a, b) = ((p - prev).normalize(), (next - p).normalize());
            return Some(a.cross(b));
        }
    }
    None
}

fn structured(k: u64, r: &mut Rng) -> PathSpec {
    let pl = |pts: Vec<(f32, f32)>, close: bool| PathSpec::from_polylines(&[pts], &[close]);
    match k % 12 {
        0 => pl(vec![(0.0, 0.0), (0.0, 0.0), (5.0, 0.0), (5.0, 0.0), (5.0, 5.0)], false), // repeated points
        1 => pl(vec![(0.0, 0.0), (1e-4, 0.0), (5.0, 0.0), (5.0, 1e-5), (5.0, 5.0)], true), // tiny segments
        2 => pl(vec![(0.0, 0.0), (1e5, 0.0), (1e5, 1e5)], false),                       // huge
        3 => pl(vec![(0.0, 0.0), (10.0, 0.0), (0.0, 0.1)], false),                       // hairpin
        4 => pl(vec![(0.0, 0.0), (10.0, 0.0), (0.0, 0.0)], false),                       // exact back-track
        5 => pl(vec![(0.0, 0.0), (4.0, 0.0)], true),                                     // closed single segment
        6 => PathSpec { n_attr: 0, subs: vec![] },
        7 => pl(vec![(3.0, 3.0)], false),
        8 => pl(vec![(3.0, 3.0)], true),
        9 => pl(vec![(0.0, 0.0), (1.0, 0.0), (1.0, 1.0), (0.0, 1.0), (0.0, 0.0)], true), // closes onto its start
        10 => {
            // zig-zag with random amplitude: sharp turns on short segments
            let n = 3 + r.below(6) as usize;
            pl((0..n).map(|i| (i as f32 * 0.5, if i % 2 == 0 { 0.0 } else { r.range(1, 40) as f32 / 8.0 })).collect(), r.chance(1, 2))
        }
        _ => {
            // collinear points and a turn by 180 degrees in the middle
            pl(vec![(0.0, 0.0), (2.0, 0.0), (4.0, 0.0), (3.0, 0.0), (6.0, 0.0)], false)
        }
    }
}

fn set_attrs(spec: &mut PathSpec, r: &mut Rng, n_attr: usize) {
    spec.n_attr = n_attr;
    // attribute 0 is a width factor when variable width is on: keep it positive
    let a = |r: &mut Rng| -> Vec<f32> { (0..n_attr).map(|k| if k == 0 { (1 + r.below(12)) as f32 / 4.0 } else { r.range(-20, 20) as f32 }).collect() };
    for s in &mut spec.subs {
        s.start_attrs = a(r);
        for g in &mut s.segs {
            let x = a(r);
            match g {
                Seg::Line(_, y) | Seg::Quad(_, _, y) | Seg::Cubic(_, _, _, y) => *y = x,
            }
        }
    }
}

fn gpt(p: &Point) -> String {
    format!("({}, {})", gq32(p.x), gq32(p.y))
}

pub fn main(args: &Args) -> std::io::Result<()> {
    use std::io::Write;
    let mut st = Stats::default();
    let mut w = ShardWriter::new(&args.out, "c05_cases", args.shards, HEADER, "bad_cases");
    w.disabled = args.direct_only();
    let mut idx = std::fs::File::create(args.out.join("c05_index.txt"))?;
    let mut rng = Rng::new(args.seed ^ 0x05);
    let n = if args.thorough() { 20000 } else { 2500 };
    let coq_cap = if args.thorough() { 3000 } else { 500 };
    let mut id = 0usize;
    for it in 0..n {
        let n_attr = if rng.chance(1, 2) { 1 + rng.below(2) as usize } else { 0 };
        let mut spec = match it % 4 {
            0 => structured(rng.below(12), &mut rng),
            1 => random_polygonal(&mut rng, 2, 6, 8),
            2 => random_curved(&mut rng, 0, 2, 4, 10),
            _ => {
                // random polyline with small real-valued coordinates
                let k = 2 + rng.below(6) as usize;
                PathSpec::from_polylines(&[(0..k).map(|_| (rng.range(-400, 400) as f32 / 64.0, rng.range(-400, 400) as f32 / 64.0)).collect()], &[rng.chance(1, 2)])
            }
        };
        set_attrs(&mut spec, &mut rng, n_attr);
        let mut entry = *rng.pick(&FILL_ENTRIES);
        if n_attr > 0 && matches!(entry, Entry::Tessellate | Entry::Polygon | Entry::Builder) {
            entry = *rng.pick(&[Entry::TessellatePath, Entry::WithIds, Entry::BuilderWithAttributes]);
        }
        let cfg = random_cfg(&mut rng, n_attr > 0);
        let label = format!("{:?} {:?} :: {}", entry, cfg, spec.text());
        st.inc("evaluations");
        st.inc(&format!("join_{:?}", cfg.join));
        st.inc(&format!("cap_{:?}_{:?}", cfg.start_cap, cfg.end_cap));
        st.inc(if cfg.var_width { "variable_width" } else { "fixed_width" });
        st.note_case(&label, spec.subs.iter().any(|s| s.segs.len() >= 2));
        let path_ids = n_attr > 0 && matches!(entry, Entry::TessellatePath | Entry::WithIds) || entry == Entry::WithIds;
        let tables: Tables = if path_ids { tables_from_path(&spec.build()) } else { tables_sequential(&spec) };
        let o = cfg.options();
        let rate = if cfg.var_width { width_rate(&spec, cfg.width) } else { 0.0 };
        let k12 = cfg.var_width && rate >= 0.999;
        if k12 {
            st.inc("variable_width_rate_ge_1");
        }
        let mut rec = StrokeRec::default();
        if it % 16 == 0 {
            breadcrumb(&args.out, &format!("one of the 16 inputs starting at: {}", label));
        }
        let r = catch(AssertUnwindSafe(|| run_stroke(entry, &mut StrokeTessellator::new(), &spec, &o, &mut rec).is_ok()));
        match r {
            None => {
                let mut f = vec![("what", jstr("stroking panicked")), ("input", jstr(&label))];
                if k12 {
                    f.push(("class", jstr("K12")));
                }
                st.fail(jobj(&f));
                continue;
            }
            Some(false) => {
                st.fail(jobj(&[("what", jstr("stroking a finite path with valid options returned an error")), ("input", jstr(&label))]));
                continue;
            }
            Some(true) => {}
        }
        if k12 {
            // known finding K12: the geometry of such strokes is not meaningful; only panics / non-finite output matter
            if rec.verts.iter().any(|v| !(v.pos.x.is_finite() && v.pos.y.is_finite())) {
                st.fail(jobj(&[("what", jstr("a stroke vertex carries a non-finite value")), ("input", jstr(&label)), ("class", jstr("K12"))]));
                st.inc("k12_non_finite");
            }
            continue;
        }
        st.add("vertices", rec.verts.len() as u64);
        st.add("triangles", rec.tris.len() as u64);
        let segs = input_segments(&spec);
        let hw_max = if cfg.var_width { rec.verts.iter().map(|v| v.width as f64 * 0.5).fold(0.0, f64::max) } else { cfg.width as f64 * 0.5 };
        let scale: f64 = segs.iter().flat_map(|(a, b)| [a.0.abs(), a.1.abs(), b.0.abs(), b.1.abs()]).fold(1.0, f64::max);
        let ulp = scale * 2.4e-7;
        let mut bad = false;
        for t in &rec.tris {
            if t[0] == t[1] || t[1] == t[2] || t[0] == t[2] {
                st.fail(jobj(&[("what", jstr("a stroke triangle repeats a vertex id")), ("input", jstr(&format!("{:?} :: {}", t, label)))]));
                bad = true;
            }
            if t.iter().any(|i| *i as usize >= rec.verts.len()) {
                st.fail(jobj(&[("what", jstr("a stroke triangle uses an id that was never returned")), ("input", jstr(&format!("{:?} :: {}", t, label)))]));
                bad = true;
            }
        }
        let mut worst_reach = 0.0f64;
        for (vi, v) in rec.verts.iter().enumerate() {
            let vl = || format!("vertex {} {:?} :: {}", vi, v, label);
            if !(v.pos.x.is_finite() && v.pos.y.is_finite() && v.on_path.x.is_finite() && v.on_path.y.is_finite() && v.normal.x.is_finite() && v.normal.y.is_finite() && v.width.is_finite() && v.adv.is_finite()) {
                st.fail(jobj(&[("what", jstr("a stroke vertex carries a non-finite value")), ("input", jstr(&vl()))]));
                bad = true;
                continue;
            }
            if v.adv < 0.0 {
                st.fail(jobj(&[("what", jstr("negative advancement")), ("input", jstr(&vl()))]));
                bad = true;
            }
            // position = position_on_path + normal * half_width, as f32
            let want = v.on_path + v.normal * (v.width * 0.5);
            if want != v.pos {
                st.fail(jobj(&[("what", jstr("position is not position_on_path + normal * half_width")), ("input", jstr(&vl()))]));
                bad = true;
            }
            if !cfg.var_width && v.width != cfg.width {
                st.fail(jobj(&[("what", jstr("line_width is not the width asked for")), ("input", jstr(&vl()))]));
                bad = true;
            }
            // within reach of the path
            let p = (v.pos.x as f64, v.pos.y as f64);
            let d = segs.iter().map(|(a, b)| seg_dist(p, *a, *b)).fold(f64::MAX, f64::min);
            let hw = v.width as f64 * 0.5;
            let allowed = cfg.reach(rate) * hw.max(hw_max) + cfg.tol as f64 + 4.0 * ulp + 1e-4 * hw;
            if !segs.is_empty() {
                worst_reach = worst_reach.max((d - cfg.tol as f64 - 4.0 * ulp) / hw.max(1e-9));
                if d > allowed {
                    let mut f = vec![("what", jstr("a stroke vertex is farther from the path than the join / cap reach")), ("input", jstr(&format!("distance {:.5} allowed {:.5} :: {}", d, allowed, vl())))];
                    // K13: on a tight curve, or at a join where the path doubles back (within 3 degrees of a half turn);
                    // sharp but definite turns of a polyline are handled by the fold test of the join code and are in scope
                    if cfg.var_width && sharp_turn_or_curve_at(&spec, v.on_path) && turn_cross_at(&spec, v.on_path).map_or(true, |c| c.abs() < 0.05) {
                        f.push(("class", jstr("K13")));
                    }
                    st.fail(jobj(&f));
                    bad = true;
                }
            }
            // variable width: the width at a vertex is the line width times the (interpolated) first attribute at its source
            if cfg.var_width {
                let a0 = |id: u32| tables.endpoints.get(&id).and_then(|e| e.1.first().copied());
                let want = match v.src {
                    VertexSource::Endpoint { id } => a0(id.0),
                    VertexSource::Edge { from, to, t } => match (a0(from.0), a0(to.0)) {
                        (Some(a), Some(b)) => Some(a * (1.0 - t) + b * t),
                        _ => None,
                    },
                };
                if let Some(wf) = want {
                    let want_w = cfg.width * wf;
                    if (v.width - want_w).abs() > 1e-4 * want_w.abs().max(1e-3) {
                        st.fail(jobj(&[("what", jstr("line_width at a vertex is not the line width times the width attribute at its source")), ("input", jstr(&format!("expected {} :: {}", want_w, vl())))]));
                        bad = true;
                    }
                }
            }
            // the source names an endpoint or an edge of the input, and position_on_path is where it says
            let q = (v.on_path.x as f64, v.on_path.y as f64);
            let slack = cfg.tol as f64 + 8.0 * ulp;
            match v.src {
                VertexSource::Endpoint { id } => match tables.endpoints.get(&id.0) {
                    None => {
                        st.fail(jobj(&[("what", jstr("a stroke vertex's source names an id that is not an endpoint of the input")), ("input", jstr(&vl()))]));
                        bad = true;
                    }
                    Some((e, _)) => {
                        if (e.x as f64 - q.0).hypot(e.y as f64 - q.1) > slack {
                            st.fail(jobj(&[("what", jstr("position_on_path is not at the endpoint named by the source")), ("input", jstr(&vl()))]));
                            bad = true;
                        }
                    }
                },
                VertexSource::Edge { from, to, t } => {
                    let by_pos = || -> Option<&EdgeGeom> {
                        let (pf, pt) = (tables.endpoints.get(&from.0)?.0, tables.endpoints.get(&to.0)?.0);
                        tables.edges.values().flatten().find(|g| match g {
                            EdgeGeom::Line(a, b) => *a == pf && *b == pt,
                            EdgeGeom::Quad(a, _, b) => *a == pf && *b == pt,
                            EdgeGeom::Cubic(a, _, _, b) => *a == pf && *b == pt,
                        })
                    };
                    match tables.edges.get(&(from.0, to.0)).and_then(|v| v.first()).or_else(by_pos) {
                        None => {
                            st.fail(jobj(&[("what", jstr("a stroke vertex's source names a pair of ids that is not an edge of the input")), ("input", jstr(&vl()))]));
                            bad = true;
                        }
                        Some(g) => {
                            if !(t >= 0.0 && t <= 1.0) {
                                st.fail(jobj(&[("what", jstr("a stroke vertex's edge source has a parameter outside [0,1]")), ("input", jstr(&vl()))]));
                                bad = true;
                            } else {
                                let s = sample(g, t as f64);
                                if (s.0 - q.0).hypot(s.1 - q.1) > slack {
                                    st.fail(jobj(&[("what", jstr("position_on_path is not at the parameter named by the source")), ("input", jstr(&format!("off by {:.5} :: {}", (s.0 - q.0).hypot(s.1 - q.1), vl())))]));
                                    bad = true;
                                }
                            }
                        }
                    }
                }
            }
        }
        st.add("reach_x1000_max", 0);
        let _ = worst_reach;
        if !bad && id < coq_cap && rec.verts.len() <= 60 && !rec.verts.is_empty() && scale < 1e4 && cfg.reach(rate).is_finite() {
            // the Coq oracle: exact arithmetic on the recorded vertices against the flattened input
            let segs_q = glist(segs.iter().map(|(a, b)| format!("(({}, {}), ({}, {}))", gq64(a.0), gq64(a.1), gq64(b.0), gq64(b.1))));
            let verts_q = glist(rec.verts.iter().map(|v| format!("(mkSV {} {} ({}, {}) {})", gpt(&v.pos), gpt(&v.on_path), gq32(v.normal.x), gq32(v.normal.y), gq32(v.width))));
            let tris_q = glist(rec.tris.iter().map(|t| format!("({}, {}, {})%Z", t[0], t[1], t[2])));
            let allowed = cfg.reach(rate) * hw_max + cfg.tol as f64 + 4.0 * ulp + 1e-4 * hw_max;
            writeln!(idx, "{}\t{}", id, label).ok();
            w.push(format!("(mkSC {} {} {} {} {})", id, segs_q, verts_q, tris_q, gq64(allowed * allowed)));
            id += 1;
        }
        if it % 100 == 0 {
            st.sample(label);
        }
    }
    // add_edge_triangles (hook): id coincidences and fold flags; every emitted triangle must have three
    // distinct ids, and the model must emit the same triangles
    let ne = if args.thorough() { 6000 } else { 800 };
    for k in 0..ne {
        let span = if k % 3 == 0 { 2 } else { 4 };
        let mut ids = [0u32; 8];
        for x in ids.iter_mut() {
            *x = rng.below(span) as u32;
        }
        let f: [bool; 4] = [rng.chance(1, 3), rng.chance(1, 3), rng.chance(1, 3), rng.chance(1, 3)];
        let got = lyon_tessellation::verif::verif_add_edge_triangles([ids[0], ids[1], ids[2], ids[3]], [f[0], f[1]], [ids[4], ids[5], ids[6], ids[7]], [f[2], f[3]]);
        st.inc("edge_triangle_evaluations");
        st.add("edge_triangles_emitted", got.len() as u64);
        let label = format!("add_edge_triangles ids {:?} folds {:?} -> {:?}", ids, f, got);
        if got.iter().any(|t| t[0] == t[1] || t[1] == t[2] || t[0] == t[2]) {
            st.fail(jobj(&[("what", jstr("add_edge_triangles emits a triangle with a repeated id")), ("input", jstr(&label))]));
        }
        let ep = |i: &[u32], fp: bool, fneg: bool| format!("(mkEp {} {} {} {} {} {})", i[0], i[1], i[2], i[3], gbool(fp), gbool(fneg));
        writeln!(idx, "{}\t{}", 1_000_000 + k, label).ok();
        w.push(format!(
            "(mkEC {} {} {} {})",
            1_000_000 + k,
            ep(&ids[0..4], f[0], f[1]),
            ep(&ids[4..8], f[2], f[3]),
            glist(got.iter().map(|t| format!("({}, {}, {})%Z", t[0], t[1], t[2])))
        ));
    }
    clear_breadcrumb(&args.out);
    w.finish()?;
    // K12 accounts for non-finite output on a small part of its domain (at most 1 % of the inputs with rate >= 1, measured
    // over 12 runs: 0..12 of 144..1295); a change that makes it common there is a new failure
    let (k12_bad, k12_all) = (*st.counters.get("k12_non_finite").unwrap_or(&0), *st.counters.get("variable_width_rate_ge_1").unwrap_or(&0));
    if k12_bad > 4 + k12_all / 50 {
        st.fail(jobj(&[
            ("what", jstr("non-finite stroke vertices on far more variable-width inputs with rate >= 1 than the known finding K12 accounts for")),
            ("input", jstr(&format!("{} of {} inputs with rate >= 1 (K12 on the pinned tree: at most 1 %)", k12_bad, k12_all))),
        ]));
    }
    st.write(&args.out.join("c05_stats.json"))
}
