//! C05: stroke output is a well-formed mesh with self-consistent per-vertex data.
//! A recording StrokeGeometryBuilder reads every accessor of every vertex, through every entry
//! point, join, cap, width, miter limit, tolerance, fixed and variable width, on structured
//! (degenerate) and random paths.  Each run is decided directly here and by the Coq oracle
//! (Checker/StrokeSpec.v, exact arithmetic).
//! `shape_helper_checks`: the shape helpers of the stroke builder (add_rectangle / add_circle / add_ellipse /
//! add_rounded_rectangle / add_polygon / add_line_segment / add_point, both windings, with and without attributes,
//! fixed and variable width) against the same helpers on a Path builder, against tessellate_rectangle / circle /
//! ellipse, and against the region the stroke of the shape should cover.  `empty_cap_checks`: sub-paths without
//! extent through every entry point (direct checks only; no Coq case is written for these two).
use crate::c07::{sample, seg_dist, tables_from_path, tables_sequential, EdgeGeom, Tables};
use crate::tess::*;
use crate::util::*;
use lyon_path::math::{point, Point, Vector};
use lyon_path::Side;
use lyon_tessellation::{
    GeometryBuilder, GeometryBuilderError, LineCap, LineJoin, StrokeGeometryBuilder, StrokeOptions, StrokeTessellator, StrokeVertex, VertexId, VertexSource,
};
use std::panic::AssertUnwindSafe;

pub const HEADER: &str =
    "From Coq Require Import QArith.\nFrom LV Require Import Base.Prelude Model.Bezier Checker.StrokeSpec Run.C05.\nOpen Scope Q_scope.";

#[derive(Clone, Debug)]
pub(crate) struct SV {
    pub pos: Point,
    pub on_path: Point,
    pub normal: Vector,
    pub width: f32,
    pub adv: f32,
    pub side: Side,
    pub src: VertexSource,
    pub attrs: Vec<f32>,
}

#[derive(Default)]
pub(crate) struct StrokeRec {
    pub verts: Vec<SV>,
    pub tris: Vec<[u32; 3]>,
    pub begun: usize,
    pub ended: usize,
    pub aborted: usize,
}

impl GeometryBuilder for StrokeRec {
    fn begin_geometry(&mut self) {
        self.begun += 1;
    }
    fn end_geometry(&mut self) {
        self.ended += 1;
    }
    fn abort_geometry(&mut self) {
        self.aborted += 1;
    }
    fn add_triangle(&mut self, a: VertexId, b: VertexId, c: VertexId) {
        self.tris.push([a.0, b.0, c.0]);
    }
}
impl StrokeGeometryBuilder for StrokeRec {
    fn add_stroke_vertex(&mut self, mut v: StrokeVertex) -> Result<VertexId, GeometryBuilderError> {
        let sv = SV {
            pos: v.position(),
            on_path: v.position_on_path(),
            normal: v.normal(),
            width: v.line_width(),
            adv: v.advancement(),
            side: v.side(),
            src: v.source(),
            attrs: v.interpolated_attributes().to_vec(),
        };
        self.verts.push(sv);
        Ok(VertexId(self.verts.len() as u32 - 1))
    }
}

#[derive(Clone, Debug)]
pub(crate) struct StrokeCfg {
    pub join: LineJoin,
    pub start_cap: LineCap,
    pub end_cap: LineCap,
    pub width: f32,
    pub miter_limit: f32,
    pub tol: f32,
    pub var_width: bool,
}

impl StrokeCfg {
    pub fn options(&self) -> StrokeOptions {
        let mut o = StrokeOptions::tolerance(self.tol)
            .with_line_width(self.width)
            .with_line_join(self.join)
            .with_start_cap(self.start_cap)
            .with_end_cap(self.end_cap)
            .with_miter_limit(self.miter_limit);
        if self.var_width {
            o = o.with_variable_line_width(0);
        }
        o
    }
    /// How far a vertex may be from the path, in half-widths.  Every stroke vertex is the intersection of
    /// (at most) two lines tangent to the disc of radius half_width around its point on the path; if the
    /// normals of the two lines make the angle a, the vertex is at half_width / cos(a / 2) from that point.
    ///  - round joins / caps, bevel corners, butt caps: on the disc, factor 1
    ///  - square cap corner, inner corner of a turn of up to 90 degrees: a = 90 degrees, factor sqrt 2
    ///    (sharper turns fold instead)
    ///  - miter joins: factor up to miter_limit, beyond which the join is bevelled / clipped
    ///  - miter-clip: the clip line is at miter_limit half-widths, the corners of the clipped tip up to one
    ///    half-width off the axis: sqrt(miter_limit^2 + 1)
    /// With variable width the side lines are tilted by phi = asin(rate of change of the half-width), once
    /// for a cap and up to twice for a join: a <= 90 + 2 phi.
    pub fn reach(&self, rate: f64) -> f64 {
        let phi = if self.var_width { rate.min(1.0).asin() } else { 0.0 };
        let half = std::f64::consts::FRAC_PI_4 + phi;
        let corner = if half < 1.5 { 1.0 / half.cos() } else { f64::INFINITY };
        let join = match self.join {
            LineJoin::Miter => self.miter_limit as f64,
            LineJoin::MiterClip => ((self.miter_limit as f64).powi(2) + if self.var_width { corner * corner } else { 1.0 }).sqrt(),
            _ => 1.0,
        };
        join.max(corner)
    }
}

pub(crate) fn random_cfg(r: &mut Rng, allow_var: bool) -> StrokeCfg {
    StrokeCfg {
        join: *r.pick(&[LineJoin::Miter, LineJoin::MiterClip, LineJoin::Round, LineJoin::Bevel]),
        start_cap: *r.pick(&[LineCap::Butt, LineCap::Square, LineCap::Round]),
        end_cap: *r.pick(&[LineCap::Butt, LineCap::Square, LineCap::Round]),
        width: *r.pick(&[0.01f32, 0.25, 1.0, 1.5, 3.0, 10.0]),
        miter_limit: *r.pick(&[1.0f32, 1.5, 4.0, 10.0]),
        tol: *r.pick(&[0.01f32, 0.1, 0.5]),
        var_width: allow_var && r.chance(1, 2),
    }
}

/// the flattened input path (f64 segments), dense enough for distance measurements
pub(crate) fn input_segments(spec: &PathSpec) -> Vec<((f64, f64), (f64, f64))> {
    let f = |p: &Point| (p.x as f64, p.y as f64);
    let mut out = Vec::new();
    for s in &spec.subs {
        let mut prev = s.start;
        let mut push_curve = |g: EdgeGeom, out: &mut Vec<((f64, f64), (f64, f64))>| {
            let n = 64;
            let mut a = sample(&g, 0.0);
            for i in 1..=n {
                let b = sample(&g, i as f64 / n as f64);
                out.push((a, b));
                a = b;
            }
        };
        for g in &s.segs {
            match g {
                Seg::Line(p, _) => {
                    out.push((f(&prev), f(p)));
                    prev = *p;
                }
                Seg::Quad(c, p, _) => {
                    push_curve(EdgeGeom::Quad(prev, *c, *p), &mut out);
                    prev = *p;
                }
                Seg::Cubic(c1, c2, p, _) => {
                    push_curve(EdgeGeom::Cubic(prev, *c1, *c2, *p), &mut out);
                    prev = *p;
                }
            }
        }
        if s.close {
            out.push((f(&prev), f(&s.start)));
        }
        if s.segs.is_empty() {
            out.push((f(&s.start), f(&s.start)));
        }
    }
    out
}


/// K12 domain: with variable width, the largest rate of change of the half-width along the path (per
/// unit length).  At a rate >= 1 the disc at one end of a piece contains the disc at the other end and
/// the side edges of the stroke degenerate.
pub(crate) fn width_rate(spec: &PathSpec, width: f32) -> f64 {
    let mut worst = 0.0f64;
    for s in &spec.subs {
        let mut prev = s.start;
        let mut prev_w = s.start_attrs.first().copied().unwrap_or(1.0) as f64 * width as f64 * 0.5;
        let mut pieces: Vec<(EdgeGeom, f64, f64)> = Vec::new();
        for g in &s.segs {
            let (geom, to, a) = match g {
                Seg::Line(p, a) => (EdgeGeom::Line(prev, *p), *p, a),
                Seg::Quad(c, p, a) => (EdgeGeom::Quad(prev, *c, *p), *p, a),
                Seg::Cubic(c1, c2, p, a) => (EdgeGeom::Cubic(prev, *c1, *c2, *p), *p, a),
            };
            let w = a.first().copied().unwrap_or(1.0) as f64 * width as f64 * 0.5;
            pieces.push((geom, prev_w, w));
            prev = to;
            prev_w = w;
        }
        if s.close {
            let w0 = s.start_attrs.first().copied().unwrap_or(1.0) as f64 * width as f64 * 0.5;
            pieces.push((EdgeGeom::Line(prev, s.start), prev_w, w0));
        }
        for (g, w0, w1) in pieces {
            let n = if matches!(g, EdgeGeom::Line(..)) { 1 } else { 64 };
            let mut a = sample(&g, 0.0);
            for i in 1..=n {
                let b = sample(&g, i as f64 / n as f64);
                let d = (b.0 - a.0).hypot(b.1 - a.1);
                let dw = (w1 - w0).abs() / n as f64;
                if dw > 0.0 {
                    worst = worst.max(if d > 0.0 { dw / d } else { f64::INFINITY });
                }
                a = b;
            }
        }
    }
    worst
}

/// K13 domain (variable width only): p is a join where the path turns by more than 90 degrees (by the
/// tangents of the adjacent segments; a closed sub-path also joins its last and first segments), or p lies
/// on a curved segment (end points included), where the flattened pieces are short against the width.
pub(crate) fn sharp_turn_or_curve_at(spec: &PathSpec, p: Point) -> bool {
    let pf = (p.x as f64, p.y as f64);
    for s in &spec.subs {
        // segments as (from, leaving direction, arriving direction, to, curved)
        let mut segs: Vec<(Point, Vector, Vector, Point, Option<EdgeGeom>)> = Vec::new();
        let mut prev = s.start;
        let dir = |a: Point, cands: &[Point]| -> Vector { cands.iter().map(|c| *c - a).find(|v| v.square_length() > 0.0).unwrap_or(Vector::new(0.0, 0.0)) };
        for g in &s.segs {
            match g {
                Seg::Line(q, _) => {
                    if *q != prev {
                        segs.push((prev, *q - prev, *q - prev, *q, None));
                    }
                    prev = *q;
                }
                Seg::Quad(c, q, _) => {
                    segs.push((prev, dir(prev, &[*c, *q]), -dir(*q, &[*c, prev]), *q, Some(EdgeGeom::Quad(prev, *c, *q))));
                    prev = *q;
                }
                Seg::Cubic(c1, c2, q, _) => {
                    segs.push((prev, dir(prev, &[*c1, *c2, *q]), -dir(*q, &[*c2, *c1, prev]), *q, Some(EdgeGeom::Cubic(prev, *c1, *c2, *q))));
                    prev = *q;
                }
            }
        }
        if s.close && prev != s.start {
            segs.push((prev, s.start - prev, s.start - prev, s.start, None));
        }
        for (i, sg) in segs.iter().enumerate() {
            if let Some(g) = &sg.4 {
                // on the curve?
                let near = (0..=128).any(|k| {
                    let q = sample(g, k as f64 / 128.0);
                    (q.0 - pf.0).hypot(q.1 - pf.1) < 0.2
                });
                if near {
                    return true;
                }
            }
            // join between this segment and the next one
            let next = if i + 1 < segs.len() {
                Some(&segs[i + 1])
            } else if s.close && segs.len() > 1 {
                Some(&segs[0])
            } else {
                None
            };
            if let Some(nx) = next {
                if sg.3 == p && sg.2.dot(nx.1) < 0.0 {
                    return true;
                }
            }
        }
    }
    false
}

/// cross product of the (normalised) arriving and leaving directions at the join located at p (polyline joins only)
pub(crate) fn turn_cross_at(spec: &PathSpec, p: Point) -> Option<f32> {
    for s in &spec.subs {
        let mut pts = vec![s.start];
        for g in &s.segs {
            match g {
                Seg::Line(q, _) => {
                    if *q != *pts.last().unwrap() {
                        pts.push(*q);
                    }
                }
                _ => return None,
            }
        }
        let n = pts.len();
        for i in 0..n {
            if pts[i] != p {
                continue;
            }
            let (prev, next) = if i > 0 && i + 1 < n {
                (pts[i - 1], pts[i + 1])
            } else if s.close && n > 2 {
                (pts[(i + n - 1) % n], pts[(i + 1) % n])
            } else {
                continue;
            };
            let (a, b) = ((p - prev).normalize(), (next - p).normalize());
            return Some(a.cross(b));
        }
    }
    None
}

/// what `check_stroke_mesh` measured on the way (the Coq case of the run is written from these)
pub(crate) struct MeshFacts {
    pub bad: bool,
    pub segs: Vec<((f64, f64), (f64, f64))>,
    pub hw_max: f64,
    pub scale: f64,
    pub ulp: f64,
}

/// The per-triangle and per-vertex clauses of C05 on one recorded stroke of `spec`: distinct valid triangle
/// ids; finite values; non-negative advancement; position == position_on_path + normal * half_width; the
/// width asked for (fixed width) or the width attribute `width_attr` at the source (variable width); within
/// the join / cap reach of the input; a source naming an endpoint / edge of `tables`, with position_on_path
/// where the source says.
pub(crate) fn check_stroke_mesh(st: &mut Stats, cfg: &StrokeCfg, spec: &PathSpec, tables: &Tables, rate: f64, width_attr: usize, rec: &StrokeRec, label: &str) -> MeshFacts {
    let segs = input_segments(spec);
    let hw_max = if cfg.var_width { rec.verts.iter().map(|v| v.width as f64 * 0.5).fold(0.0, f64::max) } else { cfg.width as f64 * 0.5 };
    let scale: f64 = segs.iter().flat_map(|(a, b)| [a.0.abs(), a.1.abs(), b.0.abs(), b.1.abs()]).fold(1.0, f64::max);
    let ulp = scale * 2.4e-7;
    let mut bad = false;
    for t in &rec.tris {
        if t[0] == t[1] || t[1] == t[2] || t[0] == t[2] {
            st.fail(jobj(&[("what", jstr("a stroke triangle repeats a vertex id")), ("input", jstr(&format!("{:?} :: {}", t, label)))]));
            bad = true;
        }
        if t.iter().any(|i| *i as usize >= rec.verts.len()) {
            st.fail(jobj(&[("what", jstr("a stroke triangle uses an id that was never returned")), ("input", jstr(&format!("{:?} :: {}", t, label)))]));
            bad = true;
        }
    }
    let mut worst_reach = 0.0f64;
    for (vi, v) in rec.verts.iter().enumerate() {
        let vl = || format!("vertex {} {:?} :: {}", vi, v, label);
        if !(v.pos.x.is_finite() && v.pos.y.is_finite() && v.on_path.x.is_finite() && v.on_path.y.is_finite() && v.normal.x.is_finite() && v.normal.y.is_finite() && v.width.is_finite() && v.adv.is_finite()) {
            st.fail(jobj(&[("what", jstr("a stroke vertex carries a non-finite value")), ("input", jstr(&vl()))]));
            bad = true;
            continue;
        }
        if v.adv < 0.0 {
            st.fail(jobj(&[("what", jstr("negative advancement")), ("input", jstr(&vl()))]));
            bad = true;
        }
        // position = position_on_path + normal * half_width, as f32
        let want = v.on_path + v.normal * (v.width * 0.5);
        if want != v.pos {
            st.fail(jobj(&[("what", jstr("position is not position_on_path + normal * half_width")), ("input", jstr(&vl()))]));
            bad = true;
        }
        if !cfg.var_width && v.width != cfg.width {
            st.fail(jobj(&[("what", jstr("line_width is not the width asked for")), ("input", jstr(&vl()))]));
            bad = true;
        }
        // within reach of the path
        let p = (v.pos.x as f64, v.pos.y as f64);
        let d = segs.iter().map(|(a, b)| seg_dist(p, *a, *b)).fold(f64::MAX, f64::min);
        let hw = v.width as f64 * 0.5;
        let allowed = cfg.reach(rate) * hw.max(hw_max) + cfg.tol as f64 + 4.0 * ulp + 1e-4 * hw;
        if !segs.is_empty() {
            worst_reach = worst_reach.max((d - cfg.tol as f64 - 4.0 * ulp) / hw.max(1e-9));
            if d > allowed {
                let mut f = vec![("what", jstr("a stroke vertex is farther from the path than the join / cap reach")), ("input", jstr(&format!("distance {:.5} allowed {:.5} :: {}", d, allowed, vl())))];
                // K13: on a tight curve, or at a join where the path doubles back (within 3 degrees of a half turn);
                // sharp but definite turns of a polyline are handled by the fold test of the join code and are in scope
                if cfg.var_width && sharp_turn_or_curve_at(spec, v.on_path) && turn_cross_at(spec, v.on_path).map_or(true, |c| c.abs() < 0.05) {
                    f.push(("class", jstr("K13")));
                }
                st.fail(jobj(&f));
                bad = true;
            }
        }
        // variable width: the width at a vertex is the line width times the (interpolated) first attribute at its source
        if cfg.var_width {
            let a0 = |id: u32| tables.endpoints.get(&id).and_then(|e| e.1.get(width_attr).copied());
            let want = match v.src {
                VertexSource::Endpoint { id } => a0(id.0),
                VertexSource::Edge { from, to, t } => match (a0(from.0), a0(to.0)) {
                    (Some(a), Some(b)) => Some(a * (1.0 - t) + b * t),
                    _ => None,
                },
            };
            if let Some(wf) = want {
                let want_w = cfg.width * wf;
                if (v.width - want_w).abs() > 1e-4 * want_w.abs().max(1e-3) {
                    st.fail(jobj(&[("what", jstr("line_width at a vertex is not the line width times the width attribute at its source")), ("input", jstr(&format!("expected {} :: {}", want_w, vl())))]));
                    bad = true;
                }
            }
        }
        // the source names an endpoint or an edge of the input, and position_on_path is where it says
        let q = (v.on_path.x as f64, v.on_path.y as f64);
        let slack = cfg.tol as f64 + 8.0 * ulp;
        match v.src {
            VertexSource::Endpoint { id } => match tables.endpoints.get(&id.0) {
                None => {
                    st.fail(jobj(&[("what", jstr("a stroke vertex's source names an id that is not an endpoint of the input")), ("input", jstr(&vl()))]));
                    bad = true;
                }
                Some((e, _)) => {
                    if (e.x as f64 - q.0).hypot(e.y as f64 - q.1) > slack {
                        st.fail(jobj(&[("what", jstr("position_on_path is not at the endpoint named by the source")), ("input", jstr(&vl()))]));
                        bad = true;
                    }
                }
            },
            VertexSource::Edge { from, to, t } => {
                let by_pos = || -> Option<&EdgeGeom> {
                    let (pf, pt) = (tables.endpoints.get(&from.0)?.0, tables.endpoints.get(&to.0)?.0);
                    tables.edges.values().flatten().find(|g| match g {
                        EdgeGeom::Line(a, b) => *a == pf && *b == pt,
                        EdgeGeom::Quad(a, _, b) => *a == pf && *b == pt,
                        EdgeGeom::Cubic(a, _, _, b) => *a == pf && *b == pt,
                    })
                };
                match tables.edges.get(&(from.0, to.0)).and_then(|v| v.first()).or_else(by_pos) {
                    None => {
                        st.fail(jobj(&[("what", jstr("a stroke vertex's source names a pair of ids that is not an edge of the input")), ("input", jstr(&vl()))]));
                        bad = true;
                    }
                    Some(g) => {
                        if !(t >= 0.0 && t <= 1.0) {
                            st.fail(jobj(&[("what", jstr("a stroke vertex's edge source has a parameter outside [0,1]")), ("input", jstr(&vl()))]));
                            bad = true;
                        } else {
                            let s = sample(g, t as f64);
                            if (s.0 - q.0).hypot(s.1 - q.1) > slack {
                                st.fail(jobj(&[("what", jstr("position_on_path is not at the parameter named by the source")), ("input", jstr(&format!("off by {:.5} :: {}", (s.0 - q.0).hypot(s.1 - q.1), vl())))]));
                                bad = true;
                            }
                        }
                    }
                }
            }
        }
    }
    let _ = worst_reach;
    MeshFacts { bad, segs, hw_max, scale, ulp }
}

fn structured(k: u64, r: &mut Rng) -> PathSpec {
    let pl = |pts: Vec<(f32, f32)>, close: bool| PathSpec::from_polylines(&[pts], &[close]);
    match k % 12 {
        0 => pl(vec![(0.0, 0.0), (0.0, 0.0), (5.0, 0.0), (5.0, 0.0), (5.0, 5.0)], false), // repeated points
        1 => pl(vec![(0.0, 0.0), (1e-4, 0.0), (5.0, 0.0), (5.0, 1e-5), (5.0, 5.0)], true), // tiny segments
        2 => pl(vec![(0.0, 0.0), (1e5, 0.0), (1e5, 1e5)], false),                       // huge
        3 => pl(vec![(0.0, 0.0), (10.0, 0.0), (0.0, 0.1)], false),                       // hairpin
        4 => pl(vec![(0.0, 0.0), (10.0, 0.0), (0.0, 0.0)], false),                       // exact back-track
        5 => pl(vec![(0.0, 0.0), (4.0, 0.0)], true),                                     // closed single segment
        6 => PathSpec { n_attr: 0, subs: vec![] },
        7 => pl(vec![(3.0, 3.0)], false),
        8 => pl(vec![(3.0, 3.0)], true),
        9 => pl(vec![(0.0, 0.0), (1.0, 0.0), (1.0, 1.0), (0.0, 1.0), (0.0, 0.0)], true), // closes onto its start
        10 => {
            // zig-zag with random amplitude: sharp turns on short segments
            let n = 3 + r.below(6) as usize;
            pl((0..n).map(|i| (i as f32 * 0.5, if i % 2 == 0 { 0.0 } else { r.range(1, 40) as f32 / 8.0 })).collect(), r.chance(1, 2))
        }
        _ => {
            // collinear points and a turn by 180 degrees in the middle
            pl(vec![(0.0, 0.0), (2.0, 0.0), (4.0, 0.0), (3.0, 0.0), (6.0, 0.0)], false)
        }
    }
}

fn set_attrs(spec: &mut PathSpec, r: &mut Rng, n_attr: usize) {
    spec.n_attr = n_attr;
    // attribute 0 is a width factor when variable width is on: keep it positive
    let a = |r: &mut Rng| -> Vec<f32> { (0..n_attr).map(|k| if k == 0 { (1 + r.below(12)) as f32 / 4.0 } else { r.range(-20, 20) as f32 }).collect() };
    for s in &mut spec.subs {
        s.start_attrs = a(r);
        for g in &mut s.segs {
            let x = a(r);
            match g {
                Seg::Line(_, y) | Seg::Quad(_, _, y) | Seg::Cubic(_, _, _, y) => *y = x,
            }
        }
    }
}

fn gpt(p: &Point) -> String {
    format!("({}, {})", gq32(p.x), gq32(p.y))
}

pub fn main(args: &Args) -> std::io::Result<()> {
    use std::io::Write;
    let mut st = Stats::default();
    let mut w = ShardWriter::new(&args.out, "c05_cases", args.shards, HEADER, "bad_cases");
    w.disabled = args.direct_only();
    let mut idx = std::fs::File::create(args.out.join("c05_index.txt"))?;
    let mut rng = Rng::new(args.seed ^ 0x05);
    let n = if args.thorough() { 20000 } else { 2500 };
    let coq_cap = if args.thorough() { 3000 } else { 500 };
    let mut id = 0usize;
    for it in 0..n {
        let n_attr = if rng.chance(1, 2) { 1 + rng.below(2) as usize } else { 0 };
        let mut spec = match it % 4 {
            0 => structured(rng.below(12), &mut rng),
            1 => random_polygonal(&mut rng, 2, 6, 8),
            2 => random_curved(&mut rng, 0, 2, 4, 10),
            _ => {
                // random polyline with small real-valued coordinates
                let k = 2 + rng.below(6) as usize;
                PathSpec::from_polylines(&[(0..k).map(|_| (rng.range(-400, 400) as f32 / 64.0, rng.range(-400, 400) as f32 / 64.0)).collect()], &[rng.chance(1, 2)])
            }
        };
        set_attrs(&mut spec, &mut rng, n_attr);
        let mut entry = *rng.pick(&FILL_ENTRIES);
        if n_attr > 0 && matches!(entry, Entry::Tessellate | Entry::Polygon | Entry::Builder) {
            entry = *rng.pick(&[Entry::TessellatePath, Entry::WithIds, Entry::BuilderWithAttributes]);
        }
        let cfg = random_cfg(&mut rng, n_attr > 0);
        let label = format!("{:?} {:?} :: {}", entry, cfg, spec.text());
        st.inc("evaluations");
        st.inc(&format!("join_{:?}", cfg.join));
        st.inc(&format!("cap_{:?}_{:?}", cfg.start_cap, cfg.end_cap));
        st.inc(if cfg.var_width { "variable_width" } else { "fixed_width" });
        st.note_case(&label, spec.subs.iter().any(|s| s.segs.len() >= 2));
        let path_ids = n_attr > 0 && matches!(entry, Entry::TessellatePath | Entry::WithIds) || entry == Entry::WithIds;
        let tables: Tables = if path_ids { tables_from_path(&spec.build()) } else { tables_sequential(&spec) };
        let o = cfg.options();
        let rate = if cfg.var_width { width_rate(&spec, cfg.width) } else { 0.0 };
        let k12 = cfg.var_width && rate >= 0.999;
        if k12 {
            st.inc("variable_width_rate_ge_1");
        }
        let mut rec = StrokeRec::default();
        if it % 16 == 0 {
            breadcrumb(&args.out, &format!("one of the 16 inputs starting at: {}", label));
        }
        let r = catch(AssertUnwindSafe(|| run_stroke(entry, &mut StrokeTessellator::new(), &spec, &o, &mut rec).is_ok()));
        match r {
            None => {
                let mut f = vec![("what", jstr("stroking panicked")), ("input", jstr(&label))];
                if k12 {
                    f.push(("class", jstr("K12")));
                }
                st.fail(jobj(&f));
                continue;
            }
            Some(false) => {
                st.fail(jobj(&[("what", jstr("stroking a finite path with valid options returned an error")), ("input", jstr(&label))]));
                continue;
            }
            Some(true) => {}
        }
        if k12 {
            // known finding K12: the geometry of such strokes is not meaningful; only panics / non-finite output matter
            if rec.verts.iter().any(|v| !(v.pos.x.is_finite() && v.pos.y.is_finite())) {
                st.fail(jobj(&[("what", jstr("a stroke vertex carries a non-finite value")), ("input", jstr(&label)), ("class", jstr("K12"))]));
                st.inc("k12_non_finite");
            }
            continue;
        }
        st.add("vertices", rec.verts.len() as u64);
        st.add("triangles", rec.tris.len() as u64);
        let facts = check_stroke_mesh(&mut st, &cfg, &spec, &tables, rate, 0, &rec, &label);
        let (bad, segs, hw_max, scale, ulp) = (facts.bad, facts.segs, facts.hw_max, facts.scale, facts.ulp);
        st.add("reach_x1000_max", 0);
        if !bad && id < coq_cap && rec.verts.len() <= 60 && !rec.verts.is_empty() && scale < 1e4 && cfg.reach(rate).is_finite() {
            // the Coq oracle: exact arithmetic on the recorded vertices against the flattened input
            let segs_q = glist(segs.iter().map(|(a, b)| format!("(({}, {}), ({}, {}))", gq64(a.0), gq64(a.1), gq64(b.0), gq64(b.1))));
            let verts_q = glist(rec.verts.iter().map(|v| format!("(mkSV {} {} ({}, {}) {})", gpt(&v.pos), gpt(&v.on_path), gq32(v.normal.x), gq32(v.normal.y), gq32(v.width))));
            let tris_q = glist(rec.tris.iter().map(|t| format!("({}, {}, {})%Z", t[0], t[1], t[2])));
            let allowed = cfg.reach(rate) * hw_max + cfg.tol as f64 + 4.0 * ulp + 1e-4 * hw_max;
            writeln!(idx, "{}\t{}", id, label).ok();
            w.push(format!("(mkSC {} {} {} {} {})", id, segs_q, verts_q, tris_q, gq64(allowed * allowed)));
            id += 1;
        }
        if it % 100 == 0 {
            st.sample(label);
        }
    }
    // add_edge_triangles (hook): id coincidences and fold flags; every emitted triangle must have three
    // distinct ids, and the model must emit the same triangles
    let ne = if args.thorough() { 6000 } else { 800 };
    for k in 0..ne {
        let span = if k % 3 == 0 { 2 } else { 4 };
        let mut ids = [0u32; 8];
        for x in ids.iter_mut() {
            *x = rng.below(span) as u32;
        }
        let f: [bool; 4] = [rng.chance(1, 3), rng.chance(1, 3), rng.chance(1, 3), rng.chance(1, 3)];
        let got = lyon_tessellation::verif::verif_add_edge_triangles([ids[0], ids[1], ids[2], ids[3]], [f[0], f[1]], [ids[4], ids[5], ids[6], ids[7]], [f[2], f[3]]);
        st.inc("edge_triangle_evaluations");
        st.add("edge_triangles_emitted", got.len() as u64);
        let label = format!("add_edge_triangles ids {:?} folds {:?} -> {:?}", ids, f, got);
        if got.iter().any(|t| t[0] == t[1] || t[1] == t[2] || t[0] == t[2]) {
            st.fail(jobj(&[("what", jstr("add_edge_triangles emits a triangle with a repeated id")), ("input", jstr(&label))]));
        }
        let ep = |i: &[u32], fp: bool, fneg: bool| format!("(mkEp {} {} {} {} {} {})", i[0], i[1], i[2], i[3], gbool(fp), gbool(fneg));
        writeln!(idx, "{}\t{}", 1_000_000 + k, label).ok();
        w.push(format!(
            "(mkEC {} {} {} {})",
            1_000_000 + k,
            ep(&ids[0..4], f[0], f[1]),
            ep(&ids[4..8], f[2], f[3]),
            glist(got.iter().map(|t| format!("({}, {}, {})%Z", t[0], t[1], t[2])))
        ));
    }
    shape_helper_checks(args, &mut st);
    empty_cap_checks(args, &mut st);
    clear_breadcrumb(&args.out);
    w.finish()?;
    // K12 accounts for non-finite output on a small part of its domain (at most 1 % of the inputs with rate >= 1, measured
    // over 12 runs: 0..12 of 144..1295); a change that makes it common there is a new failure
    let (k12_bad, k12_all) = (*st.counters.get("k12_non_finite").unwrap_or(&0), *st.counters.get("variable_width_rate_ge_1").unwrap_or(&0));
    if k12_bad > 4 + k12_all / 50 {
        st.fail(jobj(&[
            ("what", jstr("non-finite stroke vertices on far more variable-width inputs with rate >= 1 than the known finding K12 accounts for")),
            ("input", jstr(&format!("{} of {} inputs with rate >= 1 (K12 on the pinned tree: at most 1 %)", k12_bad, k12_all))),
        ]));
    }
    st.write(&args.out.join("c05_stats.json"))
}

// ===================================================================================================
// The shape helpers of the stroke builder (add_rectangle / add_circle / add_ellipse / add_rounded_rectangle /
// add_polygon / add_line_segment / add_point through `StrokeTessellator::builder` and
// `builder_with_attributes`, both windings, fixed and variable width), the same helpers on a `Path` builder
// followed by tessellate_path / tessellate_with_ids / tessellate, and tessellate_rectangle / circle / ellipse.
// ===================================================================================================

mod shapes {
    use super::*;
    use lyon_path::builder::{BorderRadii, NoAttributes};
    use lyon_path::geom::LineSegment;
    use lyon_path::math::{vector, Angle, Box2D};
    use lyon_path::traits::{Build, PathBuilder};
    use lyon_path::{Attributes, EndpointId, Path, Polygon, Winding};

    pub(super) type P2 = (f64, f64);

    #[derive(Clone, Debug)]
    pub(super) enum ShapeK {
        Rect(Box2D),
        Circle(Point, f32),
        Ellipse(Point, f32, f32, f32),
        /// radii: top left, top right, bottom left, bottom right
        RoundRect(Box2D, [f32; 4]),
        Polygon(Vec<Point>, bool),
        Segment(Point, Point),
        /// add_point: begin; end(false)
        PointOpen(Point),
        /// begin a; line_to b; end(true)
        PairClosed(Point, Point),
    }

    impl ShapeK {
        pub fn name(&self) -> &'static str {
            match self {
                ShapeK::Rect(..) => "add_rectangle",
                ShapeK::Circle(..) => "add_circle",
                ShapeK::Ellipse(..) => "add_ellipse",
                ShapeK::RoundRect(..) => "add_rounded_rectangle",
                ShapeK::Polygon(..) => "add_polygon",
                ShapeK::Segment(..) => "add_line_segment",
                ShapeK::PointOpen(..) => "add_point",
                ShapeK::PairClosed(..) => "closed_pair",
            }
        }
    }

    fn oriented(pts: &[Point], w: Winding) -> Vec<Point> {
        let mut v = pts.to_vec();
        if w == Winding::Negative {
            v.reverse();
        }
        v
    }

    /// the helper through the attribute-carrying `PathBuilder` trait methods
    pub(super) fn apply_attr<B: PathBuilder>(b: &mut B, s: &ShapeK, w: Winding, a: Attributes) {
        match s {
            ShapeK::Rect(r) => b.add_rectangle(r, w, a),
            ShapeK::Circle(c, r) => b.add_circle(*c, *r, w, a),
            ShapeK::Ellipse(c, rx, ry, rot) => b.add_ellipse(*c, vector(*rx, *ry), Angle::radians(*rot), w, a),
            ShapeK::RoundRect(r, q) => b.add_rounded_rectangle(r, &BorderRadii { top_left: q[0], top_right: q[1], bottom_left: q[2], bottom_right: q[3] }, w, a),
            ShapeK::Polygon(pts, closed) => b.add_polygon(Polygon { points: &oriented(pts, w), closed: *closed }, a),
            ShapeK::Segment(p, q) => {
                let v = oriented(&[*p, *q], w);
                b.add_line_segment(&LineSegment { from: v[0], to: v[1] }, a);
            }
            ShapeK::PointOpen(p) => {
                b.add_point(*p, a);
            }
            ShapeK::PairClosed(p, q) => {
                let v = oriented(&[*p, *q], w);
                b.begin(v[0], a);
                b.line_to(v[1], a);
                b.end(true);
            }
        }
    }

    /// the helper through the inherent methods of the `NoAttributes` wrapper
    pub(super) fn apply_noattr<B: PathBuilder>(b: &mut NoAttributes<B>, s: &ShapeK, w: Winding) {
        match s {
            ShapeK::Rect(r) => b.add_rectangle(r, w),
            ShapeK::Circle(c, r) => b.add_circle(*c, *r, w),
            ShapeK::Ellipse(c, rx, ry, rot) => b.add_ellipse(*c, vector(*rx, *ry), Angle::radians(*rot), w),
            ShapeK::RoundRect(r, q) => b.add_rounded_rectangle(r, &BorderRadii { top_left: q[0], top_right: q[1], bottom_left: q[2], bottom_right: q[3] }, w),
            ShapeK::Polygon(pts, closed) => b.add_polygon(Polygon { points: &oriented(pts, w), closed: *closed }),
            ShapeK::Segment(p, q) => {
                let v = oriented(&[*p, *q], w);
                b.add_line_segment(&LineSegment { from: v[0], to: v[1] });
            }
            ShapeK::PointOpen(p) => {
                b.add_point(*p);
            }
            ShapeK::PairClosed(p, q) => {
                let v = oriented(&[*p, *q], w);
                b.begin(v[0]);
                b.line_to(v[1]);
                b.end(true);
            }
        }
    }

    /// a `PathBuilder` that writes down the commands a helper issues: the input the stroke is a stroke of
    pub(super) struct SpecRec {
        pub n_attr: usize,
        pub subs: Vec<Sub>,
        next: u32,
    }

    impl SpecRec {
        pub fn new(n_attr: usize) -> Self {
            SpecRec { n_attr, subs: Vec::new(), next: 0 }
        }
        fn id(&mut self) -> EndpointId {
            self.next += 1;
            EndpointId(self.next - 1)
        }
        pub fn spec(self) -> PathSpec {
            PathSpec { n_attr: self.n_attr, subs: self.subs }
        }
    }

    impl PathBuilder for SpecRec {
        fn num_attributes(&self) -> usize {
            self.n_attr
        }
        fn begin(&mut self, at: Point, a: Attributes) -> EndpointId {
            self.subs.push(Sub { start: at, start_attrs: a.to_vec(), segs: Vec::new(), close: false });
            self.id()
        }
        fn end(&mut self, close: bool) {
            if let Some(s) = self.subs.last_mut() {
                s.close = close;
            }
        }
        fn line_to(&mut self, to: Point, a: Attributes) -> EndpointId {
            self.subs.last_mut().expect("line_to without begin").segs.push(Seg::Line(to, a.to_vec()));
            self.id()
        }
        fn quadratic_bezier_to(&mut self, ctrl: Point, to: Point, a: Attributes) -> EndpointId {
            self.subs.last_mut().expect("quadratic_bezier_to without begin").segs.push(Seg::Quad(ctrl, to, a.to_vec()));
            self.id()
        }
        fn cubic_bezier_to(&mut self, c1: Point, c2: Point, to: Point, a: Attributes) -> EndpointId {
            self.subs.last_mut().expect("cubic_bezier_to without begin").segs.push(Seg::Cubic(c1, c2, to, a.to_vec()));
            self.id()
        }
    }

    #[derive(Clone, Copy, Debug, PartialEq)]
    pub(super) enum Route {
        /// tessellator.builder(options, output).add_X(..); build()
        Builder,
        /// tessellator.builder_with_attributes(n, options, output).add_X(.., attributes); build()
        BuilderAttr,
        /// Path builder .add_X(..); build(); tessellate_path
        TessellatePath,
        /// Path builder .add_X(..); build(); tessellate_with_ids
        WithIds,
        /// Path builder .add_X(..); build(); tessellate(path.iter())
        Tessellate,
        /// tessellate_rectangle / tessellate_circle / tessellate_ellipse
        Direct,
    }

    pub(super) struct Run {
        pub ok: bool,
        pub rec: StrokeRec,
        pub path: Option<Path>,
    }

    /// None: panicked
    pub(super) fn run_shape(route: Route, s: &ShapeK, w: Winding, n_attr: usize, attrs: &[f32], o: &StrokeOptions) -> Option<Run> {
        let mut rec = StrokeRec::default();
        let mut path_out: Option<Path> = None;
        let ok = catch(AssertUnwindSafe(|| {
            let mut tess = StrokeTessellator::new();
            match route {
                Route::Builder => {
                    let mut b = tess.builder(o, &mut rec);
                    apply_noattr(&mut b, s, w);
                    b.build().is_ok()
                }
                Route::BuilderAttr => {
                    let mut b = tess.builder_with_attributes(n_attr, o, &mut rec);
                    apply_attr(&mut b, s, w, attrs);
                    b.build().is_ok()
                }
                Route::TessellatePath | Route::WithIds | Route::Tessellate => {
                    let path: Path = if n_attr == 0 {
                        let mut pb = Path::builder();
                        apply_noattr(&mut pb, s, w);
                        pb.build()
                    } else {
                        let mut pb = Path::builder_with_attributes(n_attr);
                        apply_attr(&mut pb, s, w, attrs);
                        pb.build()
                    };
                    let r = match route {
                        Route::TessellatePath => tess.tessellate_path(&path, o, &mut rec),
                        Route::WithIds => {
                            if n_attr > 0 {
                                tess.tessellate_with_ids(path.id_iter(), &path, Some(&path), o, &mut rec)
                            } else {
                                tess.tessellate_with_ids(path.id_iter(), &path, None, o, &mut rec)
                            }
                        }
                        _ => tess.tessellate(path.iter(), o, &mut rec),
                    };
                    path_out = Some(path);
                    r.is_ok()
                }
                Route::Direct => match s {
                    ShapeK::Rect(b) => tess.tessellate_rectangle(b, o, &mut rec).is_ok(),
                    ShapeK::Circle(c, r) => tess.tessellate_circle(*c, *r, o, &mut rec).is_ok(),
                    ShapeK::Ellipse(c, rx, ry, rot) => tess.tessellate_ellipse(*c, vector(*rx, *ry), Angle::radians(*rot), w, o, &mut rec).is_ok(),
                    _ => unreachable!(),
                },
            }
        }))?;
        Some(Run { ok, rec, path: path_out })
    }

    // ------------------------------------------------------------------------------ ideal regions

    pub(super) fn pf(p: Point) -> P2 {
        (p.x as f64, p.y as f64)
    }

    /// straight pieces and circular arcs (centre, radius, start angle, end angle > start, at most a full turn)
    #[derive(Clone, Debug, Default)]
    pub(super) struct Outline {
        pub segs: Vec<(P2, P2)>,
        pub arcs: Vec<(P2, f64, f64, f64)>,
    }

    impl Outline {
        pub fn dist(&self, p: P2) -> f64 {
            let mut d = f64::INFINITY;
            for (a, b) in &self.segs {
                d = d.min(seg_dist(p, *a, *b));
            }
            for (c, r, a0, a1) in &self.arcs {
                let (vx, vy) = (p.0 - c.0, p.1 - c.1);
                let tau = 2.0 * std::f64::consts::PI;
                let mut th = vy.atan2(vx) - a0;
                th -= (th / tau).floor() * tau;
                if th <= a1 - a0 {
                    d = d.min((vx.hypot(vy) - r).abs());
                } else {
                    for a in [a0, a1] {
                        d = d.min((p.0 - c.0 - r * a.cos()).hypot(p.1 - c.1 - r * a.sin()));
                    }
                }
            }
            d
        }
        pub fn bounds(&self) -> (P2, P2) {
            let (mut lo, mut hi) = ((f64::INFINITY, f64::INFINITY), (f64::NEG_INFINITY, f64::NEG_INFINITY));
            let mut add = |p: P2| {
                lo = (lo.0.min(p.0), lo.1.min(p.1));
                hi = (hi.0.max(p.0), hi.1.max(p.1));
            };
            for (a, b) in &self.segs {
                add(*a);
                add(*b);
            }
            for (c, r, _, _) in &self.arcs {
                add((c.0 - r, c.1 - r));
                add((c.0 + r, c.1 + r));
            }
            (lo, hi)
        }
    }

    /// what a join does in the quadrant diagonally outside a right-angled corner of the outline; in the
    /// corner's own coordinates (dx, dy >= 0 away from the shape) the stroke covers, of the square of side
    /// half-width:
    #[derive(Clone, Copy, Debug, PartialEq)]
    pub(super) enum CornerMode {
        /// the quarter disc (round joins)
        Round,
        /// unspecified (the helper documents an approximation there)
        DontCare,
        /// dx + dy <= c with c >= sqrt 2 half-widths: the quarter disc and more (miter, clipped miter)
        Superset(f64),
        /// dx + dy <= half-width: the bevel triangle
        Bevel,
    }

    #[derive(Clone, Debug)]
    pub(super) enum Ideal {
        /// no triangle covers anything
        Nothing,
        /// the points within `hw` of `outline`: those within hw - d_in must be covered (d_in infinite: no such
        /// demand), those farther than k * hw + d_out must not; right-angled corners as `mode` says
        Stroke { outline: Outline, hw: f64, d_in: f64, d_out: f64, k: f64, corners: Vec<(P2, P2)>, mode: CornerMode },
        /// the box of half-height hw around a..b, extended by ext_* beyond a / b, with a half disc where round_*;
        /// `inner` is what must be covered, `outer` what may be
        Seg { a: P2, b: P2, hw: f64, inner: (f64, f64, bool, bool), outer: (f64, f64, bool, bool), delta: f64 },
        /// axis-aligned square of half-side hw
        Square { c: P2, hw: f64, delta: f64 },
        Disc { c: P2, hw: f64, delta: f64 },
    }

    impl Ideal {
        /// Some(true): must be covered; Some(false): must not be covered; None: too close to the boundary of
        /// the ideal region (or in a part that is not specified) to say
        pub fn classify(&self, p: P2) -> Option<bool> {
            match self {
                Ideal::Nothing => Some(false),
                Ideal::Square { c, hw, delta } => {
                    let m = hw - (p.0 - c.0).abs().max((p.1 - c.1).abs());
                    if m >= *delta {
                        Some(true)
                    } else if m <= -*delta {
                        Some(false)
                    } else {
                        None
                    }
                }
                Ideal::Disc { c, hw, delta } => {
                    let m = hw - (p.0 - c.0).hypot(p.1 - c.1);
                    if m >= *delta {
                        Some(true)
                    } else if m <= -*delta {
                        Some(false)
                    } else {
                        None
                    }
                }
                Ideal::Seg { a, b, hw, inner, outer, delta } => {
                    let l = (b.0 - a.0).hypot(b.1 - a.1);
                    let u = ((b.0 - a.0) / l, (b.1 - a.1) / l);
                    let t = (p.0 - a.0) * u.0 + (p.1 - a.1) * u.1;
                    let n = -(p.0 - a.0) * u.1 + (p.1 - a.1) * u.0;
                    // a round cap is the half disc beyond the end: before a round end only the sides bound the region
                    let depth = |e: &(f64, f64, bool, bool)| -> f64 {
                        let ca = if e.2 { if t < 0.0 { hw - (p.0 - a.0).hypot(p.1 - a.1) } else { f64::INFINITY } } else { t + e.0 };
                        let cb = if e.3 { if t > l { hw - (p.0 - b.0).hypot(p.1 - b.1) } else { f64::INFINITY } } else { l + e.1 - t };
                        (hw - n.abs()).min(ca).min(cb)
                    };
                    if depth(inner) >= *delta {
                        Some(true)
                    } else if depth(outer) <= -*delta {
                        Some(false)
                    } else {
                        None
                    }
                }
                Ideal::Stroke { outline, hw, d_in, d_out, k, corners, mode } => {
                    let d = outline.dist(p);
                    let local = |c: &(P2, P2)| ((p.0 - c.0 .0) * c.1 .0, (p.1 - c.0 .1) * c.1 .1);
                    let s2 = std::f64::consts::SQRT_2;
                    match mode {
                        CornerMode::Round => {}
                        CornerMode::DontCare => {
                            for c in corners {
                                let (dx, dy) = local(c);
                                if dx >= -*d_out && dy >= -*d_out && dx <= hw + d_out && dy <= hw + d_out {
                                    return None;
                                }
                            }
                        }
                        CornerMode::Superset(c_lim) => {
                            // the wedge P = [0, hw]^2 with dx + dy <= c_lim comes on top of the round region
                            let mut far_from_wedges = true;
                            for c in corners {
                                let (dx, dy) = local(c);
                                let depth = dx.min(dy).min(hw - dx).min(hw - dy).min((c_lim - dx - dy) / s2);
                                if depth >= *d_in {
                                    return Some(true);
                                }
                                let beyond = (-dx).max(-dy).max(dx - hw).max(dy - hw).max((dx + dy - c_lim) / s2);
                                if beyond < *d_out {
                                    far_from_wedges = false;
                                }
                            }
                            if d <= hw - d_in {
                                return Some(true);
                            }
                            if d >= k * hw + d_out && far_from_wedges {
                                return Some(false);
                            }
                            return None;
                        }
                        CornerMode::Bevel => {
                            // the whole ideal region lies on the inner side of every bevel line dx + dy = hw
                            let mut inside_all = true;
                            for c in corners {
                                let (dx, dy) = local(c);
                                let m = (hw - dx - dy) / s2;
                                if m < *d_in {
                                    inside_all = false;
                                }
                                if m <= -*d_out {
                                    return Some(false);
                                }
                            }
                            if d <= hw - d_in && inside_all {
                                return Some(true);
                            }
                            if d >= k * hw + d_out {
                                return Some(false);
                            }
                            return None;
                        }
                    }
                    if d <= hw - d_in {
                        Some(true)
                    } else if d >= k * hw + d_out {
                        Some(false)
                    } else {
                        None
                    }
                }
            }
        }

        pub fn bounds(&self) -> Option<(P2, P2)> {
            match self {
                Ideal::Nothing => None,
                Ideal::Square { c, .. } | Ideal::Disc { c, .. } => Some((*c, *c)),
                Ideal::Seg { a, b, .. } => Some(((a.0.min(b.0), a.1.min(b.1)), (a.0.max(b.0), a.1.max(b.1)))),
                Ideal::Stroke { outline, .. } => Some(outline.bounds()),
            }
        }
    }

    /// which grid points the triangles cover (closed triangles; zero-area ones cover nothing)
    pub(super) struct Grid {
        pub lo: P2,
        pub step: P2,
        pub n: usize,
        pub covered: Vec<bool>,
    }

    impl Grid {
        pub fn new(lo: P2, hi: P2, n: usize) -> Grid {
            // the sample points sit at an odd fraction of the cells so that they avoid the lattice the inputs live on
            let step = ((hi.0 - lo.0) / n as f64, (hi.1 - lo.1) / n as f64);
            Grid { lo: (lo.0 + 0.37 * step.0, lo.1 + 0.61 * step.1), step, n, covered: vec![false; n * n] }
        }
        pub fn point(&self, i: usize, j: usize) -> P2 {
            (self.lo.0 + i as f64 * self.step.0, self.lo.1 + j as f64 * self.step.1)
        }
        pub fn raster(&mut self, rec: &StrokeRec) {
            for t in &rec.tris {
                if t.iter().any(|i| *i as usize >= rec.verts.len()) {
                    continue;
                }
                let q: Vec<P2> = t.iter().map(|i| pf(rec.verts[*i as usize].pos)).collect();
                if !q.iter().all(|p| p.0.is_finite() && p.1.is_finite()) {
                    continue;
                }
                let area2 = (q[1].0 - q[0].0) * (q[2].1 - q[0].1) - (q[1].1 - q[0].1) * (q[2].0 - q[0].0);
                if area2.abs() < 1e-12 {
                    continue;
                }
                let sgn = area2.signum();
                let (x0, x1) = (q[0].0.min(q[1].0).min(q[2].0), q[0].0.max(q[1].0).max(q[2].0));
                let (y0, y1) = (q[0].1.min(q[1].1).min(q[2].1), q[0].1.max(q[1].1).max(q[2].1));
                if self.step.0 <= 0.0 || self.step.1 <= 0.0 {
                    continue;
                }
                let idx = |v: f64, lo: f64, st: f64, n: usize, up: bool| -> usize {
                    let f = (v - lo) / st;
                    let k = if up { f.floor() + 1.0 } else { f.ceil() - 1.0 };
                    k.max(0.0).min(n as f64) as usize
                };
                let (i0, i1) = (idx(x0, self.lo.0, self.step.0, self.n, false), idx(x1, self.lo.0, self.step.0, self.n, true));
                let (j0, j1) = (idx(y0, self.lo.1, self.step.1, self.n, false), idx(y1, self.lo.1, self.step.1, self.n, true));
                for i in i0..i1.min(self.n) {
                    for j in j0..j1.min(self.n) {
                        if self.covered[i * self.n + j] {
                            continue;
                        }
                        let p = self.point(i, j);
                        let mut inside = true;
                        for e in 0..3 {
                            let (a, b) = (q[e], q[(e + 1) % 3]);
                            let cr = ((b.0 - a.0) * (p.1 - a.1) - (b.1 - a.1) * (p.0 - a.0)) * sgn;
                            if cr < -1e-7 * (b.0 - a.0).hypot(b.1 - a.1) {
                                inside = false;
                                break;
                            }
                        }
                        if inside {
                            self.covered[i * self.n + j] = true;
                        }
                    }
                }
            }
        }
    }

    /// triangles as sorted triples of positions
    pub(super) fn tri_positions(rec: &StrokeRec) -> Vec<[(f32, f32); 3]> {
        let mut out: Vec<[(f32, f32); 3]> = rec
            .tris
            .iter()
            .filter(|t| t.iter().all(|i| (*i as usize) < rec.verts.len()))
            .map(|t| {
                let mut q = [0, 1, 2].map(|k| {
                    let p = rec.verts[t[k] as usize].pos;
                    (p.x, p.y)
                });
                q.sort_by(|a, b| a.partial_cmp(b).unwrap_or(std::cmp::Ordering::Equal));
                q
            })
            .collect();
        out.sort_by(|a, b| a.partial_cmp(b).unwrap_or(std::cmp::Ordering::Equal));
        out
    }

    /// the two lists are the same multiset of triangles up to `eps` per coordinate
    pub(super) fn same_triangles(a: &[[(f32, f32); 3]], b: &[[(f32, f32); 3]], eps: f32) -> bool {
        if a.len() != b.len() {
            return false;
        }
        let close = |x: &[(f32, f32); 3], y: &[(f32, f32); 3]| (0..3).all(|k| (x[k].0 - y[k].0).abs() <= eps && (x[k].1 - y[k].1).abs() <= eps);
        if a.iter().zip(b.iter()).all(|(x, y)| close(x, y)) {
            return true;
        }
        // sorted order can differ between lists that differ by rounding: match greedily
        let mut used = vec![false; b.len()];
        'outer: for x in a {
            // the corners of a triangle sorted lexicographically can also swap under rounding: try the permutations
            for (k, y) in b.iter().enumerate() {
                if used[k] {
                    continue;
                }
                let perms = [[0, 1, 2], [0, 2, 1], [1, 0, 2], [1, 2, 0], [2, 0, 1], [2, 1, 0]];
                if perms.iter().any(|pm| (0..3).all(|i| (x[i].0 - y[pm[i]].0).abs() <= eps && (x[i].1 - y[pm[i]].1).abs() <= eps)) {
                    used[k] = true;
                    continue 'outer;
                }
            }
            return false;
        }
        true
    }
}

use lyon_path::Winding;
use shapes::{CornerMode, Grid, Ideal, Outline, Route, ShapeK, P2};

/// the caps lyon documents for a sub-path without extent (`tessellate_empty_cap`): nothing for butt caps, the
/// square of side `width` for square caps, the disc of that diameter for round caps
fn empty_cap_ideal(c: P2, cap: LineCap, hw: f64, tol: f64) -> Ideal {
    match cap {
        LineCap::Butt => Ideal::Nothing,
        LineCap::Square => Ideal::Square { c, hw, delta: 1e-3 },
        LineCap::Round => Ideal::Disc { c, hw, delta: tol + 1e-3 },
    }
}

/// The region a stroke of the shape should cover, computed from the shape's own parameters (None: not
/// specified here).  `rect_helper`: the shape goes through StrokeBuilder::add_rectangle with a fixed width, which
/// handles rectangles thinner than the line width on its own (lyon documents an approximation made for them:
/// the corners are then left open); through the general stroker such rectangles (and rounded ones) are strokes
/// that overlap themselves all along and no region is specified for them here.
/// `first_cap` / `last_cap`: the caps at the first / last point issued.
fn ideal_region(s: &ShapeK, cfg: &StrokeCfg, hw: f64, rect_helper: bool, first_cap: LineCap, last_cap: LineCap) -> Option<Ideal> {
    let tol = cfg.tol as f64;
    let d0 = tol + 1e-3;
    let s2 = std::f64::consts::SQRT_2;
    // the joins at right-angled corners that are stroked as such
    let precise = match cfg.join {
        LineJoin::Round => CornerMode::Round,
        LineJoin::Bevel => CornerMode::Bevel,
        LineJoin::Miter => {
            if cfg.miter_limit as f64 >= s2 {
                CornerMode::Superset(2.0 * hw)
            } else {
                CornerMode::Bevel
            }
        }
        LineJoin::MiterClip => {
            if cfg.miter_limit as f64 >= s2 {
                CornerMode::Superset(2.0 * hw)
            } else {
                CornerMode::Superset(s2 * cfg.miter_limit as f64 * hw)
            }
        }
    };
    let loose = if cfg.join == LineJoin::Round { CornerMode::Round } else { CornerMode::DontCare };
    // a smooth outline of smallest radius of curvature r, flattened within tol: the chords turn by an angle a with
    // cos(a / 2) >= (r - tol) / r, a mitred turn reaches hw / cos(a / 2) and a bevelled one hw * cos(a / 2)
    let smooth = |r: f64, approx: f64| -> (f64, f64, f64) {
        if r > 2.0 * tol {
            let x = hw * tol / (r - tol);
            (d0 + approx + x, d0 + approx + x, 1.0)
        } else {
            (f64::INFINITY, d0 + approx, cfg.reach(0.0))
        }
    };
    let box_outline = |b: &lyon_path::math::Box2D, q: [f64; 4]| -> (Outline, Vec<(P2, P2)>) {
        let (x0, y0, x1, y1) = (b.min.x as f64, b.min.y as f64, b.max.x as f64, b.max.y as f64);
        let (tl, tr, bl, br) = (q[0], q[1], q[2], q[3]);
        let pi = std::f64::consts::PI;
        let mut o = Outline::default();
        o.segs.push(((x0 + tl, y0), (x1 - tr, y0)));
        o.segs.push(((x1, y0 + tr), (x1, y1 - br)));
        o.segs.push(((x1 - br, y1), (x0 + bl, y1)));
        o.segs.push(((x0, y1 - bl), (x0, y0 + tl)));
        let mut corners = Vec::new();
        for (r, c, sg, a0) in [
            (tl, (x0, y0), (-1.0, -1.0), pi),
            (tr, (x1, y0), (1.0, -1.0), 1.5 * pi),
            (br, (x1, y1), (1.0, 1.0), 0.0),
            (bl, (x0, y1), (-1.0, 1.0), 0.5 * pi),
        ] {
            if r > 0.0 {
                o.arcs.push(((c.0 - sg.0 * r, c.1 - sg.1 * r), r, a0, a0 + 0.5 * pi));
            } else {
                corners.push((c, sg));
            }
        }
        (o, corners)
    };
    match s {
        ShapeK::PointOpen(_) => Some(Ideal::Nothing),
        ShapeK::Rect(b) => {
            let (w, h) = (b.width() as f64, b.height() as f64);
            if w == 0.0 && h == 0.0 {
                if rect_helper {
                    // the helper's approximation of a rectangle without extent: only that nothing lies beyond a square cap
                    let mut o = Outline::default();
                    o.segs.push((shapes::pf(b.min), shapes::pf(b.min)));
                    return Some(Ideal::Stroke { outline: o, hw, d_in: f64::INFINITY, d_out: d0, k: s2, corners: vec![], mode: CornerMode::Round });
                }
                return Some(empty_cap_ideal(shapes::pf(b.min), first_cap, hw, tol));
            }
            let thin = w.min(h) < 2.0 * hw;
            if thin && !rect_helper {
                return None;
            }
            let (o, corners) = box_outline(b, [0.0; 4]);
            let mode = if thin { loose } else { precise };
            // the documented approximation of a thin rectangle with round joins: one half disc in place of the two quarter
            // discs whose centres are the short side apart; the two outlines are at most (1/sqrt 2 - 1/2) short sides apart
            let d = if thin && cfg.join == LineJoin::Round { d0 + (1.0 / s2 - 0.5) * w.min(h) } else { d0 };
            Some(Ideal::Stroke { outline: o, hw, d_in: d, d_out: d, k: 1.0, corners, mode })
        }
        ShapeK::RoundRect(b, q) => {
            let (w, h) = (b.width() as f64, b.height() as f64);
            if w == 0.0 && h == 0.0 {
                return Some(empty_cap_ideal(shapes::pf(b.min), first_cap, hw, tol));
            }
            if w == 0.0 || h == 0.0 {
                // a segment run through twice: only the sides are specified
                let e = cfg.reach(0.0) * hw;
                return Some(Ideal::Seg { a: shapes::pf(b.min), b: shapes::pf(b.max), hw, inner: (0.0, 0.0, false, false), outer: (e, e, false, false), delta: d0 });
            }
            if w.min(h) < 2.0 * hw {
                return None;
            }
            // radii that do not fit are clamped: the generator only asks for radii that fit, or one radius for all corners
            let lim = 0.5 * w.min(h);
            let q = [q[0] as f64, q[1] as f64, q[2] as f64, q[3] as f64].map(|r| r.min(lim));
            let (o, corners) = box_outline(b, q);
            let rmax = q.iter().cloned().fold(0.0, f64::max);
            let rmin = q.iter().cloned().filter(|r| *r > 0.0).fold(f64::INFINITY, f64::min);
            if rmax == 0.0 {
                return Some(Ideal::Stroke { outline: o, hw, d_in: d0, d_out: d0, k: 1.0, corners, mode: precise });
            }
            let (d_in, d_out, k) = smooth(rmin, 3e-4 * rmax);
            let mode = if d_in.is_finite() { precise } else { loose };
            Some(Ideal::Stroke { outline: o, hw, d_in, d_out, k, corners, mode })
        }
        ShapeK::Circle(c, r) => {
            let r = r.abs() as f64;
            if r == 0.0 {
                return Some(empty_cap_ideal(shapes::pf(*c), first_cap, hw, tol));
            }
            let mut o = Outline::default();
            o.arcs.push((shapes::pf(*c), r, 0.0, 2.0 * std::f64::consts::PI));
            // the four cubics of add_circle stay within 0.02 % of the radius of the circle
            let (d_in, d_out, k) = smooth(r, 3e-4 * r);
            Some(Ideal::Stroke { outline: o, hw, d_in, d_out, k, corners: vec![], mode: CornerMode::Round })
        }
        ShapeK::Ellipse(c, rx, ry, rot) => {
            let (rx, ry, rot) = (rx.abs() as f64, ry.abs() as f64, *rot as f64);
            let c = shapes::pf(*c);
            if rx == 0.0 && ry == 0.0 {
                return Some(empty_cap_ideal(c, first_cap, hw, tol));
            }
            let at = |t: f64| -> P2 {
                let (x, y) = (rx * t.cos(), ry * t.sin());
                (c.0 + x * rot.cos() - y * rot.sin(), c.1 + x * rot.sin() + y * rot.cos())
            };
            // the eight quadratics of add_ellipse bulge out of the ellipse by up to 0.31 % of the larger radius (K15)
            let approx = 3.2e-3 * rx.max(ry);
            if rx == 0.0 || ry == 0.0 {
                // a segment run through twice: only the sides are specified
                let (a, b) = if rx == 0.0 { (at(0.5 * std::f64::consts::PI), at(1.5 * std::f64::consts::PI)) } else { (at(0.0), at(std::f64::consts::PI)) };
                let e = cfg.reach(0.0) * hw;
                return Some(Ideal::Seg { a, b, hw, inner: (0.0, 0.0, false, false), outer: (e, e, false, false), delta: d0 + approx });
            }
            let n = 720;
            let mut o = Outline::default();
            for i in 0..n {
                let tau = 2.0 * std::f64::consts::PI;
                o.segs.push((at(tau * i as f64 / n as f64), at(tau * (i + 1) as f64 / n as f64)));
            }
            let rmin = rx.min(ry).powi(2) / rx.max(ry);
            let (d_in, d_out, k) = smooth(rmin, approx);
            Some(Ideal::Stroke { outline: o, hw, d_in, d_out, k, corners: vec![], mode: CornerMode::Round })
        }
        // general polygons: the stroker's handling of sharp turns and overlaps is not the helper's business
        ShapeK::Polygon(..) => None,
        ShapeK::Segment(p, q) => {
            if p == q {
                return Some(empty_cap_ideal(shapes::pf(*p), first_cap, hw, tol));
            }
            let ext = |c: LineCap| if c == LineCap::Square { hw } else { 0.0 };
            let e = (ext(first_cap), ext(last_cap), first_cap == LineCap::Round, last_cap == LineCap::Round);
            Some(Ideal::Seg { a: shapes::pf(*p), b: shapes::pf(*q), hw, inner: e, outer: e, delta: d0 })
        }
        ShapeK::PairClosed(p, q) => {
            if p == q {
                return Some(empty_cap_ideal(shapes::pf(*p), first_cap, hw, tol));
            }
            // there and back: the sides are specified, the two ends (half turns) are not
            Some(Ideal::Seg { a: shapes::pf(*p), b: shapes::pf(*q), hw, inner: (0.0, 0.0, false, false), outer: (hw, hw, false, false), delta: d0 })
        }
    }
}

/// the grid over the bounding box of the ideal region grown by the width; the points the triangles should and
/// should not cover.  Returns (points decided, wrongly uncovered, wrongly covered, first offender).
fn region_check(ideal: &Ideal, width: f64, rec: &StrokeRec) -> (usize, usize, usize, Option<(P2, bool)>, Vec<Option<bool>>) {
    let n = 48;
    let (lo, hi) = match ideal.bounds() {
        Some(b) => b,
        None => {
            // nothing may be covered at all
            let any = rec.tris.iter().any(|t| {
                if t.iter().any(|i| *i as usize >= rec.verts.len()) {
                    return false;
                }
                let q: Vec<P2> = t.iter().map(|i| shapes::pf(rec.verts[*i as usize].pos)).collect();
                ((q[1].0 - q[0].0) * (q[2].1 - q[0].1) - (q[1].1 - q[0].1) * (q[2].0 - q[0].0)).abs() > 1e-9
            });
            return (1, 0, any as usize, if any { Some(((0.0, 0.0), false)) } else { None }, vec![]);
        }
    };
    let g = width.max(0.25) + 0.05;
    let mut grid = Grid::new((lo.0 - g, lo.1 - g), (hi.0 + g, hi.1 + g), n);
    grid.raster(rec);
    let (mut decided, mut missing, mut extra, mut first) = (0, 0, 0, None);
    let mut cover = Vec::with_capacity(n * n);
    for i in 0..n {
        for j in 0..n {
            let p = grid.point(i, j);
            let c = grid.covered[i * n + j];
            match ideal.classify(p) {
                None => cover.push(None),
                Some(want) => {
                    decided += 1;
                    cover.push(Some(c));
                    if want != c {
                        if want {
                            missing += 1;
                        } else {
                            extra += 1;
                        }
                        if first.is_none() {
                            first = Some((p, want));
                        }
                    }
                }
            }
        }
    }
    (decided, missing, extra, first, cover)
}

fn random_shape(r: &mut Rng) -> ShapeK {
    use lyon_path::math::Box2D;
    let lat = |r: &mut Rng| r.range(-16, 17) as f32 * 0.5;
    let size = |r: &mut Rng| -> f32 {
        match r.below(8) {
            0 => 0.0,
            1 => *r.pick(&[1.0f32 / 64.0, 1.0 / 16.0]),
            _ => r.range(2, 81) as f32 * 0.25,
        }
    };
    let c = point(lat(r), lat(r));
    match r.below(16) {
        0..=4 => {
            let (w, h) = (size(r), size(r));
            ShapeK::Rect(Box2D { min: c, max: point(c.x + w, c.y + h) })
        }
        5 | 6 => ShapeK::Circle(c, size(r)),
        7 | 8 => {
            let rot = if r.chance(1, 3) { 0.0 } else { r.range(0, 16) as f32 * std::f32::consts::PI / 8.0 };
            let rx = size(r);
            // keep the two radii within a factor of four of each other, or one of them zero / tiny
            let ry = if r.chance(1, 4) { size(r) } else { (rx * *r.pick(&[0.25f32, 0.5, 1.0, 2.0, 4.0])).min(20.0) };
            ShapeK::Ellipse(c, rx, ry, rot)
        }
        9..=11 => {
            let (w, h) = (size(r), size(r));
            let lim = 0.5 * w.min(h);
            let q: [f32; 4] = if r.chance(1, 2) {
                // one radius for all corners, possibly larger than fits
                let q = *r.pick(&[0.0f32, 1.0 / 16.0, 0.5, 1.0, 2.5, 30.0]);
                [q; 4]
            } else {
                let mut q = [0.0f32; 4];
                for x in q.iter_mut() {
                    *x = *r.pick(&[0.0f32, 0.25, 0.5, 1.0]) * lim;
                }
                q
            };
            ShapeK::RoundRect(Box2D { min: c, max: point(c.x + w, c.y + h) }, q)
        }
        12 => {
            let n = 1 + r.below(5) as usize;
            let pts: Vec<Point> = (0..n).map(|_| point(c.x + r.range(0, 9) as f32, c.y + r.range(0, 9) as f32)).collect();
            ShapeK::Polygon(pts, r.chance(2, 3))
        }
        13 => {
            let d = if r.chance(1, 5) { lyon_path::math::vector(0.0, 0.0) } else { lyon_path::math::vector(r.range(-8, 9) as f32, r.range(-8, 9) as f32) };
            ShapeK::Segment(c, c + d)
        }
        14 => ShapeK::PointOpen(c),
        _ => {
            let d = if r.chance(1, 5) { lyon_path::math::vector(0.0, 0.0) } else { lyon_path::math::vector(r.range(-8, 9) as f32, r.range(-8, 9) as f32) };
            ShapeK::PairClosed(c, c + d)
        }
    }
}

/// the smallest positive length in the shape (None: a shape without extent)
fn smallest_feature(s: &ShapeK) -> Option<f32> {
    let pos = |v: &[f32]| -> Option<f32> { v.iter().cloned().filter(|x| *x > 0.0).fold(None, |m: Option<f32>, x| Some(m.map_or(x, |y| y.min(x)))) };
    match s {
        ShapeK::Rect(b) => pos(&[b.width(), b.height()]),
        ShapeK::RoundRect(b, q) => {
            let lim = 0.5 * b.width().min(b.height());
            pos(&[b.width(), b.height(), q[0].min(lim), q[1].min(lim), q[2].min(lim), q[3].min(lim)])
        }
        ShapeK::Circle(_, r) => pos(&[*r]),
        ShapeK::Ellipse(_, rx, ry, _) => {
            if *rx > 0.0 && *ry > 0.0 {
                Some(rx.min(*ry).powi(2) / rx.max(*ry))
            } else {
                pos(&[*rx, *ry])
            }
        }
        ShapeK::Polygon(pts, _) => pos(&(0..pts.len()).map(|i| (pts[(i + 1) % pts.len()] - pts[i]).length()).collect::<Vec<f32>>()),
        ShapeK::Segment(p, q) | ShapeK::PairClosed(p, q) => pos(&[(*q - *p).length()]),
        ShapeK::PointOpen(_) => None,
    }
}

fn shape_extent(s: &ShapeK) -> f32 {
    match s {
        ShapeK::Rect(b) | ShapeK::RoundRect(b, _) => b.width().max(b.height()),
        ShapeK::Circle(_, r) => 2.0 * r,
        ShapeK::Ellipse(_, rx, ry, _) => 2.0 * rx.max(*ry),
        ShapeK::Polygon(..) => 8.0,
        ShapeK::Segment(p, q) | ShapeK::PairClosed(p, q) => (*q - *p).length(),
        ShapeK::PointOpen(_) => 0.0,
    }
}

/// Failures of the shape / empty-cap checks: the first 25 of a kind are listed, the rest only counted, so that one
/// defect met by hundreds of inputs does not crowd the other kinds out of the report.
fn fail_listed(st: &mut Stats, json_obj: String) {
    let what: String = json_obj.split("\"input\"").next().unwrap_or("").to_string();
    // C05 states what every vertex and triangle of a stroke must satisfy, C06 what a stroke of LONG segments with gentle
    // turns must cover.  The regions covered by the strokes of rectangles thinner than the line and of shapes without
    // width or height (a segment run through twice: an exact half turn) are covered by neither statement: what the
    // region comparison sees there is recorded as an observation (DESIGN.md 10.10), not raised
    const OUTSIDE: [&str; 2] = ["the stroke of a rectangle thinner than the line width", "the stroke of a rounded rectangle / ellipse without width or height"];
    if OUTSIDE.iter().any(|p| what.contains(p)) {
        let short: String = what.chars().filter(|c| *c != '"' && *c != '{' && *c != ',').take(150).collect();
        st.inc(&format!("observed outside the properties' statements: {}", short.trim()));
        return;
    }
    let key = format!("shape_failures_of_kind_{:016x}", fnv(&what));
    st.inc(&key);
    if *st.counters.get(&key).unwrap_or(&0) <= 25 {
        st.fail(json_obj);
    } else {
        st.inc("shape_failures_counted_not_listed");
        st.inc("direct_failures_unclassified");
        st.inc("direct_failures");
    }
}

/// `check_stroke_mesh` on one run, reporting one failure per kind (a shape has many vertices of the same making)
fn check_run(st: &mut Stats, cfg: &StrokeCfg, spec: &PathSpec, tables: &Tables, width_attr: usize, rec: &StrokeRec, label: &str) -> usize {
    let mut tmp = Stats::default();
    check_stroke_mesh(&mut tmp, cfg, spec, tables, 0.0, width_attr, rec, label);
    forward_failures(st, &tmp)
}

fn forward_failures(st: &mut Stats, tmp: &Stats) -> usize {
    let mut seen: Vec<String> = Vec::new();
    for f in &tmp.failures {
        let what: String = f.split("\"input\"").next().unwrap_or("").to_string();
        if !seen.contains(&what) {
            seen.push(what);
            fail_listed(st, f.clone());
        }
    }
    tmp.failures.len()
}

/// What the vertices of a rectangle thinner than the line width may describe instead of the rectangle's outline:
/// the stroke builder documents that it approximates such a rectangle.  The one segment whose stroke with square
/// caps has the outline of the rectangle's stroke is the rectangle's medial segment (the long axis, shortened by
/// half the short side at both ends) drawn with the line width plus the short side.
fn thin_rect_substitute(b: &lyon_path::math::Box2D, cfg: &StrokeCfg) -> (PathSpec, StrokeCfg) {
    let (w, h) = (b.width(), b.height());
    let d = 0.5 * w.min(h);
    let (from, to) = if w > h {
        let y = 0.5 * (b.min.y + b.max.y);
        (point(b.min.x + d, y), point(b.max.x - d, y))
    } else {
        let x = 0.5 * (b.min.x + b.max.x);
        (point(x, b.min.y + d), point(x, b.max.y - d))
    };
    let mut c = cfg.clone();
    c.width = cfg.width + 2.0 * d;
    (PathSpec::from_polylines(&[vec![(from.x, from.y), (to.x, to.y)]], &[false]), c)
}

/// The shape helpers of the stroke builder against the same helpers on a Path builder, against the
/// shape-level entry points of the tessellator, and against the region the shape's stroke should cover.
pub(crate) fn shape_helper_checks(args: &Args, st: &mut Stats) {
    let mut rng = Rng::new(args.seed ^ 0x0505_5a5a);
    let n = if args.thorough() { 4000 } else { 400 };
    for it in 0..n {
        let s = random_shape(&mut rng);
        let extent = shape_extent(&s);
        let mut cfg = random_cfg(&mut rng, false);
        cfg.width = if rng.chance(1, 4) { ((extent * 1.5 + 1.0) * 4.0).round() / 4.0 } else { *rng.pick(&[0.5f32, 1.0, 1.5, 2.0, 3.0, 4.0]) };
        cfg.tol = *rng.pick(&[0.01f32, 0.05, 0.1, 0.25]);
        let n_attr = *rng.pick(&[0usize, 0, 1, 2]);
        let mut var_idx: Option<usize> = if n_attr > 0 && rng.chance(1, 2) { Some(rng.below(n_attr as u64) as usize) } else { None };
        // every endpoint of a shape carries the same attributes: the width is the same all along, and with variable
        // width the stroke stays narrower than the shape's smallest feature (side, radius of curvature, length): the
        // variable-width joins of pieces that are short against the width are the domain of K12 / K13
        let factor = *rng.pick(&[0.5f32, 1.0, 1.5, 2.0]);
        if var_idx.is_some() {
            if let Some(f) = smallest_feature(&s) {
                if cfg.width * factor * 0.5 > f {
                    // a narrower line if there is one, else fixed width
                    match [4.0f32, 2.0, 1.0, 0.5].iter().find(|w| *w * factor * 0.5 <= f) {
                        Some(w) => cfg.width = *w,
                        None => var_idx = None,
                    }
                }
            }
        }
        let attrs: Vec<f32> = (0..n_attr).map(|k| if Some(k) == var_idx { factor } else { rng.range(-20, 20) as f32 }).collect();
        cfg.var_width = var_idx.is_some();
        let mut o = cfg.options();
        o.variable_line_width = var_idx;
        let eff_w = if cfg.var_width { cfg.width * factor } else { cfg.width };
        let hw = eff_w as f64 * 0.5;
        let label0 = format!("{} {:?} {:?} attrs {:?} width attribute {:?}", s.name(), s, cfg, attrs, var_idx);
        st.inc("shape_cases");
        st.inc(&format!("shape_{}", s.name()));
        st.inc(&format!("shape_join_{:?}", cfg.join));
        st.inc(if cfg.var_width { "shape_variable_width" } else { "shape_fixed_width" });
        st.note_case(&label0, extent > 0.0);
        if it % 16 == 0 {
            breadcrumb(&args.out, &format!("shape helpers, one of the 16 inputs starting at: {}", label0));
        }
        let thin_rect = match &s {
            ShapeK::Rect(b) => !cfg.var_width && b.width().min(b.height()) < cfg.width,
            _ => false,
        };
        if thin_rect {
            st.inc("shape_rect_thinner_than_width");
        }
        let rect_fixed = matches!(s, ShapeK::Rect(..)) && !cfg.var_width;
        let mut routes = vec![Route::BuilderAttr, Route::WithIds];
        if n_attr == 0 {
            routes.push(Route::Builder);
            routes.push(Route::Tessellate);
            if matches!(s, ShapeK::Rect(..) | ShapeK::Circle(..) | ShapeK::Ellipse(..)) {
                routes.push(Route::Direct);
            }
        }
        let mut covers: Vec<Vec<Option<bool>>> = Vec::new();
        let mut region_failed = false;
        for w in [Winding::Positive, Winding::Negative] {
            let wl = format!("{:?} {}", w, label0);
            // the commands the helper stands for
            let mut sr = shapes::SpecRec::new(n_attr);
            shapes::apply_attr(&mut sr, &s, w, &attrs);
            let spec = sr.spec();
            let seq_tables = tables_sequential(&spec);
            let reversed = w == Winding::Negative && matches!(s, ShapeK::Segment(..) | ShapeK::PairClosed(..));
            let (first_cap, last_cap) = (cfg.start_cap, cfg.end_cap);
            let ideal_for = |helper: bool| -> Option<Ideal> {
                // the ideal of a segment is written from its first point
                let s2 = match (&s, reversed) {
                    (ShapeK::Segment(p, q), true) => ShapeK::Segment(*q, *p),
                    (ShapeK::PairClosed(p, q), true) => ShapeK::PairClosed(*q, *p),
                    _ => s.clone(),
                };
                ideal_region(&s2, &cfg, hw, helper && rect_fixed, first_cap, last_cap)
            };
            // reference: the helper on a Path builder, then tessellate_path
            let reference = match shapes::run_shape(Route::TessellatePath, &s, w, n_attr, &attrs, &o) {
                None => {
                    fail_listed(st, jobj(&[("what", jstr("stroking a shape built on a Path builder panicked")), ("input", jstr(&wl))]));
                    continue;
                }
                Some(r) => r,
            };
            if !reference.ok {
                fail_listed(st, jobj(&[("what", jstr("stroking a shape built on a Path builder returned an error")), ("input", jstr(&wl))]));
                continue;
            }
            st.inc("shape_runs");
            st.add("shape_vertices", reference.rec.verts.len() as u64);
            st.add("shape_triangles", reference.rec.tris.len() as u64);
            let path_tables = reference.path.as_ref().map(tables_from_path).unwrap_or_default();
            let rl = format!("Path + tessellate_path :: {}", wl);
            check_run(st, &cfg, &spec, if n_attr > 0 { &path_tables } else { &seq_tables }, var_idx.unwrap_or(0), &reference.rec, &rl);
            let ref_tris = shapes::tri_positions(&reference.rec);
            if let Some(ideal) = ideal_for(false) {
                let (decided, missing, extra, first, cover) = region_check(&ideal, eff_w as f64, &reference.rec);
                st.inc("shape_region_checks");
                st.add("shape_region_points_decided", decided as u64);
                if missing + extra > 0 {
                    region_failed = true;
                    if std::env::var("LVH_SHAPE_DEBUG").is_ok() {
                        eprintln!("---- missing {} extra {} of {} first {:?} :: {}", missing, extra, decided, first, rl);
                    }
                    let (p, want) = first.unwrap();
                    let flat = match &s {
                        ShapeK::RoundRect(b, _) => (b.width() == 0.0) != (b.height() == 0.0),
                        ShapeK::Ellipse(_, rx, ry, _) => (*rx == 0.0) != (*ry == 0.0),
                        _ => false,
                    };
                    fail_listed(st, jobj(&[
                        ("what", jstr(if flat {
                            "the stroke of a rounded rectangle / ellipse without width or height (a segment run through twice) leaves part of the band of half the width around the segment uncovered, or covers points beyond the reach of its ends"
                        } else {
                            "the stroke of a shape (Path builder helper, tessellate_path) does not cover the points within half the width of the shape's outline and only those"
                        })),
                        ("input", jstr(&format!("{} of {} grid points not covered though within, {} covered though beyond; first ({:.4}, {:.4}) should be {} :: {}", missing, decided, extra, p.0, p.1, if want { "covered" } else { "free" }, rl))),
                    ]));
                }
                covers.push(cover);
            }
            for route in &routes {
                if *route == Route::Direct && w == Winding::Negative && !matches!(s, ShapeK::Ellipse(..)) {
                    continue;
                }
                let rl = format!("{:?} :: {}", route, wl);
                let run = match shapes::run_shape(*route, &s, w, n_attr, &attrs, &o) {
                    None => {
                        fail_listed(st, jobj(&[("what", jstr("stroking a shape panicked")), ("input", jstr(&rl))]));
                        continue;
                    }
                    Some(r) => r,
                };
                if !run.ok {
                    fail_listed(st, jobj(&[("what", jstr("stroking a finite shape with valid options returned an error")), ("input", jstr(&rl))]));
                    continue;
                }
                st.inc("shape_runs");
                st.inc(&format!("shape_route_{:?}", route));
                let helper = matches!(route, Route::Builder | Route::BuilderAttr | Route::Direct);
                let tables = if *route == Route::WithIds { &path_tables } else { &seq_tables };
                match (&s, helper && thin_rect) {
                    (ShapeK::Rect(b), true) => {
                        // either the rectangle's outline with the width asked for, or its medial segment with the width that
                        // gives the same outer boundary
                        let mut as_rect = Stats::default();
                        check_stroke_mesh(&mut as_rect, &cfg, &spec, tables, 0.0, 0, &run.rec, &rl);
                        if !as_rect.failures.is_empty() {
                            let (spec2, cfg2) = thin_rect_substitute(b, &cfg);
                            let mut as_segment = Stats::default();
                            check_stroke_mesh(&mut as_segment, &cfg2, &spec2, &tables_sequential(&spec2), 0.0, 0, &run.rec, &format!("as the medial segment with width {} :: {}", cfg2.width, rl));
                            st.inc("shape_thin_rect_as_segment");
                            if !as_segment.failures.is_empty() {
                                forward_failures(st, if as_segment.failures.len() <= as_rect.failures.len() { &as_segment } else { &as_rect });
                            }
                        } else {
                            st.inc("shape_thin_rect_as_rectangle");
                        }
                    }
                    _ => {
                        check_run(st, &cfg, &spec, tables, var_idx.unwrap_or(0), &run.rec, &rl);
                    }
                }
                let tris = shapes::tri_positions(&run.rec);
                let same = shapes::same_triangles(&tris, &ref_tris, 1e-4);
                if helper && thin_rect {
                    // StrokeBuilder::add_rectangle documents a different tessellation there: same region instead
                    st.inc(if same { "shape_thin_rect_same_triangles" } else { "shape_thin_rect_other_triangles" });
                    if let Some(ideal) = ideal_for(true) {
                        let (decided, missing, extra, first, _) = region_check(&ideal, eff_w as f64, &run.rec);
                        st.inc("shape_region_checks");
                        st.add("shape_region_points_decided", decided as u64);
                        if missing + extra > 0 {
                            if std::env::var("LVH_SHAPE_DEBUG").is_ok() {
                                eprintln!("==== missing {} extra {} of {} first {:?} :: {}", missing, extra, decided, first, rl);
                            }
                            let (p, want) = first.unwrap();
                            fail_listed(st, jobj(&[
                                ("what", jstr("the stroke of a rectangle thinner than the line width (stroke builder helper) does not cover the points within half the width of the rectangle's outline and only those")),
                                ("input", jstr(&format!("{} of {} grid points not covered though within, {} covered though beyond; first ({:.4}, {:.4}) should be {} :: {}", missing, decided, extra, p.0, p.1, if want { "covered" } else { "free" }, rl))),
                            ]));
                        }
                    }
                } else {
                    st.inc("shape_triangle_comparisons");
                    if !same {
                        fail_listed(st, jobj(&[
                            ("what", jstr("a shape helper of the stroke builder / tessellator and the same helper on a Path builder followed by tessellate_path give different triangles")),
                            ("input", jstr(&format!("{} triangles against {} :: {}", tris.len(), ref_tris.len(), rl))),
                        ]));
                    }
                }
            }
        }
        // both windings cover the same region (where the region is specified)
        let open = matches!(s, ShapeK::Segment(..) | ShapeK::PairClosed(..));
        if covers.len() == 2 && !region_failed && (!open || cfg.start_cap == cfg.end_cap) {
            st.inc("shape_winding_comparisons");
            let differ = covers[0].iter().zip(covers[1].iter()).filter(|(a, b)| a.is_some() && b.is_some() && a != b).count();
            if differ > 0 {
                fail_listed(st, jobj(&[("what", jstr("the two windings of a shape do not cover the same region")), ("input", jstr(&format!("{} grid points :: {}", differ, label0)))]));
            }
        }
        if it % 40 == 0 {
            st.sample(label0);
        }
    }
}

/// Sub-paths without extent (a single point that is closed, a point followed by segments that stay on it),
/// alone or between other sub-paths, through every entry point, fixed and variable width: what lyon documents
/// in `tessellate_empty_cap` - nothing for butt caps, the square of side `width` centred on the point for
/// square caps, a disc of that diameter (within the tolerance) for round caps; an open sub-path of one point
/// yields nothing.
pub(crate) fn empty_cap_checks(args: &Args, st: &mut Stats) {
    let mut rng = Rng::new(args.seed ^ 0x0505_ca95);
    let n = if args.thorough() { 2000 } else { 250 };
    for it in 0..n {
        let p = point(rng.range(-16, 17) as f32 * 0.5, rng.range(-16, 17) as f32 * 0.5);
        let variant = rng.below(7);
        let n_attr = *rng.pick(&[0usize, 0, 1, 2]);
        let mut cfg = random_cfg(&mut rng, n_attr > 0);
        cfg.width = *rng.pick(&[0.5f32, 1.0, 1.5, 2.0, 3.0, 4.0, 12.0]);
        cfg.tol = *rng.pick(&[0.01f32, 0.05, 0.1, 0.25]);
        cfg.end_cap = cfg.start_cap;
        let factor = *rng.pick(&[0.5f32, 1.0, 1.5, 2.0]);
        let at = |f: f32, r: &mut Rng| -> Vec<f32> { (0..n_attr).map(|k| if k == 0 { f } else { r.range(-20, 20) as f32 }).collect() };
        let a = at(factor, &mut rng);
        let target = Sub {
            start: p,
            start_attrs: a.clone(),
            segs: match variant {
                0 | 4 => vec![],
                1 | 2 => vec![Seg::Line(p, a.clone())],
                3 => vec![Seg::Line(p, a.clone()), Seg::Line(p, a.clone()), Seg::Line(p, a.clone())],
                5 => vec![Seg::Quad(p, p, a.clone())],
                _ => vec![Seg::Cubic(p, p, p, a.clone())],
            },
            close: matches!(variant, 0 | 2 | 3 | 5),
        };
        // other sub-paths before / after, 40 units away, with their own width
        let other = |dx: f32, r: &mut Rng| -> Sub {
            let f = *r.pick(&[0.5f32, 1.0, 2.0]);
            let q = point(p.x + dx, p.y);
            match r.below(3) {
                0 => Sub { start: q, start_attrs: at(f, r), segs: vec![Seg::Line(point(q.x + 5.0, q.y + 3.0), at(f, r))], close: false },
                1 => Sub { start: q, start_attrs: at(f, r), segs: vec![Seg::Line(point(q.x + 5.0, q.y), at(f, r)), Seg::Line(point(q.x + 5.0, q.y + 5.0), at(f, r))], close: true },
                _ => Sub { start: q, start_attrs: at(f, r), segs: vec![], close: true },
            }
        };
        let mut subs = Vec::new();
        if rng.chance(1, 2) {
            subs.push(other(40.0, &mut rng));
        }
        subs.push(target);
        if rng.chance(1, 2) {
            subs.push(other(-40.0, &mut rng));
        }
        let spec = PathSpec { n_attr, subs };
        let mut entry = *rng.pick(&FILL_ENTRIES);
        if n_attr > 0 && matches!(entry, Entry::Tessellate | Entry::Polygon | Entry::Builder) {
            entry = *rng.pick(&[Entry::TessellatePath, Entry::WithIds, Entry::BuilderWithAttributes]);
        }
        let label = format!("sub-path without extent, variant {} :: {:?} {:?} :: {}", variant, entry, cfg, spec.text());
        st.inc("empty_cap_cases");
        st.inc(&format!("empty_cap_{:?}", cfg.start_cap));
        st.inc(if cfg.var_width { "empty_cap_variable_width" } else { "empty_cap_fixed_width" });
        st.note_case(&label, true);
        if it % 16 == 0 {
            breadcrumb(&args.out, &format!("empty caps, one of the 16 inputs starting at: {}", label));
        }
        let path_ids = n_attr > 0 && matches!(entry, Entry::TessellatePath | Entry::WithIds) || entry == Entry::WithIds;
        let tables: Tables = if path_ids { tables_from_path(&spec.build()) } else { tables_sequential(&spec) };
        let o = cfg.options();
        let mut rec = StrokeRec::default();
        match catch(AssertUnwindSafe(|| run_stroke(entry, &mut StrokeTessellator::new(), &spec, &o, &mut rec).is_ok())) {
            None => {
                fail_listed(st, jobj(&[("what", jstr("stroking panicked")), ("input", jstr(&label))]));
                continue;
            }
            Some(false) => {
                fail_listed(st, jobj(&[("what", jstr("stroking a finite path with valid options returned an error")), ("input", jstr(&label))]));
                continue;
            }
            Some(true) => {}
        }
        check_stroke_mesh(st, &cfg, &spec, &tables, 0.0, 0, &rec, &label);
        // the part of the output that belongs to the point
        let mine: Vec<bool> = rec.verts.iter().map(|v| v.on_path == p).collect();
        let mut part = StrokeRec::default();
        part.verts = rec.verts.clone();
        part.tris = rec.tris.iter().filter(|t| t.iter().all(|i| (*i as usize) < mine.len() && mine[*i as usize])).cloned().collect();
        let w = if cfg.var_width { cfg.width * factor } else { cfg.width };
        let hw = w as f64 * 0.5;
        let c = shapes::pf(p);
        let cap = if variant == 4 { LineCap::Butt } else { cfg.start_cap };
        let ideal = empty_cap_ideal(c, cap, hw, cfg.tol as f64);
        let mut explained = false;
        let used: std::collections::BTreeSet<u32> = part.tris.iter().flatten().cloned().collect();
        let slack = 1e-4 * hw + 1e-5 * (1.0 + c.0.abs().max(c.1.abs()));
        match cap {
            LineCap::Butt => {}
            LineCap::Square => {
                st.inc("empty_cap_squares");
                for i in &used {
                    let v = &rec.verts[*i as usize];
                    let (dx, dy) = ((v.pos.x as f64 - c.0).abs(), (v.pos.y as f64 - c.1).abs());
                    if (dx - hw).abs() > slack || (dy - hw).abs() > slack {
                        fail_listed(st, jobj(&[("what", jstr("the square cap of a sub-path without extent has a vertex that is not a corner of the square of side width around the point")), ("input", jstr(&format!("vertex {:?} expected width {} :: {}", v, w, label)))]));
                        break;
                    }
                }
            }
            LineCap::Round => {
                if hw >= cfg.tol as f64 {
                    st.inc("empty_cap_discs");
                    let mut angles: Vec<f64> = Vec::new();
                    let mut off = false;
                    for i in &used {
                        let v = &rec.verts[*i as usize];
                        let (dx, dy) = (v.pos.x as f64 - c.0, v.pos.y as f64 - c.1);
                        if (dx.hypot(dy) - hw).abs() > slack {
                            fail_listed(st, jobj(&[("what", jstr("the round cap of a sub-path without extent has a vertex that is not at half the width from the point")), ("input", jstr(&format!("vertex {:?} expected width {} :: {}", v, w, label)))]));
                            off = true;
                            break;
                        }
                        angles.push(dy.atan2(dx));
                    }
                    if !off && angles.len() >= 3 {
                        angles.sort_by(|a, b| a.partial_cmp(b).unwrap());
                        let mut gap = angles[0] + 2.0 * std::f64::consts::PI - angles[angles.len() - 1];
                        for k in 1..angles.len() {
                            gap = gap.max(angles[k] - angles[k - 1]);
                        }
                        // the polygon on these vertices contains the disc of radius hw * cos(gap / 2)
                        let sagitta = hw * (1.0 - (0.5 * gap).cos());
                        st.add("empty_cap_disc_sagitta_permille_of_tolerance_max", 0);
                        let e = st.counters.entry("empty_cap_disc_sagitta_permille_of_tolerance_max".to_string()).or_insert(0);
                        *e = (*e).max((1000.0 * sagitta / cfg.tol as f64) as u64);
                        if sagitta > cfg.tol as f64 * 1.001 + slack {
                            explained = true;
                            fail_listed(st, jobj(&[
                                ("what", jstr("the round cap of a sub-path without extent leaves more than the tolerance between its polygon and the disc")),
                                ("input", jstr(&format!("{} vertices, largest angular gap {:.4} rad, sagitta {:.5} against tolerance {} :: {}", angles.len(), gap, sagitta, cfg.tol, label))),
                            ]));
                        }
                    }
                }
            }
        }
        let (decided, missing, extra, first, _) = region_check(&ideal, w as f64, &part);
        st.add("empty_cap_points_decided", decided as u64);
        // (a round cap whose polygon is too coarse has been reported as such)
        if missing + extra > 0 && !explained {
            let (q, want) = first.unwrap();
            fail_listed(st, jobj(&[
                ("what", jstr("a sub-path without extent is not stroked as documented (nothing for butt caps or an open point, the square of side width for square caps, the disc of diameter width for round caps)")),
                ("input", jstr(&format!("expected width {}: {} grid points not covered, {} covered in excess; first ({:.4}, {:.4}) should be {} :: {}", w, missing, extra, q.0, q.1, if want { "covered" } else { "free" }, label))),
            ]));
        }
        if it % 40 == 0 {
            st.sample(label);
        }
    }
}
