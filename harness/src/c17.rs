//! C17: the path-syntax parser.  Strings (token-exhaustive up to a length, then grammar-based and
//! mutated) x attribute counts x stop characters are parsed into a recording builder; the
//! result and the builder calls are printed for the Coq model; totality, nesting, move-to
//! requirement, error position and the print -> parse round trip are checked directly.
use crate::util::*;
use lyon_extra::parser::{ParseError, ParserOptions, PathParser, Source};
use lyon_path::builder::PathBuilder;
use lyon_path::math::{point, Point};
use lyon_path::{Attributes, EndpointId, Path};
use std::panic::AssertUnwindSafe;

pub const HEADER: &str =
    "From Coq Require Import QArith.\nFrom LV Require Import Base.Prelude Model.Parser Run.C17.\nOpen Scope Z_scope.";

#[derive(Clone, Debug, PartialEq)]
pub enum Call {
    Begin(Point, Vec<f32>),
    Line(Point, Vec<f32>),
    Quad(Point, Point, Vec<f32>),
    Cubic(Point, Point, Point, Vec<f32>),
    End(bool),
}

pub struct Rec {
    n: usize,
    pub calls: Vec<Call>,
}

impl PathBuilder for Rec {
    fn num_attributes(&self) -> usize {
        self.n
    }
    fn begin(&mut self, at: Point, a: Attributes) -> EndpointId {
        self.calls.push(Call::Begin(at, a.to_vec()));
        EndpointId(0)
    }
    fn end(&mut self, close: bool) {
        self.calls.push(Call::End(close));
    }
    fn line_to(&mut self, to: Point, a: Attributes) -> EndpointId {
        self.calls.push(Call::Line(to, a.to_vec()));
        EndpointId(0)
    }
    fn quadratic_bezier_to(&mut self, c: Point, to: Point, a: Attributes) -> EndpointId {
        self.calls.push(Call::Quad(c, to, a.to_vec()));
        EndpointId(0)
    }
    fn cubic_bezier_to(&mut self, c1: Point, c2: Point, to: Point, a: Attributes) -> EndpointId {
        self.calls.push(Call::Cubic(c1, c2, to, a.to_vec()));
        EndpointId(0)
    }
}

fn gq(v: f32) -> String {
    if v.is_finite() {
        let s = gq32(v);
        format!("{}%Q", s)
    } else {
        "(123456789 # 1)%Q".into()
    }
}
fn gp(p: Point) -> String {
    format!("({}, {})", gq(p.x), gq(p.y))
}
fn ga(a: &[f32]) -> String {
    glist(a.iter().map(|v| gq(*v)))
}
fn gcall(c: &Call) -> String {
    match c {
        Call::Begin(p, a) => format!("PBegin Q {} {}", gp(*p), ga(a)),
        Call::Line(p, a) => format!("PLine Q {} {}", gp(*p), ga(a)),
        Call::Quad(c, p, a) => format!("PQuad Q {} {} {}", gp(*c), gp(*p), ga(a)),
        Call::Cubic(c1, c2, p, a) => format!("PCubic Q {} {} {} {}", gp(*c1), gp(*c2), gp(*p), ga(a)),
        Call::End(c) => format!("PEnd Q {}", gbool(*c)),
    }
}

/// calls compared by bit patterns (a NaN coordinate is equal to itself)
fn call_bits(c: &Call) -> Vec<u32> {
    let p = |p: &Point| vec![p.x.to_bits(), p.y.to_bits()];
    let a = |a: &Vec<f32>| a.iter().map(|v| v.to_bits()).collect::<Vec<u32>>();
    match c {
        Call::Begin(q, at) => [vec![0], p(q), a(at)].concat(),
        Call::Line(q, at) => [vec![1], p(q), a(at)].concat(),
        Call::Quad(c1, q, at) => [vec![2], p(c1), p(q), a(at)].concat(),
        Call::Cubic(c1, c2, q, at) => [vec![3], p(c1), p(c2), p(q), a(at)].concat(),
        Call::End(cl) => vec![4, *cl as u32],
    }
}
fn same_calls(a: &[Call], b: &[Call]) -> bool {
    a.len() == b.len() && a.iter().zip(b.iter()).all(|(x, y)| call_bits(x) == call_bits(y))
}
/// a coordinate or attribute overflowed f32 while relative commands were accumulated or an arc was converted
fn non_finite(calls: &[Call]) -> bool {
    calls.iter().any(|c| call_bits(c).iter().skip(1).any(|b| !f32::from_bits(*b).is_finite()) && !matches!(c, Call::End(_)))
}

fn nested(calls: &[Call]) -> bool {
    let mut open = false;
    for c in calls {
        match c {
            Call::Begin(..) => {
                if open {
                    return false;
                }
                open = true
            }
            Call::End(_) => {
                if !open {
                    return false;
                }
                open = false
            }
            _ => {
                if !open {
                    return false;
                }
            }
        }
    }
    !open
}

/// reference position of the character at char index i: lines from 0, a newline is at column -1
/// of the line it starts, the following character at column 0
fn pos_of(text: &[char], i: usize) -> (i32, i32) {
    let (mut line, mut col) = (0i32, 0i32);
    for (k, c) in text.iter().enumerate() {
        if *c == '\n' {
            line += 1;
            col = -1;
        }
        if k == i {
            return (line, col);
        }
        col += 1;
    }
    (line, col)
}

struct Outcome {
    err: Option<ParseError>,
    panicked: bool,
    calls: Vec<Call>,
    arcs: Vec<(bool, Vec<([f32; 2], [f32; 2], f32)>)>,
}

fn run_parser(text: &str, n: usize, stop: Option<char>, parser: &mut PathParser) -> Outcome {
    let mut opts = ParserOptions::DEFAULT.clone();
    opts.num_attributes = n;
    opts.stop_at = stop;
    let mut rec = Rec { n, calls: vec![] };
    parser.verif_arcs.clear();
    let r = catch(AssertUnwindSafe(|| parser.parse(&opts, &mut Source::new(text.chars()), &mut rec)));
    Outcome {
        err: r.as_ref().and_then(|x| x.clone().err()),
        panicked: r.is_none(),
        calls: rec.calls,
        arcs: parser.verif_arcs.clone(),
    }
}

fn err_code(o: &Outcome) -> Vec<i64> {
    if o.panicked {
        return vec![5];
    }
    match &o.err {
        None => vec![0],
        Some(ParseError::Number { line, column, .. }) => vec![1, *line as i64, *column as i64],
        Some(ParseError::Flag { src, line, column }) => vec![2, *line as i64, *column as i64, *src as i64],
        Some(ParseError::Command { command, line, column }) => vec![3, *line as i64, *column as i64, *command as i64],
        Some(ParseError::MissingMoveTo { command, line, column }) => vec![4, *line as i64, *column as i64, *command as i64],
        Some(_) => vec![9],
    }
}

fn run_case(id: usize, text: &str, n: usize, stop: Option<char>, w: &mut ShardWriter, st: &mut Stats, idx: &mut std::fs::File, origin: &str) {
    use std::io::Write;
    let label = format!("{:?} n={} stop={:?}", text, n, stop);
    st.inc("evaluations");
    st.inc(&format!("origin_{}", origin));
    st.inc(&format!("nattr_{}", n));
    let mut parser = PathParser::new();
    let o = run_parser(text, n, stop, &mut parser);
    let code = err_code(&o);
    st.inc(&format!("result_kind_{}", code[0]));
    st.note_case(&label, !o.calls.is_empty() || code[0] != 0);
    let chars: Vec<char> = text.chars().collect();
    // ---- direct evaluation of the property
    if o.panicked {
        st.fail(jobj(&[("what", jstr("parser panicked")), ("input", jstr(&label))]));
    }
    if !nested(&o.calls) {
        st.fail(jobj(&[("what", jstr("output builder saw calls that are not properly nested / closed")), ("input", jstr(&format!("{} -> {:?}", label, o.calls)))]));
    }
    // path data that does not start with a move-to is rejected
    let first = chars.iter().position(|c| !(c.is_whitespace() || *c == ','));
    if let Some(i) = first {
        let c = chars[i];
        let is_cmd = "lhvqtcsazLHVQTCSAZ".contains(c);
        if is_cmd && stop != Some(c) && (o.err.is_none() && !o.panicked) {
            st.fail(jobj(&[("what", jstr("path data not starting with a move-to was accepted")), ("input", jstr(&label))]));
        }
    }
    // error position: the reported line/column is the position of a character of the text
    // (or one past the end), namely the start of the offending token
    if let Some(e) = &o.err {
        let (line, col) = match e {
            ParseError::Number { line, column, .. } => (*line, *column),
            ParseError::Flag { line, column, .. } => (*line, *column),
            ParseError::Command { line, column, .. } => (*line, *column),
            ParseError::MissingMoveTo { line, column, .. } => (*line, *column),
            _ => (0, 0),
        };
        let mut found = None;
        for i in 0..=chars.len() {
            let p = if i < chars.len() { pos_of(&chars, i) } else {
                let (l, c) = if chars.is_empty() { (0, 0) } else { pos_of(&chars, chars.len() - 1) };
                (l, c) // end of input: the parser reports the position of the last character
            };
            if p == (line, col) {
                found = Some(i);
                break;
            }
        }
        match (found, e) {
            (None, _) => st.fail(jobj(&[("what", jstr("error position does not name a character of the input")), ("input", jstr(&format!("{} -> {:?}", label, e)))])),
            (Some(i), ParseError::Command { command, .. }) | (Some(i), ParseError::MissingMoveTo { command, .. }) => {
                // explicit commands: the character at that position is the command
                if i < chars.len() && chars[i].is_ascii_alphabetic() && chars[i] != *command {
                    st.fail(jobj(&[("what", jstr("error position does not point at the offending command")), ("input", jstr(&format!("{} -> {:?}", label, e)))]));
                }
            }
            (Some(i), ParseError::Flag { src, .. }) => {
                // at the end of the input there is no offending character: the parser reports its end-of-input
                // sentinel '~' at the position of the last character
                let at_end = *src == '~' && chars[i..].iter().all(|c| c.is_whitespace() || *c == ',' || *c == '~');
                if i < chars.len() && chars[i] != *src && !at_end {
                    st.fail(jobj(&[("what", jstr("error position does not point at the offending flag")), ("input", jstr(&format!("{} -> {:?}", label, e)))]));
                }
            }
            _ => {}
        }
    }
    // a reused parser object behaves like a fresh one
    {
        let o2 = run_parser(text, n, stop, &mut parser);
        if err_code(&o2) != code || !same_calls(&o2.calls, &o.calls) {
            st.fail(jobj(&[("what", jstr("re-using the parser object changes the result")), ("input", jstr(&label))]));
        }
    }
    // ... also after it has parsed something with a different attribute count, successfully or not
    for (warm_text, warm_n) in [("M 1 2 30 40 50 L 3 4 60 70 80 Z", 3usize), ("M 1 2 9 L 3 ?", 1), ("M 0 0 L 1 1", 0)] {
        if warm_n == n {
            continue;
        }
        let mut p2 = PathParser::new();
        let _ = run_parser(warm_text, warm_n, None, &mut p2);
        let o3 = run_parser(text, n, stop, &mut p2);
        if err_code(&o3) != code || !same_calls(&o3.calls, &o.calls) || o3.panicked != o.panicked {
            st.fail(jobj(&[("what", jstr("a parser object used before with another attribute count gives a different result")), ("input", jstr(&format!("after {:?} (n={}): {}", warm_text, warm_n, label)))]));
            break;
        }
    }
    // the real path builder (validator active in debug builds) accepts the same call sequence
    {
        let r = catch(|| {
            let mut opts = ParserOptions::DEFAULT.clone();
            opts.num_attributes = n;
            opts.stop_at = stop;
            let mut b = Path::builder_with_attributes(n);
            let _ = PathParser::new().parse(&opts, &mut Source::new(text.chars()), &mut b);
            b.build().iter().count()
        });
        if r.is_none() {
            let mut f = vec![("what", jstr("parsing into Path::builder_with_attributes panicked")), ("input", jstr(&label))];
            // known finding K18: finite numbers whose sums (relative commands) or arc conversion overflow f32; Path's
            // builders debug_assert finiteness
            if non_finite(&o.calls) {
                f.push(("class", jstr("K18")));
            }
            st.fail(jobj(&f));
        }
    }
    st.sample(format!("{} -> {:?} {:?}", label, code, o.calls));
    writeln!(idx, "{}\t{}", id, label).ok();
    let oracles = glist(o.arcs.iter().map(|(straight, pieces)| {
        format!(
            "(mkAA Q {} {})",
            gbool(*straight),
            glist(pieces.iter().map(|(c, t, e)| format!("(({}, {}), ({}, {}), {})", gq(c[0]), gq(c[1]), gq(t[0]), gq(t[1]), gq(*e))))
        )
    }));
    w.push(format!(
        "(mkPC {} {} {} {} {} {} {})",
        id,
        n,
        gopt(stop.map(|c| format!("{}", c as u32))),
        glist(text.chars().map(|c| format!("{}", c as u32))),
        oracles,
        glist(code.iter().map(|v| gz(*v))),
        glist(o.calls.iter().map(gcall))
    ));
}

fn fmt_f32(v: f32) -> String {
    format!("{:?}", v)
}

/// grammar-based well-formed path data with n attributes
fn gen_valid(r: &mut Rng, n: usize) -> String {
    let mut s = String::new();
    let num = |r: &mut Rng| -> String {
        match r.below(6) {
            0 => format!("{}", r.range(-20, 20)),
            1 => format!("{}.5", r.range(-9, 9)),
            2 => format!("{}e{}", r.range(1, 9), r.range(-3, 3)),
            3 => format!(".{}", r.range(1, 99)),
            4 => format!("{}.", r.range(0, 30)),
            _ => format!("-{}.25E1", r.range(0, 9)),
        }
    };
    let sep = |r: &mut Rng| -> &'static str { *r.pick(&[" ", ",", " , ", "\n", "  ", "\t"]) };
    let nsub = 1 + r.below(3);
    for _ in 0..nsub {
        s.push_str(if r.chance(1, 3) { "m" } else { "M" });
        let endpoint = |s: &mut String, r: &mut Rng| {
            for _ in 0..(2 + n) {
                s.push_str(sep(r));
                s.push_str(&num(r));
            }
        };
        endpoint(&mut s, r);
        for _ in 0..r.below(5) {
            s.push_str(sep(r));
            match r.below(10) {
                0 => {
                    s.push_str(if r.chance(1, 2) { "L" } else { "l" });
                    endpoint(&mut s, r);
                    if r.chance(1, 3) {
                        endpoint(&mut s, r); // implicit repetition
                    }
                }
                1 => {
                    s.push_str(*r.pick(&["H", "h", "V", "v"]));
                    for _ in 0..(1 + n) {
                        s.push_str(sep(r));
                        s.push_str(&num(r));
                    }
                }
                2 => {
                    s.push_str(if r.chance(1, 2) { "Q" } else { "q" });
                    for _ in 0..2 {
                        s.push_str(sep(r));
                        s.push_str(&num(r));
                    }
                    endpoint(&mut s, r);
                }
                3 => {
                    s.push_str(if r.chance(1, 2) { "T" } else { "t" });
                    endpoint(&mut s, r);
                }
                4 => {
                    s.push_str(if r.chance(1, 2) { "C" } else { "c" });
                    for _ in 0..4 {
                        s.push_str(sep(r));
                        s.push_str(&num(r));
                    }
                    endpoint(&mut s, r);
                }
                5 => {
                    s.push_str(if r.chance(1, 2) { "S" } else { "s" });
                    for _ in 0..2 {
                        s.push_str(sep(r));
                        s.push_str(&num(r));
                    }
                    endpoint(&mut s, r);
                }
                6 | 7 => {
                    s.push_str(if r.chance(1, 2) { "A" } else { "a" });
                    s.push_str(&format!(" {} {} {} {} {}", r.range(0, 9), r.range(0, 9), r.range(0, 90), r.below(2), r.below(2)));
                    endpoint(&mut s, r);
                }
                _ => {
                    s.push_str(if r.chance(1, 2) { "Z" } else { "z" });
                    break;
                }
            }
        }
        s.push_str(sep(r));
    }
    s
}

fn mutate(r: &mut Rng, s: &str) -> String {
    let mut v: Vec<char> = s.chars().collect();
    let k = 1 + r.below(3);
    for _ in 0..k {
        let pool = ['M', 'L', 'Z', 'x', '-', '.', 'e', '1', ' ', '\n', ',', 'A', '|', '\u{b2}', '\u{e9}', '\u{a0}', '\u{663}', 'T', 'h'];
        if v.is_empty() {
            v.push(*r.pick(&pool));
            continue;
        }
        let i = r.below(v.len() as u64) as usize;
        match r.below(3) {
            0 => {
                v.remove(i);
            }
            1 => v.insert(i, *r.pick(&pool)),
            _ => v[i] = *r.pick(&pool),
        }
    }
    v.into_iter().collect()
}

pub const HEADER_PR: &str =
    "From Coq Require Import QArith.\nFrom LV Require Import Base.Prelude Model.Parser Model.Printer Run.C17.\nOpen Scope Z_scope.";

/// shape of a number text the round-trip theorem assumes: [-] digits* [. digits*] [(e|E) [-] digits*], non-empty
fn num_shape(s: &str) -> bool {
    let b: Vec<char> = s.chars().collect();
    if b.is_empty() {
        return false;
    }
    let mut i = 0;
    if b[i] == '-' {
        i += 1;
    }
    while i < b.len() && b[i].is_ascii_digit() {
        i += 1;
    }
    if i < b.len() && b[i] == '.' {
        i += 1;
        while i < b.len() && b[i].is_ascii_digit() {
            i += 1;
        }
    }
    if i < b.len() && (b[i] == 'e' || b[i] == 'E') {
        i += 1;
        if i < b.len() && b[i] == '-' {
            i += 1;
        }
        while i < b.len() && b[i].is_ascii_digit() {
            i += 1;
        }
    }
    i == b.len()
}

fn gtext(s: &str) -> String {
    glist(s.chars().map(|c| format!("{}", c as u32)))
}

/// printed paths: the text goes through the parser model like any other string (run_case), and
/// the printer model must produce the same text from the path's events (numbers as their texts)
fn printed_cases(args: &Args, id: &mut usize, w: &mut ShardWriter, wpr: &mut ShardWriter, st: &mut Stats, idx: &mut std::fs::File) {
    let mut rng = Rng::new(args.seed ^ 0x1771);
    let n_paths = if args.thorough() { 2500 } else { 320 };
    for _ in 0..n_paths {
        let n = rng.below(3) as usize;
        let val = |r: &mut Rng| -> f32 {
            match r.below(5) {
                0 => *r.pick(&[0.0f32, -0.0, 1.0, -1.5, 1e-7, 1e16, 16777216.0, 0.1, 123456.79, -2.5e-5, 3.0e20]),
                1 => r.range(-100, 100) as f32,
                2 => (r.unit_f64() * 2e-4 - 1e-4) as f32,
                3 => (r.unit_f64() * 2e9 - 1e9) as f32,
                _ => (r.unit_f64() * 200.0 - 100.0) as f32,
            }
        };
        let mut b = Path::builder_with_attributes(n);
        let nsub = rng.below(4);
        for _ in 0..nsub {
            let a: Vec<f32> = (0..n).map(|_| val(&mut rng)).collect();
            b.begin(point(val(&mut rng), val(&mut rng)), &a);
            for _ in 0..rng.below(4) {
                let a: Vec<f32> = (0..n).map(|_| val(&mut rng)).collect();
                match rng.below(3) {
                    0 => {
                        b.line_to(point(val(&mut rng), val(&mut rng)), &a);
                    }
                    1 => {
                        b.quadratic_bezier_to(point(val(&mut rng), val(&mut rng)), point(val(&mut rng), val(&mut rng)), &a);
                    }
                    _ => {
                        b.cubic_bezier_to(point(val(&mut rng), val(&mut rng)), point(val(&mut rng), val(&mut rng)), point(val(&mut rng), val(&mut rng)), &a);
                    }
                }
            }
            b.end(rng.chance(1, 2));
        }
        let path = b.build();
        let printed = format!("{:?}", path);
        let text = printed.trim_matches('"').to_string();
        // (1) the printed text through the real parser and the parser model
        run_case(*id, &text, n, None, w, st, idx, "printed");
        // (2) the printer model on the path's events
        let t = |v: f32| gtext(&format!("{:?}", v));
        let tp = |p: Point| format!("({}, {})", t(p.x), t(p.y));
        let ta = |a: &[f32]| glist(a.iter().map(|v| t(*v)));
        let mut calls = Vec::new();
        let mut shapes_ok = true;
        for e in path.iter_with_attributes() {
            use lyon_path::Event;
            match e {
                Event::Begin { at: (p, a) } => calls.push(format!("PBegin (list Z) {} {}", tp(p), ta(a))),
                Event::Line { to: (p, a), .. } => calls.push(format!("PLine (list Z) {} {}", tp(p), ta(a))),
                Event::Quadratic { ctrl, to: (p, a), .. } => calls.push(format!("PQuad (list Z) {} {} {}", tp(ctrl), tp(p), ta(a))),
                Event::Cubic { ctrl1, ctrl2, to: (p, a), .. } => calls.push(format!("PCubic (list Z) {} {} {} {}", tp(ctrl1), tp(ctrl2), tp(p), ta(a))),
                Event::End { close, .. } => calls.push(format!("PEnd (list Z) {}", gbool(close))),
            }
        }
        for tok in text.split(' ') {
            if !tok.is_empty() && !"MLQCZ".contains(tok) && !num_shape(tok) {
                shapes_ok = false;
            }
        }
        if !shapes_ok {
            st.fail(jobj(&[("what", jstr("round trip: a printed number does not have the shape the parser's number lexer consumes")), ("input", jstr(&text))]));
        }
        st.inc("printer_model_cases");
        wpr.push(format!("(mkPR {} {} {})", *id, glist(calls.iter().cloned()), gtext(&text)));
        *id += 1;
    }
}

fn roundtrip_checks(args: &Args, st: &mut Stats) {
    let mut rng = Rng::new(args.seed ^ 0x1717);
    let n_paths = if args.thorough() { 6000 } else { 800 };
    let special = [0.0f32, -0.0, 1.0, -1.5, 1e-7, 1e16, 16777216.0, f32::MAX, f32::MIN_POSITIVE, 1.0e-40, 0.1, 123456.79, -3.4e38, 7.0e-45];
    for _ in 0..n_paths {
        let n = rng.below(3) as usize;
        let val = |r: &mut Rng| -> f32 {
            match r.below(4) {
                0 => *r.pick(&special),
                1 => r.range(-100, 100) as f32,
                2 => f32::from_bits((r.next_u64() as u32) & 0x7f7f_ffff | ((r.below(2) as u32) << 31)),
                _ => (r.unit_f64() * 200.0 - 100.0) as f32,
            }
        };
        let mut b = Path::builder_with_attributes(n);
        let nsub = rng.below(4);
        for _ in 0..nsub {
            let a: Vec<f32> = (0..n).map(|_| val(&mut rng)).collect();
            b.begin(point(val(&mut rng), val(&mut rng)), &a);
            for _ in 0..rng.below(5) {
                let a: Vec<f32> = (0..n).map(|_| val(&mut rng)).collect();
                match rng.below(3) {
                    0 => {
                        b.line_to(point(val(&mut rng), val(&mut rng)), &a);
                    }
                    1 => {
                        b.quadratic_bezier_to(point(val(&mut rng), val(&mut rng)), point(val(&mut rng), val(&mut rng)), &a);
                    }
                    _ => {
                        b.cubic_bezier_to(point(val(&mut rng), val(&mut rng)), point(val(&mut rng), val(&mut rng)), point(val(&mut rng), val(&mut rng)), &a);
                    }
                }
            }
            b.end(rng.chance(1, 2));
        }
        let path = b.build();
        let printed = format!("{:?}", path);
        let text = printed.trim_matches('"').to_string();
        st.inc("evaluations");
        st.inc("roundtrip_paths");
        st.note_case(&text, nsub > 0);
        let r = catch(|| {
            let mut opts = ParserOptions::DEFAULT.clone();
            opts.num_attributes = n;
            let mut b2 = Path::builder_with_attributes(n);
            let res = PathParser::new().parse(&opts, &mut Source::new(text.chars()), &mut b2);
            (res, b2.build())
        });
        match r {
            None => st.fail(jobj(&[("what", jstr("round trip: parser panicked on printed path")), ("input", jstr(&text))])),
            Some((res, p2)) => {
                let same = {
                    let a: Vec<_> = path.iter_with_attributes().map(|e| format!("{:?}", e)).collect();
                    let b: Vec<_> = p2.iter_with_attributes().map(|e| format!("{:?}", e)).collect();
                    a == b
                };
                if res.is_err() || !same {
                    st.fail(jobj(&[("what", jstr("round trip: parse(print(path)) is not the original path")), ("input", jstr(&format!("{} -> {:?}", text, res)))]));
                }
            }
        }
    }
    // number formatting hypothesis of the round trip: {:?} of an f32 parses back to itself through parse_number
    for _ in 0..(if args.thorough() { 200000 } else { 20000 }) {
        let bits = (rng.next_u64() as u32) & 0x7f7f_ffff | ((rng.below(2) as u32) << 31);
        let v = f32::from_bits(bits);
        if !num_shape(&fmt_f32(v)) {
            st.fail(jobj(&[("what", jstr("round trip: a printed f32 does not have the shape the parser's number lexer consumes")), ("input", jstr(&fmt_f32(v)))]));
        }
        let s = format!("M {} 0", fmt_f32(v));
        let mut rec = Rec { n: 0, calls: vec![] };
        let res = PathParser::new().parse(&ParserOptions::DEFAULT, &mut Source::new(s.chars()), &mut rec);
        st.inc("f32_text_roundtrips");
        let ok = res.is_ok() && matches!(rec.calls.first(), Some(Call::Begin(p, _)) if p.x.to_bits() == v.to_bits() || (p.x == 0.0 && v == 0.0));
        if !ok {
            st.fail(jobj(&[("what", jstr("round trip: a printed f32 does not parse back to itself")), ("input", jstr(&s))]));
        }
    }
}

pub fn main(args: &Args) -> std::io::Result<()> {
    let mut st = Stats::default();
    let mut w = ShardWriter::new(&args.out, "c17_cases", args.shards, HEADER, "bad_cases");
    w.disabled = args.direct_only();
    let mut idx = std::fs::File::create(args.out.join("c17_index.txt"))?;
    let tokens: Vec<&str> = vec![
        "M", "m", "L", "l", "H", "v", "Z", "z", "Q", "T", "C", "s", "A", "1", "-2", "0.5", "1e1", " ", ",", "\n", "x", "|", "\u{b2}",
    ];
    let max_len = if args.thorough() { 4 } else { 3 };
    let mut id = 0usize;
    for len in 0..=max_len {
        let count = tokens.len().pow(len as u32);
        for code in 0..count {
            let mut c = code;
            let mut s = String::new();
            for _ in 0..len {
                s.push_str(tokens[c % tokens.len()]);
                // numbers need a separator to stay separate tokens; commands do not
                c /= tokens.len();
            }
            // rotate attribute count / stop char with the index (each string once)
            let n = id % 3;
            let stop = if id % 4 == 0 { Some('|') } else { None };
            run_case(id, &s, n, stop, &mut w, &mut st, &mut idx, "exhaustive");
            id += 1;
        }
    }
    st.add("exhaustive_max_tokens", max_len as u64);
    st.add("token_alphabet", tokens.len() as u64);
    // corpus: past failures
    for (s, n) in [("L 1 1", 0usize), ("Z", 0), ("H 3", 0), ("A 1 1 0 0 0 5 5 7", 1), ("\nx", 0), ("\n\n M 0 0 L q", 0), ("M 0 0 Z x", 0), ("0 0M", 0), ("M 1 1 A 5 5 0 1 1 9 9 3", 1)] {
        run_case(id, s, n, None, &mut w, &mut st, &mut idx, "corpus");
        id += 1;
    }
    // grammar-based + mutated
    let mut rng = Rng::new(args.seed ^ 0x17);
    for _ in 0..(if args.thorough() { 20000 } else { 2500 }) {
        let n = rng.below(4) as usize;
        let s = gen_valid(&mut rng, n);
        let s = if rng.chance(1, 2) { mutate(&mut rng, &s) } else { s };
        let stop = if rng.chance(1, 5) { Some('|') } else { None };
        // the attribute count given to the parser sometimes differs from the one the text was written for
        let n_used = if rng.chance(1, 6) { rng.below(4) as usize } else { n };
        run_case(id, &s, n_used, stop, &mut w, &mut st, &mut idx, "grammar");
        id += 1;
    }
    let mut wpr = ShardWriter::new(&args.out, "c17pr_cases", args.shards, HEADER_PR, "print_bad_cases");
    wpr.disabled = args.direct_only();
    printed_cases(args, &mut id, &mut w, &mut wpr, &mut st, &mut idx);
    roundtrip_checks(args, &mut st);
    w.finish()?;
    wpr.finish()?;
    st.write(&args.out.join("c17_stats.json"))
}
