(* C02: monotone triangulation (component level).  Collects the lemmas used by Props/C02.v:
     basic_count basic_ids basic_ids_distinct        (C02_Basic)
     flush_count flush_indices flush_fuel            (C02_Flush)
     advanced_count advanced_ids                     (C02_Advanced) *)
From LV Require Export Proofs.C02_Basic Proofs.C02_Flush Proofs.C02_Advanced.
