(* C10 / C12 statements restated on the functions regenerated from the source *)
From Coq Require Import ZArith QArith Qabs List.
From LV Require Import Base.Prelude Model.Bezier Model.Winding Model.LineInter Gen.Functions
  Proofs.C10_Bezier Proofs.C11_Quad Proofs.C12_LineInter Proofs.C18_Winding Proofs.Gen_Geom.
Open Scope Q_scope.

Theorem src_quad_split_retraces : forall c t u,
  src_quad_sample (fst (src_quad_split c t)) u =p= src_quad_sample c (t * u) /\
  src_quad_sample (snd (src_quad_split c t)) u =p= src_quad_sample c (t + (1 - t) * u) /\
  src_quad_sample (src_quad_before_split c t) u =p= src_quad_sample c (t * u) /\
  src_quad_sample (src_quad_after_split c t) u =p= src_quad_sample c (t + (1 - t) * u).
Proof.
  intros c t u. split; [|split; [|split]].
  - exact (quad_split_l c t u).
  - exact (quad_split_r c t u).
  - exact (quad_before_split c t u).
  - exact (quad_after_split c t u).
Qed.

Theorem src_quad_split_range_flip_retrace : forall c a b u,
  src_quad_sample (src_quad_split_range c a b) u =p= src_quad_sample c (a + (b - a) * u) /\
  src_quad_sample (src_quad_flip c) u =p= src_quad_sample c (1 - u).
Proof. intros c a b u. split; [exact (quad_split_range c a b u)|exact (quad_flip c u)]. Qed.

Theorem src_cubic_split_retraces : forall c t u,
  src_cubic_sample (fst (src_cubic_split c t)) u =p= src_cubic_sample c (t * u) /\
  src_cubic_sample (snd (src_cubic_split c t)) u =p= src_cubic_sample c (t + (1 - t) * u) /\
  src_cubic_sample (src_cubic_before_split c t) u =p= src_cubic_sample c (t * u) /\
  src_cubic_sample (src_cubic_after_split c t) u =p= src_cubic_sample c (t + (1 - t) * u).
Proof.
  intros c t u. split; [|split; [|split]].
  - exact (cubic_split_l c t u).
  - exact (cubic_split_r c t u).
  - exact (cubic_before_split c t u).
  - exact (cubic_after_split c t u).
Qed.

Theorem src_cubic_split_range_flip_retrace : forall c a b u,
  src_cubic_sample (src_cubic_split_range c a b) u =p= src_cubic_sample c (a + (b - a) * u) /\
  src_cubic_sample (src_cubic_flip c) u =p= src_cubic_sample c (1 - u).
Proof. intros c a b u. split; [exact (cubic_split_range c a b u)|exact (cubic_flip c u)]. Qed.

Theorem src_coordinates_are_samples : forall q c t,
  src_quad_sample q t =p= (src_quad_x q t, src_quad_y q t) /\
  src_cubic_sample c t =p= (src_cubic_x c t, src_cubic_y c t).
Proof. intros q c t. split; [exact (quad_xy q t)|exact (cubic_xy c t)]. Qed.

Theorem src_line_intersection_sound : forall s o t u, src_line_intersection_t s o = Some (t, u) ->
  meet_at s o t u /\ ~ parallel s o /\ ~ shares_endpoint s o.
Proof. exact inter_sound. Qed.

Theorem src_line_intersection_complete : forall s o t u,
  ~ shares_endpoint s o -> ~ parallel s o -> meet_at s o t u ->
  exists t' u', src_line_intersection_t s o = Some (t', u') /\ t' == t /\ u' == u.
Proof. exact inter_complete. Qed.

(* C18 on the generated step: folding the source's test_segment over the edges of a flat path gives the signed crossing
   number at every point off the outline *)
Theorem src_hit_wn_spec : forall p path, off_outline p (path_edges path) ->
  fold_left (fun w e => src_test_segment p (mkLine (fst e) (snd e)) w) (path_edges path) 0%Z = wn p (path_edges path).
Proof. exact Proofs.C18_Winding.hit_wn_spec. Qed.

(* C11 on the generated functions: the exact bounding ranges of a quadratic, as the source computes them, contain every
   point of the curve, are attained on it, and lie within the fast ranges *)
Theorem src_quad_box_contains_curve : forall c t, 0 <= t -> t <= 1 ->
  (fst (src_quad_bounding_range_x c) <= px (src_quad_sample c t) /\ px (src_quad_sample c t) <= snd (src_quad_bounding_range_x c)) /\
  (fst (src_quad_bounding_range_y c) <= py (src_quad_sample c t) /\ py (src_quad_sample c t) <= snd (src_quad_bounding_range_y c)).
Proof.
  intros c t H0 H1.
  destruct (quad_xy c t) as [Hx Hy]. cbn [px py fst snd] in Hx, Hy.
  change (src_quad_sample c t) with (q_sample c t).
  change (src_quad_bounding_range_x c) with (q_bounding_range (px (q_from c)) (px (q_ctrl c)) (px (q_to c))).
  change (src_quad_bounding_range_y c) with (q_bounding_range (py (q_from c)) (py (q_ctrl c)) (py (q_to c))).
  destruct (Proofs.C11_Quad.quad_range_contains (px (q_from c)) (px (q_ctrl c)) (px (q_to c)) t H0 H1) as [A B].
  destruct (Proofs.C11_Quad.quad_range_contains (py (q_from c)) (py (q_ctrl c)) (py (q_to c)) t H0 H1) as [C D].
  unfold q_x in Hx. unfold q_y in Hy.
  split; split.
  - rewrite Hx. exact A.
  - rewrite Hx. exact B.
  - rewrite Hy. exact C.
  - rewrite Hy. exact D.
Qed.

Theorem src_quad_fast_box_contains_exact : forall c,
  fst (src_quad_fast_bounding_range_x c) <= fst (src_quad_bounding_range_x c) /\
  snd (src_quad_bounding_range_x c) <= snd (src_quad_fast_bounding_range_x c) /\
  fst (src_quad_fast_bounding_range_y c) <= fst (src_quad_bounding_range_y c) /\
  snd (src_quad_bounding_range_y c) <= snd (src_quad_fast_bounding_range_y c).
Proof.
  intro c.
  destruct (Proofs.C11_Quad.quad_fast_contains_exact (px (q_from c)) (px (q_ctrl c)) (px (q_to c))) as [A B].
  destruct (Proofs.C11_Quad.quad_fast_contains_exact (py (q_from c)) (py (q_ctrl c)) (py (q_to c))) as [C D].
  repeat split; assumption.
Qed.
