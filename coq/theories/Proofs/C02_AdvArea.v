(* C02, part 5: areas of the triangles emitted by the ADVANCED monotone tessellator model.
     B1 adv_run_gen_is_adv_run  the parametrised copy (Model/MonotoneArea.v) instantiated with the real basic
                                step is the model of the advanced tessellator
     B2 adv_nat_conserved       with the un-normalised basic step, flush_side's fans + the basic tessellator's
                                triangles add up to the polygon's shoelace sum (all sequences)
     B3 adv_nat_swapped         emitted = un-normalised up to the order of the first two vertices
     B4 adv_area_exact          emitted sum = shoelace sum when no un-normalised triangle is flipped
   No monotonicity assumption anywhere. *)
From Coq Require Import QArith Lqa Morphisms.
From LV Require Import Base.Prelude Model.Bezier Model.Winding Model.Monotone Model.MonotoneArea.
From LV Require Import Proofs.C02_Flush Proofs.C02_Area.
Open Scope Q_scope.

Local Notation mvn := monotone_vertex_nat.

(* ================================================================== B1, B3: simulation
   The un-normalised and the emitted runs take the same branches (they only depend on the side
   events); the tessellator states agree up to a relation [R] on the triangles.  [Qv] is a property
   of every vertex fed to the basic tessellator. *)
Section GSim.
Variable Qv : mv -> Prop.
Variable R : tri -> tri -> Prop.

Definition gsim (n t : basic) : Prop :=
  b_stack n = b_stack t /\ b_prev n = b_prev t /\
  Forall Qv (b_stack t) /\ Qv (b_prev t) /\ Forall2 R (b_tris n) (b_tris t).

Hypothesis R_refl : forall x, R x x.
Hypothesis gsim_step : forall n t cur, gsim n t -> Qv cur -> gsim (mvn n cur) (monotone_vertex t cur).

Lemma Forall2_R_refl : forall l, Forall2 R l l.
Proof. induction l; constructor; auto. Qed.

Definition asim (x y : advanced) : Prop :=
  a_left x = a_left y /\ a_right x = a_right y /\
  Qv (se_last (a_left y)) /\ Qv (se_last (a_right y)) /\ gsim (a_tess x) (a_tess y).

Lemma flush_gsim s left n t : gsim n t -> Qv (se_last s) ->
  exists s' n' t' ov, flush_side s left n = (s', n', ov) /\ flush_side s left t = (s', t', ov) /\
    gsim n' t' /\ Qv (se_last s') /\
    match ov with Some v => Qv v /\ gsim (mvn n' v) (monotone_vertex t' v) | None => True end.
Proof.
  intros Hg Hq. unfold flush_side. destruct (Nat.ltb _ 2).
  - exists s, n, t, None. auto.
  - eexists _, _, _, _. split; [reflexivity|]. split; [reflexivity|].
    match goal with |- ?A /\ _ => assert (H : A) end.
    { destruct Hg as (Hs & Hp & Hqs & Hqp & Ht).
      repeat split; cbn [b_stack b_prev b_tris]; try assumption.
      apply Forall2_app; [assumption|apply Forall2_R_refl]. }
    split; [exact H|]. split; [exact Hq|]. split; [exact Hq|]. apply gsim_step; assumption.
Qed.

(* destruct the first pair of flush_side calls (un-normalised / emitted) in the goal *)
Ltac sim_flush Hs :=
  match goal with |- context [flush_side ?s ?l ?n] =>
    match goal with |- context [flush_side s l ?t] =>
      lazymatch t with n => fail | _ => idtac end;
      let s' := fresh "s'" in let n' := fresh "n'" in let t' := fresh "t'" in
      let ov := fresh "ov" in let E1 := fresh "E1" in let E2 := fresh "E2" in
      let Hs' := fresh "Hs'" in let Hv := fresh "Hv" in let Hq := fresh "Hq" in
      let Hqs := fresh "Hqs" in
      assert (Hqs : Qv (se_last s)) by assumption;
      destruct (flush_gsim s l n t Hs Hqs) as (s' & n' & t' & ov & E1 & E2 & Hs' & Hq & Hv);
      clear Hqs; rewrite E1, E2; clear E1 E2; destruct ov as [?v|];
      [clear Hs'; destruct Hv as [_ Hs']|clear Hv]
    end
  end.

Ltac sim_done := unfold asim; cbn [a_left a_right a_tess]; repeat (split; [reflexivity || assumption|]); assumption.

Lemma adv_vertex_asim x y pos id left : asim x y -> Qv (mkMV pos id left) ->
  asim (adv_vertex_gen mvn x pos id left) (adv_vertex_gen monotone_vertex y pos id left).
Proof.
  destruct x as [n l r], y as [t l' r']. intros (Hl & Hr & Hql & Hqr & Hs) Hv.
  cbn [a_left a_right a_tess] in *. subst l' r'.
  unfold adv_vertex_gen. destruct left; cbn [a_left a_right a_tess negb].
  - set (l1 := set_cref (set_ref_x l _) _).
    assert (Hql1 : Qv (se_last l1)) by exact Hql. clearbody l1.
    set (c := (_ || _)%bool). clearbody c. destruct c.
    + set (c := is_after _ _). clearbody c. destruct c.
      * sim_flush Hs; sim_flush Hs'; sim_done.
      * sim_flush Hs; sim_done.
    + sim_done.
  - set (r1 := set_cref (set_ref_x r _) _).
    assert (Hqr1 : Qv (se_last r1)) by exact Hqr. clearbody r1.
    set (c := (_ || _)%bool). clearbody c. destruct c.
    + set (c := is_after _ _). clearbody c. destruct c.
      * sim_flush Hs; sim_flush Hs'; sim_done.
      * sim_flush Hs; sim_done.
    + sim_done.
Qed.

Lemma adv_end_asim x y pos id : asim x y -> (forall sd, Qv (mkMV pos id sd)) ->
  Forall2 R (b_tris (adv_end_gen mvn x pos id)) (b_tris (adv_end_gen monotone_vertex y pos id)).
Proof.
  destruct x as [n l r], y as [t l' r']. intros (Hl & Hr & Hql & Hqr & Hs) Hv.
  cbn [a_left a_right a_tess] in *. subst l' r'.
  unfold adv_end_gen. cbn [a_left a_right a_tess].
  destruct (flush_gsim l true n t Hs Hql) as (l1 & n1 & t1 & va & E1 & E2 & Hs1 & _ & Hva).
  rewrite E1, E2. clear E1 E2.
  destruct (flush_gsim r false n1 t1 Hs1 Hqr) as (r2 & n2 & t2 & vb & E1 & E2 & Hs2 & _ & Hvb).
  rewrite E1, E2. clear E1 E2.
  set (n3 := match va with Some _ => _ | None => _ end).
  set (t3 := match va with Some _ => _ | None => _ end).
  assert (Hs3 : gsim n3 t3).
  { unfold n3, t3. destruct va as [v1|], vb as [v2|].
    - destruct Hva as [Q1 _], Hvb as [Q2 _].
      destruct (is_after _ _); apply gsim_step; try assumption; apply gsim_step; assumption.
    - destruct Hva as [Q1 _]. apply gsim_step; assumption.
    - destruct Hvb as [Q2 _]. apply gsim_step; assumption.
    - exact Hs2. }
  clearbody n3 t3. cbn [b_tris].
  pose proof Hs3 as (_ & Hp & _). rewrite Hp.
  apply (gsim_step n3 t3); [exact Hs3|apply Hv].
Qed.

Lemma fold_asim : forall vs x y, asim x y ->
  Forall (fun v => Qv (mkMV (fst (fst v)) (snd (fst v)) (snd v))) vs ->
  asim (fold_left (fun a v => adv_vertex_gen mvn a (fst (fst v)) (snd (fst v)) (snd v)) vs x)
       (fold_left (fun a v => adv_vertex_gen monotone_vertex a (fst (fst v)) (snd (fst v)) (snd v)) vs y).
Proof.
  induction vs as [|v vs IH]; intros x y H Hvs; cbn [fold_left]; [exact H|].
  inversion Hvs as [|? ? Hv Hvs']; subst.
  apply IH; [|exact Hvs']. apply adv_vertex_asim; assumption.
Qed.

Lemma adv_run_asim first vs last :
  (forall sd, Qv (mkMV (fst first) (snd first) sd)) ->
  Forall (fun v => Qv (mkMV (fst (fst v)) (snd (fst v)) (snd v))) vs ->
  (forall sd, Qv (mkMV (fst last) (snd last) sd)) ->
  Forall2 R (adv_run_gen mvn first vs last) (adv_run_gen monotone_vertex first vs last).
Proof.
  intros Hf Hvs Hl. unfold adv_run_gen.
  apply adv_end_asim; [|exact Hl]. apply fold_asim; [|exact Hvs].
  unfold asim, adv_begin, gsim, basic_begin.
  cbn [a_left a_right a_tess se_push se_last b_stack b_prev b_tris].
  repeat split; try apply Hf. constructor; [apply Hf|constructor]. constructor.
Qed.
End GSim.

Lemma adv_run_gen_is_adv_run : forall first vs last,
  adv_run_gen monotone_vertex first vs last = adv_run first vs last.
Proof. reflexivity. Qed.

Lemma adv_nat_swapped : forall first vs last,
  Forall2 tri_same_or_swapped (adv_run_gen monotone_vertex_nat first vs last) (adv_run first vs last).
Proof.
  intros first vs last. rewrite <- adv_run_gen_is_adv_run.
  apply (adv_run_asim (fun _ => True) tri_same_or_swapped tri_same_refl).
  - intros n t cur (Hs & Hp & _ & _ & Ht) _.
    destruct (vertex_sim n t cur (conj Hs (conj Hp Ht))) as (Hs' & Hp' & Ht').
    repeat split; try assumption. apply Forall_forall. intros; exact I.
  - intros; exact I.
  - apply Forall_forall. intros; exact I.
  - intros; exact I.
Qed.

(* ================================================================== B2: conservation *)
Definition chain (P : Z -> qpt) (s : side_events) : list qpt := map P (se_events s).

Definition SInv (P : Z -> qpt) (s : side_events) (side : bool) (b a : qpt) : Prop :=
  exists ids, se_events s = ids ++ [m_id (se_last s)] /\
    res P (se_last s) /\ m_left (se_last s) = side /\ m_pos (se_last s) = a /\
    hd a (map P ids) = b.

Lemma SInv_chain P s side b a : SInv P s side b a ->
  exists pre, chain P s = pre ++ [a] /\ hd a pre = b.
Proof.
  intros (ids & He & Hr & _ & Ha & Hb). exists (map P ids). split; [|exact Hb].
  unfold chain. rewrite He, map_app. cbn [map]. unfold res in Hr. rewrite Hr, Ha. reflexivity.
Qed.

Lemma hd_app_single {A} (l : list A) (a d : A) : hd d (l ++ [a]) = hd a l.
Proof. destruct l; reflexivity. Qed.

Lemma chain_area2_eq pre a :
  chain_area2 (pre ++ [a]) == path2 (pre ++ [a]) + cross a (hd a pre).
Proof.
  destruct pre as [|p r].
  - cbn [app chain_area2 hd]. unfold sub_edges. cbn [fst snd]. rewrite shoelace_chain. cbn [path2 last]. ring.
  - cbn [app chain_area2 hd]. unfold sub_edges. cbn [fst snd]. rewrite shoelace_chain.
    rewrite last_last. reflexivity.
Qed.

Lemma flush_tris_sum P ev : forall l,
  Forall (fun x => let '(a, b, c) := x in
            (a < length ev /\ b < length ev /\ c < length ev /\ a <> b /\ b <> c /\ a <> c)%nat) l ->
  sum_area2 P (map (fun x => let '(a, b, c) := x in (nthz ev a, nthz ev b, nthz ev c)) l)
  == fold_right (fun x acc => let '(a, b, c) := x in
       area2 (nth a (map P ev) (0, 0)) (nth b (map P ev) (0, 0)) (nth c (map P ev) (0, 0)) + acc) 0 l.
Proof.
  assert (Hn : forall i, (i < length ev)%nat -> nth i (map P ev) (0, 0) = P (nthz ev i)).
  { intros i Hi. unfold nthz. rewrite (nth_indep _ (0, 0) (P (-1)%Z)) by (rewrite map_length; exact Hi).
    apply map_nth. }
  induction l as [|[[a b] c] l IH]; intros Hl.
  - reflexivity.
  - inversion Hl as [|? ? Habc Hl']; subst. destruct Habc as (Ha & Hb & Hc & _).
    cbn [map fold_right]. rewrite sum_area2_cons, (IH Hl'). cbn [tri_area2].
    rewrite !Hn by assumption. reflexivity.
Qed.

Lemma flush_tris_area P ev right :
  sum_area2 P (map (fun x => let '(a, b, c) := x in (nthz ev a, nthz ev b, nthz ev c))
                   (flush_index_tris right (length ev)))
  == flush_area2 right (map P ev).
Proof.
  rewrite flush_tris_sum by apply flush_indices.
  unfold flush_area2. rewrite map_length. reflexivity.
Qed.

Lemma Inv_tris P t t' la ls ra rs ls' rs' :
  b_stack t' = b_stack t -> b_prev t' = b_prev t ->
  sum_area2 P (b_tris t') == sum_area2 P (b_tris t) + (ls' - ls) - (rs' - rs) ->
  Inv P t la ls ra rs -> Inv P t' la ls' ra rs'.
Proof.
  intros Hs Hp Hsum (rest & H1 & H2 & H3 & H4 & H5). exists rest. rewrite Hs, Hp.
  split; [exact H1|]. split; [exact H2|]. split; [exact H3|]. split; [exact H4|].
  rewrite Hsum, H5. ring.
Qed.

(* flush_side alone *)
Lemma flush_inv_raw P s side t s' t' ov b a la ls ra rs :
  SInv P s side b a -> Inv P t la ls ra rs -> flush_side s side t = (s', t', ov) ->
  SInv P s' side a a /\ chain P s' = [a] /\
  match ov with
  | None => b = a /\ chain P s = [a] /\ Inv P t' la ls ra rs
  | Some v => res P v /\ m_left v = side /\ m_pos v = a /\
      Inv P t' la (if side then ls + (path2 (chain P s) + cross a b) else ls)
               ra (if side then rs else rs + (path2 (chain P s) + cross a b))
  end.
Proof.
  intros HS HI. destruct (SInv_chain P s side b a HS) as (pre & Hch & Hhd).
  destruct HS as (ids & He & Hr & Hside & Ha & Hb).
  unfold flush_side. destruct (Nat.ltb_spec (length (se_events s)) 2) as [Hlt|Hge]; intros H; inversion H; subst s' t' ov; clear H.
  - assert (Hids : ids = []).
    { rewrite He, app_length in Hlt. cbn [length] in Hlt. destruct ids; [reflexivity|cbn [length] in Hlt; lia]. }
    subst ids. cbn [map hd] in Hb. cbn [app] in He.
    assert (Hc : chain P s = [a]).
    { unfold chain. rewrite He. cbn [map]. unfold res in Hr. rewrite Hr, Ha. reflexivity. }
    split; [|split; [exact Hc|]].
    + exists []. cbn [app map hd]. subst b. auto.
    + subst b. auto.
  - set (ts := map _ _).
    assert (Hts : sum_area2 P ts == sg side (path2 (chain P s) + cross a b)).
    { unfold ts. rewrite flush_tris_area, flush_area. fold (chain P s). rewrite Hch.
      destruct side; unfold sg; cbn [negb]; rewrite chain_area2_eq, Hhd; reflexivity. }
    clearbody ts.
    split; [|split].
    + exists []. cbn [se_events se_last app map hd]. auto.
    + unfold chain. cbn [se_events map]. unfold res in Hr. rewrite Hr, Ha. reflexivity.
    + split; [exact Hr|]. split; [exact Hside|]. split; [exact Ha|].
      eapply Inv_tris; [| | |exact HI]; cbn [b_stack b_prev b_tris]; [reflexivity|reflexivity|].
      rewrite sum_area2_app, Hts. destruct side; unfold sg; ring.
Qed.

Definition pick {A} (side : bool) (x y : A) : A := if side then x else y.

(* (side, opposite side, tessellator): [sa]/[oa] last points of the two chains, [ss]/[os] the open
   shoelace sums of the two sides of the polygon so far *)
Definition TInv (P : Z -> qpt) (side : bool) (s o : side_events) (t : basic) (sa : qpt) (ss : Q) (oa : qpt) (os : Q) : Prop :=
  exists sb sbs ob obs,
    Inv P t (pick side sb ob) (pick side sbs obs) (pick side ob sb) (pick side obs sbs) /\
    SInv P s side sb sa /\ SInv P o (negb side) ob oa /\
    sbs + path2 (chain P s) == ss /\ obs + path2 (chain P o) == os.

Lemma TInv_swap P side s o t sa ss oa os :
  TInv P side s o t sa ss oa os -> TInv P (negb side) o s t oa os sa ss.
Proof.
  intros (sb & sbs & ob & obs & HI & Hs & Ho & Es & Eo).
  exists ob, obs, sb, sbs. rewrite Bool.negb_involutive.
  split; [destruct side; exact HI|]. auto.
Qed.

Lemma SInv_same P s s' side b a :
  se_events s' = se_events s -> se_last s' = se_last s -> SInv P s side b a -> SInv P s' side b a.
Proof. unfold SInv. intros -> ->. auto. Qed.

Lemma TInv_same P side s o s' o' t sa ss oa os :
  se_events s' = se_events s -> se_last s' = se_last s ->
  se_events o' = se_events o -> se_last o' = se_last o ->
  TInv P side s o t sa ss oa os -> TInv P side s' o' t sa ss oa os.
Proof.
  intros E1 E2 E3 E4 (sb & sbs & ob & obs & HI & Hs & Ho & Es & Eo).
  exists sb, sbs, ob, obs. split; [exact HI|].
  split; [apply (SInv_same P s); assumption|]. split; [apply (SInv_same P o); assumption|].
  unfold chain in *. rewrite E1, E3. auto.
Qed.

Definition feedn (t : basic) (ov : option mv) : basic :=
  match ov with Some v => mvn t v | None => t end.

Lemma TInv_flush P side s o t sa ss oa os s' t' ov :
  TInv P side s o t sa ss oa os -> flush_side s side t = (s', t', ov) ->
  TInv P side s' o (feedn t' ov) sa ss oa os.
Proof.
  intros (sb & sbs & ob & obs & HI & Hs & Ho & Es & Eo) H.
  destruct (flush_inv_raw P _ _ _ _ _ _ _ _ _ _ _ _ Hs HI H) as (Hs' & Hc' & Hov).
  destruct ov as [v|]; cbn [feedn].
  - destruct Hov as (Hr & Hl & Hp & HI').
    pose proof (step_inv P t' v _ _ _ _ Hr HI') as Hstep. rewrite Hl, Hp in Hstep.
    exists sa, (sbs + path2 (chain P s)), ob, obs.
    split; [|split; [exact Hs'|split; [exact Ho|split; [|exact Eo]]]].
    + destruct side; unfold pick in *; (eapply Inv_ext; [| |exact Hstep]); unfold cross; ring.
    + rewrite Hc'. cbn [path2]. rewrite <- Es. ring.
  - destruct Hov as (Hb & Hc & HI'). subst sb.
    exists sa, sbs, ob, obs.
    split; [exact HI'|split; [exact Hs'|split; [exact Ho|split; [|exact Eo]]]].
    rewrite Hc'. rewrite Hc in Es. exact Es.
Qed.

Lemma TInv_push P side s o t sa ss oa os v :
  TInv P side s o t sa ss oa os -> res P v -> m_left v = side ->
  TInv P side (se_push s v) o t (m_pos v) (ss + cross sa (m_pos v)) oa os.
Proof.
  intros (sb & sbs & ob & obs & HI & Hs & Ho & Es & Eo) Hr Hl.
  destruct (SInv_chain P s side sb sa Hs) as (pre & Hch & Hhd).
  exists sb, sbs, ob, obs.
  split; [exact HI|split; [|split; [exact Ho|split; [|exact Eo]]]].
  - exists (se_events s). cbn [se_push se_events se_last].
    split; [reflexivity|]. split; [exact Hr|]. split; [exact Hl|]. split; [reflexivity|].
    fold (chain P s). rewrite Hch, hd_app_single.
    destruct pre; cbn [hd] in *; assumption.
  - unfold chain in *. cbn [se_push se_events]. rewrite map_app. cbn [map].
    unfold res in Hr. rewrite Hr, path2_snoc, Hch, last_last, <- Es, Hch. ring.
Qed.

Definition AInv (P : Z -> qpt) (a : advanced) (la : qpt) (ls : Q) (ra : qpt) (rs : Q) : Prop :=
  TInv P true (a_left a) (a_right a) (a_tess a) la ls ra rs.

Lemma TInv_same_s P side s o s' t sa ss oa os :
  se_events s' = se_events s -> se_last s' = se_last s ->
  TInv P side s o t sa ss oa os -> TInv P side s' o t sa ss oa os.
Proof. intros E1 E2. apply TInv_same; auto. Qed.

Lemma TInv_same_o P side s o o' t sa ss oa os :
  se_events o' = se_events o -> se_last o' = se_last o ->
  TInv P side s o t sa ss oa os -> TInv P side s o' t sa ss oa os.
Proof. intros E1 E2. apply TInv_same; auto. Qed.

(* flush (side flag [sd]) of the first component of the triple invariant H *)
Ltac do_flush H :=
  match goal with |- context [flush_side ?s ?l ?t] =>
    let E := fresh "E" in let s' := fresh "s'" in let t' := fresh "t'" in
    destruct (flush_side s l t) as [[s' t'] [?v|]] eqn:E;
    apply (TInv_flush _ _ _ _ _ _ _ _ _ _ _ _ H) in E; cbn [feedn] in E
  end.

(* second stage of adv_vertex: flush the vertex's own side, then push the vertex *)
Ltac stage2 P pos id Hv H sd :=
  do_flush H; cbn [a_left a_right a_tess];
  match goal with E : TInv _ _ _ _ _ _ _ _ _ |- _ =>
    lazymatch sd with
    | true => refine (TInv_push P true _ _ _ _ _ _ _ (mkMV pos id true) _ (Hv true) eq_refl)
    | false => apply (TInv_swap P false);
               refine (TInv_push P false _ _ _ _ _ _ _ (mkMV pos id false) _ (Hv false) eq_refl)
    end;
    revert E; apply TInv_same; reflexivity
  end.

Lemma adv_vertex_ainv P a pos id left la ls ra rs :
  AInv P a la ls ra rs -> P id = pos ->
  AInv P (adv_vertex_gen mvn a pos id left)
       (if left then pos else la) (if left then ls + cross la pos else ls)
       (if left then ra else pos) (if left then rs else rs + cross ra pos).
Proof.
  intros Ha Hid. unfold AInv in *. destruct a as [t l r]. cbn [a_left a_right a_tess] in Ha.
  assert (Hv : forall sd, res P (mkMV pos id sd)) by (intros sd; exact Hid).
  unfold adv_vertex_gen. destruct left; cbn [a_left a_right a_tess negb].
  - set (l1 := set_cref (set_ref_x l _) _).
    assert (H1 : TInv P true l1 r t la ls ra rs) by (revert Ha; apply TInv_same_s; reflexivity).
    clearbody l1. clear Ha.
    set (c := (_ || _)%bool). clearbody c. destruct c.
    + set (c := is_after _ _). clearbody c. destruct c.
      * apply TInv_swap in H1. cbn [negb] in H1. do_flush H1; clear H1;
          apply TInv_swap in E; cbn [negb] in E.
        -- apply (TInv_same_s P true _ _ (set_cref l1 (px (se_ref l1)))) in E; [|reflexivity|reflexivity].
           stage2 P pos id Hv E true.
        -- stage2 P pos id Hv E true.
      * stage2 P pos id Hv H1 true.
    + cbn [a_left a_right a_tess].
      refine (TInv_push P true _ _ _ _ _ _ _ (mkMV pos id true) _ (Hv true) eq_refl).
      revert H1; apply TInv_same; reflexivity.
  - set (r1 := set_cref (set_ref_x r _) _).
    assert (H1 : TInv P false r1 l t ra rs la ls).
    { apply TInv_swap in Ha. cbn [negb] in Ha. revert Ha; apply TInv_same_s; reflexivity. }
    clearbody r1. clear Ha.
    set (c := (_ || _)%bool). clearbody c. destruct c.
    + set (c := is_after _ _). clearbody c. destruct c.
      * apply TInv_swap in H1. cbn [negb] in H1. do_flush H1; clear H1;
          apply TInv_swap in E; cbn [negb] in E.
        -- apply (TInv_same_s P false _ _ (set_cref r1 (px (se_ref r1)))) in E; [|reflexivity|reflexivity].
           stage2 P pos id Hv E false.
        -- stage2 P pos id Hv E false.
      * stage2 P pos id Hv H1 false.
    + cbn [a_left a_right a_tess]. apply (TInv_swap P false).
      refine (TInv_push P false _ _ _ _ _ _ _ (mkMV pos id false) _ (Hv false) eq_refl).
      revert H1; apply TInv_same; reflexivity.
Qed.

Definition astep (a : advanced) (v : qpt * Z * bool) : advanced :=
  adv_vertex_gen mvn a (fst (fst v)) (snd (fst v)) (snd v).

Lemma AInv_ext P a la ls ra rs ls' rs' :
  ls == ls' -> rs == rs' -> AInv P a la ls ra rs -> AInv P a la ls' ra rs'.
Proof.
  intros El Er (sb & sbs & ob & obs & HI & Hs & Ho & Es & Eo).
  exists sb, sbs, ob, obs. rewrite <- El, <- Er. auto.
Qed.

Lemma fold_ainv P : forall vs a la ls ra rs,
  (forall v, In v vs -> P (snd (fst v)) = fst (fst v)) ->
  AInv P a la ls ra rs ->
  AInv P (fold_left astep vs a)
       (last (lefts vs) la) (ls + path2 (la :: lefts vs))
       (last (rights vs) ra) (rs + path2 (ra :: rights vs)).
Proof.
  induction vs as [|v vs IH]; intros a la ls ra rs Hvs HI.
  - cbn [fold_left]. change (lefts []) with (@nil qpt). change (rights []) with (@nil qpt).
    cbn [last path2]. apply (AInv_ext P a la ls ra rs); [ring|ring|exact HI].
  - cbn [fold_left].
    assert (Hc : P (snd (fst v)) = fst (fst v)) by (apply Hvs; left; reflexivity).
    pose proof (adv_vertex_ainv P a _ _ (snd v) la ls ra rs HI Hc) as Hstep.
    assert (Hvs' : forall w, In w vs -> P (snd (fst w)) = fst (fst w))
      by (intros w Hw; apply Hvs; right; exact Hw).
    specialize (IH (astep a v) _ _ _ _ Hvs' Hstep).
    rewrite lefts_cons, rights_cons.
    destruct (snd v).
    + rewrite last_cons, path2_cons2.
      eapply AInv_ext; [| |exact IH]; ring.
    + rewrite last_cons, path2_cons2.
      eapply AInv_ext; [| |exact IH]; ring.
Qed.

Lemma adv_begin_ainv P pos id : P id = pos -> AInv P (adv_begin pos id) pos 0 pos 0.
Proof.
  intros Hid. unfold AInv, adv_begin. cbn [a_left a_right a_tess].
  exists pos, 0, pos, 0. unfold pick.
  split; [|split; [|split; [|split]]].
  - exists []. unfold basic_begin. cbn [b_stack b_prev b_tris m_left m_pos map List.last path2].
    split; [reflexivity|]. split; [constructor; [exact Hid|constructor]|].
    split; [reflexivity|]. split; [reflexivity|].
    change (sum_area2 P []) with 0. unfold sg. ring.
  - exists []. cbn. auto.
  - exists []. cbn. auto.
  - unfold chain. cbn [se_push se_events app map path2]. ring.
  - unfold chain. cbn [se_push se_events app map path2]. ring.
Qed.

Lemma adv_end_sum P a pos id la ls ra rs :
  AInv P a la ls ra rs -> P id = pos ->
  sum_area2 P (b_tris (adv_end_gen mvn a pos id)) == ls + cross la pos - rs - cross ra pos.
Proof.
  intros (sb & sbs & ob & obs & HI & Hs & Ho & Es & Eo) Hid. unfold pick in HI. cbn [negb] in Ho.
  unfold adv_end_gen.
  destruct (flush_side (a_left a) true (a_tess a)) as [[l t1] va] eqn:E1.
  destruct (flush_inv_raw P _ _ _ _ _ _ _ _ _ _ _ _ Hs HI E1) as (_ & _ & H1).
  assert (HI1 : exists ls1, Inv P t1 sb ls1 ob obs /\
            match va with Some v => res P v /\ m_left v = true /\ m_pos v = la /\ ls1 + cross sb la == ls
                        | None => sb = la /\ ls1 == ls end).
  { destruct va as [v|].
    - destruct H1 as (A & B & C & D). eexists. split; [exact D|]. repeat (split; [assumption|]).
      rewrite <- Es. unfold cross. ring.
    - destruct H1 as (A & B & C). exists sbs. split; [exact C|]. split; [exact A|].
      rewrite <- Es, B. cbn [path2]. ring. }
  clear H1 HI. destruct HI1 as (ls1 & HI1 & Hva).
  destruct (flush_side (a_right a) false t1) as [[r t2] vb] eqn:E2.
  destruct (flush_inv_raw P _ _ _ _ _ _ _ _ _ _ _ _ Ho HI1 E2) as (_ & _ & H2).
  assert (HI2 : exists rs1, Inv P t2 sb ls1 ob rs1 /\
            match vb with Some v => res P v /\ m_left v = false /\ m_pos v = ra /\ rs1 + cross ob ra == rs
                        | None => ob = ra /\ rs1 == rs end).
  { destruct vb as [v|].
    - destruct H2 as (A & B & C & D). eexists. split; [exact D|]. repeat (split; [assumption|]).
      rewrite <- Eo. unfold cross. ring.
    - destruct H2 as (A & B & C). exists obs. split; [exact C|]. split; [exact A|].
      rewrite <- Eo, B. cbn [path2]. ring. }
  clear H2 HI1. destruct HI2 as (rs1 & HI2 & Hvb).
  set (t3 := match va with Some _ => _ | None => _ end).
  assert (HI3 : Inv P t3 la ls ra rs).
  { unfold t3. destruct va as [v1|], vb as [v2|].
    - destruct Hva as (A1 & B1 & C1 & D1), Hvb as (A2 & B2 & C2 & D2).
      destruct (is_after _ _).
      + pose proof (step_inv P _ v2 _ _ _ _ A2 HI2) as S1. rewrite B2, C2 in S1.
        pose proof (step_inv P _ v1 _ _ _ _ A1 S1) as S2. rewrite B1, C1 in S2.
        eapply Inv_ext; [| |exact S2]; assumption.
      + pose proof (step_inv P _ v1 _ _ _ _ A1 HI2) as S1. rewrite B1, C1 in S1.
        pose proof (step_inv P _ v2 _ _ _ _ A2 S1) as S2. rewrite B2, C2 in S2.
        eapply Inv_ext; [| |exact S2]; assumption.
    - destruct Hva as (A1 & B1 & C1 & D1), Hvb as (A2 & D2). subst ob.
      pose proof (step_inv P _ v1 _ _ _ _ A1 HI2) as S1. rewrite B1, C1 in S1.
      eapply Inv_ext; [| |exact S1]; assumption.
    - destruct Hva as (A1 & D1), Hvb as (A2 & B2 & C2 & D2). subst sb.
      pose proof (step_inv P _ v2 _ _ _ _ A2 HI2) as S1. rewrite B2, C2 in S1.
      eapply Inv_ext; [| |exact S1]; assumption.
    - destruct Hva as (A1 & D1), Hvb as (A2 & D2). subst sb ob.
      eapply Inv_ext; [| |exact HI2]; assumption. }
  clearbody t3. cbn [b_tris].
  set (cur := mkMV pos id (negb (m_left (b_prev t3)))).
  assert (Hc : res P cur) by exact Hid.
  assert (Hside : m_left cur = negb (m_left (b_prev t3))) by reflexivity.
  pose proof (side_change_total P t3 cur _ _ _ _ Hc HI3 Hside) as Htot.
  assert (Ht : b_tris (mvn t3 cur) = b_tris t3 ++ side_change_tris_nat cur (rev (b_stack t3))).
  { unfold monotone_vertex_nat. rewrite Hside.
    destruct (m_left (b_prev t3)); cbn [negb Bool.eqb b_tris]; reflexivity. }
  rewrite Ht, Htot.
  destruct HI3 as (rest & _ & _ & Hprev & _ & _).
  cbn [m_left m_pos cur].
  destruct (m_left (b_prev t3)); cbn [negb]; rewrite Hprev; unfold sg, cross; ring.
Qed.

Lemma adv_nat_conserved : forall P first vs last, resolves P first vs last ->
  sum_area2 P (adv_run_gen monotone_vertex_nat first vs last) == polygon_area2 first vs last.
Proof.
  intros P first vs last (Hf & Hl & Hvs). rewrite polygon_area2_eq.
  unfold adv_run_gen. fold astep.
  pose proof (fold_ainv P vs _ _ _ _ _ Hvs (adv_begin_ainv P (fst first) (snd first) Hf)) as HA.
  rewrite (adv_end_sum P _ _ _ _ _ _ _ HA Hl). ring.
Qed.

(* ------------------------------------------------------------------------ B4 *)
Definition strip (t : basic) : basic := mkBasic (b_stack t) (b_prev t) [].

Lemma mv_split t cur :
  b_stack (monotone_vertex t cur) = b_stack (monotone_vertex (strip t) cur) /\
  b_prev (monotone_vertex t cur) = b_prev (monotone_vertex (strip t) cur) /\
  b_tris (monotone_vertex t cur) = b_tris t ++ b_tris (monotone_vertex (strip t) cur).
Proof.
  unfold monotone_vertex, strip. cbn [b_stack b_prev b_tris].
  destruct (negb _).
  - cbn [b_stack b_prev b_tris app]. auto.
  - destruct (b_stack t) as [|top rest].
    + cbn [b_stack b_prev b_tris]. rewrite app_nil_r. auto.
    + destruct (pop_loop cur top rest) as [[ts lp] st]. cbn [b_stack b_prev b_tris app]. auto.
Qed.

Lemma mvn_split t cur :
  b_stack (mvn t cur) = b_stack (mvn (strip t) cur) /\
  b_prev (mvn t cur) = b_prev (mvn (strip t) cur) /\
  b_tris (mvn t cur) = b_tris t ++ b_tris (mvn (strip t) cur).
Proof.
  unfold monotone_vertex_nat, strip. cbn [b_stack b_prev b_tris].
  destruct (negb _).
  - cbn [b_stack b_prev b_tris app]. auto.
  - destruct (b_stack t) as [|top rest].
    + cbn [b_stack b_prev b_tris]. rewrite app_nil_r. auto.
    + destruct (pop_loop cur top rest) as [[ts lp] st]. cbn [b_stack b_prev b_tris app]. auto.
Qed.

(* same up to the order of the first two vertices, and when really swapped the emitted one is
   not counter-oriented *)
Definition RP (P : Z -> qpt) (x y : tri) : Prop :=
  tri_same_or_swapped x y /\ (y = x \/ tri_area2 P y <= 0).

Lemma RP_refl P x : RP P x x.
Proof. split; [apply tri_same_refl|left; reflexivity]. Qed.

Lemma Forall2_RP P : forall ns es,
  Forall2 tri_same_or_swapped ns es -> Forall (fun t => tri_area2 P t <= 0) es -> Forall2 (RP P) ns es.
Proof.
  induction 1 as [|x y ns es Hxy Hrest IH]; intros Ho; [constructor|].
  inversion Ho; subst. constructor; [split; [assumption|right; assumption]|auto].
Qed.

Lemma RP_step P n t cur :
  gsim (res P) (RP P) n t -> res P cur -> gsim (res P) (RP P) (mvn n cur) (monotone_vertex t cur).
Proof.
  intros (Hs & Hp & Hqs & Hqp & Ht) Hc.
  destruct (mv_split t cur) as (S1 & P1 & T1). destruct (mvn_split n cur) as (S2 & P2 & T2).
  assert (En : strip n = strip t) by (unfold strip; rewrite Hs, Hp; reflexivity).
  rewrite En in S2, P2, T2.
  assert (H0 : sim (strip t) (strip t)) by (repeat split; apply Forall2_same_refl).
  destruct (vertex_sim _ _ cur H0) as (Hs' & Hp' & Ht').
  assert (O0 : C02_Area.okO P (strip t)) by (unfold C02_Area.okO, strip; cbn [b_stack b_prev b_tris]; auto).
  destruct (vertex_orientation P _ cur Hc O0) as (Os & Op & Ot).
  unfold gsim. rewrite S1, P1, T1, S2, P2, T2.
  split; [exact Hs'|]. split; [exact Hp'|]. split; [exact Os|]. split; [exact Op|].
  apply Forall2_app; [exact Ht|]. apply Forall2_RP; assumption.
Qed.

Lemma RP_sums P : forall ns es,
  Forall2 (RP P) ns es -> Forall (fun t => tri_area2 P t <= 0) ns ->
  sum_area2 P es == sum_area2 P ns.
Proof.
  induction 1 as [|x y ns es Hxy Hrest IH]; intros Hn; [reflexivity|].
  inversion Hn as [|? ? Hx Hn']; subst. rewrite !sum_area2_cons, (IH Hn').
  destruct Hxy as [Hsw [Heq|Hy]].
  - subst y. reflexivity.
  - destruct (swapped_area P x y Hsw) as [E|E]; lra.
Qed.

Lemma adv_area_exact : forall P first vs last, resolves P first vs last ->
  Forall (fun t => tri_area2 P t <= 0) (adv_run_gen monotone_vertex_nat first vs last) ->
  sum_area2 P (adv_run first vs last) == polygon_area2 first vs last.
Proof.
  intros P first vs last Hr Hn.
  assert (H2 : Forall2 (RP P) (adv_run_gen mvn first vs last) (adv_run first vs last)).
  { rewrite <- adv_run_gen_is_adv_run. destruct Hr as (Hf & Hl & Hvs).
    apply (adv_run_asim (res P) (RP P) (RP_refl P) (RP_step P)).
    - intros sd. exact Hf.
    - apply Forall_forall. intros v Hv. apply Hvs. exact Hv.
    - intros sd. exact Hl. }
  rewrite (RP_sums P _ _ H2 Hn). apply adv_nat_conserved. exact Hr.
Qed.

Print Assumptions adv_run_gen_is_adv_run.
Print Assumptions adv_nat_conserved.
Print Assumptions adv_nat_swapped.
Print Assumptions adv_area_exact.
