(* C14 proofs, part 5: the Reversed iterator walks the storage backwards and
   yields the events of the reversed program. *)
From LV Require Import Base.Prelude Model.PathStore Model.PathSpec
  Proofs.C14_Layout Proofs.C14_Ids Proofs.C14_RevSpec.

Lemma csub_eq a b c : a = c + b -> csub a b = Some c.
Proof.
  intros ->. unfold csub.
  replace (Nat.leb b (c + b)) with true by (symmetry; apply Nat.leb_le; lia).
  f_equal. lia.
Qed.

Section Rev.
Context (P : path).
Local Notation n := (p_nattr P).
Local Notation E := (stride_of (p_nattr P) + 1).

Lemma rstep_line pre p0 a0 p a post pos nc first rvs r :
  p_points P = pre ++ p0 :: pack a0 ++ p :: pack a ++ post ->
  length a0 = n -> length a = n ->
  pos = length pre + E + E ->
  reversed_go P rvs (length pre + E) nc first = Some r ->
  reversed_go P (VLine :: rvs) pos nc first = Some (EvLine (p, a) (p0, a0) :: r).
Proof.
  intros HP Ha0 Ha -> Hr.
  pose proof (len_ep n pre p0 a0 Ha0) as Hpre.
  assert (HP' : p_points P = (pre ++ p0 :: pack a0) ++ p :: pack a ++ post).
  { rewrite HP. norm_app. reflexivity. }
  cbn [reversed_go n_stored_points].
  rewrite (csub_eq _ _ (length pre + E)) by lia. cbn [obind].
  rewrite (csub_eq _ _ (length pre)) by lia. cbn [obind].
  rewrite (ep_at_split P (length pre + E) _ p a _ HP' Ha) by lia.
  rewrite (ep_at_split P (length pre) _ p0 a0 _ HP Ha0) by lia.
  cbn [obind]. rewrite Hr. reflexivity.
Qed.

Lemma rstep_quad pre p0 a0 c p a post pos nc first rvs r :
  p_points P = pre ++ p0 :: pack a0 ++ c :: p :: pack a ++ post ->
  length a0 = n -> length a = n ->
  pos = length pre + E + 1 + E ->
  reversed_go P rvs (length pre + E) nc first = Some r ->
  reversed_go P (VQuad :: rvs) pos nc first = Some (EvQuad (p, a) c (p0, a0) :: r).
Proof.
  intros HP Ha0 Ha -> Hr.
  pose proof (len_ep n pre p0 a0 Ha0) as Hpre.
  assert (HPc : p_points P = (pre ++ p0 :: pack a0) ++ c :: p :: pack a ++ post).
  { rewrite HP. norm_app. reflexivity. }
  assert (HP' : p_points P = (pre ++ p0 :: pack a0 ++ [c]) ++ p :: pack a ++ post).
  { rewrite HP. norm_app. reflexivity. }
  assert (Hl' : length (pre ++ p0 :: pack a0 ++ [c]) = length pre + E + 1).
  { rewrite app_length in Hpre |- *. cbn [length] in Hpre |- *. rewrite app_length. cbn [length]. lia. }
  cbn [reversed_go n_stored_points].
  rewrite (csub_eq _ _ (length pre + E)) by lia. cbn [obind].
  rewrite (csub_eq _ _ (length pre + E + 1)) by lia. cbn [obind].
  rewrite (csub_eq _ _ (length pre + E)) by lia. cbn [obind].
  rewrite (csub_eq _ _ (length pre)) by lia. cbn [obind].
  rewrite (ep_at_split P (length pre + E + 1) _ p a _ HP' Ha) by lia. cbn [obind].
  rewrite (pget_split _ (length pre + E) _ c _ HPc) by lia. cbn [obind].
  rewrite (ep_at_split P (length pre) _ p0 a0 _ HP Ha0) by lia.
  cbn [obind]. rewrite Hr. reflexivity.
Qed.

Lemma rstep_cubic pre p0 a0 c1 c2 p a post pos nc first rvs r :
  p_points P = pre ++ p0 :: pack a0 ++ c1 :: c2 :: p :: pack a ++ post ->
  length a0 = n -> length a = n ->
  pos = length pre + E + 2 + E ->
  reversed_go P rvs (length pre + E) nc first = Some r ->
  reversed_go P (VCubic :: rvs) pos nc first = Some (EvCubic (p, a) c2 c1 (p0, a0) :: r).
Proof.
  intros HP Ha0 Ha -> Hr.
  pose proof (len_ep n pre p0 a0 Ha0) as Hpre.
  assert (HPc1 : p_points P = (pre ++ p0 :: pack a0) ++ c1 :: c2 :: p :: pack a ++ post).
  { rewrite HP. norm_app. reflexivity. }
  assert (HPc2 : p_points P = (pre ++ p0 :: pack a0 ++ [c1]) ++ c2 :: p :: pack a ++ post).
  { rewrite HP. norm_app. reflexivity. }
  assert (HP' : p_points P = (pre ++ p0 :: pack a0 ++ [c1; c2]) ++ p :: pack a ++ post).
  { rewrite HP. norm_app. reflexivity. }
  assert (Hl1 : length (pre ++ p0 :: pack a0 ++ [c1]) = length pre + E + 1).
  { rewrite app_length in Hpre |- *. cbn [length] in Hpre |- *. rewrite app_length. cbn [length]. lia. }
  assert (Hl2 : length (pre ++ p0 :: pack a0 ++ [c1; c2]) = length pre + E + 2).
  { rewrite app_length in Hpre |- *. cbn [length] in Hpre |- *. rewrite app_length. cbn [length]. lia. }
  cbn [reversed_go n_stored_points].
  rewrite (csub_eq _ _ (length pre + E)) by lia. cbn [obind].
  rewrite (csub_eq _ _ (length pre + E + 2)) by lia. cbn [obind].
  rewrite (csub_eq _ _ (length pre + E + 1)) by lia. cbn [obind].
  rewrite (csub_eq _ _ (length pre + E)) by lia. cbn [obind].
  rewrite (csub_eq _ _ (length pre)) by lia. cbn [obind].
  rewrite (ep_at_split P (length pre + E + 2) _ p a _ HP' Ha) by lia. cbn [obind].
  rewrite (pget_split _ (length pre + E + 1) _ c2 _ HPc2) by lia. cbn [obind].
  rewrite (pget_split _ (length pre + E) _ c1 _ HPc1) by lia. cbn [obind].
  rewrite (ep_at_split P (length pre) _ p0 a0 _ HP Ha0) by lia.
  cbn [obind]. rewrite Hr. reflexivity.
Qed.

Lemma rev_walk_edges es : forall pre p0 a0 post pos nc first rvs r,
  p_points P = pre ++ p0 :: pack a0 ++ flat_map layout_edge es ++ post ->
  length a0 = n -> Forall (edge_attrs_ok n) es ->
  pos = length pre + E + length (flat_map layout_edge es) ->
  reversed_go P rvs (length pre + E) nc first = Some r ->
  reversed_go P (rev (map verb_of_edge es) ++ rvs) pos nc first
  = Some (revevents (p0, a0) es ++ r).
Proof.
  induction es as [|e es IH]; intros pre p0 a0 post pos nc first rvs r HP Ha Hes Hpos Hr.
  - cbn [flat_map length map rev app revevents] in *. subst pos. rewrite Nat.add_0_r. exact Hr.
  - pose proof (Forall_inv Hes) as He. pose proof (Forall_inv_tail Hes) as Hes'.
    pose proof (len_edge n e He) as Hle.
    pose proof (len_ep n pre p0 a0 Ha) as Hpre.
    cbn [flat_map] in Hpos. rewrite app_length in Hpos.
    cbn [map rev revevents]. norm_app.
    destruct e as [p a | c p a | c1 c2 p a]; unfold edge_attrs_ok in He;
      cbn [edge_to snd] in He; cbn [flat_map layout_edge] in HP;
      cbn [verb_of_edge edge_to back_event].
    + assert (HP' : p_points P = (pre ++ p0 :: pack a0) ++ p :: pack a ++ flat_map layout_edge es ++ post).
      { rewrite HP. norm_app. reflexivity. }
      apply (IH (pre ++ p0 :: pack a0) p a post pos nc first _ _ HP' He Hes'); [lia |].
      apply (rstep_line pre p0 a0 p a (flat_map layout_edge es ++ post) _ nc first rvs r);
        [rewrite HP; norm_app; reflexivity | exact Ha | exact He | lia | exact Hr].
    + assert (HP' : p_points P = (pre ++ p0 :: pack a0 ++ [c]) ++ p :: pack a ++ flat_map layout_edge es ++ post).
      { rewrite HP. norm_app. reflexivity. }
      assert (Hl' : length (pre ++ p0 :: pack a0 ++ [c]) = length pre + E + 1).
      { rewrite app_length in Hpre |- *. cbn [length] in Hpre |- *. rewrite app_length. cbn [length]. lia. }
      apply (IH (pre ++ p0 :: pack a0 ++ [c]) p a post pos nc first _ _ HP' He Hes'); [lia |].
      apply (rstep_quad pre p0 a0 c p a (flat_map layout_edge es ++ post) _ nc first rvs r);
        [rewrite HP; norm_app; reflexivity | exact Ha | exact He | lia | exact Hr].
    + assert (HP' : p_points P = (pre ++ p0 :: pack a0 ++ [c1; c2]) ++ p :: pack a ++ flat_map layout_edge es ++ post).
      { rewrite HP. norm_app. reflexivity. }
      assert (Hl' : length (pre ++ p0 :: pack a0 ++ [c1; c2]) = length pre + E + 2).
      { rewrite app_length in Hpre |- *. cbn [length] in Hpre |- *. rewrite app_length. cbn [length]. lia. }
      apply (IH (pre ++ p0 :: pack a0 ++ [c1; c2]) p a post pos nc first _ _ HP' He Hes'); [lia |].
      apply (rstep_cubic pre p0 a0 c1 c2 p a (flat_map layout_edge es ++ post) _ nc first rvs r);
        [rewrite HP; norm_app; reflexivity | exact Ha | exact He | lia | exact Hr].
Qed.

Lemma rev_walk_sub s : forall pre post pos nc first rvs r,
  p_points P = pre ++ layout_sub s ++ post ->
  length (sp_attrs s) = n -> Forall (edge_attrs_ok n) (sp_edges s) ->
  pos = length pre + length (layout_sub s) ->
  reversed_go P rvs (length pre) false None = Some r ->
  reversed_go P (rev (verbs_sub s) ++ rvs) pos nc first = Some (spec_sub (rev_sub s) ++ r).
Proof.
  intros pre post pos nc first rvs r HP Ha Hes Hpos Hr.
  rewrite (len_sub n s Ha Hes) in Hpos.
  unfold layout_sub in HP. cbn [app] in HP. rewrite <- !app_assoc in HP.
  destruct (last_split n (sp_edges s) pre (sp_at s) (sp_attrs s) (close_tail s ++ post) Ha Hes)
    as (pre' & HL1 & HL2 & HL3).
  rewrite spec_sub_rev. rewrite spec_edges_snd in HL1, HL3.
  set (L := lastpt (sp_at s, sp_attrs s) (sp_edges s)) in *.
  set (Le := length (flat_map layout_edge (sp_edges s))) in *.
  assert (HLast : ep_at P (length pre + Le) = Some L).
  { rewrite (surjective_pairing L).
    apply (ep_at_split P _ pre' _ _ (close_tail s ++ post)); [| exact HL3 | lia].
    rewrite HP. exact HL1. }
  assert (H0 : ep_at P (length pre) = Some (sp_at s, sp_attrs s)).
  { apply (ep_at_split P _ pre _ _ _ HP Ha). reflexivity. }
  assert (Hbegin : forall ncl,
    reversed_go P (VBegin :: rvs) (length pre + E) ncl (Some L)
    = Some (EvEnd (sp_at s, sp_attrs s) L ncl :: r)).
  { intros ncl. cbn [reversed_go n_stored_points].
    rewrite (csub_eq _ _ (length pre)) by lia. cbn [obind].
    rewrite H0. cbn [obind]. rewrite Hr. reflexivity. }
  pose proof (fun ncl => rev_walk_edges (sp_edges s) pre (sp_at s) (sp_attrs s) (close_tail s ++ post)
                (length pre + E + Le) ncl (Some L) (VBegin :: rvs) _ HP Ha Hes eq_refl (Hbegin ncl))
    as Hed.
  unfold verbs_sub. cbn [rev]. rewrite rev_app_distr. cbn [rev app]. norm_app.
  unfold close_verb in *. destruct (sp_close s); subst pos; cbn [reversed_go n_stored_points].
  - rewrite (csub_eq _ _ (length pre + E + Le)) by lia. cbn [obind].
    rewrite (csub_eq _ _ (length pre + Le)) by lia. cbn [obind].
    rewrite HLast. cbn [obind]. rewrite Hed. reflexivity.
  - rewrite (csub_eq _ _ (length pre + E + Le)) by lia. cbn [obind].
    rewrite (csub_eq _ _ (length pre + Le)) by lia. cbn [obind].
    rewrite HLast. cbn [obind]. rewrite Hed. reflexivity.
Qed.

Lemma rev_walk_prog prog : forall pre post pos rvs r,
  p_points P = pre ++ flat_map layout_sub prog ++ post ->
  attrs_ok n prog ->
  pos = length pre + length (flat_map layout_sub prog) ->
  reversed_go P rvs (length pre) false None = Some r ->
  reversed_go P (rev (flat_map verbs_sub prog) ++ rvs) pos false None
  = Some (spec_events (rev_prog prog) ++ r).
Proof.
  induction prog as [|s prog IH]; intros pre post pos rvs r HP Hok Hpos Hr.
  - cbn [flat_map rev app length] in *. subst pos. rewrite Nat.add_0_r. exact Hr.
  - apply attrs_ok_cons in Hok. destruct Hok as (Ha & Hes & Hok).
    cbn [flat_map] in *. rewrite app_length in Hpos.
    rewrite rev_app_distr, spec_events_rev_cons, <- !app_assoc.
    apply (IH (pre ++ layout_sub s) post); auto.
    + rewrite HP. norm_app. reflexivity.
    + rewrite app_length. lia.
    + apply (rev_walk_sub s pre (flat_map layout_sub prog ++ post)); auto.
      * rewrite HP. norm_app. reflexivity.
      * rewrite app_length. lia.
Qed.

End Rev.

Lemma reversed_layout n prog : attrs_ok n prog ->
  reversed (mkPath (flat_map layout_sub prog) (flat_map verbs_sub prog) n)
  = Some (spec_events (rev_prog prog)).
Proof.
  intros Hok. unfold reversed. cbn [p_verbs p_points].
  rewrite <- (app_nil_r (rev (flat_map verbs_sub prog))).
  rewrite <- (app_nil_r (spec_events (rev_prog prog))).
  apply (rev_walk_prog _ prog [] []); auto.
  cbn [p_points]. rewrite app_nil_r. reflexivity.
Qed.

Lemma reversed_spec : forall n prog, attrs_ok n prog ->
  reversed (build n (ops_of prog)) = Some (spec_events (rev_prog prog)).
Proof.
  intros n prog Hok. rewrite build_layout. apply reversed_layout; auto.
Qed.

Lemma reversed_twice : forall n prog evs, attrs_ok n prog ->
  reversed (build n (ops_of prog)) = Some evs ->
  reversed (build n (map op_of_event evs)) = Some (spec_events prog).
Proof.
  intros n prog evs Hok Hrev. rewrite (reversed_spec n prog Hok) in Hrev.
  injection Hrev as <-. rewrite ops_of_events.
  rewrite (reversed_spec n (rev_prog prog) (rev_prog_ok n prog Hok)).
  rewrite rev_prog_invol. reflexivity.
Qed.
