(* C11, cubic part: for_each_local_extremum, {min,max}imum_t, bounding ranges. *)
From Coq Require Import QArith Qminmax Lqa Lia.
From LV Require Import Base.Prelude Model.Bezier Proofs.C11_Quad.
Open Scope Q_scope.

(* same body as [sqrt_ok] of Props/C11.v (convertible) *)
Definition sqrt_ok (sq : Q -> Q) : Prop := forall d, 0 <= d -> 0 <= sq d /\ sq d * sq d == d.

(* The proofs below only use the oracle at the one discriminant the code feeds it.
   The numerically stable root formula (q := -(b + sign(b) s)/2, roots q/a and c/q) needs the
   oracle to return the NON-NEGATIVE root: with s < 0 (e.g. c = 0, b < 0, s = b) q can be 0 and
   both computed roots collapse to 0.  [sqrt_sq_at] is the sign-less form, enough for soundness. *)
Definition sqrt_ok_at (sq : Q -> Q) (d : Q) : Prop := 0 <= d -> 0 <= sq d /\ sq d * sq d == d.
Definition sqrt_sq_at (sq : Q -> Q) (d : Q) : Prop := 0 <= d -> sq d * sq d == d.

Global Instance c_coord_proper p0 p1 p2 p3 : Proper (Qeq ==> Qeq) (c_coord p0 p1 p2 p3).
Proof. intros a a' Ha. unfold c_coord. rewrite Ha. reflexivity. Qed.
Global Instance c_dpoly_proper p0 p1 p2 p3 : Proper (Qeq ==> Qeq) (c_dpoly p0 p1 p2 p3).
Proof. intros a a' Ha. unfold c_dpoly. rewrite Ha. reflexivity. Qed.

Lemma cubic_dpoly_is_derivative : forall p0 p1 p2 p3 t h,
  c_coord p0 p1 p2 p3 (t + h) - c_coord p0 p1 p2 p3 t
  == h * c_dpoly p0 p1 p2 p3 t
     + h * h * (3 * ((p2 - 2 * p1 + p0) * (1 - t) + (p3 - 2 * p2 + p1) * t))
     + h * h * h * (p3 - 3 * p2 + 3 * p1 - p0).
Proof. intros. unfold c_coord, c_dpoly. ring. Qed.

(* ------------------------------------------------ structure of the root list *)
Definition inr (t : Q) : list Q := if Qltb 0 t && Qltb t 1 then [t] else [].

Lemma In_inr e t : In e (inr t) <-> e = t /\ 0 < e /\ e < 1.
Proof.
  unfold inr. destruct (Qltb 0 t && Qltb t 1) eqn:E; cbn [In].
  - boolq. split.
    + intros [<-|[]]. auto.
    + intros (-> & _). auto.
  - split; [tauto|]. intros (-> & A & B).
    apply Qltb_true in A, B. rewrite A, B in E. discriminate.
Qed.

(* roots_spec ca cb cc L: L lists the roots in (0,1) of ca x^2 + cb x + cc, in one of four shapes *)
Definition roots_spec (ca cb cc : Q) (L : list Q) : Prop :=
  (ca == 0 /\ cb == 0 /\ L = []) \/
  (ca == 0 /\ ~ cb == 0 /\ exists r, r * cb == - cc /\
     forall e, In e L <-> e = r /\ 0 < e /\ e < 1) \/
  (~ ca == 0 /\ cb * cb - 4 * ca * cc < 0 /\ L = []) \/
  (~ ca == 0 /\ exists e1 e2,
     (forall x, ca * x * x + cb * x + cc == ca * (x - e1) * (x - e2)) /\
     forall e, In e L <-> (e = e1 \/ e = e2) /\ 0 < e /\ e < 1).

Lemma c_local_extrema_spec sq p0 p1 p2 p3 :
  let ca := 3 * (p3 + 3 * (p1 - p2) - p0) in
  let cb := 6 * (p2 - 2 * p1 + p0) in
  let cc := 3 * (p1 - p0) in
  sqrt_ok_at sq (cb * cb - 4 * ca * cc) ->
  roots_spec ca cb cc (c_local_extrema sq p0 p1 p2 p3).
Proof.
  intros ca cb cc Hsq. unfold c_local_extrema. fold ca cb cc. fold inr.
  change (fun t : Q => Qltb 0 t && Qltb t 1) with (fun t : Q => Qltb 0 t && Qltb t 1).
  cbv zeta.
  destruct (Qeq_bool ca 0) eqn:Ea; boolq.
  - destruct (Qeq_bool cb 0) eqn:Eb; cbn [negb]; boolq.
    + left. auto.
    + right; left. split; auto. split; auto. exists (- cc / cb). split; [field; auto|].
      intros e. apply In_inr.
  - set (disc := cb * cb - 4 * ca * cc) in *.
    destruct (Qltb disc 0) eqn:Ed; boolq.
    + right; right; left. auto.
    + right; right; right. split; auto.
      destruct (Qeq_bool disc 0) eqn:Ez; boolq.
      * exists (- cb / (2 * ca)), (- cb / (2 * ca)). split.
        -- intros x.
           assert (Hc : cc == cb * cb / (4 * ca)).
           { setoid_replace (cb * cb) with (4 * ca * cc) by (unfold disc in Ez; lra). field; auto. }
           rewrite Hc. field; auto.
        -- intros e. fold (inr (- cb / (2 * ca))). rewrite In_inr. tauto.
      * destruct Hsq as [Hs0 Hs]; [auto|].
        set (s := sq disc) in *.
        set (q := - (1 # 2) * (cb + (if Qle_bool 0 cb then 1 else - (1)) * s)).
        assert (Hq0 : ~ q == 0).
        { unfold q. destruct (Qle_bool 0 cb) eqn:Eb.
          - apply Qle_bool_iff in Eb.
            intros Hq. assert (Hs1 : s == 0) by lra. rewrite Hs1 in Hs. lra.
          - assert (Hb : cb < 0).
            { apply Qnot_le_lt. intros Hb. apply Qle_bool_iff in Hb. congruence. }
            lra. }
        assert (Hqq : q * q + cb * q + ca * cc == 0).
        { unfold q. unfold disc in Hs. destruct (Qle_bool 0 cb); lra. }
        assert (F : forall x, ca * x * x + cb * x + cc == ca * (x - q / ca) * (x - cc / q)).
        { intros x.
          assert (Hc : cc == - (q * q + cb * q) / ca).
          { apply Qmult_inj_r with ca; auto.
            setoid_replace (- (q * q + cb * q) / ca * ca) with (- (q * q + cb * q)) by (field; auto).
            lra. }
          rewrite Hc. field; auto. }
        clearbody q.
        destruct (Qltb (cc / q) (q / ca)) eqn:Esw.
        -- exists (cc / q), (q / ca). split.
           ++ intros x. rewrite F. ring.
           ++ intros e. rewrite in_app_iff.
              fold (inr (cc / q)). fold (inr (q / ca)).
              rewrite !In_inr. tauto.
        -- exists (q / ca), (cc / q). split; auto.
           intros e. rewrite in_app_iff.
           fold (inr (cc / q)). fold (inr (q / ca)).
           rewrite !In_inr. tauto.
Qed.

Lemma c_dpoly_abc p0 p1 p2 p3 t :
  c_dpoly p0 p1 p2 p3 t ==
  3 * (p3 + 3 * (p1 - p2) - p0) * t * t + 6 * (p2 - 2 * p1 + p0) * t + 3 * (p1 - p0).
Proof. reflexivity. Qed.

(* ------------------------------------------------ soundness / completeness *)
Lemma cubic_extrema_sound_at : forall sq p0 p1 p2 p3 t,
  sqrt_ok_at sq (6 * (p2 - 2 * p1 + p0) * (6 * (p2 - 2 * p1 + p0))
                 - 4 * (3 * (p3 + 3 * (p1 - p2) - p0)) * (3 * (p1 - p0))) ->
  In t (c_local_extrema sq p0 p1 p2 p3) -> 0 < t /\ t < 1 /\ c_dpoly p0 p1 p2 p3 t == 0.
Proof.
  intros sq p0 p1 p2 p3 t Hsq Hin.
  pose proof (c_local_extrema_spec sq p0 p1 p2 p3 Hsq) as S. cbv zeta in S.
  rewrite c_dpoly_abc.
  set (ca := 3 * (p3 + 3 * (p1 - p2) - p0)) in *.
  set (cb := 6 * (p2 - 2 * p1 + p0)) in *.
  set (cc := 3 * (p1 - p0)) in *.
  destruct S as [(_ & _ & L)|[(A & B & r & Hr & L)|[(_ & _ & L)|(A & e1 & e2 & F & L)]]].
  - rewrite L in Hin. destruct Hin.
  - apply L in Hin. destruct Hin as (-> & H0 & H1). repeat split; auto.
    rewrite A. lra.
  - rewrite L in Hin. destruct Hin.
  - apply L in Hin. destruct Hin as (He & H0 & H1). repeat split; auto.
    rewrite F. destruct He as [-> | ->]; ring.
Qed.

Lemma cubic_extrema_complete_at : forall sq p0 p1 p2 p3 t,
  sqrt_ok_at sq (6 * (p2 - 2 * p1 + p0) * (6 * (p2 - 2 * p1 + p0))
                 - 4 * (3 * (p3 + 3 * (p1 - p2) - p0)) * (3 * (p1 - p0))) ->
  0 < t -> t < 1 -> c_dpoly p0 p1 p2 p3 t == 0 ->
  ~ (p3 + 3 * (p1 - p2) - p0 == 0 /\ p2 - 2 * p1 + p0 == 0) ->
  exists t', In t' (c_local_extrema sq p0 p1 p2 p3) /\ t' == t.
Proof.
  intros sq p0 p1 p2 p3 t Hsq H0 H1 HD Hn.
  pose proof (c_local_extrema_spec sq p0 p1 p2 p3 Hsq) as S. cbv zeta in S.
  rewrite c_dpoly_abc in HD.
  set (ca := 3 * (p3 + 3 * (p1 - p2) - p0)) in *.
  set (cb := 6 * (p2 - 2 * p1 + p0)) in *.
  set (cc := 3 * (p1 - p0)) in *.
  destruct S as [(A & B & L)|[(A & B & r & Hr & L)|[(A & B & L)|(A & e1 & e2 & F & L)]]].
  - exfalso. apply Hn. unfold ca in A. unfold cb in B. split; lra.
  - assert (E : r == t).
    { apply Qmult_inj_r with cb; auto. rewrite A in HD. lra. }
    exists r. split; auto. apply L. split; [auto|rewrite E; auto].
  - exfalso.
    assert (E : 4 * ca * (ca * t * t + cb * t + cc) ==
                (2 * ca * t + cb) * (2 * ca * t + cb) - (cb * cb - 4 * ca * cc)) by ring.
    rewrite HD in E. pose proof (sq_nonneg (2 * ca * t + cb)). lra.
  - rewrite F in HD. apply Qmult_integral in HD. destruct HD as [HD|HD].
    + apply Qmult_integral in HD. destruct HD as [HD|HD]; [tauto|].
      exists e1. assert (E : e1 == t) by lra. split; auto. apply L. split; [auto|rewrite E; auto].
    + exists e2. assert (E : e2 == t) by lra. split; auto. apply L. split; [auto|rewrite E; auto].
Qed.

Lemma sqrt_ok_at_of_ok sq d : sqrt_ok sq -> sqrt_ok_at sq d.
Proof. intros H Hd. apply (H d Hd). Qed.

Lemma cubic_extrema_sound : forall sq p0 p1 p2 p3 t, sqrt_ok sq ->
  In t (c_local_extrema sq p0 p1 p2 p3) -> 0 < t /\ t < 1 /\ c_dpoly p0 p1 p2 p3 t == 0.
Proof. intros sq p0 p1 p2 p3 t H. apply cubic_extrema_sound_at, sqrt_ok_at_of_ok, H. Qed.

Lemma cubic_extrema_complete : forall sq p0 p1 p2 p3 t, sqrt_ok sq ->
  0 < t -> t < 1 -> c_dpoly p0 p1 p2 p3 t == 0 ->
  ~ (p3 + 3 * (p1 - p2) - p0 == 0 /\ p2 - 2 * p1 + p0 == 0) ->
  exists t', In t' (c_local_extrema sq p0 p1 p2 p3) /\ t' == t.
Proof. intros sq p0 p1 p2 p3 t H. apply cubic_extrema_complete_at, sqrt_ok_at_of_ok, H. Qed.

(* Why [sqrt_ok_at] asks for 0 <= sq d: with a negative "square root" the stable formula can lose a
   root.  p = (0, 0, -1, 1): a = 12, b = -6, c = 0, disc = 36; with sq disc = -6 (whose square is 36)
   q = -(b - s)/2 = 0, so e1 = 0/a = 0 and e2 = c/0 = 0, and the root 1/2 of the derivative is not
   reported; the "exact" bounding range then misses the value -1/4 taken at 1/2. *)
Lemma cubic_extrema_needs_nonneg_sqrt :
  let sq := fun _ : Q => - (6) in
  let p0 := 0 in let p1 := 0 in let p2 := - (1) in let p3 := 1 in
  sqrt_sq_at sq (6 * (p2 - 2 * p1 + p0) * (6 * (p2 - 2 * p1 + p0))
                 - 4 * (3 * (p3 + 3 * (p1 - p2) - p0)) * (3 * (p1 - p0))) /\
  0 < 1 # 2 /\ 1 # 2 < 1 /\ c_dpoly p0 p1 p2 p3 (1 # 2) == 0 /\
  ~ (p3 + 3 * (p1 - p2) - p0 == 0 /\ p2 - 2 * p1 + p0 == 0) /\
  c_local_extrema sq p0 p1 p2 p3 = [] /\
  ~ fst (c_bounding_range sq p0 p1 p2 p3) <= c_coord p0 p1 p2 p3 (1 # 2).
Proof.
  cbv zeta. split; [intros _; vm_compute; reflexivity|].
  split; [reflexivity|]. split; [reflexivity|]. split; [vm_compute; reflexivity|].
  split; [intros [A _]; vm_compute in A; discriminate|].
  split; [vm_compute; reflexivity|].
  intros A. vm_compute in A. apply A. reflexivity.
Qed.

(* every listed parameter is in (0,1): needs nothing about the oracle *)
Lemma c_local_extrema_in_range sq p0 p1 p2 p3 e :
  In e (c_local_extrema sq p0 p1 p2 p3) -> 0 < e /\ e < 1.
Proof.
  unfold c_local_extrema. cbv zeta.
  repeat match goal with
  | |- context [if ?b then _ else _] => destruct b eqn:?
  end; cbn [app In]; intros H; repeat destruct H as [H|H]; try tauto; subst; boolq; auto.
Qed.

(* ------------------------------------------------ the folds of {max,min}imum_t *)
Section Fold.
  Variables p0 p1 p2 p3 : Q.
  Local Notation P := (c_coord p0 p1 p2 p3).

  Lemma P0 : P 0 == p0. Proof. unfold c_coord. ring. Qed.
  Lemma P1 : P 1 == p3. Proof. unfold c_coord. ring. Qed.

  Lemma fold_max_spec L : forall init,
    snd init == P (fst init) -> 0 <= fst init -> fst init <= 1 ->
    (forall e, In e L -> 0 < e /\ e < 1) ->
    let r := fold_left (fun (acc : Q * Q) t =>
                          let v := c_coord p0 p1 p2 p3 t in
                          if Qltb (snd acc) v then (t, v) else acc) L init in
    snd r == P (fst r) /\ 0 <= fst r /\ fst r <= 1 /\ snd init <= snd r /\
    forall e, In e L -> P e <= snd r.
  Proof.
    induction L as [|x L IH]; intros init Hv H0 H1 HL; cbn [fold_left].
    - cbv zeta. repeat split; auto. lra. intros e [].
    - cbv zeta.
      assert (Hx : 0 < x /\ x < 1) by (apply HL; left; auto).
      assert (HL' : forall e, In e L -> 0 < e /\ e < 1) by (intros e He; apply HL; right; auto).
      destruct (Qltb (snd init) (P x)) eqn:E; boolq.
      + specialize (IH (x, P x)). cbv zeta in IH. cbn [fst snd] in IH.
        destruct IH as (A & B & C & D & F); [reflexivity|lra|lra|exact HL'|].
        split; [exact A|]. split; [exact B|]. split; [exact C|]. split; [lra|].
        intros e [<-|He]; auto.
      + specialize (IH init Hv H0 H1 HL'). cbv zeta in IH. destruct IH as (A & B & C & D & F).
        split; [exact A|]. split; [exact B|]. split; [exact C|]. split; [exact D|].
        intros e [<-|He]; auto. lra.
  Qed.

  Lemma fold_min_spec L : forall init,
    snd init == P (fst init) -> 0 <= fst init -> fst init <= 1 ->
    (forall e, In e L -> 0 < e /\ e < 1) ->
    let r := fold_left (fun (acc : Q * Q) t =>
                          let v := c_coord p0 p1 p2 p3 t in
                          if Qltb v (snd acc) then (t, v) else acc) L init in
    snd r == P (fst r) /\ 0 <= fst r /\ fst r <= 1 /\ snd r <= snd init /\
    forall e, In e L -> snd r <= P e.
  Proof.
    induction L as [|x L IH]; intros init Hv H0 H1 HL; cbn [fold_left].
    - cbv zeta. repeat split; auto. lra. intros e [].
    - cbv zeta.
      assert (Hx : 0 < x /\ x < 1) by (apply HL; left; auto).
      assert (HL' : forall e, In e L -> 0 < e /\ e < 1) by (intros e He; apply HL; right; auto).
      destruct (Qltb (P x) (snd init)) eqn:E; boolq.
      + specialize (IH (x, P x)). cbv zeta in IH. cbn [fst snd] in IH.
        destruct IH as (A & B & C & D & F); [reflexivity|lra|lra|exact HL'|].
        split; [exact A|]. split; [exact B|]. split; [exact C|]. split; [lra|].
        intros e [<-|He]; auto.
      + specialize (IH init Hv H0 H1 HL'). cbv zeta in IH. destruct IH as (A & B & C & D & F).
        split; [exact A|]. split; [exact B|]. split; [exact C|]. split; [exact D|].
        intros e [<-|He]; auto. lra.
  Qed.
End Fold.

Lemma c_maximum_spec sq p0 p1 p2 p3 :
  let P := c_coord p0 p1 p2 p3 in
  let m := c_maximum_t sq p0 p1 p2 p3 in
  0 <= m /\ m <= 1 /\ P 0 <= P m /\ P 1 <= P m /\
  forall e, In e (c_local_extrema sq p0 p1 p2 p3) -> P e <= P m.
Proof.
  intros P m. unfold m, c_maximum_t.
  set (init := if Qltb p0 p3 then (1, p3) else (0, p0)).
  assert (I : snd init == P (fst init) /\ 0 <= fst init /\ fst init <= 1 /\
              p0 <= snd init /\ p3 <= snd init).
  { unfold init. destruct (Qltb p0 p3) eqn:E; boolq; cbn [fst snd]; unfold P.
    - rewrite (P1 p0 p1 p2 p3). repeat split; lra.
    - rewrite (P0 p0 p1 p2 p3). repeat split; lra. }
  destruct I as (I1 & I2 & I3 & I4 & I5).
  pose proof (fold_max_spec p0 p1 p2 p3 (c_local_extrema sq p0 p1 p2 p3) init I1 I2 I3
                (c_local_extrema_in_range sq p0 p1 p2 p3)) as F.
  cbv zeta in F. destruct F as (A & B & C & D & F).
  subst P. rewrite <- A. rewrite (P0 p0 p1 p2 p3), (P1 p0 p1 p2 p3).
  repeat split; auto; try lra.
  intros e He. rewrite <- A. auto.
Qed.

Lemma c_minimum_spec sq p0 p1 p2 p3 :
  let P := c_coord p0 p1 p2 p3 in
  let m := c_minimum_t sq p0 p1 p2 p3 in
  0 <= m /\ m <= 1 /\ P m <= P 0 /\ P m <= P 1 /\
  forall e, In e (c_local_extrema sq p0 p1 p2 p3) -> P m <= P e.
Proof.
  intros P m. unfold m, c_minimum_t.
  set (init := if Qltb p3 p0 then (1, p3) else (0, p0)).
  assert (I : snd init == P (fst init) /\ 0 <= fst init /\ fst init <= 1 /\
              snd init <= p0 /\ snd init <= p3).
  { unfold init. destruct (Qltb p3 p0) eqn:E; boolq; cbn [fst snd]; unfold P.
    - rewrite (P1 p0 p1 p2 p3). repeat split; lra.
    - rewrite (P0 p0 p1 p2 p3). repeat split; lra. }
  destruct I as (I1 & I2 & I3 & I4 & I5).
  pose proof (fold_min_spec p0 p1 p2 p3 (c_local_extrema sq p0 p1 p2 p3) init I1 I2 I3
                (c_local_extrema_in_range sq p0 p1 p2 p3)) as F.
  cbv zeta in F. destruct F as (A & B & C & D & F).
  subst P. rewrite <- A. rewrite (P0 p0 p1 p2 p3), (P1 p0 p1 p2 p3).
  repeat split; auto; try lra.
  intros e He. rewrite <- A. auto.
Qed.

Lemma cubic_range_tight : forall sq p0 p1 p2 p3, sqrt_ok sq ->
  (0 <= c_minimum_t sq p0 p1 p2 p3 /\ c_minimum_t sq p0 p1 p2 p3 <= 1) /\
  (0 <= c_maximum_t sq p0 p1 p2 p3 /\ c_maximum_t sq p0 p1 p2 p3 <= 1).
Proof.
  intros sq p0 p1 p2 p3 _.
  pose proof (c_minimum_spec sq p0 p1 p2 p3) as A. pose proof (c_maximum_spec sq p0 p1 p2 p3) as B.
  cbv zeta in A, B. tauto.
Qed.

(* the same fact without any hypothesis on the oracle *)
Lemma cubic_range_tight_any : forall sq p0 p1 p2 p3,
  (0 <= c_minimum_t sq p0 p1 p2 p3 /\ c_minimum_t sq p0 p1 p2 p3 <= 1) /\
  (0 <= c_maximum_t sq p0 p1 p2 p3 /\ c_maximum_t sq p0 p1 p2 p3 <= 1).
Proof.
  intros sq p0 p1 p2 p3.
  pose proof (c_minimum_spec sq p0 p1 p2 p3) as A. pose proof (c_maximum_spec sq p0 p1 p2 p3) as B.
  cbv zeta in A, B. tauto.
Qed.


(* ------------------------------------------------ convex hull *)
Lemma c_coord_hull_lo p0 p1 p2 p3 lo s :
  lo <= p0 -> lo <= p1 -> lo <= p2 -> lo <= p3 -> 0 <= s -> s <= 1 -> lo <= c_coord p0 p1 p2 p3 s.
Proof.
  intros A B C D H0 H1.
  assert (E : c_coord p0 p1 p2 p3 s - lo ==
              (p0 - lo) * ((1 - s) * (1 - s) * (1 - s)) + 3 * ((p1 - lo) * ((1 - s) * (1 - s) * s))
              + 3 * ((p2 - lo) * ((1 - s) * (s * s))) + (p3 - lo) * (s * s * s))
    by (unfold c_coord; ring).
  assert (0 <= (1 - s) * (1 - s)) by apply sq_nonneg.
  assert (0 <= s * s) by apply sq_nonneg.
  assert (0 <= (p0 - lo) * ((1 - s) * (1 - s) * (1 - s)))
    by (apply Qmult_le_0_compat; [lra|apply Qmult_le_0_compat; lra]).
  assert (0 <= (p1 - lo) * ((1 - s) * (1 - s) * s))
    by (apply Qmult_le_0_compat; [lra|apply Qmult_le_0_compat; lra]).
  assert (0 <= (p2 - lo) * ((1 - s) * (s * s)))
    by (apply Qmult_le_0_compat; [lra|apply Qmult_le_0_compat; lra]).
  assert (0 <= (p3 - lo) * (s * s * s))
    by (apply Qmult_le_0_compat; [lra|apply Qmult_le_0_compat; lra]).
  lra.
Qed.

Lemma c_coord_hull_hi p0 p1 p2 p3 hi s :
  p0 <= hi -> p1 <= hi -> p2 <= hi -> p3 <= hi -> 0 <= s -> s <= 1 -> c_coord p0 p1 p2 p3 s <= hi.
Proof.
  intros A B C D H0 H1.
  assert (E : hi - c_coord p0 p1 p2 p3 s ==
              (hi - p0) * ((1 - s) * (1 - s) * (1 - s)) + 3 * ((hi - p1) * ((1 - s) * (1 - s) * s))
              + 3 * ((hi - p2) * ((1 - s) * (s * s))) + (hi - p3) * (s * s * s))
    by (unfold c_coord; ring).
  assert (0 <= (1 - s) * (1 - s)) by apply sq_nonneg.
  assert (0 <= s * s) by apply sq_nonneg.
  assert (0 <= (hi - p0) * ((1 - s) * (1 - s) * (1 - s)))
    by (apply Qmult_le_0_compat; [lra|apply Qmult_le_0_compat; lra]).
  assert (0 <= (hi - p1) * ((1 - s) * (1 - s) * s))
    by (apply Qmult_le_0_compat; [lra|apply Qmult_le_0_compat; lra]).
  assert (0 <= (hi - p2) * ((1 - s) * (s * s)))
    by (apply Qmult_le_0_compat; [lra|apply Qmult_le_0_compat; lra]).
  assert (0 <= (hi - p3) * (s * s * s))
    by (apply Qmult_le_0_compat; [lra|apply Qmult_le_0_compat; lra]).
  lra.
Qed.

Lemma cubic_fast_contains : forall p0 p1 p2 p3 t, 0 <= t -> t <= 1 ->
  fst (c_fast_bounding_range p0 p1 p2 p3) <= c_coord p0 p1 p2 p3 t /\
  c_coord p0 p1 p2 p3 t <= snd (c_fast_bounding_range p0 p1 p2 p3).
Proof.
  intros p0 p1 p2 p3 t H0 H1. unfold c_fast_bounding_range; cbn [fst snd]. split.
  - apply c_coord_hull_lo; auto.
    + eapply Qle_trans; [apply Q.le_min_l|]. eapply Qle_trans; [apply Q.le_min_l|]. apply Q.le_min_l.
    + eapply Qle_trans; [apply Q.le_min_l|]. eapply Qle_trans; [apply Q.le_min_l|]. apply Q.le_min_r.
    + eapply Qle_trans; [apply Q.le_min_l|]. apply Q.le_min_r.
    + apply Q.le_min_r.
  - apply c_coord_hull_hi; auto.
    + eapply Qle_trans; [|apply Q.le_max_l]. eapply Qle_trans; [|apply Q.le_max_l]. apply Q.le_max_l.
    + eapply Qle_trans; [|apply Q.le_max_l]. eapply Qle_trans; [|apply Q.le_max_l]. apply Q.le_max_r.
    + eapply Qle_trans; [|apply Q.le_max_l]. apply Q.le_max_r.
    + apply Q.le_max_r.
Qed.
