(* C10: derived curve operations agree with sampling - polynomial identities over Q,
   for ALL control points (degenerate included) and ALL parameters. *)
From Coq Require Import QArith Lia.
From LV Require Import Base.Prelude Model.Bezier.
Open Scope Q_scope.

Ltac unf :=
  cbv beta iota zeta delta [peq l_sample l_x l_y l_flip l_split_range l_split l_before_split l_after_split
    l_transformed l_derivative
    q_sample q_x q_y q_coord q_derivative q_flip q_split_range q_split q_before_split
    q_after_split q_transformed q_to_cubic
    c_sample c_x c_y c_coord c_derivative c_flip c_split_range c_split c_before_split
    c_after_split c_transformed c_to_quadratic
    aff_apply plerp padd psub pscale pdiv px py
    fst snd l_from l_to q_from q_ctrl q_to c_from c_ctrl1 c_ctrl2 c_to m11 m12 m21 m22 m31 m32].

Ltac poly := intros; unf; split; ring.
Ltac polyf := intros; unf; split; field.

(* ---- line ---- *)
Lemma line_split_l l t u : l_sample (fst (l_split l t)) u =p= l_sample l (t * u).
Proof. poly. Qed.
Lemma line_split_r l t u : l_sample (snd (l_split l t)) u =p= l_sample l (t + (1 - t) * u).
Proof. poly. Qed.
Lemma line_before_split l t u : l_sample (l_before_split l t) u =p= l_sample l (t * u).
Proof. poly. Qed.
Lemma line_after_split l t u : l_sample (l_after_split l t) u =p= l_sample l (t + (1 - t) * u).
Proof. poly. Qed.
Lemma line_split_range l a b u : l_sample (l_split_range l a b) u =p= l_sample l (a + (b - a) * u).
Proof. poly. Qed.
Lemma line_flip l u : l_sample (l_flip l) u =p= l_sample l (1 - u).
Proof. poly. Qed.
Lemma line_transformed m l t : l_sample (l_transformed m l) t =p= aff_apply m (l_sample l t).
Proof. poly. Qed.
Lemma line_xy l t : l_sample l t =p= (l_x l t, l_y l t).
Proof. poly. Qed.
Lemma line_derivative l t h :
  psub (l_sample l (t + h)) (l_sample l t) =p= pscale (l_derivative l) h.
Proof. poly. Qed.

(* ---- quadratic ---- *)
Lemma quad_split_l c t u : q_sample (fst (q_split c t)) u =p= q_sample c (t * u).
Proof. poly. Qed.
Lemma quad_split_r c t u : q_sample (snd (q_split c t)) u =p= q_sample c (t + (1 - t) * u).
Proof. poly. Qed.
Lemma quad_before_split c t u : q_sample (q_before_split c t) u =p= q_sample c (t * u).
Proof. poly. Qed.
Lemma quad_after_split c t u : q_sample (q_after_split c t) u =p= q_sample c (t + (1 - t) * u).
Proof. poly. Qed.
Lemma quad_split_range c a b u : q_sample (q_split_range c a b) u =p= q_sample c (a + (b - a) * u).
Proof. poly. Qed.
Lemma quad_flip c u : q_sample (q_flip c) u =p= q_sample c (1 - u).
Proof. poly. Qed.
Lemma quad_transformed m c t : q_sample (q_transformed m c) t =p= aff_apply m (q_sample c t).
Proof. poly. Qed.
Lemma quad_xy c t : q_sample c t =p= (q_x c t, q_y c t).
Proof. poly. Qed.
Lemma quad_to_cubic c t : c_sample (q_to_cubic c) t =p= q_sample c t.
Proof. polyf. Qed.
(* second-order remainder: from - 2 ctrl + to *)
Definition q_second (c : quad) : qpt :=
  padd (psub (q_from c) (pscale (q_ctrl c) 2)) (q_to c).
Lemma quad_derivative c t h :
  psub (q_sample c (t + h)) (q_sample c t)
  =p= padd (pscale (q_derivative c t) h) (pscale (q_second c) (h * h)).
Proof. unfold q_second. poly. Qed.
Lemma quad_endpoints c : q_sample c 0 =p= q_from c /\ q_sample c 1 =p= q_to c.
Proof. split; poly. Qed.

(* ---- cubic ---- *)
Lemma cubic_split_l c t u : c_sample (fst (c_split c t)) u =p= c_sample c (t * u).
Proof. poly. Qed.
Lemma cubic_split_r c t u : c_sample (snd (c_split c t)) u =p= c_sample c (t + (1 - t) * u).
Proof. poly. Qed.
Lemma cubic_before_split c t u : c_sample (c_before_split c t) u =p= c_sample c (t * u).
Proof. poly. Qed.
Lemma cubic_after_split c t u : c_sample (c_after_split c t) u =p= c_sample c (t + (1 - t) * u).
Proof. poly. Qed.
Lemma cubic_split_range c a b u : c_sample (c_split_range c a b) u =p= c_sample c (a + (b - a) * u).
Proof. poly. Qed.
Lemma cubic_flip c u : c_sample (c_flip c) u =p= c_sample c (1 - u).
Proof. poly. Qed.
Lemma cubic_transformed m c t : c_sample (c_transformed m c) t =p= aff_apply m (c_sample c t).
Proof. poly. Qed.
Lemma cubic_xy c t : c_sample c t =p= (c_x c t, c_y c t).
Proof. poly. Qed.
(* remainder terms of the Taylor expansion: sample(t+h) - sample(t) = h D(t) + h^2 A(t) + h^3 B *)
Definition c_second (c : cubic) (t : Q) : qpt :=
  padd (pscale (padd (psub (c_ctrl2 c) (pscale (c_ctrl1 c) 2)) (c_from c)) (3 * (1 - t)))
       (pscale (padd (psub (c_to c) (pscale (c_ctrl2 c) 2)) (c_ctrl1 c)) (3 * t)).
Definition c_third (c : cubic) : qpt :=
  psub (padd (psub (c_to c) (pscale (c_ctrl2 c) 3)) (pscale (c_ctrl1 c) 3)) (c_from c).
Lemma cubic_derivative c t h :
  psub (c_sample c (t + h)) (c_sample c t)
  =p= padd (padd (pscale (c_derivative c t) h) (pscale (c_second c t) (h * h)))
           (pscale (c_third c) (h * h * h)).
Proof. unfold c_second, c_third. poly. Qed.
Lemma cubic_endpoints c : c_sample c 0 =p= c_from c /\ c_sample c 1 =p= c_to c.
Proof. split; poly. Qed.
(* a cubic that is an elevated quadratic is recovered by to_quadratic *)
Lemma cubic_to_quadratic_of_elevated q t :
  q_sample (c_to_quadratic (q_to_cubic q)) t =p= q_sample q t.
Proof. polyf. Qed.
