(* Proofs for C12: QuadraticBezierSegment::line_intersections_t (Model/QuadLine.v) over the rationals with a
   square-root oracle: the polynomial is the signed distance, soundness, completeness, strict ordering, and the
   refutation of the pinned linear branch (c / b instead of - c / b). *)
From Coq Require Import QArith Qabs Lia Lqa List Sorted.
From LV Require Import Base.Prelude Model.Bezier Model.LineInter Model.QuadLine.
Open Scope Q_scope.

(* ------------------------------------------------------------ boolean tests *)
Lemma ql_Qltb_true a b : Qltb a b = true <-> a < b.
Proof.
  unfold Qltb. rewrite negb_true_iff. split.
  - intros H. apply Qnot_le_lt. intro H1. apply Qle_bool_iff in H1. congruence.
  - intros H. destruct (Qle_bool b a) eqn:E; auto.
    apply Qle_bool_iff in E. exfalso. exact (Qlt_not_le _ _ H E).
Qed.

Lemma ql_Qltb_false a b : Qltb a b = false <-> b <= a.
Proof. unfold Qltb. rewrite negb_false_iff. apply Qle_bool_iff. Qed.

Lemma ql_Qeq_bool_false a b : Qeq_bool a b = false <-> ~ a == b.
Proof.
  split.
  - apply Qeq_bool_neq.
  - intros H. destruct (Qeq_bool a b) eqn:E; auto. apply Qeq_bool_iff in E. contradiction.
Qed.

Lemma ql_Qle_bool_false a b : Qle_bool a b = false <-> b < a.
Proof.
  split.
  - intros H. apply Qnot_le_lt. intro H1. apply Qle_bool_iff in H1. congruence.
  - intros H. destruct (Qle_bool a b) eqn:E; auto.
    apply Qle_bool_iff in E. exfalso. exact (Qlt_not_le _ _ H E).
Qed.

Lemma in01_true t : in01 t = true <-> 0 <= t /\ t <= 1.
Proof. unfold in01. rewrite andb_true_iff, !Qle_bool_iff. tauto. Qed.

(* ------------------------------------------------------------ the polynomial *)
Lemma q_line_poly_spec : forall c ea eb ec t,
  let '(a, b, cc) := q_line_poly c ea eb ec in
  ea * px (q_sample c t) + eb * py (q_sample c t) + ec == a * t * t + b * t + cc.
Proof.
  intros c ea eb ec t. unfold q_line_poly, q_sample, padd, pscale, px, py. cbn [fst snd]. ring.
Qed.

(* ------------------------------------------------------------ the code on abstract coefficients *)
Definition ql_pair (t1 t2 : Q) : list Q :=
  let lo := if Qltb t2 t1 then t2 else t1 in
  let hi := if Qltb t2 t1 then t1 else t2 in
  (if in01 lo then [lo] else [])
  ++ (if in01 hi && negb (Qeq_bool lo hi) then [hi] else []).

Definition ql_t1 (sq : Q -> Q) (a b cc : Q) : Q :=
  (- b + - (qsignum b) * sq (b * b - 4 * a * cc)) / (2 * a).

Definition ql_core (lin : Q -> Q -> Q) (sq : Q -> Q) (a b cc : Q) : list Q :=
  if Qeq_bool a 0 then
    if Qeq_bool b 0 then []
    else if in01 (lin b cc) then [lin b cc] else []
  else
    if Qle_bool 0 (b * b - 4 * a * cc) then
      if Qeq_bool (ql_t1 sq a b cc) 0 then [0]
      else ql_pair (ql_t1 sq a b cc) (cc / (a * ql_t1 sq a b cc))
    else [].

Lemma q_line_gen_core lin sq c ea eb ec :
  q_line_intersections_gen lin sq c ea eb ec
  = let '(a, b, cc) := q_line_poly c ea eb ec in ql_core lin sq a b cc.
Proof. reflexivity. Qed.

Lemma q_line_delta_core c ea eb ec :
  q_line_delta c ea eb ec = let '(a, b, cc) := q_line_poly c ea eb ec in b * b - 4 * a * cc.
Proof. reflexivity. Qed.

(* ------------------------------------------------------------ the pair lo / hi *)
Lemma ql_pair_in t1 t2 t : In t (ql_pair t1 t2) -> (t = t1 \/ t = t2) /\ 0 <= t /\ t <= 1.
Proof.
  unfold ql_pair. intros Hin. apply in_app_or in Hin.
  destruct (Qltb t2 t1) eqn:Elt.
  - destruct Hin as [Hin|Hin].
    + destruct (in01 t2) eqn:E; [|destruct Hin]. destruct Hin as [<-|[]].
      apply in01_true in E. tauto.
    + destruct (in01 t1) eqn:E; cbn [andb] in Hin; [|destruct Hin].
      destruct (negb (Qeq_bool t2 t1)); [|destruct Hin]. destruct Hin as [<-|[]].
      apply in01_true in E. tauto.
  - destruct Hin as [Hin|Hin].
    + destruct (in01 t1) eqn:E; [|destruct Hin]. destruct Hin as [<-|[]].
      apply in01_true in E. tauto.
    + destruct (in01 t2) eqn:E; cbn [andb] in Hin; [|destruct Hin].
      destruct (negb (Qeq_bool t1 t2)); [|destruct Hin]. destruct Hin as [<-|[]].
      apply in01_true in E. tauto.
Qed.

Lemma in01_eq t u : t == u -> 0 <= u -> u <= 1 -> in01 t = true.
Proof. intros He H0 H1. apply in01_true. rewrite He. tauto. Qed.

(* the smaller one is reported when in range; the larger when in range and different from the smaller *)
Lemma ql_lohi_complete lo hi t : 0 <= t -> t <= 1 -> (t == lo \/ t == hi) ->
  exists t', In t' ((if in01 lo then [lo] else []) ++ (if in01 hi && negb (Qeq_bool lo hi) then [hi] else []))
             /\ t' == t.
Proof.
  intros H0 H1 [He|He].
  - exists lo. split; [|symmetry; exact He]. apply in_or_app. left.
    rewrite (in01_eq lo t) by (auto; symmetry; exact He). left. reflexivity.
  - destruct (Qeq_bool lo hi) eqn:Eq.
    + apply Qeq_bool_iff in Eq. exists lo. split; [|rewrite Eq; symmetry; exact He].
      apply in_or_app. left.
      rewrite (in01_eq lo t) by (auto; rewrite Eq; symmetry; exact He). left. reflexivity.
    + exists hi. split; [|symmetry; exact He]. apply in_or_app. right.
      rewrite (in01_eq hi t) by (auto; symmetry; exact He). cbn [andb negb]. left. reflexivity.
Qed.

Lemma ql_pair_complete t1 t2 t : 0 <= t -> t <= 1 -> (t == t1 \/ t == t2) ->
  exists t', In t' (ql_pair t1 t2) /\ t' == t.
Proof.
  intros H0 H1 He. unfold ql_pair. cbv zeta.
  apply ql_lohi_complete; auto. destruct (Qltb t2 t1); tauto.
Qed.

Lemma ql_pair_sorted t1 t2 : StronglySorted Qlt (ql_pair t1 t2).
Proof.
  unfold ql_pair. cbv zeta.
  assert (Hlt : Qeq_bool (if Qltb t2 t1 then t2 else t1) (if Qltb t2 t1 then t1 else t2) = false ->
                (if Qltb t2 t1 then t2 else t1) < (if Qltb t2 t1 then t1 else t2)).
  { intros Hne. apply ql_Qeq_bool_false in Hne. destruct (Qltb t2 t1) eqn:Elt.
    - apply ql_Qltb_true in Elt. exact Elt.
    - apply ql_Qltb_false in Elt. destruct (Qlt_le_dec t1 t2) as [H|H]; auto.
      exfalso. apply Hne. lra. }
  set (lo := if Qltb t2 t1 then t2 else t1) in *. set (hi := if Qltb t2 t1 then t1 else t2) in *.
  destruct (in01 lo); destruct (in01 hi); cbn [andb]; try destruct (Qeq_bool lo hi) eqn:Eq; cbn [negb app];
    repeat constructor.
  apply Hlt. reflexivity.
Qed.

(* ------------------------------------------------------------ algebra of the quadratic branch *)
Lemma qsignum_sq b : qsignum b * qsignum b == 1.
Proof. unfold qsignum. destruct (Qltb b 0); ring. Qed.

Section Quadratic.
  Variables (sq : Q -> Q) (a b cc : Q).
  Hypothesis Ha : ~ a == 0.
  Let delta := b * b - 4 * a * cc.
  Hypothesis Hd : 0 <= delta.
  Hypothesis Hsq : sqrt_ok_at sq delta.
  Let t1 := ql_t1 sq a b cc.

  Lemma ql_sd_nonneg : 0 <= sq delta.
  Proof. exact (proj1 (Hsq Hd)). Qed.

  Lemma ql_sd_sq : sq delta * sq delta == delta.
  Proof. exact (proj2 (Hsq Hd)). Qed.

  Lemma ql_t1_eq : 2 * a * t1 == - b + - (qsignum b) * sq delta.
  Proof. unfold t1, ql_t1. fold delta. field. exact Ha. Qed.

  Lemma ql_t1_root : a * t1 * t1 + b * t1 + cc == 0.
  Proof.
    pose proof ql_t1_eq as Hu. pose proof ql_sd_sq as Hs. pose proof (qsignum_sq b) as Hg.
    set (s := sq delta) in *. set (g := qsignum b) in *.
    assert (H4 : 4 * a * (a * t1 * t1 + b * t1 + cc) == 0).
    { assert (E1 : 4 * a * (a * t1 * t1 + b * t1 + cc)
                   == (2 * a * t1) * (2 * a * t1) + 2 * b * (2 * a * t1) + 4 * a * cc) by ring.
      rewrite E1, Hu.
      assert (E2 : (- b + - g * s) * (- b + - g * s) + 2 * b * (- b + - g * s) + 4 * a * cc
                   == (g * g) * (s * s) - (b * b - 4 * a * cc)) by ring.
      rewrite E2, Hg, Hs. unfold delta. ring. }
    apply Qmult_integral in H4. destruct H4 as [H4|H4]; [|exact H4].
    exfalso. apply Ha. lra.
  Qed.

  (* t1 = 0 only when b = 0 and cc = 0 *)
  Lemma ql_t1_zero : t1 == 0 -> b == 0 /\ cc == 0.
  Proof.
    intros Hz. pose proof ql_t1_eq as Hu. pose proof ql_sd_nonneg as Hn. pose proof ql_sd_sq as Hs.
    rewrite Hz in Hu. unfold qsignum in Hu.
    set (s := sq delta) in *.
    assert (Hb : b == 0 /\ s == 0).
    { destruct (Qltb b 0) eqn:E.
      - apply ql_Qltb_true in E. exfalso. lra.
      - apply ql_Qltb_false in E. split; lra. }
    destruct Hb as [Hb Hs0]. split; [exact Hb|].
    rewrite Hs0 in Hs. unfold delta in Hs. rewrite Hb in Hs.
    assert (Hac : a * cc == 0) by lra.
    apply Qmult_integral in Hac. destruct Hac as [Hac|Hac]; [contradiction|exact Hac].
  Qed.

  Hypothesis Ht1 : ~ t1 == 0.
  Let t2 := cc / (a * t1).

  Lemma ql_t2_eq : a * t1 * t2 == cc.
  Proof. unfold t2. field. split; assumption. Qed.

  (* Vieta: a (t1 + t2) = - b *)
  Lemma ql_vieta : a * t2 == - (a * t1 + b).
  Proof.
    pose proof ql_t1_root as Hr. pose proof ql_t2_eq as H2.
    assert (H : t1 * (a * t2 + (a * t1 + b)) == 0).
    { assert (E : t1 * (a * t2 + (a * t1 + b)) == a * t1 * t2 + (a * t1 * t1 + b * t1)) by ring.
      rewrite E, H2. lra. }
    apply Qmult_integral in H. destruct H as [H|H]; [contradiction|]. lra.
  Qed.

  Lemma ql_t2_root : a * t2 * t2 + b * t2 + cc == 0.
  Proof.
    pose proof ql_vieta as Hv. pose proof ql_t2_eq as H2.
    rewrite Hv. rewrite <- H2. ring.
  Qed.

  Lemma ql_roots_only t : a * t * t + b * t + cc == 0 -> t == t1 \/ t == t2.
  Proof.
    intros Hr. pose proof ql_t1_root as Hr1. pose proof ql_vieta as Hv.
    assert (H : (t - t1) * (a * t + (a * t1 + b)) == 0).
    { assert (E : (t - t1) * (a * t + (a * t1 + b))
                  == (a * t * t + b * t + cc) - (a * t1 * t1 + b * t1 + cc)) by ring.
      rewrite E, Hr, Hr1. ring. }
    apply Qmult_integral in H. destruct H as [H|H].
    - left. lra.
    - right. assert (H3 : a * (t - t2) == 0).
      { assert (E : a * (t - t2) == a * t - a * t2) by ring. rewrite E, Hv. lra. }
      apply Qmult_integral in H3. destruct H3 as [H3|H3]; [contradiction|lra].
  Qed.
End Quadratic.

(* a root forces a non-negative discriminant *)
Lemma ql_delta_nonneg a b cc t : a * t * t + b * t + cc == 0 -> 0 <= b * b - 4 * a * cc.
Proof.
  intros Hr.
  assert (E : b * b - 4 * a * cc == (2 * a * t + b) * (2 * a * t + b) - 4 * a * (a * t * t + b * t + cc)) by ring.
  rewrite E, Hr.
  assert (E2 : (2 * a * t + b) * (2 * a * t + b) - 4 * a * 0 == (2 * a * t + b) * (2 * a * t + b)) by ring.
  rewrite E2. set (u := 2 * a * t + b). nra.
Qed.

(* ------------------------------------------------------------ the three properties on abstract coefficients *)
Lemma ql_core_sound sq a b cc t :
  sqrt_ok_at sq (b * b - 4 * a * cc) ->
  In t (ql_core (fun b c => - c / b) sq a b cc) ->
  0 <= t /\ t <= 1 /\ a * t * t + b * t + cc == 0.
Proof.
  intros Hsq Hin. unfold ql_core in Hin.
  destruct (Qeq_bool a 0) eqn:Ea.
  - apply Qeq_bool_iff in Ea. destruct (Qeq_bool b 0) eqn:Eb; [destruct Hin|].
    apply ql_Qeq_bool_false in Eb.
    destruct (in01 (- cc / b)) eqn:E01; [|destruct Hin].
    destruct Hin as [<-|[]]. apply in01_true in E01. destruct E01 as [H0 H1].
    split; [exact H0|]. split; [exact H1|].
    assert (Hb : b * (- cc / b) == - cc) by (field; exact Eb).
    set (u := - cc / b) in *. rewrite Ea. lra.
  - apply ql_Qeq_bool_false in Ea.
    destruct (Qle_bool 0 (b * b - 4 * a * cc)) eqn:Ed; [|destruct Hin].
    apply Qle_bool_iff in Ed.
    destruct (Qeq_bool (ql_t1 sq a b cc) 0) eqn:E1.
    + apply Qeq_bool_iff in E1. destruct Hin as [<-|[]].
      destruct (ql_t1_zero sq a b cc Ea Ed Hsq E1) as [_ Hc].
      split; [lra|]. split; [lra|]. rewrite Hc. ring.
    + apply ql_Qeq_bool_false in E1. apply ql_pair_in in Hin.
      destruct Hin as [[-> | ->] [H0 H1]]; (split; [exact H0|]); (split; [exact H1|]).
      * exact (ql_t1_root sq a b cc Ea Ed Hsq).
      * exact (ql_t2_root sq a b cc Ea Ed Hsq E1).
Qed.

Lemma ql_core_complete sq a b cc t :
  sqrt_ok_at sq (b * b - 4 * a * cc) ->
  ~ (a == 0 /\ b == 0) ->
  0 <= t -> t <= 1 -> a * t * t + b * t + cc == 0 ->
  exists t', In t' (ql_core (fun b c => - c / b) sq a b cc) /\ t' == t.
Proof.
  intros Hsq Hab H0 H1 Hr. unfold ql_core.
  destruct (Qeq_bool a 0) eqn:Ea.
  - apply Qeq_bool_iff in Ea. destruct (Qeq_bool b 0) eqn:Eb.
    + apply Qeq_bool_iff in Eb. exfalso. apply Hab. split; assumption.
    + apply ql_Qeq_bool_false in Eb.
      assert (He : - cc / b == t).
      { rewrite Ea in Hr. assert (Hc : cc == - (b * t)) by lra. rewrite Hc. field. exact Eb. }
      rewrite (in01_eq _ t He H0 H1). exists (- cc / b). split; [left; reflexivity|exact He].
  - apply ql_Qeq_bool_false in Ea.
    pose proof (ql_delta_nonneg a b cc t Hr) as Hd.
    assert (Ed : Qle_bool 0 (b * b - 4 * a * cc) = true) by (apply Qle_bool_iff; exact Hd).
    rewrite Ed.
    destruct (Qeq_bool (ql_t1 sq a b cc) 0) eqn:E1.
    + apply Qeq_bool_iff in E1.
      destruct (ql_t1_zero sq a b cc Ea Hd Hsq E1) as [Hb Hc].
      exists 0. split; [left; reflexivity|].
      rewrite Hb, Hc in Hr.
      assert (Hat : a * (t * t) == 0) by lra.
      apply Qmult_integral in Hat. destruct Hat as [Hat|Hat]; [contradiction|].
      apply Qmult_integral in Hat. destruct Hat as [Hat|Hat]; symmetry; exact Hat.
    + apply ql_Qeq_bool_false in E1.
      apply ql_pair_complete; auto.
      exact (ql_roots_only sq a b cc Ea Hd Hsq E1 t Hr).
Qed.

Lemma ql_core_sorted lin sq a b cc : StronglySorted Qlt (ql_core lin sq a b cc).
Proof.
  unfold ql_core.
  destruct (Qeq_bool a 0).
  - destruct (Qeq_bool b 0); [constructor|].
    destruct (in01 (lin b cc)); repeat constructor.
  - destruct (Qle_bool 0 (b * b - 4 * a * cc)); [|constructor].
    destruct (Qeq_bool (ql_t1 sq a b cc) 0); [repeat constructor|].
    apply ql_pair_sorted.
Qed.

(* ------------------------------------------------------------ the theorems on the model *)
Theorem q_line_sound : forall sq c ea eb ec t,
  sqrt_ok_at sq (q_line_delta c ea eb ec) ->
  In t (q_line_intersections_t sq c ea eb ec) ->
  0 <= t /\ t <= 1 /\ on_line ea eb ec (q_sample c t).
Proof.
  intros sq c ea eb ec t Hsq Hin.
  unfold q_line_intersections_t in Hin. rewrite q_line_gen_core in Hin. rewrite q_line_delta_core in Hsq.
  pose proof (q_line_poly_spec c ea eb ec t) as Hp. unfold on_line.
  destruct (q_line_poly c ea eb ec) as [[a b] cc].
  destruct (ql_core_sound sq a b cc t Hsq Hin) as [H0 [H1 Hr]].
  split; [exact H0|]. split; [exact H1|]. rewrite Hp. exact Hr.
Qed.

Theorem q_line_complete : forall sq c ea eb ec t,
  sqrt_ok_at sq (q_line_delta c ea eb ec) ->
  (let '(a, b, _) := q_line_poly c ea eb ec in ~ (a == 0 /\ b == 0)) ->
  0 <= t -> t <= 1 -> on_line ea eb ec (q_sample c t) ->
  exists t', In t' (q_line_intersections_t sq c ea eb ec) /\ t' == t.
Proof.
  intros sq c ea eb ec t Hsq Hab H0 H1 Hon.
  unfold q_line_intersections_t. rewrite q_line_gen_core. rewrite q_line_delta_core in Hsq.
  pose proof (q_line_poly_spec c ea eb ec t) as Hp. unfold on_line in Hon.
  destruct (q_line_poly c ea eb ec) as [[a b] cc].
  apply ql_core_complete; auto. rewrite <- Hp. exact Hon.
Qed.

Theorem q_line_sorted : forall sq c ea eb ec, StronglySorted Qlt (q_line_intersections_t sq c ea eb ec).
Proof.
  intros sq c ea eb ec. unfold q_line_intersections_t. rewrite q_line_gen_core.
  destruct (q_line_poly c ea eb ec) as [[a b] cc]. apply ql_core_sorted.
Qed.

(* the sorted list has no duplicates, even up to == *)
Corollary q_line_nodup : forall sq c ea eb ec, NoDup (q_line_intersections_t sq c ea eb ec).
Proof.
  intros sq c ea eb ec. pose proof (q_line_sorted sq c ea eb ec) as Hs.
  induction Hs as [|x l Hs IH Hall]; constructor; auto.
  intro Hin. rewrite Forall_forall in Hall. apply Hall in Hin. exact (Qlt_irrefl _ Hin).
Qed.

(* ------------------------------------------------------------ the pinned linear branch is wrong *)
Theorem q_line_pinned_refuted : exists sq c ea eb ec t,
  sqrt_ok_at sq (q_line_delta c ea eb ec) /\ In t (q_line_intersections_t_pinned sq c ea eb ec)
  /\ ~ on_line ea eb ec (q_sample c t).
Proof.
  exists (fun _ => 1), (mkQuad (0, 0) (1 # 2, 1) (1, 0)), 1, 0, (3 # 10), (12 # 40).
  (* the pinned code reports c / b = 3/10 (as the unreduced fraction 12 # 40); the crossing is at - 3/10 *)
  split; [|split].
  - intros _. split; [discriminate|]. vm_compute. reflexivity.
  - vm_compute. left. reflexivity.
  - unfold on_line. vm_compute. discriminate.
Qed.

Example q_line_fixed_example :
  map Qred (q_line_intersections_t (fun _ => 1) (mkQuad (0, 0) (1 # 2, 1) (1, 0)) 1 0 (- (1 # 2))) = [1 # 2]
  /\ q_line_intersections_t_pinned (fun _ => 1) (mkQuad (0, 0) (1 # 2, 1) (1, 0)) 1 0 (- (1 # 2)) = [].
Proof. split; vm_compute; reflexivity. Qed.

Print Assumptions q_line_poly_spec.
Print Assumptions q_line_sound.
Print Assumptions q_line_complete.
Print Assumptions q_line_sorted.
Print Assumptions q_line_pinned_refuted.
Print Assumptions q_line_fixed_example.
