(* C14, PathBuffer: a path appended to a PathBuffer through the buffer's
   builder and read back with `get` is exactly the stand-alone path the
   path.rs builder makes from the same calls - same points, same verbs, same
   attribute count - whatever was stored before it and whatever attribute
   counts the other paths have; the ids returned by the buffer's builder are
   the stand-alone builder's ids; `build` returns 0, 1, 2, ...

   The core statements hold for EVERY list of builder calls (no nesting or
   attribute-length hypothesis is needed: the inner builder never reads the
   shared vectors, it only appends and takes their length).  The versions for
   well-formed programs, which compose with the view theorems of
   Proofs/C14_PathStore.v, are corollaries. *)
From LV Require Import Base.Prelude Model.PathStore Model.PathSpec Model.PathBuffer
  Proofs.C14_PathStore.

(* ------------------------------------------------------------ list facts *)

Lemma Forall2_nth_error_r {A B} (R : A -> B -> Prop) : forall l1 l2 i y,
  Forall2 R l1 l2 -> nth_error l2 i = Some y ->
  exists x, nth_error l1 i = Some x /\ R x y.
Proof.
  intros l1 l2 i y HF. revert i.
  induction HF as [|x0 y0 l1 l2 Hxy HF IH]; intros i Hi.
  - destruct i; discriminate.
  - destruct i as [|i].
    + cbn in Hi. injection Hi as <-. exists x0. split; [reflexivity | exact Hxy].
    + cbn in Hi. cbn. apply IH. exact Hi.
Qed.

Lemma Forall2_weaken {A B} (R R' : A -> B -> Prop) : forall l1 l2,
  (forall x y, R x y -> R' x y) -> Forall2 R l1 l2 -> Forall2 R' l1 l2.
Proof.
  intros l1 l2 HR HF. induction HF as [|x y l1 l2 Hxy HF IH]; constructor; auto.
Qed.

Lemma Forall2_len {A B} (R : A -> B -> Prop) : forall l1 l2,
  Forall2 R l1 l2 -> length l1 = length l2.
Proof.
  intros l1 l2 HF. induction HF as [|x y l1 l2 Hxy HF IH]; [reflexivity|].
  cbn [length]. f_equal. exact IH.
Qed.

Lemma Forall2_map_some {A B} (f : A -> option B) : forall l1 l2,
  Forall2 (fun d p => f d = Some p) l1 l2 -> map f l1 = map Some l2.
Proof.
  intros l1 l2 HF. induction HF as [|x y l1 l2 Hxy HF IH]; [reflexivity|].
  cbn. rewrite Hxy, IH. reflexivity.
Qed.

Lemma nth_error_map_some {A B} (f : A -> B) : forall l i x,
  nth_error l i = Some x -> nth_error (map f l) i = Some (f x).
Proof. intros l i x H. rewrite nth_error_map, H. reflexivity. Qed.

Lemma nth_error_seq : forall len start i, i < len ->
  nth_error (seq start len) i = Some (start + i).
Proof.
  induction len as [|len IH]; intros start i Hi; [lia|].
  destruct i as [|i]; cbn.
  - f_equal. lia.
  - rewrite IH by lia. f_equal. lia.
Qed.

(* ----------------------------------------------------------------- slices *)

Lemma slice_app_l {A} (l l' x : list A) r :
  slice l r = Some x -> slice (l ++ l') r = Some x.
Proof.
  unfold slice. destruct r as [a e]. cbn [fst snd].
  destruct (Nat.leb a e) eqn:Hae; [|discriminate].
  destruct (Nat.leb e (length l)) eqn:Hel; [|discriminate].
  cbn [andb]. intros Hx. injection Hx as <-.
  apply Nat.leb_le in Hae. apply Nat.leb_le in Hel.
  rewrite app_length.
  replace (Nat.leb e (length l + length l')) with true
    by (symmetry; apply Nat.leb_le; lia).
  f_equal.
  rewrite skipn_app. rewrite firstn_app.
  replace (e - a - length (skipn a l)) with 0 by (rewrite skipn_length; lia).
  rewrite firstn_O, app_nil_r. reflexivity.
Qed.

Lemma slice_app_r {A} (l l' : list A) :
  slice (l ++ l') (length l, length l + length l') = Some l'.
Proof.
  unfold slice. cbn [fst snd]. rewrite app_length.
  replace (Nat.leb (length l) (length l + length l')) with true
    by (symmetry; apply Nat.leb_le; lia).
  rewrite Nat.leb_refl. cbn [andb]. f_equal.
  rewrite skipn_app, skipn_all, Nat.sub_diag. cbn [skipn app].
  replace (length l + length l' - length l) with (length l') by lia.
  apply firstn_all.
Qed.

(* ------------------------------------ the inner builder on shared storage *)

(* the state of the inner builder working behind existing storage P0 / V0 *)
Definition lift (P0 : list pt) (V0 : list verb) (s : bstate) : bstate :=
  mkB (P0 ++ b_points s) (V0 ++ b_verbs s) (b_first s) (b_first_attrs s).

(* One builder call commutes with the prefix: the inner builder appends, takes
   `points.len()`, and reads only its own `first` / `first_attributes`. *)
Lemma b_step_lift P0 V0 s o :
  b_step (lift P0 V0 s) o =
  (lift P0 V0 (fst (b_step s o)),
   match o with OEnd _ => 0 | _ => length P0 + snd (b_step s o) end).
Proof.
  destruct o as [p a|p a|c p a|c1 c2 p a|[|]]; unfold lift; cbn [b_step fst snd b_points b_verbs b_first b_first_attrs];
    rewrite ?app_length, <- ?app_assoc; f_equal; lia.
Qed.

Definition mkbb (buf : pbuf) (P0 : list pt) (V0 : list verb) (n vs0 : nat) (s : bstate) : pbuilder :=
  mkPBuilder buf (lift P0 V0 s) n (length P0) vs0.

Lemma pbb_step_lift buf P0 V0 n vs0 s o :
  pbb_step (mkbb buf P0 V0 n vs0 s) o =
  (mkbb buf P0 V0 n vs0 (fst (b_step s o)), snd (b_step s o)).
Proof.
  unfold pbb_step, mkbb. cbn [bb_inner bb_buffer bb_nattr bb_points_start bb_verbs_start].
  rewrite b_step_lift. f_equal.
  unfold adjust_id.
  destruct o as [p a|p a|c p a|c1 c2 p a|[|]]; cbn [b_step snd]; lia.
Qed.

Lemma pbb_run_lift buf P0 V0 n vs0 : forall ops s,
  pbb_run (mkbb buf P0 V0 n vs0 s) ops =
  (mkbb buf P0 V0 n vs0 (fst (b_run s ops)), snd (b_run s ops)).
Proof.
  induction ops as [|o r IH]; intros s; [reflexivity|].
  cbn [pbb_run b_run]. rewrite pbb_step_lift.
  destruct (b_step s o) as [s' id] eqn:Hs. cbn [fst snd].
  rewrite IH. destruct (b_run s' r) as [s'' ids]. reflexivity.
Qed.

(* adjust_id never underflows: every id of the inner builder is >= points_start *)
Lemma pbb_ids_ok_lift buf P0 V0 n vs0 : forall ops s,
  pbb_ids_ok (mkbb buf P0 V0 n vs0 s) ops = true.
Proof.
  induction ops as [|o r IH]; intros s; [reflexivity|].
  cbn [pbb_ids_ok]. rewrite pbb_step_lift. cbn [fst]. rewrite IH, andb_true_r.
  unfold mkbb. cbn [bb_inner bb_points_start]. rewrite b_step_lift. cbn [snd].
  unfold adjust_id_ok.
  destruct o as [p a|p a|c p a|c1 c2 p a|[|]]; try reflexivity; apply Nat.leb_le; lia.
Qed.

Lemma pbb_new_lift b n :
  pbb_new b n =
  mkbb (mkPbuf [] [] (pb_paths b)) (pb_points b) (pb_verbs b) n (length (pb_verbs b)) (b_init n).
Proof.
  unfold pbb_new, mkbb, lift. cbn [b_init b_points b_verbs b_first b_first_attrs].
  rewrite !app_nil_r. reflexivity.
Qed.

Theorem pbuf_adjust_id_never_underflows : forall b n ops,
  pbb_ids_ok (pbb_new b n) ops = true.
Proof. intros b n ops. rewrite pbb_new_lift. apply pbb_ids_ok_lift. Qed.

(* ------------------------------------------------- closed form of pb_add *)

Definition desc_after (b : pbuf) (p : path) (n : nat) : pdesc :=
  mkDesc (length (pb_points b), length (pb_points b) + length (p_points p))
         (length (pb_verbs b), length (pb_verbs b) + length (p_verbs p)) n.

Definition appended (b : pbuf) (p : path) (n : nat) : pbuf :=
  mkPbuf (pb_points b ++ p_points p) (pb_verbs b ++ p_verbs p)
         (pb_paths b ++ [desc_after b p n]).

Lemma pb_add_closed b n ops :
  pb_add b n ops = (appended b (build n ops) n, length (pb_paths b), build_ids n ops).
Proof.
  unfold pb_add. rewrite pbb_new_lift, pbb_run_lift.
  unfold pbb_build, mkbb, lift, appended, desc_after, build, build_ids.
  cbn [bb_inner bb_buffer bb_nattr bb_points_start bb_verbs_start b_points b_verbs
       pb_paths p_points p_verbs].
  rewrite !app_length. reflexivity.
Qed.

Lemma pb_add_old_closed b n ops :
  pb_add_old b n ops = (appended b (build n ops) 0, length (pb_paths b), build_ids n ops).
Proof.
  unfold pb_add_old. rewrite pbb_new_lift, pbb_run_lift.
  unfold pbb_build_old, pbb_build_plain, mkbb, lift, appended, desc_after, build, build_ids.
  cbn [bb_inner bb_buffer bb_nattr bb_points_start bb_verbs_start b_points b_verbs
       pb_paths p_points p_verbs].
  rewrite !app_length. reflexivity.
Qed.

(* the plain Builder is the attribute builder with 0 attributes on the calls
   stripped of their attributes *)
Lemma pb_add_plain_is_add b ops : pb_add_plain b ops = pb_add b 0 (map drop_attrs ops).
Proof.
  rewrite pb_add_closed.
  unfold pb_add_plain. rewrite pbb_new_lift, pbb_run_lift.
  unfold pbb_build_plain, mkbb, lift, appended, desc_after, build, build_ids.
  cbn [bb_inner bb_buffer bb_nattr bb_points_start bb_verbs_start b_points b_verbs
       pb_paths p_points p_verbs].
  rewrite !app_length. reflexivity.
Qed.

(* ---------------------------------------------------------- the invariant *)

(* the buffer [b] holds exactly the paths [ps], in order *)
Definition holds (b : pbuf) (ps : list path) : Prop :=
  Forall2 (fun d p => pb_slice_of b d = Some p) (pb_paths b) ps.

Lemma holds_new : holds pb_new [].
Proof. constructor. Qed.

Lemma pb_slice_of_appended b p n d q :
  pb_slice_of b d = Some q -> pb_slice_of (appended b p n) d = Some q.
Proof.
  unfold pb_slice_of, appended. cbn [pb_points pb_verbs].
  destruct (slice (pb_points b) (d_points d)) as [pts|] eqn:Hp; [|discriminate].
  destruct (slice (pb_verbs b) (d_verbs d)) as [vs|] eqn:Hv; [|discriminate].
  cbn [obind]. intros Hq.
  rewrite (slice_app_l _ _ _ _ Hp), (slice_app_l _ _ _ _ Hv). exact Hq.
Qed.

Lemma pb_slice_of_new b p :
  pb_slice_of (appended b p (p_nattr p)) (desc_after b p (p_nattr p)) = Some p.
Proof.
  unfold pb_slice_of, appended, desc_after. cbn [pb_points pb_verbs d_points d_verbs d_nattr].
  rewrite !slice_app_r. cbn [obind]. destruct p; reflexivity.
Qed.

Lemma holds_appended b ps p :
  holds b ps -> holds (appended b p (p_nattr p)) (ps ++ [p]).
Proof.
  unfold holds. intros H. cbn [appended pb_paths].
  apply Forall2_app.
  - eapply Forall2_weaken; [|exact H]. intros d q Hq. apply pb_slice_of_appended. exact Hq.
  - constructor; [apply pb_slice_of_new | constructor].
Qed.

Lemma holds_length b ps : holds b ps -> length (pb_paths b) = length ps.
Proof. apply Forall2_len. Qed.

Lemma holds_get b ps i p : holds b ps -> nth_error ps i = Some p -> pb_get b i = Some p.
Proof.
  intros H Hi. destruct (Forall2_nth_error_r _ _ _ _ _ H Hi) as [d [Hd Hs]].
  unfold pb_get. rewrite Hd. exact Hs.
Qed.

Lemma holds_get_none b ps i : holds b ps -> length ps <= i -> pb_get b i = None.
Proof.
  intros H Hi. unfold pb_get.
  replace (nth_error (pb_paths b) i) with (@None pdesc); [reflexivity|].
  symmetry. apply nth_error_None. rewrite (holds_length _ _ H). exact Hi.
Qed.

(* --------------------------------------------------------- many paths *)

Definition built (x : nat * list bop) : path := build (fst x) (snd x).
Definition built_ids (x : nat * list bop) : list nat := build_ids (fst x) (snd x).

Lemma pb_add_all_spec : forall l b ps, holds b ps ->
  holds (fst (pb_add_all b l)) (ps ++ map built l) /\
  map fst (snd (pb_add_all b l)) = seq (length ps) (length l) /\
  map snd (snd (pb_add_all b l)) = map built_ids l.
Proof.
  induction l as [|[n ops] r IH]; intros b ps H.
  - cbn. rewrite app_nil_r. auto.
  - cbn [pb_add_all]. rewrite pb_add_closed.
    pose proof (holds_appended b ps (build n ops) H) as H'.
    change (p_nattr (build n ops)) with n in H'.
    specialize (IH _ _ H').
    destruct (pb_add_all (appended b (build n ops) n) r) as [b'' res].
    cbn [fst snd map length seq] in *.
    destruct IH as [IH1 [IH2 IH3]].
    rewrite <- app_assoc in IH1. cbn [app] in IH1.
    rewrite app_length in IH2. cbn [length] in IH2.
    split; [exact IH1|]. split.
    + rewrite IH2, (holds_length _ _ H). f_equal. f_equal. lia.
    + rewrite IH3. reflexivity.
Qed.

Lemma pb_build_all_fst l : fst (pb_build_all l) = fst (pb_add_all pb_new l).
Proof. unfold pb_build_all. destruct (pb_add_all pb_new l). reflexivity. Qed.

Lemma pb_build_all_snd l : snd (pb_build_all l) = map snd (snd (pb_add_all pb_new l)).
Proof. unfold pb_build_all. destruct (pb_add_all pb_new l). reflexivity. Qed.

Lemma pb_build_all_holds l : holds (fst (pb_build_all l)) (map built l).
Proof.
  rewrite pb_build_all_fst.
  exact (proj1 (pb_add_all_spec l pb_new [] holds_new)).
Qed.

(* ================================================================ theorems
   General form: [l] is any list of (attribute count, builder calls). *)

(* 1. get(i) is the stand-alone path *)
Theorem pbuf_get_is_path_gen : forall l i n ops,
  nth_error l i = Some (n, ops) ->
  pb_get (fst (pb_build_all l)) i = Some (build n ops).
Proof.
  intros l i n ops Hi.
  apply (holds_get _ _ _ _ (pb_build_all_holds l)).
  rewrite (nth_error_map_some built _ _ _ Hi). reflexivity.
Qed.

(* get past the end is the index panic *)
Theorem pbuf_get_out_of_range : forall l i,
  length l <= i -> pb_get (fst (pb_build_all l)) i = None.
Proof.
  intros l i Hi. apply (holds_get_none _ _ _ (pb_build_all_holds l)).
  rewrite map_length. exact Hi.
Qed.

(* 2. the ids returned through the buffer are the stand-alone builder's ids *)
Theorem pbuf_ids_gen : forall l i n ops,
  nth_error l i = Some (n, ops) ->
  nth_error (snd (pb_build_all l)) i = Some (build_ids n ops).
Proof.
  intros l i n ops Hi.
  rewrite pb_build_all_snd.
  rewrite (proj2 (proj2 (pb_add_all_spec l pb_new [] holds_new))).
  rewrite (nth_error_map_some built_ids _ _ _ Hi). reflexivity.
Qed.

(* 3. len, and build() returns 0, 1, 2, ... *)
Theorem pbuf_len_gen : forall l,
  pb_len (fst (pb_build_all l)) = length l /\
  length (snd (pb_build_all l)) = length l /\
  pb_build_indices l = seq 0 (length l) /\
  pb_indices (fst (pb_build_all l)) = seq 0 (length l).
Proof.
  intros l.
  assert (Hlen : pb_len (fst (pb_build_all l)) = length l).
  { unfold pb_len. rewrite (holds_length _ _ (pb_build_all_holds l)). apply map_length. }
  split; [exact Hlen|]. split; [|split].
  - rewrite pb_build_all_snd, (proj2 (proj2 (pb_add_all_spec l pb_new [] holds_new))).
    apply map_length.
  - unfold pb_build_indices.
    exact (proj1 (proj2 (pb_add_all_spec l pb_new [] holds_new))).
  - unfold pb_indices. unfold pb_len in Hlen. rewrite Hlen. reflexivity.
Qed.

Theorem pbuf_index_gen : forall l i, i < length l -> nth_error (pb_build_indices l) i = Some i.
Proof.
  intros l i Hi. rewrite (proj1 (proj2 (proj2 (pbuf_len_gen l)))).
  rewrite nth_error_seq by exact Hi. reflexivity.
Qed.

(* iter() / iter().rev() yield the stand-alone paths, in order *)
Theorem pbuf_iter_gen : forall l,
  pb_iter (fst (pb_build_all l)) = map (fun x => Some (built x)) l /\
  pb_iter_back (fst (pb_build_all l)) = rev (map (fun x => Some (built x)) l).
Proof.
  intros l.
  assert (H : pb_iter (fst (pb_build_all l)) = map (fun x => Some (built x)) l).
  { unfold pb_iter. rewrite (Forall2_map_some _ _ _ (pb_build_all_holds l)).
    apply map_map. }
  split; [exact H|].
  unfold pb_iter_back. rewrite map_rev. f_equal. exact H.
Qed.

(* iter() agrees with get over indices(), for every buffer *)
Lemma pb_iter_is_get_aux (b : pbuf) : forall l pre,
  map (pb_slice_of b) l =
  map (fun i => do d <- nth_error (pre ++ l) i; pb_slice_of b d) (seq (length pre) (length l)).
Proof.
  induction l as [|d r IH]; intros pre; [reflexivity|].
  cbn [map length seq]. f_equal.
  - rewrite nth_error_app2 by lia. rewrite Nat.sub_diag. reflexivity.
  - specialize (IH (pre ++ [d])). rewrite <- app_assoc, app_length in IH. cbn [app length] in IH.
    replace (length pre + 1) with (S (length pre)) in IH by lia. exact IH.
Qed.

Theorem pbuf_iter_is_get : forall b, pb_iter b = map (pb_get b) (pb_indices b).
Proof. intros b. unfold pb_iter, pb_indices, pb_get. exact (pb_iter_is_get_aux b (pb_paths b) []). Qed.

(* clear *)
Theorem pbuf_clear : forall b i, pb_len (pb_clear b) = 0 /\ pb_get (pb_clear b) i = None.
Proof. intros b i. split; [reflexivity|]. destruct i; reflexivity. Qed.

(* ---------------------------------------- per-path choice of the builder *)

Definition norm_kind (x : option nat * list bop) : nat * list bop :=
  match fst x with
  | None => (0, map drop_attrs (snd x))
  | Some n => (n, snd x)
  end.

Lemma pb_add_all_kind_norm : forall l b,
  pb_add_all_kind b l = pb_add_all b (map norm_kind l).
Proof.
  induction l as [|[[n|] ops] r IH]; intros b; [reflexivity| |].
  - cbn [map norm_kind fst snd pb_add_all_kind pb_add_all pb_add_kind].
    destruct (pb_add b n ops) as [[b' idx] ids]. rewrite IH. reflexivity.
  - cbn [map norm_kind fst snd pb_add_all_kind pb_add_all pb_add_kind].
    rewrite pb_add_plain_is_add.
    destruct (pb_add b 0 (map drop_attrs ops)) as [[b' idx] ids]. rewrite IH. reflexivity.
Qed.

(* paths added with the plain Builder and with with_attributes(n), in any mix *)
Theorem pbuf_get_is_path_kind : forall l i k ops,
  nth_error l i = Some (k, ops) ->
  pb_get (fst (pb_add_all_kind pb_new l)) i = Some (built (norm_kind (k, ops))) /\
  nth_error (snd (pb_add_all_kind pb_new l)) i = Some (i, built_ids (norm_kind (k, ops))).
Proof.
  intros l i k ops Hi.
  rewrite pb_add_all_kind_norm.
  pose proof (nth_error_map_some norm_kind _ _ _ Hi) as Hi'.
  destruct (norm_kind (k, ops)) as [n ops'] eqn:Hn.
  split.
  - rewrite <- pb_build_all_fst. apply pbuf_get_is_path_gen. exact Hi'.
  - pose proof (pbuf_ids_gen _ _ _ _ Hi') as Hids.
    assert (Hlt : i < length (map norm_kind l)).
    { apply nth_error_Some. rewrite Hi'. discriminate. }
    pose proof (pbuf_index_gen _ _ Hlt) as Hidx.
    rewrite pb_build_all_snd in Hids. unfold pb_build_indices in Hidx.
    rewrite nth_error_map in Hids, Hidx.
    destruct (nth_error (snd (pb_add_all pb_new (map norm_kind l))) i) as [[idx ids]|];
      [|discriminate].
    cbn in Hids, Hidx. injection Hids as ->. injection Hidx as ->. reflexivity.
Qed.

(* ==================================================== well-formed programs
   [l] is a list of (attribute count, program) with every attribute vector of
   the stated length.  These are the statements of the task; the hypothesis is
   what the view theorems of C14 need (and what the Rust asserts). *)

Definition wf_item (x : nat * program) : Prop := attrs_ok (fst x) (snd x).
Definition item_ops (x : nat * program) : nat * list bop := (fst x, ops_of (snd x)).

Theorem pbuf_get_is_path : forall l i n prog,
  Forall wf_item l -> nth_error l i = Some (n, prog) ->
  pb_get (fst (pb_build_all (map item_ops l))) i = Some (build n (ops_of prog)).
Proof.
  intros l i n prog _ Hi. apply pbuf_get_is_path_gen.
  rewrite (nth_error_map_some item_ops _ _ _ Hi). reflexivity.
Qed.

Theorem pbuf_ids : forall l i n prog,
  Forall wf_item l -> nth_error l i = Some (n, prog) ->
  nth_error (snd (pb_build_all (map item_ops l))) i = Some (build_ids n (ops_of prog)).
Proof.
  intros l i n prog _ Hi. apply pbuf_ids_gen.
  rewrite (nth_error_map_some item_ops _ _ _ Hi). reflexivity.
Qed.

Theorem pbuf_len : forall l,
  Forall wf_item l ->
  length (pb_paths (fst (pb_build_all (map item_ops l)))) = length l /\
  forall i, i < length l -> nth_error (pb_build_indices (map item_ops l)) i = Some i.
Proof.
  intros l _. split.
  - rewrite <- (map_length item_ops l). exact (proj1 (pbuf_len_gen (map item_ops l))).
  - intros i Hi. apply pbuf_index_gen. rewrite map_length. exact Hi.
Qed.

(* All views transfer: the i-th path of the buffer, read through every view of
   path.rs, tells the program's events; the ids handed out while it was being
   built through the buffer name its endpoints. *)
Theorem pbuf_views : forall l i n prog,
  Forall wf_item l -> nth_error l i = Some (n, prog) ->
  exists p ids,
    pb_get (fst (pb_build_all (map item_ops l))) i = Some p /\
    nth_error (snd (pb_build_all (map item_ops l))) i = Some ids /\
    p_nattr p = n /\
    iter_attr p = Some (spec_events prog) /\
    iter p = Some (map strip (spec_events prog)) /\
    id_iter_resolved p = Some (spec_events prog) /\
    reversed p = Some (spec_events (rev_prog prog)) /\
    Forall2 (fun o id => match o with
                         | OBegin q a | OLine q a | OQuad _ q a | OCubic _ _ q a =>
                             ep_at p id = Some (q, a)
                         | OEnd _ => True
                         end) (ops_of prog) ids.
Proof.
  intros l i n prog Hwf Hi.
  assert (Hok : attrs_ok n prog).
  { pose proof (proj1 (Forall_forall wf_item l) Hwf (n, prog) (nth_error_In _ _ Hi)) as H.
    exact H. }
  exists (build n (ops_of prog)), (build_ids n (ops_of prog)).
  split; [exact (pbuf_get_is_path l i n prog Hwf Hi)|].
  split; [exact (pbuf_ids l i n prog Hwf Hi)|].
  split; [reflexivity|].
  split; [exact (iter_attr_spec n prog Hok)|].
  split; [exact (iter_spec n prog Hok)|].
  split; [exact (id_iter_resolves n prog Hok)|].
  split; [exact (reversed_spec n prog Hok)|].
  pose proof (builder_ids n prog Hok) as HB.
  eapply Forall2_weaken; [|exact HB].
  intros o id Ho. destruct o; exact Ho.
Qed.

(* ------------------------------------------------ FromIterator<PathSlice> *)

Lemma edges_events_ops : forall es cur,
  map op_of_path_event (map strip (fst (spec_edges cur es))) = map drop_attrs (map op_of_edge es).
Proof.
  induction es as [|e r IH]; intros cur; [reflexivity|].
  cbn [spec_edges]. specialize (IH (edge_to e)).
  destruct (spec_edges (edge_to e) r) as [evs last]. cbn [fst] in *.
  cbn [map]. rewrite IH. f_equal.
  destruct e as [p a|c p a|c1 c2 p a]; reflexivity.
Qed.

Lemma sub_events_ops s :
  map op_of_path_event (map strip (spec_sub s)) = map drop_attrs (ops_of_sub s).
Proof.
  unfold spec_sub, ops_of_sub.
  pose proof (edges_events_ops (sp_edges s) (sp_at s, sp_attrs s)) as H.
  destruct (spec_edges (sp_at s, sp_attrs s) (sp_edges s)) as [evs last]. cbn [fst] in H.
  cbn [map]. rewrite !map_app. cbn [map]. rewrite H. reflexivity.
Qed.

Lemma events_ops : forall prog,
  map op_of_path_event (map strip (spec_events prog)) = map drop_attrs (ops_of prog).
Proof.
  induction prog as [|s r IH]; [reflexivity|].
  unfold spec_events, ops_of in *. cbn [flat_map]. rewrite !map_app, IH, sub_events_ops.
  reflexivity.
Qed.

Lemma drop_attrs_idem : forall ops, map drop_attrs (map drop_attrs ops) = map drop_attrs ops.
Proof.
  intros ops. rewrite map_map. apply map_ext. intros o. destruct o; reflexivity.
Qed.

Definition item_path (x : nat * program) : path := build (fst x) (ops_of (snd x)).
Definition item_plain (x : nat * program) : nat * list bop := (0, map drop_attrs (ops_of (snd x))).

Lemma pb_extend_from_iter_spec : forall l b, Forall wf_item l ->
  pb_extend_from_iter b (map item_path l) = Some (fst (pb_add_all b (map item_plain l))).
Proof.
  induction l as [|[n prog] r IH]; intros b Hwf; [reflexivity|].
  inversion Hwf as [|x xs Hx Hr]; subst.
  cbn [map pb_extend_from_iter item_path item_plain fst snd pb_add_all].
  change (item_path (n, prog)) with (build n (ops_of prog)).
  rewrite (iter_spec n prog Hx). cbn [obind].
  rewrite events_ops, pb_add_plain_is_add, drop_attrs_idem.
  destruct (pb_add b 0 (map drop_attrs (ops_of prog))) as [[b' idx] ids]. cbn [fst].
  rewrite (IH b' Hr).
  destruct (pb_add_all b' (map item_plain r)) as [b'' res]. reflexivity.
Qed.

(* collect()-ing path slices into a PathBuffer never reads outside a path and
   stores each path WITHOUT its custom attributes (positions and control
   points only, attribute count 0) *)
Theorem pbuf_from_iter : forall l, Forall wf_item l ->
  exists b, pb_from_iter (map item_path l) = Some b /\
    pb_len b = length l /\
    forall i n prog, nth_error l i = Some (n, prog) ->
      pb_get b i = Some (build 0 (map drop_attrs (ops_of prog))).
Proof.
  intros l Hwf. unfold pb_from_iter. rewrite (pb_extend_from_iter_spec l pb_new Hwf).
  eexists. split; [reflexivity|].
  rewrite <- pb_build_all_fst. split.
  - rewrite (proj1 (pbuf_len_gen _)). apply map_length.
  - intros i n prog Hi. apply pbuf_get_is_path_gen.
    rewrite (nth_error_map_some item_plain _ _ _ Hi). reflexivity.
Qed.

(* ================================================================ examples *)

(* 4. paths with DIFFERENT attribute counts in one buffer *)
Definition mixed_progs : list (nat * program) :=
  [ (0, [mkSub (0,0)%Z [] [ELine (10,0)%Z []; ELine (10,10)%Z []] true]);
    (3, [mkSub (1,2)%Z [7;8;9]%Z
           [ELine (3,4)%Z [1;2;3]%Z; EQuad (5,6)%Z (7,8)%Z [4;5;6]%Z] true;
         mkSub (9,9)%Z [0;0;0]%Z [] false]);
    (1, [mkSub (0,0)%Z [10]%Z [ELine (1,1)%Z [10]%Z; ECubic (2,2)%Z (3,3)%Z (4,4)%Z [20]%Z] false]);
    (2, [mkSub (5,5)%Z [1;2]%Z [ELine (6,6)%Z [3;4]%Z] true]) ].

Lemma mixed_progs_wf : Forall wf_item mixed_progs.
Proof. repeat constructor. Qed.

(* general: any mix of attribute counts (theorem 1 puts no condition on them) *)
Theorem pbuf_mixed_attributes : forall l i n prog,
  Forall wf_item l -> nth_error l i = Some (n, prog) ->
  exists p, pb_get (fst (pb_build_all (map item_ops l))) i = Some p /\
            p = build n (ops_of prog) /\ p_nattr p = n /\
            iter_attr p = Some (spec_events prog).
Proof.
  intros l i n prog Hwf Hi.
  destruct (pbuf_views l i n prog Hwf Hi) as [p [ids [Hg [_ [Hn [Hia _]]]]]].
  exists p. split; [exact Hg|]. split; [|split; [exact Hn | exact Hia]].
  rewrite (pbuf_get_is_path l i n prog Hwf Hi) in Hg. injection Hg as <-. reflexivity.
Qed.

(* concrete, by computation on the model *)
Example pbuf_mixed_attributes_example :
  let b := fst (pb_build_all (map item_ops mixed_progs)) in
  map (pb_get b) [0; 1; 2; 3; 4]
    = map (fun x => Some (item_path x)) mixed_progs ++ [None] /\
  map (fun i => do p <- pb_get b i; iter_attr p) [0; 1; 2; 3]
    = map (fun x => Some (spec_events (snd x))) mixed_progs /\
  map d_nattr (pb_paths b) = [0; 3; 1; 2] /\
  pb_build_indices (map item_ops mixed_progs) = [0; 1; 2; 3].
Proof. vm_compute. repeat split. Qed.

(* The defect fixed by /repo commit 47bb8790: with `num_attributes: 0` in
   BuilderWithAttributes::build, the path read back is NOT the path built -
   the attribute slots are read as positions. *)
Definition old_buf : pbuf :=
  fst (fst (pb_add_old pb_new 1
              (ops_of [mkSub (0,0)%Z [10]%Z [ELine (1,1)%Z [10]%Z] false]))).

Example pbuf_old_build_refuted :
  pb_get old_buf 0 <> Some (build 1 (ops_of [mkSub (0,0)%Z [10]%Z [ELine (1,1)%Z [10]%Z] false])) /\
  (do p <- pb_get old_buf 0; iter p)
    = Some [EvBegin (0,0)%Z; EvLine (0,0)%Z (10,0)%Z; EvEnd (10,0)%Z (0,0)%Z false] /\
  iter (build 1 (ops_of [mkSub (0,0)%Z [10]%Z [ELine (1,1)%Z [10]%Z] false]))
    = Some [EvBegin (0,0)%Z; EvLine (0,0)%Z (1,1)%Z; EvEnd (1,1)%Z (0,0)%Z false].
Proof. vm_compute. split; [discriminate | split; reflexivity]. Qed.

(* A builder dropped without build(): the buffer keeps its descriptors but has
   lost its storage, so len() still says 1 and get(0) panics. *)
Definition one_path_buf : pbuf :=
  fst (pb_build_all [(0, ops_of [mkSub (0,0)%Z [] [ELine (1,1)%Z []] false])]).

Example pbuf_abandoned_builder :
  let b := pbb_abandon (pbb_new one_path_buf 0) in
  (exists p, pb_get one_path_buf 0 = Some p) /\
  pb_len b = 1 /\ pb_get b 0 = None /\ pb_iter b = [None].
Proof. vm_compute. split; [eexists; reflexivity | repeat split]. Qed.

(* ... and after a later successful build the stale descriptor silently
   aliases the NEW path's data: get(0) no longer returns the path stored at 0 *)
Example pbuf_abandoned_then_build :
  let b := pbb_abandon (pbb_new one_path_buf 0) in
  let b' := fst (fst (pb_add b 0 (ops_of [mkSub (5,5)%Z [] [ELine (6,6)%Z []] true]))) in
  pb_get one_path_buf 0 = Some (mkPath [(0,0)%Z; (1,1)%Z] [VBegin; VLine; VEnd] 0) /\
  pb_len b' = 2 /\
  pb_get b' 0 = Some (mkPath [(5,5)%Z; (6,6)%Z] [VBegin; VLine; VClose] 0) /\
  pb_get b' 1 = Some (mkPath [(5,5)%Z; (6,6)%Z; (5,5)%Z] [VBegin; VLine; VClose] 0).
Proof. vm_compute. repeat split. Qed.

Print Assumptions pbuf_get_is_path_gen.
Print Assumptions pbuf_get_out_of_range.
Print Assumptions pbuf_ids_gen.
Print Assumptions pbuf_len_gen.
Print Assumptions pbuf_index_gen.
Print Assumptions pbuf_iter_gen.
Print Assumptions pbuf_iter_is_get.
Print Assumptions pbuf_clear.
Print Assumptions pbuf_adjust_id_never_underflows.
Print Assumptions pbuf_get_is_path_kind.
Print Assumptions pbuf_get_is_path.
Print Assumptions pbuf_ids.
Print Assumptions pbuf_len.
Print Assumptions pbuf_views.
Print Assumptions pbuf_from_iter.
Print Assumptions pbuf_mixed_attributes.
Print Assumptions pbuf_mixed_attributes_example.
Print Assumptions pbuf_old_build_refuted.
Print Assumptions pbuf_abandoned_builder.
Print Assumptions pbuf_abandoned_then_build.
