(* C14 proofs, part 2: forward iterators, builder ids, first endpoint,
   concatenation, well-formedness of the specification events. *)
From LV Require Import Base.Prelude Model.PathStore Model.PathSpec Proofs.C14_Layout.

(* ------------------------------------------------------------- iter_attr *)

Lemma iter_attr_edges n es : forall cur first vs pts r,
  Forall (edge_attrs_ok n) es ->
  iter_attr_go n vs pts (snd (spec_edges cur es)) first = Some r ->
  iter_attr_go n (map verb_of_edge es ++ vs) (flat_map layout_edge es ++ pts) cur first
  = Some (fst (spec_edges cur es) ++ r).
Proof.
  induction es as [|e es IH]; intros cur first vs pts r Hok Hr.
  - cbn [map flat_map app spec_edges fst snd] in *. exact Hr.
  - inversion Hok as [|? ? He Hes]; subst.
    cbn [spec_edges] in *. destruct (spec_edges (edge_to e) es) as [evs last] eqn:Hse.
    cbn [fst snd] in *.
    specialize (IH (edge_to e) first vs pts r Hes). rewrite Hse in IH. cbn [fst snd] in IH.
    specialize (IH Hr).
    destruct e as [p a | c p a | c1 c2 p a]; unfold edge_attrs_ok in He;
      cbn [edge_to snd] in He;
      cbn [map verb_of_edge flat_map layout_edge app iter_attr_go pnext obind];
      rewrite <- ?app_assoc;
      rewrite (pop_endpoint_layout n p a _ He); cbn [obind];
      cbn [edge_to] in IH; rewrite IH; reflexivity.
Qed.

Lemma iter_attr_sub n s : forall cur first vs pts r,
  length (sp_attrs s) = n -> Forall (edge_attrs_ok n) (sp_edges s) ->
  iter_attr_go n vs pts (sp_at s, sp_attrs s) (sp_at s, sp_attrs s) = Some r ->
  iter_attr_go n (verbs_sub s ++ vs) (layout_sub s ++ pts) cur first = Some (spec_sub s ++ r).
Proof.
  intros cur first vs pts r Ha Hes Hr.
  unfold verbs_sub, layout_sub, spec_sub.
  destruct (spec_edges (sp_at s, sp_attrs s) (sp_edges s)) as [evs last] eqn:Hse.
  cbn [app iter_attr_go]. rewrite <- !app_assoc.
  rewrite (pop_endpoint_layout n _ _ _ Ha). cbn [obind].
  rewrite (iter_attr_edges n (sp_edges s) _ _ _ _ ([EvEnd last (sp_at s, sp_attrs s) (sp_close s)] ++ r) Hes).
  - rewrite Hse. cbn [fst]. rewrite <- ?app_assoc. reflexivity.
  - rewrite Hse. cbn [snd]. unfold close_verb, close_tail.
    destruct (sp_close s); cbn [app iter_attr_go].
    + rewrite (pop_endpoint_layout n _ _ _ Ha). cbn [obind]. rewrite Hr. reflexivity.
    + rewrite Hr. reflexivity.
Qed.

Lemma iter_attr_prog n prog : forall cur first, attrs_ok n prog ->
  iter_attr_go n (flat_map verbs_sub prog) (flat_map layout_sub prog) cur first
  = Some (spec_events prog).
Proof.
  induction prog as [|s prog IH]; intros cur first Hok.
  - reflexivity.
  - apply attrs_ok_cons in Hok. destruct Hok as (Ha & Hes & Hok).
    cbn [flat_map]. unfold spec_events. cbn [flat_map].
    apply iter_attr_sub; auto.
Qed.

Lemma iter_attr_spec : forall n prog, attrs_ok n prog ->
  iter_attr (build n (ops_of prog)) = Some (spec_events prog).
Proof.
  intros n prog Hok. rewrite build_layout. unfold iter_attr. cbn [p_nattr p_verbs p_points].
  apply iter_attr_prog; auto.
Qed.

(* ------------------------------------------------------------------ iter *)

Lemma iter_pop n a rest : length a = n ->
  padvance (stride_of n) (pack a ++ rest) = Some rest.
Proof. intros <-. apply padvance_pack. Qed.

Lemma iter_edges n es : forall cur first vs pts r,
  Forall (edge_attrs_ok n) es ->
  iter_go (stride_of n) vs pts (fst (snd (spec_edges cur es))) first = Some r ->
  iter_go (stride_of n) (map verb_of_edge es ++ vs) (flat_map layout_edge es ++ pts) (fst cur) first
  = Some (map strip (fst (spec_edges cur es)) ++ r).
Proof.
  induction es as [|e es IH]; intros cur first vs pts r Hok Hr.
  - cbn [map flat_map app spec_edges fst snd] in *. exact Hr.
  - inversion Hok as [|? ? He Hes]; subst.
    cbn [spec_edges] in *. destruct (spec_edges (edge_to e) es) as [evs last] eqn:Hse.
    cbn [fst snd] in *.
    specialize (IH (edge_to e) first vs pts r Hes). rewrite Hse in IH. cbn [fst snd] in IH.
    specialize (IH Hr).
    destruct e as [p a | c p a | c1 c2 p a]; unfold edge_attrs_ok in He;
      cbn [edge_to snd] in He;
      cbn [map verb_of_edge flat_map layout_edge app iter_go pnext obind];
      rewrite <- ?app_assoc;
      rewrite (iter_pop n a _ He); cbn [obind];
      cbn [edge_to fst] in IH; rewrite IH; reflexivity.
Qed.

Lemma iter_sub n s : forall cur first vs pts r,
  length (sp_attrs s) = n -> Forall (edge_attrs_ok n) (sp_edges s) ->
  (forall c, iter_go (stride_of n) vs pts c (sp_at s) = Some r) ->
  iter_go (stride_of n) (verbs_sub s ++ vs) (layout_sub s ++ pts) cur first
  = Some (map strip (spec_sub s) ++ r).
Proof.
  intros cur first vs pts r Ha Hes Hr.
  unfold verbs_sub, layout_sub, spec_sub.
  destruct (spec_edges (sp_at s, sp_attrs s) (sp_edges s)) as [evs last] eqn:Hse.
  cbn [app iter_go pnext obind]. rewrite <- !app_assoc.
  rewrite (iter_pop n _ _ Ha). cbn [obind].
  pose proof (fun vs pts r => iter_edges n (sp_edges s) (sp_at s, sp_attrs s) (sp_at s) vs pts r Hes) as H.
  rewrite Hse in H. cbn [fst snd] in H.
  rewrite (H _ _ ([EvEnd (fst last) (sp_at s) (sp_close s)] ++ r)).
  - cbn [fst map strip map_event]. rewrite map_app. cbn [map strip map_event fst].
    cbn [obind app]. rewrite <- ?app_assoc. reflexivity.
  - unfold close_verb, close_tail.
    destruct (sp_close s); cbn [app iter_go pnext obind].
    + rewrite (iter_pop n _ _ Ha). cbn [obind]. rewrite Hr. reflexivity.
    + rewrite Hr. reflexivity.
Qed.

Lemma iter_prog n prog : forall cur first, attrs_ok n prog ->
  iter_go (stride_of n) (flat_map verbs_sub prog) (flat_map layout_sub prog) cur first
  = Some (map strip (spec_events prog)).
Proof.
  induction prog as [|s prog IH]; intros cur first Hok.
  - reflexivity.
  - apply attrs_ok_cons in Hok. destruct Hok as (Ha & Hes & Hok).
    cbn [flat_map]. unfold spec_events. cbn [flat_map]. rewrite map_app.
    apply iter_sub; auto.
Qed.

Lemma iter_spec : forall n prog, attrs_ok n prog ->
  iter (build n (ops_of prog)) = Some (map strip (spec_events prog)).
Proof.
  intros n prog Hok. rewrite build_layout. unfold iter. cbn [p_nattr p_verbs p_points].
  apply iter_prog; auto.
Qed.

(* -------------------------------------------------------- first endpoint *)

Lemma first_endpoint_spec : forall n prog, attrs_ok n prog ->
  first_endpoint (build n (ops_of prog))
    = Some (match prog with [] => None | s :: _ => Some (sp_at s, sp_attrs s) end).
Proof.
  intros n prog Hok. rewrite build_layout. destruct prog as [|s prog].
  - reflexivity.
  - apply attrs_ok_cons in Hok. destruct Hok as (Ha & Hes & Hok).
    unfold first_endpoint. cbn [p_points flat_map]. unfold layout_sub at 1. cbn [app].
    rewrite (ep_at_split _ 0 [] (sp_at s) (sp_attrs s)
               ((flat_map layout_edge (sp_edges s) ++ close_tail s) ++ flat_map layout_sub prog)).
    + reflexivity.
    + cbn [p_points flat_map app]. unfold layout_sub at 1. cbn [app].
      rewrite <- !app_assoc. reflexivity.
    + exact Ha.
    + reflexivity.
Qed.

(* --------------------------------------------------------- concatenation *)

Lemma concat_spec : forall n progs, Forall (attrs_ok n) progs ->
  concat_paths n (map (fun p => build n (ops_of p)) progs) = build n (ops_of (concat progs)).
Proof.
  intros n progs _. rewrite build_layout. unfold concat_paths.
  rewrite !flat_map_concat. f_equal.
  - induction progs as [|p progs IH]; [reflexivity |].
    cbn [map flat_map]. rewrite build_layout. cbn [p_points]. rewrite IH. reflexivity.
  - induction progs as [|p progs IH]; [reflexivity |].
    cbn [map flat_map]. rewrite build_layout. cbn [p_verbs]. rewrite IH. reflexivity.
Qed.

(* ------------------------------------------------------- well-formedness *)

Lemma ep_eqb_refl a : ep_eqb a a = true.
Proof.
  unfold ep_eqb. apply andb_true_iff. split.
  - apply pt_eqb_eq. reflexivity.
  - apply (list_eqb_eq Z.eqb Z.eqb_eq). reflexivity.
Qed.

Lemma wf_edges es : forall first cur r,
  wf_events ep_eqb (Some (first, snd (spec_edges cur es))) r = true ->
  wf_events (C := pt) ep_eqb (Some (first, cur)) (fst (spec_edges cur es) ++ r) = true.
Proof.
  induction es as [|e es IH]; intros first cur r Hr.
  - exact Hr.
  - cbn [spec_edges] in *. destruct (spec_edges (edge_to e) es) as [evs last] eqn:Hse.
    cbn [fst snd] in *.
    specialize (IH first (edge_to e) r). rewrite Hse in IH. cbn [fst snd] in IH.
    specialize (IH Hr).
    destruct e; cbn [app wf_events edge_to] in *; rewrite ep_eqb_refl; cbn [andb]; exact IH.
Qed.

Lemma events_well_formed : forall prog,
  wf_events ep_eqb None (spec_events prog) = true.
Proof.
  induction prog as [|s prog IH]; [reflexivity |].
  unfold spec_events. cbn [flat_map]. fold (spec_events prog).
  unfold spec_sub.
  destruct (spec_edges (sp_at s, sp_attrs s) (sp_edges s)) as [evs last] eqn:Hse.
  cbn [app wf_events]. rewrite <- app_assoc.
  pose proof (wf_edges (sp_edges s) (sp_at s, sp_attrs s) (sp_at s, sp_attrs s)
                ([EvEnd last (sp_at s, sp_attrs s) (sp_close s)] ++ spec_events prog)) as H.
  rewrite Hse in H. cbn [fst snd] in H. apply H.
  cbn [app wf_events]. rewrite !ep_eqb_refl, IH. reflexivity.
Qed.

(* ------------------------------------------------------------ builder ids *)

Definition endpoint_of_op' (o : bop) : option (pt * list Z) :=
  match o with
  | OBegin p a | OLine p a | OQuad _ p a | OCubic _ _ p a => Some (p, a)
  | OEnd _ => None
  end.

Definition op_ok (n : nat) (o : bop) : Prop :=
  match endpoint_of_op' o with Some e => length (snd e) = n | None => True end.

Lemma b_step_extends s o : exists X, b_points (fst (b_step s o)) = b_points s ++ X.
Proof.
  destruct o as [p a | p a | c p a | c1 c2 p a | [|]]; cbn [b_step fst b_points];
    try (eexists; reflexivity).
  exists []. rewrite app_nil_r. reflexivity.
Qed.

Lemma b_run_extends ops : forall s, exists X, b_points (fst (b_run s ops)) = b_points s ++ X.
Proof.
  induction ops as [|o ops IH]; intros s.
  - exists []. cbn [b_run fst]. rewrite app_nil_r. reflexivity.
  - rewrite b_run_cons. cbn [fst]. destruct (IH (fst (b_step s o))) as [X HX].
    destruct (b_step_extends s o) as [Y HY]. exists (Y ++ X).
    rewrite HX, HY, <- app_assoc. reflexivity.
Qed.

Lemma b_run_ids n ops : forall s pts vs,
  Forall (op_ok n) ops ->
  (exists X, pts = b_points (fst (b_run s ops)) ++ X) ->
  Forall2 (fun o id => match endpoint_of_op' o with
                       | Some e => ep_at (mkPath pts vs n) id = Some e
                       | None => True end)
          ops (snd (b_run s ops)).
Proof.
  induction ops as [|o ops IH]; intros s pts vs Hok [X HX].
  - constructor.
  - pose proof (Forall_inv Hok) as Ho. pose proof (Forall_inv_tail Hok) as Hops.
    rewrite b_run_cons in HX |- *. cbn [fst snd] in HX |- *.
    constructor.
    + destruct (b_run_extends ops (fst (b_step s o))) as [Y HY].
      rewrite HY in HX.
      destruct o as [p a | p a | c p a | c1 c2 p a | cl]; unfold op_ok in Ho;
        cbn [endpoint_of_op' snd] in Ho |- *; [ | | | | exact I];
        cbn [b_step fst snd b_points] in HX |- *.
      * apply (ep_at_split _ _ (b_points s) p a (Y ++ X)); cbn [p_points p_nattr]; auto.
        rewrite HX. rewrite <- !app_assoc. reflexivity.
      * apply (ep_at_split _ _ (b_points s) p a (Y ++ X)); cbn [p_points p_nattr]; auto.
        rewrite HX. rewrite <- !app_assoc. reflexivity.
      * apply (ep_at_split _ _ (b_points s ++ [c]) p a (Y ++ X)); cbn [p_points p_nattr]; auto.
        -- rewrite HX. rewrite <- !app_assoc. reflexivity.
        -- rewrite app_length. cbn [length]. lia.
      * apply (ep_at_split _ _ (b_points s ++ [c1; c2]) p a (Y ++ X)); cbn [p_points p_nattr]; auto.
        -- rewrite HX. rewrite <- !app_assoc. reflexivity.
        -- rewrite app_length. cbn [length]. lia.
    + apply IH; auto. exists X. exact HX.
Qed.

Lemma ops_ok n prog : attrs_ok n prog -> Forall (op_ok n) (ops_of prog).
Proof.
  induction prog as [|s prog IH]; intros Hok.
  - constructor.
  - apply attrs_ok_cons in Hok. destruct Hok as (Ha & Hes & Hok).
    cbn [ops_of flat_map]. apply Forall_app. split; [| apply IH; auto].
    unfold ops_of_sub. constructor; [exact Ha |].
    apply Forall_app. split; [| repeat constructor].
    clear -Hes. induction Hes as [|e es He Hes IH]; [constructor |].
    cbn [map]. constructor; [| exact IH].
    destruct e; exact He.
Qed.

Lemma builder_ids : forall n prog, attrs_ok n prog ->
  Forall2 (fun o id => match match o with
                             | OBegin p a | OLine p a | OQuad _ p a | OCubic _ _ p a => Some (p, a)
                             | OEnd _ => None
                             end with
                       | Some e => ep_at (build n (ops_of prog)) id = Some e
                       | None => True end)
          (ops_of prog) (build_ids n (ops_of prog)).
Proof.
  intros n prog Hok. unfold build_ids, build.
  apply (b_run_ids n (ops_of prog) (b_init n)).
  - apply ops_ok; auto.
  - exists []. rewrite app_nil_r. reflexivity.
Qed.
