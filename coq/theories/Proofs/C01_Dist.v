(* Proofs for C01, part 1: squared distance to a segment, convexity of the tolerance band. *)
From Coq Require Import QArith Qminmax Qabs Qfield Lqa.
From LV Require Import Base.Prelude Model.Bezier Model.Winding Checker.Region Proofs.C18_Winding.
Open Scope Q_scope.

Definition seg_point (a b : qpt) (s : Q) : qpt := (px a + s * (px b - px a), py a + s * (py b - py a)).

(* ------------------------------------------------------------------ *)
(* pure algebra *)

Lemma Qsq_nonneg (x : Q) : 0 <= x * x.
Proof. nra. Qed.

Lemma Qsq_le0_eq0 (x : Q) : x * x <= 0 -> x == 0.
Proof. intro H. nra. Qed.

Definition d2f (U D L : Q) : Q :=
  if Qeq_bool L 0 then U
  else if Qle_bool D 0 then U
  else if Qle_bool L D then U - 2 * D + L
  else U - D * D / L.

Lemma d2f_le U D L s : 0 <= L -> D * D <= U * L -> 0 <= s -> s <= 1 ->
  d2f U D L <= U - 2 * s * D + s * s * L.
Proof.
  intros HL HCS Hs0 Hs1. unfold d2f.
  destruct (Qeq_bool_spec L 0) as [EL|NL].
  - assert (ED : D == 0).
    { apply Qsq_le0_eq0. rewrite EL in HCS. lra. }
    assert (E1 : s * D == 0) by (rewrite ED; ring).
    assert (E2 : s * s * L == 0) by (rewrite EL; ring).
    lra.
  - assert (PL : 0 < L).
    { destruct (Qlt_le_dec 0 L) as [P|P]; [exact P|]. exfalso. apply NL. lra. }
    destruct (Qle_bool_spec D 0) as [D0|D0].
    + assert (0 <= s * (- D)) by (apply Qmult_le_0_compat; lra).
      assert (0 <= s * s * L) by (apply Qmult_le_0_compat; [apply Qsq_nonneg | lra]).
      lra.
    + destruct (Qle_bool_spec L D) as [LD|LD].
      * assert (A : 0 <= (1 - s) * (D - L)) by (apply Qmult_le_0_compat; lra).
        assert (B : 0 <= (1 - s) * (1 - s) * L) by (apply Qmult_le_0_compat; [apply Qsq_nonneg | lra]).
        lra.
      * set (k := D / L).
        assert (Hk : k * L == D) by (unfold k; field; lra).
        assert (E1 : D * D / L == k * (k * L)) by (unfold k; field; lra).
        assert (E2 : s * D == s * (k * L)) by (rewrite Hk; reflexivity).
        assert (B : 0 <= (s - k) * (s - k) * L) by (apply Qmult_le_0_compat; [apply Qsq_nonneg | lra]).
        rewrite E1. lra.
Qed.

Lemma d2f_attained U D L : 0 <= L -> D * D <= U * L ->
  exists s, 0 <= s /\ s <= 1 /\ d2f U D L == U - 2 * s * D + s * s * L.
Proof.
  intros HL HCS. unfold d2f.
  destruct (Qeq_bool_spec L 0) as [EL|NL].
  - exists 0. repeat split; try lra; try ring.
  - assert (PL : 0 < L).
    { destruct (Qlt_le_dec 0 L) as [P|P]; [exact P|]. exfalso. apply NL. lra. }
    destruct (Qle_bool_spec D 0) as [D0|D0].
    + exists 0. repeat split; try lra; try ring.
    + destruct (Qle_bool_spec L D) as [LD|LD].
      * exists 1. repeat split; try lra; try ring.
      * exists (D / L). repeat split.
        -- apply Qle_shift_div_l; lra.
        -- apply Qle_shift_div_r; lra.
        -- field. lra.
Qed.

(* ------------------------------------------------------------------ *)
(* geometry *)

Lemma norm2_seg p a b s :
  norm2 (psub p (seg_point a b s)) ==
  norm2 (psub p a) - 2 * s * dot (psub p a) (psub b a) + s * s * norm2 (psub b a).
Proof. unfold norm2, dot, psub, seg_point, px, py; cbn [fst snd]. ring. Qed.

Lemma norm2_nonneg u : 0 <= norm2 u.
Proof.
  unfold norm2, dot. pose proof (Qsq_nonneg (px u)). pose proof (Qsq_nonneg (py u)). lra.
Qed.

Lemma cauchy_schwarz u v : dot u v * dot u v <= norm2 u * norm2 v.
Proof.
  unfold norm2, dot.
  pose proof (Qsq_nonneg (px u * py v - py u * px v)) as H.
  nra.
Qed.

Lemma norm2_end p a b :
  norm2 (psub p b) == norm2 (psub p a) - 2 * dot (psub p a) (psub b a) + norm2 (psub b a).
Proof. unfold norm2, dot, psub, px, py; cbn [fst snd]. ring. Qed.

Lemma dist2_d2f p a b :
  dist2 p a b == d2f (norm2 (psub p a)) (dot (psub p a) (psub b a)) (norm2 (psub b a)).
Proof.
  unfold dist2, d2f. cbv zeta.
  destruct (Qeq_bool (norm2 (psub b a)) 0); [reflexivity|].
  destruct (Qle_bool (dot (psub p a) (psub b a)) 0); [reflexivity|].
  destruct (Qle_bool (norm2 (psub b a)) (dot (psub p a) (psub b a))).
  - apply norm2_end.
  - reflexivity.
Qed.

Theorem dist2_spec : forall p a b,
  (forall s, 0 <= s -> s <= 1 -> dist2 p a b <= norm2 (psub p (seg_point a b s))) /\
  (exists s, 0 <= s /\ s <= 1 /\ dist2 p a b == norm2 (psub p (seg_point a b s))).
Proof.
  intros p a b. split.
  - intros s H0 H1. rewrite dist2_d2f, norm2_seg.
    apply d2f_le; try assumption; [apply norm2_nonneg | apply cauchy_schwarz].
  - destruct (d2f_attained (norm2 (psub p a)) (dot (psub p a) (psub b a)) (norm2 (psub b a)))
      as (s & H0 & H1 & E); [apply norm2_nonneg | apply cauchy_schwarz |].
    exists s. repeat split; try assumption. rewrite dist2_d2f, norm2_seg. exact E.
Qed.

(* dist2 respects == on the coordinates of the point *)
Lemma dist2_point_le p p' a b : px p == px p' -> py p == py p' -> dist2 p a b <= dist2 p' a b.
Proof.
  intros Ex Ey.
  destruct (dist2_spec p' a b) as (_ & s & H0 & H1 & E).
  destruct (dist2_spec p a b) as (L & _).
  rewrite E. eapply Qle_trans; [apply (L s H0 H1)|].
  unfold norm2, dot, psub, seg_point, px, py in *; cbn [fst snd] in *.
  rewrite Ex, Ey. apply Qle_refl.
Qed.

Lemma dist2_point_eq p p' a b : px p == px p' -> py p == py p' -> dist2 p a b == dist2 p' a b.
Proof.
  intros Ex Ey. apply Qle_antisym; apply dist2_point_le; try assumption; symmetry; assumption.
Qed.

Lemma near_edge_true tol2 p e : near_edge tol2 p e = true <-> dist2 p (fst e) (snd e) <= tol2.
Proof. unfold near_edge. apply Qle_bool_iff. Qed.

Lemma convex_comb_norm (ux uy vx vy s : Q) : 0 <= s -> s <= 1 ->
  ((1 - s) * ux + s * vx) * ((1 - s) * ux + s * vx) + ((1 - s) * uy + s * vy) * ((1 - s) * uy + s * vy)
  <= (1 - s) * (ux * ux + uy * uy) + s * (vx * vx + vy * vy).
Proof.
  intros H0 H1.
  assert (A : 0 <= s * (1 - s) * ((ux - vx) * (ux - vx) + (uy - vy) * (uy - vy))).
  { apply Qmult_le_0_compat; [apply Qmult_le_0_compat; lra|].
    pose proof (Qsq_nonneg (ux - vx)). pose proof (Qsq_nonneg (uy - vy)). lra. }
  lra.
Qed.

Theorem band_convex : forall tol2 p q e s, 0 <= s -> s <= 1 ->
  near_edge tol2 p e = true -> near_edge tol2 q e = true ->
  near_edge tol2 (px p + s * (px q - px p), py p + s * (py q - py p)) e = true.
Proof.
  intros tol2 p q [a b] s H0 H1 Hp Hq.
  rewrite near_edge_true in *. cbn [fst snd] in *.
  destruct (dist2_spec p a b) as (_ & s1 & P0 & P1 & EP).
  destruct (dist2_spec q a b) as (_ & s2 & Q0 & Q1 & EQ).
  set (m := (px p + s * (px q - px p), py p + s * (py q - py p))).
  destruct (dist2_spec m a b) as (L & _).
  set (t := (1 - s) * s1 + s * s2).
  assert (A1 : 0 <= (1 - s) * s1) by (apply Qmult_le_0_compat; lra).
  assert (A2 : 0 <= s * s2) by (apply Qmult_le_0_compat; lra).
  assert (A3 : 0 <= (1 - s) * (1 - s1)) by (apply Qmult_le_0_compat; lra).
  assert (A4 : 0 <= s * (1 - s2)) by (apply Qmult_le_0_compat; lra).
  assert (T0 : 0 <= t) by (unfold t; lra).
  assert (T1 : t <= 1) by (unfold t; lra).
  eapply Qle_trans; [apply (L t T0 T1)|].
  rewrite EP in Hp. rewrite EQ in Hq.
  assert (C : norm2 (psub m (seg_point a b t)) <=
              (1 - s) * norm2 (psub p (seg_point a b s1)) + s * norm2 (psub q (seg_point a b s2))).
  { destruct p as [p1 p2], q as [q1 q2], a as [a1 a2], b as [b1 b2].
    unfold m, t, norm2, dot, psub, seg_point, px, py; cbn [fst snd].
    pose proof (convex_comb_norm (p1 - (a1 + s1 * (b1 - a1))) (p2 - (a2 + s1 * (b2 - a2)))
                                 (q1 - (a1 + s2 * (b1 - a1))) (q2 - (a2 + s2 * (b2 - a2))) s H0 H1) as CC.
    lra. }
  eapply Qle_trans; [exact C|].
  assert (B1 : 0 <= (1 - s) * (tol2 - norm2 (psub p (seg_point a b s1)))) by (apply Qmult_le_0_compat; lra).
  assert (B2 : 0 <= s * (tol2 - norm2 (psub q (seg_point a b s2)))) by (apply Qmult_le_0_compat; lra).
  lra.
Qed.
