(* C14 proofs, part 4: specification-level facts about [rev_prog]:
   closed forms, involution, preservation of [attrs_ok], events. *)
From LV Require Import Base.Prelude Model.PathStore Model.PathSpec Proofs.C14_Layout.

Definition back (e : edge) (start : pt * list Z) : edge :=
  match e with
  | ELine _ _ => ELine (fst start) (snd start)
  | EQuad c _ _ => EQuad c (fst start) (snd start)
  | ECubic c1 c2 _ _ => ECubic c2 c1 (fst start) (snd start)
  end.

Fixpoint backs (start : pt * list Z) (es : list edge) : list edge :=
  match es with
  | [] => []
  | e :: r => back e start :: backs (edge_to e) r
  end.

Fixpoint lastpt (start : pt * list Z) (es : list edge) : pt * list Z :=
  match es with
  | [] => start
  | e :: r => lastpt (edge_to e) r
  end.

Definition back_event (e : edge) (start : pt * list Z) : attr_event :=
  match e with
  | ELine p a => EvLine (p, a) start
  | EQuad c p a => EvQuad (p, a) c start
  | ECubic c1 c2 p a => EvCubic (p, a) c2 c1 start
  end.

Fixpoint revevents (start : pt * list Z) (es : list edge) : list attr_event :=
  match es with
  | [] => []
  | e :: r => revevents (edge_to e) r ++ [back_event e start]
  end.

Lemma rev_edges_eq es : forall start acc,
  rev_edges start es acc = (rev (backs start es) ++ acc, lastpt start es).
Proof.
  induction es as [|e es IH]; intros start acc.
  - reflexivity.
  - cbn [rev_edges backs lastpt rev].
    change (match e with
            | ELine _ _ => ELine (fst start) (snd start)
            | EQuad c _ _ => EQuad c (fst start) (snd start)
            | ECubic c1 c2 _ _ => ECubic c2 c1 (fst start) (snd start)
            end) with (back e start).
    rewrite IH. rewrite <- app_assoc. reflexivity.
Qed.

Lemma rev_sub_eq s :
  rev_sub s =
  mkSub (fst (lastpt (sp_at s, sp_attrs s) (sp_edges s)))
        (snd (lastpt (sp_at s, sp_attrs s) (sp_edges s)))
        (rev (backs (sp_at s, sp_attrs s) (sp_edges s))) (sp_close s).
Proof.
  unfold rev_sub. rewrite rev_edges_eq. rewrite app_nil_r. reflexivity.
Qed.

Lemma spec_edges_snd es : forall cur, snd (spec_edges cur es) = lastpt cur es.
Proof.
  induction es as [|e es IH]; intros cur.
  - reflexivity.
  - cbn [spec_edges lastpt]. rewrite <- IH.
    destruct (spec_edges (edge_to e) es). reflexivity.
Qed.

Lemma spec_edges_cons cur e es :
  spec_edges cur (e :: es) =
  (match e with
   | ELine p a => EvLine cur (p, a)
   | EQuad c p a => EvQuad cur c (p, a)
   | ECubic c1 c2 p a => EvCubic cur c1 c2 (p, a)
   end :: fst (spec_edges (edge_to e) es), snd (spec_edges (edge_to e) es)).
Proof.
  cbn [spec_edges]. destruct (spec_edges (edge_to e) es). reflexivity.
Qed.

Lemma spec_edges_app l1 : forall cur l2,
  fst (spec_edges cur (l1 ++ l2)) =
  fst (spec_edges cur l1) ++ fst (spec_edges (lastpt cur l1) l2).
Proof.
  induction l1 as [|e l1 IH]; intros cur l2.
  - reflexivity.
  - cbn [app]. rewrite !spec_edges_cons. cbn [fst lastpt app]. rewrite IH. reflexivity.
Qed.

Lemma lastpt_app l1 : forall cur l2, lastpt cur (l1 ++ l2) = lastpt (lastpt cur l1) l2.
Proof.
  induction l1 as [|e l1 IH]; intros cur l2; [reflexivity |].
  cbn [app lastpt]. apply IH.
Qed.

Lemma backs_app l1 : forall cur l2,
  backs cur (l1 ++ l2) = backs cur l1 ++ backs (lastpt cur l1) l2.
Proof.
  induction l1 as [|e l1 IH]; intros cur l2; [reflexivity |].
  cbn [app backs lastpt]. rewrite IH. reflexivity.
Qed.

Lemma edge_to_back e start : edge_to (back e start) = start.
Proof. destruct start; destruct e; reflexivity. Qed.

Lemma back_back e start : back (back e start) (edge_to e) = e.
Proof. destruct e; reflexivity. Qed.

Lemma lastpt_rev_backs es : forall start,
  lastpt (lastpt start es) (rev (backs start es)) = start.
Proof.
  induction es as [|e es IH]; intros start.
  - reflexivity.
  - cbn [lastpt backs rev]. rewrite lastpt_app, IH. cbn [lastpt]. apply edge_to_back.
Qed.

Lemma spec_rev_backs es : forall start,
  fst (spec_edges (lastpt start es) (rev (backs start es))) = revevents start es.
Proof.
  induction es as [|e es IH]; intros start.
  - reflexivity.
  - cbn [lastpt backs rev revevents]. rewrite spec_edges_app, IH, lastpt_rev_backs.
    f_equal. rewrite spec_edges_cons. cbn [spec_edges fst].
    destruct start as [p0 a0]. destruct e; reflexivity.
Qed.

Lemma backs_invol es : forall start,
  backs (lastpt start es) (rev (backs start es)) = rev es.
Proof.
  induction es as [|e es IH]; intros start.
  - reflexivity.
  - cbn [lastpt backs rev]. rewrite backs_app, IH, lastpt_rev_backs.
    cbn [backs]. rewrite back_back. reflexivity.
Qed.

Lemma rev_sub_invol s : rev_sub (rev_sub s) = s.
Proof.
  rewrite (rev_sub_eq (rev_sub s)). rewrite (rev_sub_eq s).
  cbn [sp_at sp_attrs sp_edges sp_close].
  rewrite <- !surjective_pairing.
  rewrite backs_invol, lastpt_rev_backs, rev_involutive.
  destruct s; reflexivity.
Qed.

Lemma rev_prog_invol prog : rev_prog (rev_prog prog) = prog.
Proof.
  unfold rev_prog. rewrite map_rev, rev_involutive, map_map.
  rewrite (map_ext _ (fun x => x) rev_sub_invol). apply map_id.
Qed.

(* --------------------------------------------------- attrs_ok preserved *)

Lemma lastpt_ok n es : forall start,
  length (snd start) = n -> Forall (edge_attrs_ok n) es -> length (snd (lastpt start es)) = n.
Proof.
  induction es as [|e es IH]; intros start Hs Hes.
  - exact Hs.
  - cbn [lastpt]. apply IH; [exact (Forall_inv Hes) | exact (Forall_inv_tail Hes)].
Qed.

Lemma backs_ok n es : forall start,
  length (snd start) = n -> Forall (edge_attrs_ok n) es -> Forall (edge_attrs_ok n) (backs start es).
Proof.
  induction es as [|e es IH]; intros start Hs Hes.
  - constructor.
  - cbn [backs]. constructor.
    + unfold edge_attrs_ok. rewrite edge_to_back. exact Hs.
    + apply IH; [exact (Forall_inv Hes) | exact (Forall_inv_tail Hes)].
Qed.

Lemma rev_sub_ok n s : sub_attrs_ok n s -> sub_attrs_ok n (rev_sub s).
Proof.
  intros [Ha Hes]. rewrite rev_sub_eq. split; cbn [sp_attrs sp_edges].
  - apply lastpt_ok; auto.
  - apply Forall_rev. apply backs_ok; auto.
Qed.

Lemma rev_prog_ok n prog : attrs_ok n prog -> attrs_ok n (rev_prog prog).
Proof.
  unfold attrs_ok, rev_prog. intros H. apply Forall_rev. apply Forall_map.
  induction H as [|s prog Hs H IH]; constructor; auto. apply rev_sub_ok; auto.
Qed.

(* ----------------------------------------------------------- events *)

Lemma spec_sub_eq s :
  spec_sub s =
  EvBegin (sp_at s, sp_attrs s)
  :: fst (spec_edges (sp_at s, sp_attrs s) (sp_edges s))
  ++ [EvEnd (lastpt (sp_at s, sp_attrs s) (sp_edges s)) (sp_at s, sp_attrs s) (sp_close s)].
Proof.
  unfold spec_sub. rewrite <- spec_edges_snd.
  destruct (spec_edges (sp_at s, sp_attrs s) (sp_edges s)). reflexivity.
Qed.

Lemma spec_sub_rev s :
  spec_sub (rev_sub s) =
  EvBegin (lastpt (sp_at s, sp_attrs s) (sp_edges s))
  :: revevents (sp_at s, sp_attrs s) (sp_edges s)
  ++ [EvEnd (sp_at s, sp_attrs s) (lastpt (sp_at s, sp_attrs s) (sp_edges s)) (sp_close s)].
Proof.
  rewrite spec_sub_eq. rewrite rev_sub_eq. cbn [sp_at sp_attrs sp_edges sp_close].
  rewrite <- !surjective_pairing.
  rewrite spec_rev_backs, lastpt_rev_backs. reflexivity.
Qed.

Lemma spec_events_rev_cons s prog :
  spec_events (rev_prog (s :: prog)) = spec_events (rev_prog prog) ++ spec_sub (rev_sub s).
Proof.
  unfold spec_events, rev_prog. cbn [map rev]. rewrite flat_map_app. cbn [flat_map].
  rewrite app_nil_r. reflexivity.
Qed.

(* replaying the events through a builder *)
Lemma ops_of_edges_events es : forall cur,
  map op_of_event (fst (spec_edges cur es)) = map op_of_edge es.
Proof.
  induction es as [|e es IH]; intros cur.
  - reflexivity.
  - rewrite spec_edges_cons. cbn [fst map]. rewrite IH. destruct e; reflexivity.
Qed.

Lemma ops_of_events prog : map op_of_event (spec_events prog) = ops_of prog.
Proof.
  induction prog as [|s prog IH]; [reflexivity |].
  unfold spec_events, ops_of. cbn [flat_map]. rewrite map_app.
  fold (spec_events prog). fold (ops_of prog). rewrite IH. f_equal.
  rewrite spec_sub_eq. unfold ops_of_sub. cbn [map op_of_event].
  rewrite map_app, ops_of_edges_events. reflexivity.
Qed.
