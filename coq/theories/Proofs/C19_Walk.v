(* C19 - proofs about the path walker model (walk_edge_go / walk_edge / walk_edges). *)
From Coq Require Import QArith Lqa.
From LV Require Import Base.Prelude Model.Bezier Model.Measure.
Open Scope Q_scope.

Definition wevents (ds : list Q) (start : Q) (pattern : list Q) : list (nat * Q * Q) :=
  walk_edges 0 ds (mkW 0 start 0 pattern false).

(* ------------------------------------------------------------------ count *)
Definition wrem (s : wstate) : nat := if w_done s then O else S (length (w_pattern s)).

Lemma go_count : forall fuel d s distance x acc s' out,
  walk_edge_go fuel d s distance x acc = (s', out) ->
  exists evs, out = acc ++ evs /\ (length evs + wrem s' <= S (length (w_pattern s)))%nat.
Proof.
  induction fuel as [|f IH]; intros d s distance x acc s' out H; cbn [walk_edge_go] in H.
  - inversion H; subst. exists []. rewrite app_nil_r. split; [reflexivity|].
    unfold wrem. destruct (w_done s'); cbn [length]; lia.
  - destruct (Qle_bool (w_next s) distance).
    + destruct (w_pattern s) as [|nd rest] eqn:Hp.
      * inversion H; subst. eexists. split; [reflexivity|]. unfold wrem; cbn. lia.
      * apply IH in H. destruct H as [evs [-> Hl]]. cbn [w_pattern] in Hl.
        eexists (_ :: evs). rewrite <- app_assoc. split; [reflexivity|]. cbn [length]. lia.
    + inversion H; subst. exists []. rewrite app_nil_r. split; [reflexivity|].
      unfold wrem; cbn. lia.
Qed.

Lemma edge_count : forall d s s' evs,
  walk_edge d s = (s', evs) -> (length evs + wrem s' <= wrem s)%nat.
Proof.
  unfold walk_edge; intros d s s' evs H. destruct (w_done s) eqn:Hd.
  - inversion H; subst. cbn. lia.
  - apply go_count in H. destruct H as [e [-> Hl]]. cbn [app] in *.
    unfold wrem at 2. rewrite Hd. exact Hl.
Qed.

Lemma edges_count : forall ds k s, (length (walk_edges k ds s) <= wrem s)%nat.
Proof.
  induction ds as [|d r IH]; intros k s; cbn [walk_edges].
  - cbn. lia.
  - destruct (walk_edge d s) as [s' evs] eqn:He. apply edge_count in He.
    rewrite app_length, map_length. specialize (IH (S k) s'). lia.
Qed.

Lemma walk_count : forall ds start pattern,
  (length (wevents ds start pattern) <= S (length pattern))%nat.
Proof. intros. unfold wevents. apply (edges_count ds 0%nat (mkW 0 start 0 pattern false)). Qed.

Lemma walk_edges_done : forall ds k s, w_done s = true -> walk_edges k ds s = [].
Proof.
  induction ds as [|d r IH]; intros k s Hd; cbn [walk_edges]; [reflexivity|].
  unfold walk_edge. rewrite Hd. cbn [map app]. apply IH; exact Hd.
Qed.

(* ------------------------------------------------------------------ advancements *)
Definition qsum (l : list Q) : Q := fold_right Qplus 0 l.

Lemma qsum_firstn_S : forall (l : list Q) k nd rest, skipn k l = nd :: rest ->
  qsum (firstn (S k) l) == qsum (firstn k l) + nd /\ skipn (S k) l = rest.
Proof.
  induction l as [|a l IH]; intros k nd rest H.
  - destruct k; discriminate.
  - destruct k as [|k].
    + cbn in H. inversion H; subst. split; [cbn; lra | reflexivity].
    + cbn [skipn] in H. destruct (IH k nd rest H) as [H1 H2]. split.
      * change (a + qsum (firstn (S k) l) == a + qsum (firstn k l) + nd). rewrite H1. lra.
      * exact H2.
Qed.

Section Adv.
Variables (start : Q) (pattern : list Q).
Definition A (k : nat) : Q := start + qsum (firstn k pattern).
Definition Iadv (k : nat) (s : wstate) : Prop :=
  w_pattern s = skipn k pattern /\ w_adv s + w_next s == A k.

Lemma go_adv : forall fuel d s distance x acc k s' out,
  Iadv k s -> walk_edge_go fuel d s distance x acc = (s', out) ->
  exists evs, out = acc ++ evs /\
    (forall i e, nth_error evs i = Some e -> snd e == A (k + i)) /\
    (w_done s' = true \/ Iadv (k + length evs) s').
Proof.
  induction fuel as [|f IH]; intros d s distance x acc k s' out HI H; cbn [walk_edge_go] in H.
  - inversion H; subst. exists []. rewrite app_nil_r, Nat.add_0_r. split; [reflexivity|]. split.
    + intros [|i] e He; discriminate.
    + right; exact HI.
  - destruct HI as [HIp HIa]. destruct (Qle_bool (w_next s) distance).
    + destruct (w_pattern s) as [|nd rest] eqn:Hp.
      * inversion H; subst. eexists. split; [reflexivity|]. split.
        -- intros [|[|i]] e He; cbn in He; try discriminate. inversion He; subst. cbn [snd].
           rewrite Nat.add_0_r. exact HIa.
        -- left; reflexivity.
      * symmetry in HIp. destruct (qsum_firstn_S _ _ _ _ HIp) as [Hs Hk].
        apply (IH _ _ _ _ _ (S k)) in H.
        -- destruct H as [evs [-> [Hn Hf]]]. eexists (_ :: evs). rewrite <- app_assoc.
           split; [reflexivity|]. split.
           ++ intros [|i] e He; cbn in He.
              ** inversion He; subst. cbn [snd]. rewrite Nat.add_0_r. exact HIa.
              ** rewrite Nat.add_succ_r. apply (Hn i e He).
           ++ cbn [length]. rewrite Nat.add_succ_r. exact Hf.
        -- split; cbn [w_pattern w_adv w_next]; [symmetry; exact Hk|].
           unfold A in *. rewrite Hs. lra.
    + inversion H; subst. exists []. rewrite app_nil_r, Nat.add_0_r. split; [reflexivity|]. split.
      * intros [|i] e He; discriminate.
      * right. split; cbn [w_pattern w_adv w_next]; assumption.
Qed.

Lemma edges_adv : forall ds k0 s k, (w_done s = true \/ Iadv k s) ->
  forall i e, nth_error (walk_edges k0 ds s) i = Some e -> snd e == A (k + i).
Proof.
  induction ds as [|d r IH]; intros k0 s k HI i e He; cbn [walk_edges] in He.
  - destruct i; discriminate.
  - destruct (w_done s) eqn:Hd.
    + unfold walk_edge in He. rewrite Hd in He. cbn [map app] in He.
      rewrite (walk_edges_done r (S k0) s Hd) in He. destruct i; discriminate.
    + destruct HI as [HI|HI]; [discriminate|].
      destruct (walk_edge d s) as [s' evs] eqn:Hw. unfold walk_edge in Hw. rewrite Hd in Hw.
      apply (go_adv _ _ _ _ _ _ k) in Hw; [|exact HI].
      destruct Hw as [evs' [Hevs [Hn Hf]]]. cbn [app] in Hevs. subst evs'.
      destruct (Nat.lt_ge_cases i (length evs)) as [Hlt|Hge].
      * rewrite nth_error_app1 in He by (rewrite map_length; exact Hlt).
        rewrite nth_error_map in He. destruct (nth_error evs i) as [e0|] eqn:He0; [|discriminate].
        cbn in He. inversion He; subst. cbn [snd]. apply (Hn i e0 He0).
      * rewrite nth_error_app2 in He by (rewrite map_length; exact Hge).
        rewrite map_length in He.
        replace (k + i)%nat with ((k + length evs) + (i - length evs))%nat by lia.
        eapply IH; [exact Hf | exact He].
Qed.
End Adv.

Lemma walk_advancements : forall ds start pattern k e,
  nth_error (wevents ds start pattern) k = Some e ->
  snd e == start + fold_right Qplus 0 (firstn k pattern).
Proof.
  intros ds start pattern k e He. unfold wevents in He.
  apply (edges_adv start pattern ds 0%nat _ 0%nat) in He.
  - exact He.
  - right. split; [reflexivity|]. unfold A, qsum. cbn [firstn fold_right w_adv w_next]. lra.
Qed.

(* ------------------------------------------------------------------ positions *)
Definition Einv (base : Q) (s : wstate) : Prop :=
  w_adv s + w_leftover s == base /\ 0 <= w_leftover s /\ w_leftover s <= w_next s /\
  Forall (fun p => 0 < p) (w_pattern s).

Lemma Qle_bool_false : forall a b, Qle_bool a b = false -> b < a.
Proof.
  intros a b H. apply Qnot_le_lt. intro Hle. apply Qle_bool_iff in Hle. congruence.
Qed.

Lemma div_mul_cancel : forall a d, 0 < d -> (a / d) * d == a.
Proof. intros a d Hd. field. intro H0. rewrite H0 in Hd. apply (Qlt_irrefl _ Hd). Qed.

Lemma go_pos : forall fuel d s distance x acc base s' out,
  0 < d ->
  (length (w_pattern s) < fuel)%nat ->
  Forall (fun p => 0 < p) (w_pattern s) ->
  0 <= w_leftover s -> w_leftover s <= w_next s ->
  distance == w_leftover s + d * (1 - x) ->
  w_adv s + w_leftover s == base + x * d ->
  0 <= x -> x <= 1 ->
  walk_edge_go fuel d s distance x acc = (s', out) ->
  exists evs, out = acc ++ evs /\
    (forall x adv, In (x, adv) evs -> base + x * d == adv /\ 0 <= x /\ x <= 1) /\
    (w_done s' = true \/ Einv (base + d) s').
Proof.
  induction fuel as [|f IH]; intros d s distance x acc base s' out Hd Hfuel Hpat Hl0 Hln Hdist Hadv Hx0 Hx1 H;
    cbn [walk_edge_go] in H.
  - lia.
  - destruct (Qle_bool (w_next s) distance) eqn:Hle.
    + apply Qle_bool_iff in Hle.
      set (x' := x + (w_next s - w_leftover s) / d) in *.
      assert (Hx'd : x' * d == x * d + (w_next s - w_leftover s)).
      { unfold x'. rewrite Qmult_plus_distr_l, div_mul_cancel by exact Hd. reflexivity. }
      assert (Hx'0 : 0 <= x').
      { apply (Qmult_le_r _ _ d Hd). nra. }
      assert (Hx'1 : x' <= 1).
      { apply (Qmult_le_r _ _ d Hd). nra. }
      assert (Hev : base + x' * d == w_adv s + w_next s) by lra.
      destruct (w_pattern s) as [|nd rest] eqn:Hp.
      * inversion H; subst. eexists. split; [reflexivity|]. split.
        -- intros x0 adv0 [Hin|[]]. inversion Hin; subst. auto.
        -- left; reflexivity.
      * inversion Hpat as [|? ? Hnd Hrest]; subst.
        assert (Hdist' : distance - w_next s == 0 + d * (1 - x')) by nra.
        assert (Hadv' : w_adv s + w_next s + 0 == base + x' * d) by lra.
        assert (Hfuel' : (length rest < f)%nat) by (cbn [length] in Hfuel; lia).
        assert (Hnd' : 0 <= nd) by lra.
        pose proof (IH d (mkW 0 nd (w_adv s + w_next s) rest false) (distance - w_next s) x'
                      (acc ++ [(x', w_adv s + w_next s)]) base s' out Hd Hfuel' Hrest
                      (Qle_refl 0) Hnd' Hdist' Hadv' Hx'0 Hx'1 H) as [evs [-> [Hin Hf]]].
        eexists (_ :: evs). rewrite <- app_assoc.
        split; [reflexivity|]. split; [|exact Hf].
        intros x0 adv0 [He|He].
        -- inversion He; subst. auto.
        -- apply Hin; exact He.
    + apply Qle_bool_false in Hle. inversion H; subst. exists []. rewrite app_nil_r.
      split; [reflexivity|]. split.
      * intros ? ? [].
      * right. unfold Einv; cbn [w_pattern w_leftover w_next w_adv].
        split; [nra|]. split; [nra|]. split; [lra|exact Hpat].
Qed.

Lemma edges_pos : forall ds k0 s base,
  Forall (fun d => 0 < d) ds -> (w_done s = true \/ Einv base s) ->
  forall j x adv, In (j, x, adv) (walk_edges k0 ds s) ->
  exists i, j = (k0 + i)%nat /\ base + qsum (firstn i ds) + x * nth i ds 0 == adv /\ 0 <= x /\ x <= 1.
Proof.
  induction ds as [|d r IH]; intros k0 s base Hds HI j x adv Hin; cbn [walk_edges] in Hin.
  - destruct Hin.
  - inversion Hds as [|? ? Hd Hr]; subst.
    destruct (w_done s) eqn:Hdone.
    + unfold walk_edge in Hin. rewrite Hdone in Hin. cbn [map app] in Hin.
      rewrite (walk_edges_done r (S k0) s Hdone) in Hin. destruct Hin.
    + destruct HI as [HI|HI]; [discriminate|]. destruct HI as [Ha [Hl0 [Hln Hp]]].
      destruct (walk_edge d s) as [s' evs] eqn:Hw. unfold walk_edge in Hw. rewrite Hdone in Hw.
      apply (go_pos _ _ _ _ _ _ base) in Hw; try assumption; try lra; [|lia].
      destruct Hw as [evs' [Hevs [Hev Hf]]]. cbn [app] in Hevs. subst evs'.
      apply in_app_or in Hin. destruct Hin as [Hin|Hin].
      * apply in_map_iff in Hin. destruct Hin as [[x0 a0] [Heq Hin]]. cbn [fst snd] in Heq.
        inversion Heq; subst. exists 0%nat. split; [lia|].
        destruct (Hev _ _ Hin) as [He1 [He2 He3]]. cbn [firstn qsum fold_right nth].
        split; [lra|]. split; assumption.
      * destruct (IH (S k0) s' (base + d) Hr Hf j x adv Hin) as [i [Hj [He [Hx0 Hx1]]]].
        exists (S i). split; [lia|]. split; [|split; assumption].
        change (base + (d + qsum (firstn i r)) + x * nth i r 0 == adv). lra.
Qed.

Lemma walk_positions : forall ds start pattern j x adv,
  Forall (fun d => 0 < d) ds -> 0 <= start -> Forall (fun p => 0 < p) pattern ->
  In (j, x, adv) (wevents ds start pattern) ->
  fold_right Qplus 0 (firstn j ds) + x * nth j ds 0 == adv /\ 0 <= x /\ x <= 1.
Proof.
  intros ds start pattern j x adv Hds Hs Hp Hin. unfold wevents in Hin.
  apply (edges_pos ds 0%nat _ 0) in Hin; try assumption.
  - destruct Hin as [i [Hj [He Hx]]]. cbn in Hj. subst i. split; [|exact Hx].
    unfold qsum in He. lra.
  - right. unfold Einv; cbn [w_pattern w_leftover w_next w_adv]. repeat split; try lra; assumption.
Qed.
