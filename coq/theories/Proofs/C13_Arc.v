(* C13 - proofs for the elliptic arc model (Model/Arc.v). *)
From Coq Require Import QArith Qabs Qfield Lqa Lia.
From LV Require Import Base.Prelude Model.Bezier Model.Arc.
Open Scope Q_scope.

Definition coe_arg (cos_phi sin_phi : Q) (sq : Q -> Q) (a : svg_arc) : Q :=
  let cf := from_svg_arc cos_phi sin_phi sq a in
  let p := rotated_half_diff cos_phi sin_phi a in
  let rxpy := cf_rx cf * py p in
  let rypx := cf_ry cf * px p in
  let s := rxpy * rxpy + rypx * rypx in
  Qabs ((cf_rx cf * cf_ry cf * (cf_rx cf * cf_ry cf) - s) / s).
Definition sqrt_at (sq : Q -> Q) (x : Q) : Prop := 0 <= sq x /\ sq x * sq x == x.
Definition oracles_ok (cos_phi sin_phi : Q) (sq : Q -> Q) (a : svg_arc) : Prop :=
  cos_phi * cos_phi + sin_phi * sin_phi == 1 /\
  (1 < radii_factor cos_phi sin_phi a -> sqrt_at sq (radii_factor cos_phi sin_phi a)) /\
  sqrt_at sq (coe_arg cos_phi sin_phi sq a).
Definition arc_ok (a : svg_arc) : Prop :=
  ~ sa_rx a == 0 /\ ~ sa_ry a == 0 /\ ~ (sa_from a =p= sa_to a).

(* ------------------------------------------------------------ helpers *)
Lemma Qltb_lt a b : Qltb a b = true <-> a < b.
Proof.
  unfold Qltb. rewrite negb_true_iff. split.
  - intro H. apply Qnot_le_lt. intro H1. apply Qle_bool_iff in H1. congruence.
  - intro H. destruct (Qle_bool b a) eqn:E; auto. apply Qle_bool_iff in E.
    exfalso. apply (Qlt_not_le _ _ H E).
Qed.
Lemma Qltb_ge a b : Qltb a b = false <-> b <= a.
Proof.
  unfold Qltb. rewrite negb_false_iff. apply Qle_bool_iff.
Qed.

Lemma Qabs_pos_lt x : ~ x == 0 -> 0 < Qabs x.
Proof.
  intro H. destruct (Q_dec x 0) as [[H1|H1]|H1]; [| |contradiction].
  - rewrite Qabs_neg by lra. lra.
  - rewrite Qabs_pos by lra. lra.
Qed.

Lemma sq_pos x : ~ x == 0 -> 0 < x * x.
Proof. intro H. destruct (Q_dec x 0) as [[H1|H1]|H1]; [nra|nra|contradiction]. Qed.

Lemma eq_by_diff A B k u : u == 0 -> A - B == k * u -> A == B.
Proof. intros Hu H. rewrite Hu in H. lra. Qed.

(* ------------------------------------------------------------ sweep_sign *)
Theorem sweep_sign : forall two_pi flag raw, 0 < two_pi -> - two_pi < raw -> raw < two_pi ->
  let r := adjust_sweep two_pi flag raw in
  (flag = true -> 0 <= r /\ r < two_pi) /\ (flag = false -> - two_pi < r /\ r <= 0).
Proof.
  intros tp flag raw H0 H1 H2. cbv zeta. unfold adjust_sweep.
  destruct flag; cbn [andb negb]; (split; intros Hf; try discriminate Hf).
  - destruct (Qltb raw 0) eqn:E.
    + apply Qltb_lt in E. lra.
    + apply Qltb_ge in E. lra.
  - destruct (Qltb 0 raw) eqn:E.
    + apply Qltb_lt in E. lra.
    + apply Qltb_ge in E. lra.
Qed.

(* ------------------------------------------------------------ to_svg_flags *)
Theorem to_svg_flags_spec : forall pi s, 0 < pi ->
  (snd (to_svg_flags pi s) = true <-> 0 <= s) /\
  (fst (to_svg_flags pi s) = true <-> pi <= Qabs s).
Proof.
  intros pi s _. unfold to_svg_flags; cbn [fst snd]. split; apply Qle_bool_iff.
Qed.

(* ------------------------------------------------------------ bezier_chain *)
Fixpoint pieces_chain (a t : Q) (l : list (Q * Q * Q * Q)) : Prop :=
  match l with
  | [] => True
  | (a1, a2, t0, t1) :: r => a1 == a /\ t0 == t /\ pieces_chain a2 t1 r
  end.

Lemma bp_length n : forall i start step t0 dt,
  length (bezier_pieces n i start step t0 dt) = n.
Proof.
  induction n; intros; cbn [bezier_pieces length]; [reflexivity | rewrite IHn; reflexivity].
Qed.

Lemma bp_chain n : forall i start step t0 dt,
  pieces_chain (start + step * inject_Z (Z.of_nat i)) t0 (bezier_pieces n i start step t0 dt).
Proof.
  induction n; intros; cbn [bezier_pieces pieces_chain]; [exact I|].
  split; [reflexivity|]. split; [reflexivity|]. apply IHn.
Qed.

Lemma last_cons_ne {A} (x : A) l d : l <> [] -> last (x :: l) d = last l d.
Proof. destruct l; [congruence | reflexivity]. Qed.

Lemma bp_last n : forall i start step t0 dt d,
  exists a1 t0', last (bezier_pieces (S n) i start step t0 dt) d
                 = (a1, start + step * inject_Z (Z.of_nat (i + S n)), t0', 1).
Proof.
  induction n; intros.
  - cbn [bezier_pieces last]. rewrite Nat.add_1_r. eauto.
  - change (bezier_pieces (S (S n)) i start step t0 dt)
      with ((start + step * inject_Z (Z.of_nat i), start + step * inject_Z (Z.of_nat (S i)),
             t0, t0 + dt) :: bezier_pieces (S n) (S i) start step (t0 + dt) dt).
    rewrite last_cons_ne by (cbn [bezier_pieces]; discriminate).
    replace (i + S (S n))%nat with (S i + S n)%nat by lia. apply IHn.
Qed.

Theorem bezier_chain : forall n start sweep_abs sign, (0 < n)%nat ->
  let l := arc_bezier_pieces n start sweep_abs sign in
  length l = n /\ pieces_chain start 0 l /\
  (exists a1 a2 t0, last l (0, 0, 0, 0) = (a1, a2, t0, 1) /\ a2 == start + sweep_abs * sign).
Proof.
  intros n start sw sign Hn. destruct n as [|n]; [lia|].
  cbv zeta. unfold arc_bezier_pieces.
  set (nq := inject_Z (Z.of_nat (S n))).
  assert (Hnq : ~ nq == 0).
  { unfold nq. intro Hq. unfold Qeq, inject_Z in Hq; cbn [Qnum Qden] in Hq. lia. }
  split; [apply bp_length|]. split.
  - cbn [bezier_pieces pieces_chain]. split.
    + change (inject_Z (Z.of_nat 0)) with 0. ring.
    + split; [reflexivity|]. apply bp_chain.
  - destruct (bp_last n 0%nat start (sw / nq * sign) 0 (1 / nq) (0, 0, 0, 0)) as [a1 [t0' H]].
    eexists a1, _, t0'. split; [exact H|].
    cbn [Nat.add]. fold nq. field. exact Hnq.
Qed.

(* ------------------------------------------------------------ from_svg_arc *)
Section Core.
Variables c s : Q.
Variable sq : Q -> Q.

(* the body of from_svg_arc once the (possibly scaled) radii are chosen *)
Definition core (a : svg_arc) (rx ry : Q) (scaled : bool) : center_form :=
  let hs_x := (px (sa_from a) + px (sa_to a)) / 2 in
  let hs_y := (py (sa_from a) + py (sa_to a)) / 2 in
  let p := rotated_half_diff c s a in
  let rxry := rx * ry in
  let rxpy := rx * py p in
  let rypx := ry * px p in
  let sum_of_sq := rxpy * rxpy + rypx * rypx in
  let sign_coe := if Bool.eqb (sa_large a) (sa_sweep a) then - (1) else 1 in
  let coe := sign_coe * sq (Qabs ((rxry * rxry - sum_of_sq) / sum_of_sq)) in
  let tcx := coe * rxpy / ry in
  let tcy := - coe * rypx / rx in
  let center := (c * tcx - s * tcy + hs_x, s * tcx + c * tcy + hs_y) in
  mkCF center rx ry
       ((px p - tcx) / rx, (py p - tcy) / ry)
       ((- px p - tcx) / rx, (- py p - tcy) / ry)
       scaled.

Lemma from_svg_arc_core a :
  from_svg_arc c s sq a =
  if Qltb 1 (radii_factor c s a)
  then core a (Qabs (sa_rx a) * sq (radii_factor c s a))
              (Qabs (sa_ry a) * sq (radii_factor c s a)) true
  else core a (Qabs (sa_rx a)) (Qabs (sa_ry a)) false.
Proof.
  unfold from_svg_arc, core. destruct (Qltb 1 (radii_factor c s a)); reflexivity.
Qed.

Lemma p_nonzero a : c * c + s * s == 1 -> ~ (sa_from a =p= sa_to a) ->
  ~ (px (rotated_half_diff c s a) == 0 /\ py (rotated_half_diff c s a) == 0).
Proof.
  intros Hcs Hne [Hx Hy]. apply Hne. destruct a as [[fx fy] [tx ty] rx ry lg sw].
  unfold rotated_half_diff, peq, px, py in *. cbn [sa_from sa_to fst snd] in *.
  set (hx := (fx - tx) / 2) in *. set (hy := (fy - ty) / 2) in *.
  assert (E1 : hx == 0).
  { apply (eq_by_diff _ _ (- hx) (c * c + s * s - 1)); [lra|].
    transitivity (c * (c * hx + s * hy) - s * (- s * hx + c * hy) - hx * (c * c + s * s - 1)); [ring|].
    rewrite Hx, Hy. ring. }
  assert (E2 : hy == 0).
  { apply (eq_by_diff _ _ (- hy) (c * c + s * s - 1)); [lra|].
    transitivity (s * (c * hx + s * hy) + c * (- s * hx + c * hy) - hy * (c * c + s * s - 1)); [ring|].
    rewrite Hx, Hy. ring. }
  assert (F1 : fx - tx == 2 * hx) by (unfold hx; field).
  assert (F2 : fy - ty == 2 * hy) by (unfold hy; field).
  rewrite E1 in F1. rewrite E2 in F2. split; lra.
Qed.

Lemma sum_sq_pos rx ry x y : 0 < rx -> 0 < ry -> ~ (x == 0 /\ y == 0) ->
  0 < rx * y * (rx * y) + ry * x * (ry * x).
Proof.
  intros Hrx Hry Hne.
  assert (H1 : 0 <= rx * y * (rx * y)) by nra.
  assert (H2 : 0 <= ry * x * (ry * x)) by nra.
  destruct (Qeq_dec x 0) as [Ex|Ex].
  - destruct (Qeq_dec y 0) as [Ey|Ey]; [tauto|].
    assert (0 < rx * y * (rx * y)); [|lra].
    apply sq_pos. intro H. apply Qmult_integral in H. destruct H; [lra|tauto].
  - assert (0 < ry * x * (ry * x)); [|lra].
    apply sq_pos. intro H. apply Qmult_integral in H. destruct H; [lra|tauto].
Qed.

Lemma rf_sum a : ~ sa_rx a == 0 -> ~ sa_ry a == 0 ->
  let p := rotated_half_diff c s a in
  let rx := Qabs (sa_rx a) in let ry := Qabs (sa_ry a) in
  rx * py p * (rx * py p) + ry * px p * (ry * px p) == radii_factor c s a * (rx * ry * (rx * ry)).
Proof.
  intros Hx Hy. cbv zeta. unfold radii_factor.
  apply Qabs_pos_lt in Hx. apply Qabs_pos_lt in Hy.
  set (rx := Qabs (sa_rx a)) in *. set (ry := Qabs (sa_ry a)) in *.
  set (p := rotated_half_diff c s a). field. split; lra.
Qed.

Lemma main_facts a : arc_ok a -> oracles_ok c s sq a ->
  exists rx ry scaled,
    from_svg_arc c s sq a = core a rx ry scaled /\ 0 < rx /\ 0 < ry /\
    let p := rotated_half_diff c s a in
    let S := rx * py p * (rx * py p) + ry * px p * (ry * px p) in
    0 < S /\ S <= rx * ry * (rx * ry) /\
    sqrt_at sq (Qabs ((rx * ry * (rx * ry) - S) / S)).
Proof.
  intros [Hrx [Hry Hft]] [Hcs [Hsc Hcoe]].
  pose proof (p_nonzero a Hcs Hft) as Hp.
  pose proof (rf_sum a Hrx Hry) as HS. cbv zeta in HS.
  unfold coe_arg in Hcoe. rewrite from_svg_arc_core in Hcoe. rewrite from_svg_arc_core.
  pose proof (Qabs_pos_lt _ Hrx) as Hrx0. pose proof (Qabs_pos_lt _ Hry) as Hry0.
  set (rx0 := Qabs (sa_rx a)) in *. set (ry0 := Qabs (sa_ry a)) in *.
  set (rf := radii_factor c s a) in *. set (p := rotated_half_diff c s a) in *.
  destruct (Qltb 1 rf) eqn:E.
  - apply Qltb_lt in E. destruct (Hsc E) as [Ht0 Htt].
    set (t := sq rf) in *.
    assert (Ht : 0 < t) by nra.
    exists (rx0 * t), (ry0 * t), true. split; [reflexivity|].
    split; [nra|]. split; [nra|]. cbv zeta.
    split; [apply sum_sq_pos; [nra|nra|exact Hp]|].
    split; [|exact Hcoe].
    assert (Eq : rx0 * t * py p * (rx0 * t * py p) + ry0 * t * px p * (ry0 * t * px p)
                 == rx0 * t * (ry0 * t) * (rx0 * t * (ry0 * t))); [|rewrite Eq; lra].
    transitivity ((t * t) * (rx0 * py p * (rx0 * py p) + ry0 * px p * (ry0 * px p))); [ring|].
    rewrite HS.
    transitivity ((t * t) * (t * t) * (rx0 * ry0 * (rx0 * ry0))); [|ring].
    rewrite Htt. ring.
  - apply Qltb_ge in E.
    exists rx0, ry0, false. split; [reflexivity|].
    split; [exact Hrx0|]. split; [exact Hry0|]. cbv zeta.
    split; [apply sum_sq_pos; assumption|].
    split; [|exact Hcoe].
    rewrite HS. nra.
Qed.
End Core.

Lemma coe_square sq sgn D S :
  sgn * sgn == 1 -> 0 < S -> 0 <= D -> sqrt_at sq (Qabs (D / S)) ->
  let coe := sgn * sq (Qabs (D / S)) in coe * coe * S == D.
Proof.
  intros Hs HS HD [_ Hsq]. cbv zeta.
  assert (Hpos : 0 <= D / S).
  { unfold Qdiv. apply Qmult_le_0_compat; [exact HD|]. apply Qlt_le_weak, Qinv_lt_0_compat, HS. }
  set (t := sq (Qabs (D / S))) in *.
  rewrite (Qabs_pos _ Hpos) in Hsq.
  transitivity ((sgn * sgn) * (t * t) * S); [ring|]. rewrite Hs, Hsq. field. lra.
Qed.

Lemma unit_core x y rx ry coe :
  0 < rx -> 0 < ry ->
  coe * coe * (rx * y * (rx * y) + ry * x * (ry * x))
    == rx * ry * (rx * ry) - (rx * y * (rx * y) + ry * x * (ry * x)) ->
  let tcx := coe * (rx * y) / ry in
  let tcy := - coe * (ry * x) / rx in
  (x - tcx) / rx * ((x - tcx) / rx) + (y - tcy) / ry * ((y - tcy) / ry) == 1 /\
  (- x - tcx) / rx * ((- x - tcx) / rx) + (- y - tcy) / ry * ((- y - tcy) / ry) == 1.
Proof.
  intros Hrx Hry H. cbv zeta.
  set (S := rx * y * (rx * y) + ry * x * (ry * x)) in *.
  split.
  - transitivity ((S + coe * coe * S) / (rx * ry * (rx * ry))); [unfold S; field; split; lra|].
    rewrite H. field. split; lra.
  - transitivity ((S + coe * coe * S) / (rx * ry * (rx * ry))); [unfold S; field; split; lra|].
    rewrite H. field. split; lra.
Qed.

Lemma sign_sq (b : bool) : (if b then - (1) else 1) * (if b then - (1) else 1) == 1.
Proof. destruct b; ring. Qed.

Theorem unit_vectors : forall cos_phi sin_phi sq a,
  arc_ok a -> oracles_ok cos_phi sin_phi sq a ->
  let cf := from_svg_arc cos_phi sin_phi sq a in
  px (cf_start_v cf) * px (cf_start_v cf) + py (cf_start_v cf) * py (cf_start_v cf) == 1 /\
  px (cf_end_v cf) * px (cf_end_v cf) + py (cf_end_v cf) * py (cf_end_v cf) == 1.
Proof.
  intros c s sq a Ha Ho. cbv zeta.
  destruct (main_facts c s sq a Ha Ho) as [rx [ry [scaled [Eq [Hrx [Hry HS]]]]]].
  cbv zeta in HS. destruct HS as [HS [HD Hsq]]. rewrite Eq.
  unfold core. cbn [cf_start_v cf_end_v]. unfold px, py in *. cbn [fst snd].
  apply unit_core; [exact Hrx|exact Hry|].
  apply coe_square; [apply sign_sq|exact HS|lra|exact Hsq].
Qed.

Lemma endpoints_core c s fx fy tx ty rx ry tcx tcy :
  c * c + s * s == 1 -> 0 < rx -> 0 < ry ->
  let hdx := (fx - tx) / 2 in let hdy := (fy - ty) / 2 in
  let hsx := (fx + tx) / 2 in let hsy := (fy + ty) / 2 in
  let x := c * hdx + s * hdy in let y := - s * hdx + c * hdy in
  (c * tcx - s * tcy + hsx + c * (rx * ((x - tcx) / rx)) - s * (ry * ((y - tcy) / ry)) == fx /\
   s * tcx + c * tcy + hsy + s * (rx * ((x - tcx) / rx)) + c * (ry * ((y - tcy) / ry)) == fy) /\
  (c * tcx - s * tcy + hsx + c * (rx * ((- x - tcx) / rx)) - s * (ry * ((- y - tcy) / ry)) == tx /\
   s * tcx + c * tcy + hsy + s * (rx * ((- x - tcx) / rx)) + c * (ry * ((- y - tcy) / ry)) == ty).
Proof.
  intros Hcs Hrx Hry. cbv zeta.
  assert (Hu : c * c + s * s - 1 == 0) by lra.
  repeat split.
  - apply (eq_by_diff _ _ ((fx - tx) / 2) _ Hu). field. split; lra.
  - apply (eq_by_diff _ _ ((fy - ty) / 2) _ Hu). field. split; lra.
  - apply (eq_by_diff _ _ (- ((fx - tx) / 2)) _ Hu). field. split; lra.
  - apply (eq_by_diff _ _ (- ((fy - ty) / 2)) _ Hu). field. split; lra.
Qed.

Theorem endpoints_on_ellipse : forall cos_phi sin_phi sq a,
  arc_ok a -> oracles_ok cos_phi sin_phi sq a ->
  let cf := from_svg_arc cos_phi sin_phi sq a in
  ellipse_point cos_phi sin_phi cf (cf_start_v cf) =p= sa_from a /\
  ellipse_point cos_phi sin_phi cf (cf_end_v cf) =p= sa_to a.
Proof.
  intros c s sq a Ha Ho. cbv zeta.
  destruct (main_facts c s sq a Ha Ho) as [rx [ry [scaled [Eq [Hrx [Hry _]]]]]].
  rewrite Eq. destruct Ho as [Hcs _].
  destruct a as [[fx fy] [tx ty] rx0 ry0 lg sw].
  unfold core, ellipse_point, rotated_half_diff, peq, px, py.
  cbn [cf_start_v cf_end_v cf_center cf_rx cf_ry sa_from sa_to sa_large sa_sweep fst snd].
  apply endpoints_core; assumption.
Qed.

Theorem radii_scaled_iff : forall cos_phi sin_phi sq a,
  arc_ok a -> oracles_ok cos_phi sin_phi sq a ->
  let cf := from_svg_arc cos_phi sin_phi sq a in
  let rf := radii_factor cos_phi sin_phi a in
  (rf <= 1 -> cf_rx cf == Qabs (sa_rx a) /\ cf_ry cf == Qabs (sa_ry a)) /\
  (1 < rf -> cf_rx cf == Qabs (sa_rx a) * sq rf /\ cf_ry cf == Qabs (sa_ry a) * sq rf /\ 1 < sq rf).
Proof.
  intros c s sq a Ha [_ [Hsc _]]. cbv zeta. rewrite from_svg_arc_core.
  set (rf := radii_factor c s a) in *.
  destruct (Qltb 1 rf) eqn:E.
  - apply Qltb_lt in E. split; [intro; lra|]. intros _.
    cbn [core cf_rx cf_ry]. split; [reflexivity|]. split; [reflexivity|].
    destruct (Hsc E) as [H0 H1]. nra.
  - apply Qltb_ge in E. split; [|intro; lra]. intros _.
    cbn [core cf_rx cf_ry]. split; reflexivity.
Qed.
