(* C14, polygon views: random access agrees with iteration; the id iteration resolved through the
   points is the iteration; the empty polygon has no event; the pre-fix comparison is refuted. *)
From Coq Require Import Lia.
From LV Require Import Base.Prelude Model.PathStore Model.Polygon.

Lemma poly_lines_length prev rest : length (poly_lines prev rest) = length rest.
Proof. revert prev; induction rest as [|p r IH]; intros prev; cbn [poly_lines length]; [reflexivity|]. now rewrite IH. Qed.

Lemma poly_events_length pts closed : pts <> [] -> length (poly_events pts closed) = S (length pts).
Proof.
  destruct pts as [|p0 rest]; [congruence|]. intros _. cbn [poly_events length].
  rewrite app_length, poly_lines_length. cbn [length]. lia.
Qed.

(* the k-th line (k >= 0) joins points k and k+1 *)
Lemma poly_lines_nth prev rest k :
  (k < length rest)%nat ->
  nth_error (poly_lines prev rest) k = Some (EvLine (nth k (prev :: rest) (0, 0)%Z) (nth k rest (0, 0)%Z)).
Proof.
  revert prev k; induction rest as [|p r IH]; intros prev k Hk; cbn [length] in Hk; [lia|].
  destruct k as [|k]; cbn [poly_lines nth_error nth]; [reflexivity|].
  rewrite IH by lia. reflexivity.
Qed.

Lemma last_nth (l : list pt) d d' : l <> [] -> last l d = nth (length l - 1) l d'.
Proof.
  induction l as [|a r IH]; [congruence|]. intros _. destruct r as [|b r'].
  - reflexivity.
  - change (last (a :: b :: r') d) with (last (b :: r') d). rewrite IH by congruence.
    change (length (a :: b :: r')) with (S (S (length r'))).
    change (length (b :: r')) with (S (length r')).
    replace (S (S (length r')) - 1)%nat with (S (length r')) by lia.
    replace (S (length r') - 1)%nat with (length r') by lia. reflexivity.
Qed.

Lemma poly_events_cons p0 rest closed :
  poly_events (p0 :: rest) closed
  = EvBegin p0 :: poly_lines p0 rest ++ [EvEnd (pnth (p0 :: rest) (length rest)) p0 closed].
Proof.
  unfold poly_events, pnth. rewrite (last_nth (p0 :: rest) p0 (0, 0)%Z) by congruence.
  change (length (p0 :: rest)) with (S (length rest)).
  replace (S (length rest) - 1)%nat with (length rest) by lia. reflexivity.
Qed.

Theorem poly_event_is_nth : forall pts closed i,
  pts <> [] -> (i <= length pts)%nat ->
  nth_error (poly_events pts closed) i = Some (poly_event pts closed i).
Proof.
  intros pts closed i Hne Hi. destruct pts as [|p0 rest]; [congruence|].
  rewrite poly_events_cons. unfold poly_event.
  change (length (p0 :: rest)) with (S (length rest)) in *.
  destruct (Nat.eqb_spec i 0) as [H0|H0].
  - subst i. reflexivity.
  - destruct i as [|i]; [congruence|]. clear H0.
    change (nth_error (EvBegin p0 :: poly_lines p0 rest ++ [EvEnd (pnth (p0 :: rest) (length rest)) p0 closed]) (S i))
      with (nth_error (poly_lines p0 rest ++ [EvEnd (pnth (p0 :: rest) (length rest)) p0 closed]) i).
    replace (S i - 1)%nat with i by lia.
    replace (S (length rest) - 1)%nat with (length rest) by lia.
    destruct (Nat.eqb_spec (S i) (S (length rest))) as [E|E].
    + assert (i = length rest) by lia. subst i.
      rewrite nth_error_app2 by (rewrite poly_lines_length; lia).
      rewrite poly_lines_length, PeanoNat.Nat.sub_diag. reflexivity.
    + rewrite nth_error_app1 by (rewrite poly_lines_length; lia).
      rewrite poly_lines_nth by lia. reflexivity.
Qed.

Theorem poly_events_empty : forall closed, poly_events [] closed = [] /\ poly_id_events [] closed = [].
Proof. intros; split; reflexivity. Qed.

(* the id iteration: from index idx (1 <= idx <= n) the remaining events *)
Lemma poly_id_iter_from (pts : list pt) closed fuel idx :
  (1 <= idx <= length pts)%nat -> (length pts - idx + 2 <= fuel)%nat ->
  map (map_event (pnth pts) (pnth pts)) (poly_id_iter fuel idx (length pts) closed)
  = poly_lines (pnth pts (idx - 1)) (skipn idx pts) ++ [EvEnd (pnth pts (length pts - 1)) (pnth pts 0) closed].
Proof.
  revert idx; induction fuel as [|f IH]; intros idx Hi Hf; [lia|].
  cbn [poly_id_iter].
  destruct (Nat.leb (length pts) 0) eqn:E0; [apply PeanoNat.Nat.leb_le in E0; lia|].
  destruct (Nat.eqb idx 0) eqn:E1; [apply PeanoNat.Nat.eqb_eq in E1; lia|].
  destruct (Nat.ltb idx (length pts)) eqn:E2.
  - apply PeanoNat.Nat.ltb_lt in E2. cbn [map map_event].
    rewrite IH by lia.
    assert (Hs : skipn idx pts = pnth pts idx :: skipn (S idx) pts).
    { unfold pnth. clear - E2. revert idx E2. induction pts as [|a r IHp]; intros idx H; cbn [length] in H; [lia|].
      destruct idx as [|idx]; [reflexivity|]. cbn [skipn nth]. apply IHp. lia. }
    rewrite Hs. cbn [poly_lines]. replace (S idx - 1)%nat with idx by lia. reflexivity.
  - apply PeanoNat.Nat.ltb_ge in E2. assert (idx = length pts) by lia. subst idx.
    rewrite PeanoNat.Nat.eqb_refl. rewrite skipn_all. cbn [poly_lines map map_event app]. reflexivity.
Qed.

Lemma poly_id_iter_begin f n closed :
  (1 <= n)%nat ->
  poly_id_iter (S f) 0 n closed = EvBegin 0%nat :: poly_id_iter f 1 n closed.
Proof.
  intros Hn. cbn [poly_id_iter].
  destruct (Nat.leb_spec n 0) as [H|H]; [lia|]. reflexivity.
Qed.

Theorem poly_id_events_are_events : forall pts closed, poly_id_events pts closed = poly_events pts closed.
Proof.
  intros pts closed. destruct pts as [|p0 rest]; [reflexivity|].
  rewrite poly_events_cons. unfold poly_id_events.
  set (pts := p0 :: rest).
  assert (Hl : length pts = S (length rest)) by reflexivity.
  rewrite poly_id_iter_begin by lia.
  cbn [map map_event].
  rewrite poly_id_iter_from by lia.
  rewrite Hl. replace (S (length rest) - 1)%nat with (length rest) by lia.
  reflexivity.
Qed.

(* the comparison used before the fix loses the last line and runs out of the points *)
Theorem poly_event_old_refuted :
  let pts := [(0, 0); (1, 0); (1, 1); (0, 1)]%Z in
  nth_error (poly_events pts true) 3 = Some (EvLine (1, 1)%Z (0, 1)%Z) /\
  poly_event_old pts true 3 = EvEnd (0, 1)%Z (0, 0)%Z true /\
  poly_event pts true 3 = EvLine (1, 1)%Z (0, 1)%Z /\
  poly_event pts true 4 = EvEnd (0, 1)%Z (0, 0)%Z true.
Proof. cbv. repeat split. Qed.
