From Coq Require Import String List Bool Lia.
From LV Require Import Base.Prelude Gen.ResetTable Model.Reuse.
Import ListNotations.
Open Scope string_scope.

Lemma no_carrier_kind t f k : no_carrier t = true -> kind_of t f = Some k -> k <> Untouched.
Proof.
  unfold no_carrier. induction t as [|[g k'] r IH]; cbn [kind_of forallb snd]; intros H Hk; [discriminate|].
  apply andb_prop in H. destruct H as [H1 H2].
  destruct (String.eqb f g).
  - inversion Hk; subst. intro E; subst; discriminate.
  - apply IH; assumption.
Qed.

Lemma preamble_canonical (V I : Type) t (init : I -> string -> V) (s s' : obj V) i f :
  no_carrier t = true -> read_field t f = true -> preamble V I t init s i f = preamble V I t init s' i f.
Proof.
  intros Hn Hr. unfold preamble, read_field in *.
  destruct (kind_of t f) as [k|] eqn:Hk; [|discriminate].
  pose proof (no_carrier_kind t f k Hn Hk) as Hu.
  destruct k; cbn in *; try reflexivity; try discriminate. contradiction.
Qed.

Theorem history_independent :
  forall (V I O : Type) (t : table) (init : I -> string -> V) (run : obj V -> I -> obj V * O),
    no_carrier t = true -> reads_only V I O t run ->
    forall (s0 fresh : obj V) (h : list I) (i : I),
      call_output V I O t init run (after V I O t init run s0 h) i = call_output V I O t init run fresh i.
Proof.
  intros V I O t init run Hn Hf s0 fresh h i. unfold call_output, call.
  apply Hf. intros f Hr. apply preamble_canonical; assumption.
Qed.

Lemma fill_complete : no_carrier (table_of "FillTessellator") = true.
Proof. vm_compute. reflexivity. Qed.
Lemma stroke_complete : no_carrier (table_of "StrokeTessellator") = true.
Proof. vm_compute. reflexivity. Qed.

Theorem fill_tessellator_independent :
  forall (V I O : Type) (init : I -> string -> V) (run : obj V -> I -> obj V * O),
    reads_only V I O (table_of "FillTessellator") run ->
    forall s0 fresh h i,
      call_output V I O (table_of "FillTessellator") init run (after V I O (table_of "FillTessellator") init run s0 h) i
      = call_output V I O (table_of "FillTessellator") init run fresh i.
Proof. intros. apply history_independent; [exact fill_complete | assumption]. Qed.

Theorem stroke_tessellator_independent :
  forall (V I O : Type) (init : I -> string -> V) (run : obj V -> I -> obj V * O),
    reads_only V I O (table_of "StrokeTessellator") run ->
    forall s0 fresh h i,
      call_output V I O (table_of "StrokeTessellator") init run (after V I O (table_of "StrokeTessellator") init run s0 h) i
      = call_output V I O (table_of "StrokeTessellator") init run fresh i.
Proof. intros. apply history_independent; [exact stroke_complete | assumption]. Qed.

(* a counter that is never reset: output = value of the field, run increments it *)
Definition leak_table : table := [("count", Untouched)].
Definition leak_run (s : obj nat) (i : nat) : obj nat * nat :=
  ((fun f => if String.eqb f "count" then S (s "count") else s f), s "count").

Theorem untouched_field_leaks :
  exists (t : table) (init : nat -> string -> nat) (run : obj nat -> nat -> obj nat * nat),
    no_carrier t = false /\ reads_only nat nat nat t run /\
    exists s0 h i, call_output nat nat nat t init run (after nat nat nat t init run s0 h) i
                   <> call_output nat nat nat t init run s0 i.
Proof.
  exists leak_table, (fun _ _ => 0), leak_run. split; [reflexivity|]. split.
  - intros s s' i H. unfold leak_run. cbn [snd]. apply H. reflexivity.
  - exists (fun _ => 0), [0], 0. vm_compute. discriminate.
Qed.

Theorem premise_satisfiable :
  exists run : obj nat -> nat -> obj nat * nat,
    reads_only nat nat nat (table_of "FillTessellator") run /\
    (exists s s', snd (run s 0) <> snd (run s' 0)).
Proof.
  exists (fun s i => (s, s "fill_rule")). split.
  - intros s s' i H. cbn [snd]. apply H. vm_compute. reflexivity.
  - exists (fun _ => 0), (fun _ => 1). cbn. discriminate.
Qed.
