(* Proofs for C01, part 2: sorting, breakpoints, soundness of the line scan and of the witnesses. *)
From Coq Require Import QArith Qminmax Qabs Qfield Lqa Sorted.
From LV Require Import Base.Prelude Model.Bezier Model.Winding Checker.Region Proofs.C18_Winding.
From LV Require Export Proofs.C01_Dist.
Open Scope Q_scope.

(* ------------------------------------------------------------------ *)
(* far / farb, witnesses *)

Theorem farb_spec : forall tol2 es p, farb tol2 es p = true <-> far tol2 es p.
Proof.
  intros tol2 es p. unfold farb, far. rewrite forallb_forall.
  split; intros H e He; specialize (H e He).
  - unfold near_edge in H. destruct (Qle_bool_spec (dist2 p (fst e) (snd e)) tol2); [discriminate|assumption].
  - unfold near_edge. destruct (Qle_bool_spec (dist2 p (fst e) (snd e)) tol2); [lra|reflexivity].
Qed.

Lemma agree_true r es ts p : agree r es ts p = true <-> covers ts p = inside r es p.
Proof. unfold agree. apply eqb_true_iff. Qed.

Theorem witness_sound : forall r tol2 es ts y iv p,
  witness_in r tol2 es ts y iv = Some p ->
  far tol2 es p /\ covers ts p <> inside r es p.
Proof.
  intros r tol2 es ts y iv p H. unfold witness_in in H.
  apply find_some in H. destruct H as [_ H].
  apply andb_true_iff in H. destruct H as [F A].
  split.
  - apply farb_spec. exact F.
  - intro E. apply agree_true in E. rewrite E in A. discriminate.
Qed.

(* ------------------------------------------------------------------ *)
(* insertion sort *)

Lemma insert_q_In x l z : In z (insert_q x l) <-> z = x \/ In z l.
Proof.
  induction l as [|h r IH]; cbn [insert_q].
  - cbn [In]. intuition.
  - destruct (Qle_bool x h); cbn [In] in *; rewrite ?IH; intuition.
Qed.

Lemma sort_q_In l x : In x (sort_q l) <-> In x l.
Proof.
  induction l as [|h r IH]; [reflexivity|].
  unfold sort_q in *. cbn [fold_right]. rewrite insert_q_In, IH. cbn [In]. intuition.
Qed.

Lemma insert_q_sorted x l : StronglySorted Qle l -> StronglySorted Qle (insert_q x l).
Proof.
  induction 1 as [|h r S IH F]; cbn [insert_q].
  - constructor; constructor.
  - destruct (Qle_bool_spec x h) as [L|L].
    + constructor; [constructor; assumption|].
      constructor; [exact L|]. eapply Forall_impl; [|exact F].
      intros z Hz. cbv beta in *. lra.
    + constructor; [exact IH|].
      apply Forall_forall. intros z Hz. apply insert_q_In in Hz. destruct Hz as [->|Hz].
      * lra.
      * rewrite Forall_forall in F. apply F. exact Hz.
Qed.

Lemma sort_q_sorted l : StronglySorted Qle (sort_q l).
Proof.
  induction l as [|h r IH]; [constructor|].
  unfold sort_q in *. cbn [fold_right]. apply insert_q_sorted. exact IH.
Qed.

Lemma sorted_nth l : StronglySorted Qle l ->
  forall i j a b, (i < j)%nat -> nth_error l i = Some a -> nth_error l j = Some b -> a <= b.
Proof.
  induction 1 as [|h r S IH F]; intros i j a b Lt Hi Hj.
  - destruct i; discriminate.
  - destruct j as [|j]; [lia|]. cbn [nth_error] in Hj.
    destruct i as [|i]; cbn [nth_error] in Hi.
    + injection Hi as <-. rewrite Forall_forall in F. apply F. eapply nth_error_In; exact Hj.
    + apply (IH i j); try assumption. lia.
Qed.

Theorem sort_q_spec : forall l,
  (forall x, In x (sort_q l) <-> In x l) /\
  (forall i j a b, (i < j)%nat -> nth_error (sort_q l) i = Some a -> nth_error (sort_q l) j = Some b -> a <= b).
Proof.
  intro l. split.
  - intro x. apply sort_q_In.
  - apply sorted_nth. apply sort_q_sorted.
Qed.

(* ------------------------------------------------------------------ *)
(* constancy between breakpoints *)

Definition crossing (y : Q) (a b : qpt) : Prop :=
  (py a <= y /\ y < py b) \/ (py b <= y /\ y < py a).

Lemma crosses_line_true y e : crosses_line y e = true <-> crossing y (fst e) (snd e).
Proof.
  unfold crosses_line, crossing.
  destruct (Qle_bool_spec (py (fst e)) y); destruct (Qltb_spec y (py (snd e)));
  destruct (Qle_bool_spec (py (snd e)) y); destruct (Qltb_spec y (py (fst e)));
    cbn [andb orb]; split; intro HH; try reflexivity; try discriminate; try lra;
    try (left; split; assumption); try (right; split; assumption).
Qed.

Lemma edge_wn_const lo hi x y a b :
  lo < x -> x <= hi ->
  (crossing y a b -> x_at a b y <= lo \/ hi <= x_at a b y) ->
  edge_wn (x, y) a b = edge_wn (hi, y) a b.
Proof.
  intros H1 H2 HB. unfold crossing in HB.
  destruct (edge_wn_cases (hi, y) a b) as [(A&B&C&->)|[(A&B&C&->)|(A&B&->)]];
    cbn [px py fst snd] in *.
  - apply edge_wn_up; cbn [px py fst snd]; try assumption.
    destruct HB as [HB|HB]; [left; split; assumption | lra | lra].
  - apply edge_wn_down; cbn [px py fst snd]; try assumption.
    destruct HB as [HB|HB]; [right; split; assumption | lra | lra].
  - apply edge_wn_zero; cbn [px py fst snd]; intros (P&Q&R).
    + destruct HB as [HB|HB]; [left; split; assumption | |]; [apply A; repeat split; lra | lra].
    + destruct HB as [HB|HB]; [right; split; assumption | |]; [apply B; repeat split; lra | lra].
Qed.

Lemma wn_const_list p q (l : list edge) :
  (forall e, In e l -> edge_wn p (fst e) (snd e) = edge_wn q (fst e) (snd e)) ->
  wn p l = wn q l.
Proof.
  induction l as [|e r IH]; intro H; [reflexivity|].
  rewrite !wn_cons. rewrite (H e) by (left; reflexivity).
  rewrite IH by (intros e' He'; apply H; right; exact He'). reflexivity.
Qed.

Lemma existsb_ext_in {A} (f g : A -> bool) l :
  (forall a, In a l -> f a = g a) -> existsb f l = existsb g l.
Proof.
  induction l as [|h r IH]; intro H; [reflexivity|].
  cbn [existsb]. rewrite (H h) by (left; reflexivity).
  rewrite IH by (intros a Ha; apply H; right; exact Ha). reflexivity.
Qed.

Lemma breakpoint_in y es ts e :
  In e (es ++ flat_map tri_edges ts) -> crossing y (fst e) (snd e) ->
  In (x_at (fst e) (snd e) y) (breakpoints y es ts).
Proof.
  intros He Hc. unfold breakpoints.
  apply (in_map (fun e => x_at (fst e) (snd e) y)).
  apply filter_In. split; [exact He|]. apply crosses_line_true. exact Hc.
Qed.

Theorem constant_between_breakpoints : forall r es ts y lo hi x,
  lo < x -> x <= hi ->
  (forall b, In b (breakpoints y es ts) -> b <= lo \/ hi <= b) ->
  covers ts (x, y) = covers ts (hi, y) /\ inside r es (x, y) = inside r es (hi, y).
Proof.
  intros r es ts y lo hi x H1 H2 HB.
  assert (E : forall e, In e (es ++ flat_map tri_edges ts) ->
                        edge_wn (x, y) (fst e) (snd e) = edge_wn (hi, y) (fst e) (snd e)).
  { intros e He. apply (edge_wn_const lo); try assumption.
    intro Hc. apply HB. apply breakpoint_in; assumption. }
  split.
  - unfold covers. apply existsb_ext_in. intros t Ht. unfold tri_contains.
    rewrite (wn_const_list (x, y) (hi, y) (tri_edges t)); [reflexivity|].
    intros e He. apply E. apply in_or_app. right. apply in_flat_map. exists t. split; assumption.
  - unfold inside. rewrite (wn_const_list (x, y) (hi, y) es); [reflexivity|].
    intros e He. apply E. apply in_or_app. left. exact He.
Qed.

(* ------------------------------------------------------------------ *)
(* soundness of the scan of one line *)

Section Line.
Variables (r : fill_rule) (tol2 : Q) (es : list edge) (ts : list triangle) (y : Q).

Let B := breakpoints y es ts.
Let P (x : Q) : Prop := fill_ok_at r tol2 es ts (x, y).

Lemma P_of_eq x h :
  covers ts (x, y) = covers ts (h, y) -> inside r es (x, y) = inside r es (h, y) ->
  agree r es ts (h, y) = true -> P x.
Proof.
  intros C I A _. rewrite C, I. apply agree_true. exact A.
Qed.

Lemma interval_ok lo hi :
  (forall b, In b B -> b <= lo \/ hi <= b) ->
  agree r es ts (hi, y) = true \/ interval_in_band tol2 es y lo hi = true ->
  forall x, lo < x -> x <= hi -> P x.
Proof.
  intros HB [A|Band] x H1 H2.
  - destruct (constant_between_breakpoints r es ts y lo hi x H1 H2 HB) as [C I].
    eapply P_of_eq; eassumption.
  - intro Far. exfalso.
    unfold interval_in_band in Band. apply existsb_exists in Band.
    destruct Band as (e & He & N). apply andb_true_iff in N. destruct N as [N1 N2].
    set (s := (x - lo) / (hi - lo)).
    assert (D : 0 < hi - lo) by lra.
    assert (S0 : 0 <= s) by (unfold s; apply Qle_shift_div_l; lra).
    assert (S1 : s <= 1) by (unfold s; apply Qle_shift_div_r; lra).
    pose proof (band_convex tol2 (lo, y) (hi, y) e s S0 S1 N1 N2) as N.
    cbn [px py fst snd] in N. apply near_edge_true in N.
    specialize (Far e He).
    assert (E : dist2 (x, y) (fst e) (snd e) == dist2 (lo + s * (hi - lo), y + s * (y - y)) (fst e) (snd e)).
    { apply dist2_point_eq; cbn [px py fst snd].
      - unfold s. field. lra.
      - ring. }
    rewrite E in Far. lra.
Qed.

Lemma left_ok hi :
  (forall b, In b B -> hi <= b) -> agree r es ts (hi, y) = true ->
  forall x, x <= hi -> P x.
Proof.
  intros HB A x H.
  apply (interval_ok (x - 1) hi); [| left; exact A | lra | exact H].
  intros b Hb. right. apply HB. exact Hb.
Qed.

Lemma right_ok lo hi :
  (forall b, In b B -> b <= lo) -> lo < hi -> agree r es ts (hi, y) = true ->
  forall x, lo < x -> P x.
Proof.
  intros HB L A x H.
  destruct (Qlt_le_dec hi x) as [G|G].
  - assert (HB' : forall b, In b B -> b <= lo \/ x <= b) by (intros b Hb; left; apply HB; exact Hb).
    destruct (constant_between_breakpoints r es ts y lo x hi L (Qlt_le_weak _ _ G) HB') as [C I].
    eapply P_of_eq; [symmetry; exact C | symmetry; exact I | exact A].
  - apply (interval_ok lo hi); [| left; exact A | exact H | exact G].
    intros b Hb. left. apply HB. exact Hb.
Qed.

Lemma last_cons (h : Q) l d : last (h :: l) d = last l h.
Proof.
  revert h d. induction l as [|k l IH]; intros h d; [reflexivity|].
  change (last (h :: k :: l) d) with (last (k :: l) d). rewrite (IH k d), (IH k h). reflexivity.
Qed.

Lemma sorted_le_last l : StronglySorted Qle l -> forall h, Forall (Qle h) l ->
  forall z, (z <= h \/ In z l) -> z <= last l h.
Proof.
  induction 1 as [|k l S IH F]; intros h Fh z Hz.
  - destruct Hz as [Hz|[]]. exact Hz.
  - rewrite last_cons. apply IH; [exact F|].
    inversion Fh as [|? ? Hk Fl]; subst.
    destruct Hz as [Hz|[<-|Hz]].
    + left. lra.
    + left. apply Qle_refl.
    + right. exact Hz.
Qed.

Lemma scan_some_ok xs : forall l,
  scan r tol2 es ts y (Some l) xs = [] ->
  StronglySorted Qle (l :: xs) ->
  (forall b, In b B -> b <= l \/ In b xs) ->
  forall x, l < x -> x <= last xs l -> P x.
Proof.
  induction xs as [|h rest IH]; intros l Sc St HB x H1 H2.
  - cbn [last] in H2. lra.
  - cbn [scan] in Sc. apply app_eq_nil in Sc. destruct Sc as [Sc1 Sc2].
    inversion St as [|? ? St' Fl]; subst. inversion St' as [|? ? St'' Fh]; subst.
    inversion Fl as [|? ? Llh Fl']; subst.
    rewrite last_cons in H2.
    destruct (Qlt_le_dec h x) as [G|G].
    + apply (IH h); try assumption.
      intros b Hb. destruct (HB b Hb) as [Hl|[<-|Hr]].
      * left. lra.
      * left. apply Qle_refl.
      * right. exact Hr.
    + apply (interval_ok l h); try assumption.
      * intros b Hb. destruct (HB b Hb) as [Hl|[<-|Hr]].
        -- left. exact Hl.
        -- right. apply Qle_refl.
        -- right. rewrite Forall_forall in Fh. apply Fh. exact Hr.
      * destruct (agree r es ts (h, y)); [left; reflexivity|].
        destruct (interval_in_band tol2 es y l h); [right; reflexivity|]. discriminate.
Qed.

Theorem line_sound_sec : check_line r tol2 es ts y = [] -> forall x, P x.
Proof.
  unfold check_line. cbv zeta. fold B.
  pose proof (sort_q_sorted B) as St.
  pose proof (sort_q_In B) as HIn.
  destruct (sort_q B) as [|h rest] eqn:E.
  - intros H x. cbn [scan app] in H.
    assert (A : agree r es ts (0, y) = true).
    { destruct (agree r es ts (0, y)); [reflexivity|discriminate]. }
    assert (HB : forall b, In b B -> False) by (intros b Hb; apply HIn in Hb; exact Hb).
    destruct (Qlt_le_dec 0 x) as [G|G].
    + apply (right_ok (-1) 0); try assumption; try lra.
      intros b Hb. destruct (HB b Hb).
    + apply (left_ok 0); try assumption.
      intros b Hb. destruct (HB b Hb).
  - intros H x. apply app_eq_nil in H. destruct H as [Sc Bey].
    cbn [scan] in Sc. apply app_eq_nil in Sc. destruct Sc as [Sc1 Sc2].
    assert (A1 : agree r es ts (h, y) = true).
    { destruct (agree r es ts (h, y)); [reflexivity|discriminate]. }
    set (bey := last (h :: rest) 0 + 1) in *.
    assert (A2 : agree r es ts (bey, y) = true).
    { destruct (agree r es ts (bey, y)); [reflexivity|discriminate]. }
    inversion St as [|? ? St' Fh]; subst.
    destruct (Qlt_le_dec h x) as [G|G]; [destruct (Qlt_le_dec (last rest h) x) as [G'|G']|].
    + apply (right_ok (last rest h) bey); try assumption.
      * intros b Hb. apply sorted_le_last; try assumption.
        apply HIn in Hb. destruct Hb as [<-|Hb]; [left; apply Qle_refl | right; exact Hb].
      * unfold bey. rewrite last_cons. lra.
    + apply (scan_some_ok rest h); try assumption.
      intros b Hb. apply HIn in Hb. destruct Hb as [<-|Hb]; [left; apply Qle_refl | right; exact Hb].
    + apply (left_ok h); try assumption.
      intros b Hb. apply HIn in Hb. destruct Hb as [<-|Hb]; [apply Qle_refl|].
      rewrite Forall_forall in Fh. apply Fh. exact Hb.
Qed.

End Line.

Theorem line_sound : forall r tol2 es ts y, 0 <= tol2 ->
  check_line r tol2 es ts y = [] ->
  forall x, fill_ok_at r tol2 es ts (x, y).
Proof.
  intros r tol2 es ts y _ H x. exact (line_sound_sec r tol2 es ts y H x).
Qed.
