(* Proofs for C06, whole plane: the slab lift of Checker/Slab.v instantiated with the verdict [sub_ok] - what
   [check_plane_sub] accepts holds at EVERY point of the plane: every point of every "must" polygon is covered by a
   triangle. *)
From Coq Require Import QArith Qminmax Lia List.
From LV Require Import Base.Prelude Model.Bezier Model.Winding Checker.Region Checker.StrokeCover Checker.Slab
  Checker.CoverPlane Proofs.C06_Cover Proofs.C01_Slab.
From Coq Require Import Lqa.
From LV Require Import Proofs.C18_Winding Proofs.C01_Dist Proofs.C01_Region.
Import ListNotations.
Open Scope Q_scope.

(* ------------------------------------------------------------------ *)
(* 1. the verdict [sub_ok] only depends on the view of the edges *)

Lemma poly_edge_in_all (ps : list polygon) ts (r : polygon) e :
  In r ps -> In e r -> In e (all_edges (concat ps) ts).
Proof.
  intros Hr He. unfold all_edges. apply in_or_app. left. apply in_concat. exists r. split; assumption.
Qed.

Lemma same_view_in_polygons (ps : list polygon) ts p q :
  same_view (all_edges (concat ps) ts) p q -> in_polygons ps p = in_polygons ps q.
Proof.
  intro V. unfold in_polygons. apply existsb_ext_in. intros r Hr. unfold inside.
  rewrite (wn_const_list p q r); [reflexivity|].
  intros e He. apply (same_view_edge (all_edges (concat ps) ts)); [exact V|].
  apply (poly_edge_in_all ps ts r e); assumption.
Qed.

Lemma same_view_sub_ok (ps : list polygon) ts p q :
  same_view (all_edges (concat ps) ts) p q -> sub_ok ps ts p = sub_ok ps ts q.
Proof.
  intro V. unfold sub_ok.
  rewrite (same_view_in_polygons ps ts p q V), (same_view_covers (concat ps) ts p q V). reflexivity.
Qed.

(* ------------------------------------------------------------------ *)
(* 2. a negative tolerance: every point is "far", the band escape is never taken *)

Lemma dist2_nonneg p a b : 0 <= dist2 p a b.
Proof.
  destruct (dist2_spec p a b) as (_ & s & _ & _ & E). rewrite E. apply norm2_nonneg.
Qed.

Lemma far_neg es p : far (-(1)) es p.
Proof.
  intros e _. pose proof (dist2_nonneg p (fst e) (snd e)) as N. lra.
Qed.

(* ------------------------------------------------------------------ *)
(* 3. one slab *)

Theorem slab_sub_sound : forall ps ts y0 y1,
  check_slab_sub ps ts y0 y1 = true ->
  forall x y, y0 < y -> y < y1 -> in_polygons ps (x, y) = true -> covers ts (x, y) = true.
Proof.
  intros ps ts y0 y1 H x y A B Hin. unfold check_slab_sub in H.
  destruct (slab_gen_sound (sub_ok ps ts) (-(1)) (concat ps) ts y0 y1) with (x := x) (y := y) as [G|G];
    try assumption.
  - intros p q V Gq. rewrite (same_view_sub_ok ps ts p q V). exact Gq.
  - unfold sub_ok in G. rewrite Hin in G. exact G.
  - exfalso. apply G. apply far_neg.
Qed.

(* ------------------------------------------------------------------ *)
(* 4. the whole plane *)

Definition covered_at (ps : list polygon) (ts : list triangle) (p : qpt) : Prop :=
  in_polygons ps p = true -> covers ts p = true.

Lemma covered_at_eq ps ts x y x' y' :
  x == x' -> y == y' -> covered_at ps ts (x, y) -> covered_at ps ts (x', y').
Proof.
  intros Ex Ey H Hin.
  assert (V : same_view (all_edges (concat ps) ts) (x', y') (x, y))
    by (apply same_view_eq; symmetry; assumption).
  rewrite (same_view_covers (concat ps) ts _ _ V).
  apply H. rewrite <- (same_view_in_polygons ps ts _ _ V). exact Hin.
Qed.

(* a line crossed by no edge of the polygons is outside all of them *)
Lemma outside_polygons (ps : list polygon) ts p :
  (forall e, In e (all_edges (concat ps) ts) -> ~ crossing (py p) (fst e) (snd e)) ->
  in_polygons ps p = false.
Proof.
  intro N. unfold in_polygons. apply not_true_is_false. intro H. apply existsb_exists in H.
  destruct H as (r & Hr & I).
  destruct (no_crossing_outside NonZero r ts p) as [_ K].
  - intros e He. apply N. unfold all_edges in He. apply in_app_or in He. destruct He as [He|He].
    + apply (poly_edge_in_all ps ts r e); assumption.
    + unfold all_edges. apply in_or_app. right. exact He.
  - rewrite K in I. discriminate.
Qed.

Lemma outside_sub_ok (ps : list polygon) ts p :
  (forall e, In e (all_edges (concat ps) ts) -> ~ crossing (py p) (fst e) (snd e)) ->
  covered_at ps ts p.
Proof.
  intros N Hin. rewrite (outside_polygons ps ts p N) in Hin. discriminate.
Qed.

Lemma plane_sub_mid ps ts ys : forall a,
  sorted_strict (a :: ys) = true ->
  (forall v, In v (a :: ys) -> forall x, covered_at ps ts (x, v)) ->
  slabs_ok (check_slab_sub ps ts) (a :: ys) = true ->
  forall x y, a <= y -> y <= last ys a -> covered_at ps ts (x, y).
Proof.
  induction ys as [|b rest IH]; intros a St Ln Sl x y Ha Hl.
  - cbn [last] in Hl. apply (covered_at_eq ps ts x a x y); [reflexivity | lra |].
    apply Ln. left. reflexivity.
  - change (sorted_strict (a :: b :: rest)) with (Qltb a b && sorted_strict (b :: rest)) in St.
    apply andb_true_iff in St. destruct St as [Lab St]. apply Qltb_true in Lab.
    change (slabs_ok (check_slab_sub ps ts) (a :: b :: rest))
      with (check_slab_sub ps ts a b && slabs_ok (check_slab_sub ps ts) (b :: rest)) in Sl.
    apply andb_true_iff in Sl. destruct Sl as [Sab Sl].
    rewrite last_cons_gen in Hl.
    destruct (Qlt_le_dec y b) as [G|G].
    + destruct (Qlt_le_dec a y) as [G'|G'].
      * intro Hin. apply (slab_sub_sound ps ts a b Sab x y G' G Hin).
      * apply (covered_at_eq ps ts x a x y); [reflexivity | lra |].
        apply Ln. left. reflexivity.
    + apply (IH b); try assumption.
      intros v Hv. apply Ln. right. exact Hv.
Qed.

Theorem plane_sub_sound : forall ps ts ys,
  check_plane_sub ps ts ys = true ->
  forall p, in_polygons ps p = true -> covers ts p = true.
Proof.
  intros ps ts ys H [x y]. change (covered_at ps ts (x, y)). unfold check_plane_sub in H.
  apply andb_true_iff in H. destruct H as [H Sl].
  apply andb_true_iff in H. destruct H as [H Ln].
  apply andb_true_iff in H. destruct H as [St CV].
  destruct ys as [|a ys].
  - apply outside_sub_ok. intros e He _.
    destruct (covers_vertices_spec [] _ e CV He) as [(v & [] & _) _].
  - assert (Lines : forall v, In v (a :: ys) -> forall x', covered_at ps ts (x', v)).
    { intros v Hv x' Hin. rewrite forallb_forall in Ln. specialize (Ln v Hv).
      apply (line_sub_sound ps ts v); [|exact Hin].
      destruct (check_line_sub ps ts v); [reflexivity|discriminate]. }
    pose proof (sorted_strict_bounds ys a St) as Bd.
    destruct (Qlt_le_dec y a) as [G|G]; [|destruct (Qlt_le_dec (last ys a) y) as [G'|G']].
    + apply outside_sub_ok. cbn [py snd]. intros e He C.
      destruct (covers_vertices_spec _ _ e CV He) as [(v1 & I1 & E1) (v2 & I2 & E2)].
      destruct (Bd v1 I1) as [K1 _]. destruct (Bd v2 I2) as [K2 _].
      unfold crossing in C. destruct C as [[U V]|[U V]]; lra.
    + apply outside_sub_ok. cbn [py snd]. intros e He C.
      destruct (covers_vertices_spec _ _ e CV He) as [(v1 & I1 & E1) (v2 & I2 & E2)].
      destruct (Bd v1 I1) as [_ K1]. destruct (Bd v2 I2) as [_ K2].
      unfold crossing in C. destruct C as [[U V]|[U V]]; lra.
    + apply (plane_sub_mid ps ts ys a); assumption.
Qed.

(* ------------------------------------------------------------------ *)
(* 5. non-vacuity: the unit square is covered by its two triangles *)

Definition unit_square_edges : polygon :=
  [((0, 0), (1, 0)); ((1, 0), (1, 1)); ((1, 1), (0, 1)); ((0, 1), (0, 0))].
Definition unit_square_tris : list triangle :=
  [((0, 0), (1, 0), (1, 1)); ((0, 0), (1, 1), (0, 1))].

Example plane_sub_example :
  check_plane_sub [unit_square_edges] unit_square_tris [0; 1] = true.
Proof. vm_compute; reflexivity. Qed.

Print Assumptions slab_sub_sound.
Print Assumptions plane_sub_sound.
