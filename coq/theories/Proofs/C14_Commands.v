(* C14 proofs, PathCommands (crates/path/src/commands.rs): the buffer built by
   PathCommandsBuilder is read back correctly by Iter, by random access through
   EventIds (event / next_event_id_in_path / next_event_id_in_sub_path) and by
   Events (ids resolved through the endpoint / control point slices), for every
   well-nested builder program, without any out-of-bounds read. *)
From LV Require Import Base.Prelude Model.PathStore Model.Commands.
Local Open Scope Z_scope.

(* ================================================== layout of the buffer *)

Definition op_words (fe : Z) (o : cop) : list Z :=
  match o with
  | CBegin a => [V_BEGIN; a]
  | CLine t => [V_LINE; t]
  | CQuad c t => [V_QUADRATIC; c; t]
  | CCubic c1 c2 t => [V_CUBIC; c1; c2; t]
  | CEnd cl => [if cl then V_CLOSE else V_END; fe]
  end.

Definition op_size (o : cop) : Z :=
  match o with CQuad _ _ => 3 | CCubic _ _ _ => 4 | _ => 2 end.

(* first_event_index after the call issued at buffer position [pos] *)
Definition op_fe (pos fe : Z) (o : cop) : Z :=
  match o with CBegin _ => pos | _ => fe end.

Definition op_event (o : cop) (prev first : Z) : event Z Z :=
  match o with
  | CBegin a => EvBegin a
  | CLine t => EvLine prev t
  | CQuad c t => EvQuad prev c t
  | CCubic c1 c2 t => EvCubic prev c1 c2 t
  | CEnd cl => EvEnd prev first cl
  end.

Definition op_prev (o : cop) (first : Z) : Z :=
  match o with
  | CBegin a => a | CLine t => t | CQuad _ t => t | CCubic _ _ t => t | CEnd _ => first
  end.

Definition op_first (o : cop) (first : Z) : Z :=
  match o with CBegin a => a | _ => first end.

(* the words the builder appends for program [p] when the buffer has [pos]
   words and first_event_index = [fe] *)
Fixpoint enc (pos fe : Z) (p : list cop) : list Z :=
  match p with
  | [] => []
  | o :: r => op_words (op_fe pos fe o) o ++ enc (pos + op_size o) (op_fe pos fe o) r
  end.

(* the EventIds of the successive calls *)
Fixpoint ids_spec (pos : Z) (p : list cop) : list Z :=
  match p with
  | [] => []
  | o :: r => pos :: ids_spec (pos + op_size o) r
  end.

(* (EventId, event) of the successive calls *)
Fixpoint spec_ids (pos : Z) (p : list cop) (prev first : Z) : list (Z * event Z Z) :=
  match p with
  | [] => []
  | o :: r => (pos, op_event o prev first)
              :: spec_ids (pos + op_size o) r (op_prev o first) (op_first o first)
  end.

Lemma spec_ids_snd p : forall pos prev first,
  map snd (spec_ids pos p prev first) = cop_events_go p prev first.
Proof.
  induction p as [|o r IH]; intros pos prev first; [reflexivity|].
  cbn [spec_ids map snd]. rewrite IH. destruct o; reflexivity.
Qed.

Lemma spec_ids_fst p : forall pos prev first,
  map fst (spec_ids pos p prev first) = ids_spec pos p.
Proof.
  induction p as [|o r IH]; intros pos prev first; [reflexivity|].
  cbn [spec_ids map fst ids_spec]. rewrite IH. reflexivity.
Qed.

Lemma op_size_pos o : 2 <= op_size o.
Proof. destruct o; cbn [op_size]; lia. Qed.

Lemma op_words_length fe o : Z.of_nat (length (op_words fe o)) = op_size o.
Proof. destruct o; reflexivity. Qed.

Lemma enc_length_ge p : forall pos fe, (2 * length p <= length (enc pos fe p))%nat.
Proof.
  induction p as [|o r IH]; intros pos fe; cbn [enc length]; [lia|].
  rewrite app_length. specialize (IH (pos + op_size o) (op_fe pos fe o)).
  pose proof (op_words_length (op_fe pos fe o) o) as Hw. pose proof (op_size_pos o). lia.
Qed.

Lemma enc_cons_match {A} pos fe o r (x y : A) :
  match enc pos fe (o :: r) with [] => x | _ :: _ => y end = y.
Proof. destruct o; reflexivity. Qed.

(* ---------------------------------------------------------- the builder *)

Lemma cb_run_fst p : forall s,
  cb_cmds (fst (cb_run s p)) = cb_cmds s ++ enc (cb_len s) (cb_first_event_index s) p.
Proof.
  induction p as [|o r IH]; intros s.
  - cbn [cb_run fst enc]. rewrite app_nil_r. reflexivity.
  - cbn [cb_run]. destruct (cb_step s o) as [s' id] eqn:Hs.
    specialize (IH s'). destruct (cb_run s' r) as [s'' ids]. cbn [fst] in *.
    rewrite IH. cbn [enc].
    assert (H : cb_cmds s' = cb_cmds s ++ op_words (op_fe (cb_len s) (cb_first_event_index s) o) o
                /\ cb_first_event_index s' = op_fe (cb_len s) (cb_first_event_index s) o).
    { destruct o; cbn [cb_step] in Hs; inversion Hs; subst s' id; unfold push;
        cbn [cb_cmds cb_first_event_index op_words op_fe];
        rewrite <- ?app_assoc; cbn [app]; auto. }
    destruct H as [Hc Hf].
    assert (Hl : cb_len s' = cb_len s + op_size o).
    { unfold cb_len. rewrite Hc, app_length, Nat2Z.inj_add, op_words_length. reflexivity. }
    rewrite Hc, Hf, Hl, <- app_assoc. reflexivity.
Qed.

Lemma cb_run_snd p : forall s, snd (cb_run s p) = ids_spec (cb_len s) p.
Proof.
  induction p as [|o r IH]; intros s; [reflexivity|].
  cbn [cb_run]. destruct (cb_step s o) as [s' id] eqn:Hs.
  specialize (IH s'). destruct (cb_run s' r) as [s'' ids]. cbn [snd] in *.
  cbn [ids_spec]. rewrite IH.
  assert (H : id = cb_len s /\ cb_len s' = cb_len s + op_size o).
  { destruct o; cbn [cb_step] in Hs; inversion Hs; subst; unfold cb_len, push;
      cbn [cb_cmds op_size]; rewrite ?app_length; cbn [length]; split; auto; lia. }
  destruct H as [-> ->]. reflexivity.
Qed.

(* The buffer is the concatenation of the words of each call. *)
Lemma cmd_build_enc p : cmd_build p = enc 0 0 p.
Proof. unfold cmd_build. rewrite cb_run_fst. reflexivity. Qed.

Lemma cmd_build_ids_spec p : cmd_build_ids p = ids_spec 0 p.
Proof. unfold cmd_build_ids. rewrite cb_run_snd. reflexivity. Qed.

(* ------------------------------------------------------------ verb words *)

Lemma verb_of_line : verb_of V_LINE = VLine. Proof. reflexivity. Qed.
Lemma verb_of_quad : verb_of V_QUADRATIC = VQuad. Proof. reflexivity. Qed.
Lemma verb_of_cubic : verb_of V_CUBIC = VCubic. Proof. reflexivity. Qed.
Lemma verb_of_begin : verb_of V_BEGIN = VBegin. Proof. reflexivity. Qed.
Lemma verb_of_close : verb_of V_CLOSE = VClose. Proof. reflexivity. Qed.
Lemma verb_of_end : verb_of V_END = VEnd. Proof. reflexivity. Qed.

Ltac verbs := rewrite ?verb_of_line, ?verb_of_quad, ?verb_of_cubic, ?verb_of_begin,
                      ?verb_of_close, ?verb_of_end.

(* nestedness, one step *)
Lemma nested_step inside o r : cop_nested_go inside (o :: r) = true ->
  inside = negb (match o with CBegin _ => true | _ => false end) /\
  cop_nested_go (match o with CEnd _ => false | _ => true end) r = true.
Proof.
  destruct o, inside; cbn [cop_nested_go negb andb]; intros H; try discriminate; auto.
Qed.

(* ======================================================= 1. Iter::next *)

Lemma iter_collect_enc p : forall fuel pos fe idx prev first,
  (length p < fuel)%nat ->
  iter_collect fuel (mkIt (enc pos fe p) idx prev first) = ROk (spec_ids idx p prev first).
Proof.
  induction p as [|o r IH]; intros fuel pos fe idx prev first Hf;
    (destruct fuel as [|f]; [cbn [length] in Hf; lia|]).
  - reflexivity.
  - cbn [length] in Hf. assert (Hf' : (length r < f)%nat) by lia.
    cbn [iter_collect spec_ids]. unfold iter_next.
    destruct o as [a | t | c t | c1 c2 t | [|]];
      cbn [enc op_words op_fe app it_cmds cnext it_idx it_prev it_first]; verbs;
      cbn [op_size op_event op_prev op_first]; rewrite (IH f _ _ _ _ _ Hf'); reflexivity.
Qed.

Theorem cmd_iter_idx_spec p : cmd_iter_idx (cmd_build p) = ROk (spec_ids 0 p 0 0).
Proof.
  unfold cmd_iter_idx, iter_new. rewrite cmd_build_enc. apply iter_collect_enc.
  pose proof (enc_length_ge p 0 0). lia.
Qed.

(* Holds for every program: the specification follows the same previous /
   first bookkeeping whether or not the program is well nested. *)
Theorem cmd_iter_spec_total p : cmd_iter (cmd_build p) = ROk (cop_events p).
Proof.
  unfold cmd_iter. rewrite cmd_iter_idx_spec. cbn [rmap]. rewrite spec_ids_snd. reflexivity.
Qed.

Theorem cmd_iter_spec p (Hn : cop_nested p = true) :
  cmd_iter (cmd_build p) = ROk (cop_events p).
Proof. apply cmd_iter_spec_total. Qed.

(* The model's fuel is enough for every buffer, built or not. *)
Lemma iter_collect_fuel fuel : forall s,
  (length (it_cmds s) < fuel)%nat -> iter_collect fuel s <> RFuel.
Proof.
  induction fuel as [|f IH]; intros s Hl; [lia|].
  cbn [iter_collect].
  assert (Hstep : match iter_next s with
                  | Yield _ s' => (length (it_cmds s') < length (it_cmds s))%nat
                  | _ => True end).
  { unfold iter_next. destruct (it_cmds s) as [|w [|a [|b [|c r]]]]; cbn [cnext]; auto;
      destruct (verb_of w); cbn [cnext it_cmds length]; auto; lia. }
  destruct (iter_next s) as [e s'| |]; try discriminate.
  specialize (IH s' ltac:(lia)). destruct (iter_collect f s'); cbn [rcons]; congruence.
Qed.

Theorem cmd_iter_never_out_of_fuel cmds : cmd_iter cmds <> RFuel.
Proof.
  unfold cmd_iter, cmd_iter_idx.
  pose proof (iter_collect_fuel (S (length cmds)) (iter_new cmds) ltac:(cbn [iter_new it_cmds]; lia)) as H.
  destruct (iter_collect (S (length cmds)) (iter_new cmds)); cbn [rmap]; congruence.
Qed.

(* ===================================== 2. random access through EventIds *)

(* reads *)
Lemma rd_0 {A} (a : A) l : rd (a :: l) 0 = Some a. Proof. reflexivity. Qed.
Lemma rd_1 {A} (a b : A) l : rd (a :: b :: l) 1 = Some b. Proof. reflexivity. Qed.
Lemma rd_2 {A} (a b c : A) l : rd (a :: b :: c :: l) 2 = Some c. Proof. reflexivity. Qed.
Lemma rd_3 {A} (a b c d : A) l : rd (a :: b :: c :: d :: l) 3 = Some d. Proof. reflexivity. Qed.

Lemma rd_app {A} (pre l : list A) pos k :
  pos = Z.of_nat (length pre) -> 0 <= k -> rd (pre ++ l) (pos + k) = rd l k.
Proof.
  intros -> Hk. unfold rd.
  destruct (Z.ltb_spec (Z.of_nat (length pre) + k) 0) as [H|_]; [lia|].
  destruct (Z.ltb_spec k 0) as [H|_]; [lia|].
  rewrite nth_error_app2 by lia. f_equal. lia.
Qed.

Lemma rd_here {A} (pre l : list A) pos :
  pos = Z.of_nat (length pre) -> rd (pre ++ l) pos = rd l 0.
Proof. intros H. rewrite <- (rd_app pre l pos 0 H) by lia. rewrite Z.add_0_r. reflexivity. Qed.

Definition ends_with (pre : list Z) (x : Z) : Prop := exists pre0, pre = pre0 ++ [x].

Lemma rd_prev pre x l pos :
  ends_with pre x -> pos = Z.of_nat (length pre) -> rd (pre ++ l) (pos - 1) = Some x.
Proof.
  intros [pre0 ->] ->. rewrite app_length. cbn [length].
  replace (Z.of_nat (length pre0 + 1) - 1) with (Z.of_nat (length pre0) + 0) by lia.
  rewrite <- app_assoc. rewrite rd_app by (auto; lia). reflexivity.
Qed.

Lemma ends_with_app pre ws x : ends_with (pre ++ ws ++ [x]) x.
Proof. exists (pre ++ ws). rewrite app_assoc. reflexivity. Qed.

Ltac rds Hpos :=
  repeat first
    [ rewrite (rd_here _ _ _ Hpos)
    | rewrite (rd_app _ _ _ _ Hpos) by lia
    | rewrite rd_0 | rewrite rd_1 | rewrite rd_2 | rewrite rd_3
    | progress cbn [obind] ].

(* event(id) at the position of each kind of call *)
Lemma event_at cmds pre o fe rest pos prev first :
  cmds = pre ++ op_words fe o ++ rest ->
  pos = Z.of_nat (length pre) ->
  (match o with
   | CBegin _ => True
   | CEnd _ => ends_with pre prev /\ rd cmds (fe + 1) = Some first
   | _ => ends_with pre prev
   end) ->
  cmd_event cmds pos = Some (op_event o prev first).
Proof.
  intros -> Hpos Hctx. unfold cmd_event.
  destruct o as [a | t | c t | c1 c2 t | cl]; cbn [op_words app op_event] in *.
  - rds Hpos. verbs. rds Hpos. reflexivity.
  - rds Hpos. verbs. rewrite (rd_prev _ _ _ _ Hctx Hpos). rds Hpos. reflexivity.
  - rds Hpos. verbs. rewrite (rd_prev _ _ _ _ Hctx Hpos). rds Hpos. reflexivity.
  - rds Hpos. verbs. rewrite (rd_prev _ _ _ _ Hctx Hpos). rds Hpos. reflexivity.
  - destruct Hctx as [Hprev Hfirst].
    destruct cl; rds Hpos; verbs; rds Hpos; rewrite (rd_prev _ _ _ _ Hprev Hpos);
      cbn [obind]; rewrite Hfirst; reflexivity.
Qed.

Lemma next_path_at cmds pre o fe rest pos :
  cmds = pre ++ op_words fe o ++ rest ->
  pos = Z.of_nat (length pre) ->
  cmd_next_in_path cmds pos
  = Some (match rest with [] => None | _ :: _ => Some (pos + op_size o) end).
Proof.
  intros -> Hpos. unfold cmd_next_in_path.
  assert (Hlen : Z.of_nat (length (pre ++ op_words fe o ++ rest))
                 = pos + op_size o + Z.of_nat (length rest)).
  { rewrite !app_length, !Nat2Z.inj_add, op_words_length. lia. }
  rewrite Hlen. clear Hlen.
  assert (Hif : forall n, (if pos + n <? pos + n + Z.of_nat (length rest)
                           then Some (Some (pos + n)) else Some None)
                = Some (match rest with [] => None | _ :: _ => Some (pos + n) end)).
  { intros n. destruct rest as [|x rest']; cbn [length].
    - destruct (Z.ltb_spec (pos + n) (pos + n + Z.of_nat 0)); [lia|reflexivity].
    - destruct (Z.ltb_spec (pos + n) (pos + n + Z.of_nat (S (length rest'))));
        [reflexivity|lia]. }
  destruct o as [a | t | c t | c1 c2 t | [|]]; cbn [op_words app op_size];
    rds Hpos; verbs; cbn [op_size]; apply Hif.
Qed.

Lemma next_sub_at cmds pre o fe rest pos :
  cmds = pre ++ op_words fe o ++ rest ->
  pos = Z.of_nat (length pre) ->
  cmd_next_in_sub_path cmds pos
  = Some (match o with CEnd _ => fe | _ => pos + op_size o end).
Proof.
  intros -> Hpos. unfold cmd_next_in_sub_path.
  destruct o as [a | t | c t | c1 c2 t | [|]]; cbn [op_words app op_size];
    rds Hpos; verbs; rds Hpos; reflexivity.
Qed.

(* The invariant of a position inside the built buffer. *)
Definition ctx_ok (cmds pre : list Z) (fe prev first : Z) (inside : bool) : Prop :=
  inside = true -> ends_with pre prev /\ rd cmds (fe + 1) = Some first.

Lemma ctx_event cmds pre pos fe o r prev first inside :
  cmds = pre ++ enc pos fe (o :: r) ->
  pos = Z.of_nat (length pre) ->
  cop_nested_go inside (o :: r) = true ->
  ctx_ok cmds pre fe prev first inside ->
  cmd_event cmds pos = Some (op_event o prev first).
Proof.
  intros Hc Hpos Hn Hctx. cbn [enc] in Hc.
  apply (event_at cmds pre o (op_fe pos fe o) _ pos prev first Hc Hpos).
  destruct (nested_step _ _ _ Hn) as [Hin _].
  destruct o; cbn [negb] in Hin; cbn [op_fe]; auto; apply Hctx; exact Hin.
Qed.

(* moving past one call preserves the invariant *)
Lemma ctx_step cmds pre pos fe o r prev first inside :
  cmds = pre ++ enc pos fe (o :: r) ->
  pos = Z.of_nat (length pre) ->
  cop_nested_go inside (o :: r) = true ->
  ctx_ok cmds pre fe prev first inside ->
  let pre' := pre ++ op_words (op_fe pos fe o) o in
  let inside' := match o with CEnd _ => false | _ => true end in
  cmds = pre' ++ enc (pos + op_size o) (op_fe pos fe o) r /\
  pos + op_size o = Z.of_nat (length pre') /\
  cop_nested_go inside' r = true /\
  ctx_ok cmds pre' (op_fe pos fe o) (op_prev o first) (op_first o first) inside'.
Proof.
  intros Hc Hpos Hn Hctx pre' inside'. subst pre' inside'.
  destruct (nested_step _ _ _ Hn) as [Hin Hn'].
  cbn [enc] in Hc.
  split; [rewrite <- app_assoc; exact Hc|].
  split; [rewrite app_length, Nat2Z.inj_add, op_words_length; lia|].
  split; [exact Hn'|].
  intros Hi.
  destruct o as [a | t | c t | c1 c2 t | cl]; try discriminate Hi;
    cbn [op_words op_fe op_prev op_first negb] in *.
  - split; [apply (ends_with_app pre [V_BEGIN] a)|].
    rewrite Hc. rewrite (rd_app _ _ _ _ Hpos) by lia. reflexivity.
  - split; [apply (ends_with_app pre [V_LINE] t) | apply Hctx; exact Hin].
  - split; [apply (ends_with_app pre [V_QUADRATIC; c] t) | apply Hctx; exact Hin].
  - split; [apply (ends_with_app pre [V_CUBIC; c1; c2] t) | apply Hctx; exact Hin].
Qed.

Lemma walk_enc p : forall fuel cmds pre pos fe prev first inside,
  cmds = pre ++ enc pos fe p ->
  pos = Z.of_nat (length pre) ->
  cop_nested_go inside p = true ->
  p <> [] ->
  (length p <= fuel)%nat ->
  ctx_ok cmds pre fe prev first inside ->
  cmd_walk fuel cmds pos = ROk (spec_ids pos p prev first).
Proof.
  induction p as [|o r IH]; intros fuel cmds pre pos fe prev first inside Hc Hpos Hn Hne Hf Hctx;
    [congruence|].
  destruct fuel as [|f]; [cbn [length] in Hf; lia|].
  cbn [cmd_walk spec_ids].
  rewrite (ctx_event _ _ _ _ _ _ _ _ _ Hc Hpos Hn Hctx).
  destruct (ctx_step _ _ _ _ _ _ _ _ _ Hc Hpos Hn Hctx) as (Hc' & Hpos' & Hn' & Hctx').
  pose proof Hc as Hc0. cbn [enc] in Hc0.
  rewrite (next_path_at _ _ _ _ _ _ Hc0 Hpos).
  destruct r as [|o' r'].
  - reflexivity.
  - rewrite enc_cons_match.
    rewrite (IH f cmds _ _ _ _ _ _ Hc' Hpos' Hn' ltac:(discriminate)
               ltac:(cbn [length] in *; lia) Hctx').
    reflexivity.
Qed.

(* The walk is started at EventId(0), as in the Rust unit test `next_event`. *)
Theorem cmd_walk_spec p (Hn : cop_nested p = true) (Hne : p <> []) :
  cmd_walk (length (cmd_build p)) (cmd_build p) 0 = ROk (spec_ids 0 p 0 0).
Proof.
  rewrite cmd_build_enc.
  apply (walk_enc p _ _ [] 0 0 0 0 false); auto.
  - pose proof (enc_length_ge p 0 0). lia.
  - intros H; discriminate H.
Qed.

(* 2. event(id) along next_event_id_in_path enumerates the events of iteration,
   in order; the outcome is ROk, i.e. no read was out of bounds and the walk
   stopped because next_event_id_in_path returned None (see [cmd_walk_ok_inv]). *)
Theorem cmd_event_spec p (Hn : cop_nested p = true) (Hne : p <> []) :
  exists l, cmd_walk (length (cmd_build p)) (cmd_build p) 0 = ROk l /\
            map snd l = cop_events p /\
            map fst l = cmd_build_ids p /\
            cmd_iter_idx (cmd_build p) = ROk l.
Proof.
  exists (spec_ids 0 p 0 0). split; [apply cmd_walk_spec; auto|].
  split; [apply spec_ids_snd|]. split; [|apply cmd_iter_idx_spec].
  rewrite spec_ids_fst, cmd_build_ids_spec. reflexivity.
Qed.

(* What an ROk walk means, for any buffer: every listed id was read by event(),
   consecutive ids are linked by next_event_id_in_path = Some, and
   next_event_id_in_path returns None exactly at the last one. *)
Lemma cmd_walk_ok_inv fuel : forall cmds id l,
  cmd_walk fuel cmds id = ROk l ->
  exists e l', l = (id, e) :: l' /\ cmd_event cmds id = Some e /\
    match l' with
    | [] => cmd_next_in_path cmds id = Some None
    | (id', _) :: _ => cmd_next_in_path cmds id = Some (Some id') /\
                       exists f, cmd_walk f cmds id' = ROk l'
    end.
Proof.
  destruct fuel as [|f]; intros cmds id l H; [discriminate H|].
  cbn [cmd_walk] in H.
  destruct (cmd_event cmds id) as [e|]; [|discriminate H].
  destruct (cmd_next_in_path cmds id) as [[id'|]|]; [| |discriminate H].
  - destruct (cmd_walk f cmds id') as [l'| |] eqn:Hw; cbn [rcons] in H; try discriminate H.
    inversion H; subst l. exists e, l'. split; [reflexivity|]. split; [reflexivity|].
    destruct l' as [|[id'' e''] l''].
    + destruct f; cbn [cmd_walk] in Hw; [discriminate Hw|].
      destruct (cmd_event cmds id'); [|discriminate Hw].
      destruct (cmd_next_in_path cmds id') as [[x|]|]; try discriminate Hw.
      destruct (cmd_walk f cmds x); discriminate Hw.
    + assert (id'' = id').
      { destruct f; cbn [cmd_walk] in Hw; [discriminate Hw|].
        destruct (cmd_event cmds id'); [|discriminate Hw].
        destruct (cmd_next_in_path cmds id') as [[x|]|]; try discriminate Hw.
        - destruct (cmd_walk f cmds x); cbn [rcons] in Hw; inversion Hw; reflexivity.
        - inversion Hw; reflexivity. }
      subst id''. split; [reflexivity|]. exists f. exact Hw.
  - inversion H; subst l. exists e, []. auto.
Qed.

(* linking of consecutive elements, anywhere in the walk *)
Lemma cmd_walk_link : forall l1 fuel cmds id0 id e id' e' l2,
  cmd_walk fuel cmds id0 = ROk (l1 ++ (id, e) :: (id', e') :: l2) ->
  cmd_event cmds id = Some e /\ cmd_next_in_path cmds id = Some (Some id').
Proof.
  induction l1 as [|x l1 IH]; intros fuel cmds id0 id e id' e' l2 H;
    destruct (cmd_walk_ok_inv _ _ _ _ H) as (e0 & l' & Hl & He & Hnext).
  - cbn [app] in Hl. inversion Hl; subst. destruct Hnext as [Hnext _]. auto.
  - cbn [app] in Hl. inversion Hl; subst.
    destruct l1 as [|[i1 e1] l1']; cbn [app] in Hnext; destruct Hnext as [_ [f Hw]];
      eapply IH; exact Hw.
Qed.

Lemma cmd_walk_last : forall l1 fuel cmds id0 id e,
  cmd_walk fuel cmds id0 = ROk (l1 ++ [(id, e)]) ->
  cmd_event cmds id = Some e /\ cmd_next_in_path cmds id = Some None.
Proof.
  induction l1 as [|x l1 IH]; intros fuel cmds id0 id e H;
    destruct (cmd_walk_ok_inv _ _ _ _ H) as (e0 & l' & Hl & He & Hnext).
  - cbn [app] in Hl. inversion Hl; subst. auto.
  - cbn [app] in Hl. inversion Hl; subst.
    destruct l1 as [|[i1 e1] l1']; cbn [app] in Hnext; destruct Hnext as [_ [f Hw]];
      eapply IH; exact Hw.
Qed.

(* ============================= 3. next_event_id_in_sub_path along the walk *)

Lemma nested_true_nonempty r : cop_nested_go true r = true -> r <> [].
Proof. intros H ->. discriminate H. Qed.

(* list form: the answers of next_event_id_in_sub_path at the successive event
   ids are exactly [sub_next_spec] *)
Lemma sub_enc p : forall cmds pre pos fe prev first inside,
  cmds = pre ++ enc pos fe p ->
  pos = Z.of_nat (length pre) ->
  cop_nested_go inside p = true ->
  omap (cmd_next_in_sub_path cmds) (map fst (spec_ids pos p prev first))
  = Some (sub_next_spec fe (spec_ids pos p prev first)).
Proof.
  induction p as [|o r IH]; intros cmds pre pos fe prev first inside Hc Hpos Hn; [reflexivity|].
  destruct (nested_step _ _ _ Hn) as [Hin Hn'].
  pose proof Hc as Hc0. cbn [enc] in Hc0.
  assert (Hc' : cmds = (pre ++ op_words (op_fe pos fe o) o)
                       ++ enc (pos + op_size o) (op_fe pos fe o) r)
    by (rewrite <- app_assoc; exact Hc0).
  assert (Hpos' : pos + op_size o = Z.of_nat (length (pre ++ op_words (op_fe pos fe o) o)))
    by (rewrite app_length, Nat2Z.inj_add, op_words_length; lia).
  cbn [spec_ids map fst omap sub_next_spec].
  rewrite (next_sub_at _ _ _ _ _ _ Hc0 Hpos). cbn [obind].
  rewrite (IH cmds _ _ _ (op_prev o first) (op_first o first) _ Hc' Hpos' Hn'). cbn [obind].
  destruct o as [a | t | c t | c1 c2 t | cl]; cbn [op_event is_begin is_end op_fe op_size];
    try reflexivity;
    (pose proof (nested_true_nonempty _ Hn') as Hr; destruct r as [|o' r']; [congruence|];
     reflexivity).
Qed.

Theorem cmd_sub_path_list p (Hn : cop_nested p = true) :
  omap (cmd_next_in_sub_path (cmd_build p)) (map fst (spec_ids 0 p 0 0))
  = Some (sub_next_spec 0 (spec_ids 0 p 0 0)).
Proof.
  rewrite cmd_build_enc. apply (sub_enc p _ [] 0 0 0 0 false); auto.
Qed.

(* from the list form to single positions *)
Definition cur_after (cur : Z) (l : list (Z * event Z Z)) : Z :=
  fold_left (fun c x => if is_begin (snd x) then fst x else c) l cur.

Lemma sub_point (f : Z -> option Z) : forall l1 cur x l2,
  omap f (map fst (l1 ++ x :: l2)) = Some (sub_next_spec cur (l1 ++ x :: l2)) ->
  f (fst x) = Some (hd 0 (sub_next_spec (cur_after cur l1) (x :: l2))).
Proof.
  induction l1 as [|[idy ey] l1 IH]; intros cur [id e] l2 H.
  - cbn [app map fst omap sub_next_spec] in H. cbn [cur_after fold_left fst sub_next_spec hd].
    destruct (f id) as [s|]; cbn [obind] in H; [|discriminate H].
    destruct (omap f (map fst l2)); cbn [obind] in H; [|discriminate H].
    inversion H; reflexivity.
  - cbn [app map fst omap sub_next_spec] in H.
    destruct (f idy) as [s|]; cbn [obind] in H; [|discriminate H].
    destruct (omap f (map fst (l1 ++ (id, e) :: l2))) as [ys|] eqn:Hys; cbn [obind] in H;
      [|discriminate H].
    inversion H as [[Hs Hy]]. rewrite Hy in Hys.
    cbn [cur_after fold_left fst snd]. apply (IH _ _ _ Hys).
Qed.

Lemma cur_after_app cur l1 l2 : cur_after cur (l1 ++ l2) = cur_after (cur_after cur l1) l2.
Proof. unfold cur_after. apply fold_left_app. Qed.

Lemma cur_after_nobegin mid : forall cur,
  forallb (fun x => negb (is_begin (snd x))) mid = true -> cur_after cur mid = cur.
Proof.
  induction mid as [|[i e] mid IH]; intros cur H; [reflexivity|].
  cbn [forallb snd] in H. apply andb_true_iff in H. destruct H as [H1 H2].
  unfold cur_after in *. cbn [fold_left snd fst].
  destruct (is_begin e); [discriminate H1|]. apply IH; exact H2.
Qed.

(* in a well-nested program the last event is an End *)
Lemma spec_ids_last_end p : forall pos prev first inside l1 id e,
  cop_nested_go inside p = true ->
  spec_ids pos p prev first = l1 ++ [(id, e)] -> is_end e = true.
Proof.
  induction p as [|o r IH]; intros pos prev first inside l1 id e Hn H.
  - destruct l1; discriminate H.
  - destruct (nested_step _ _ _ Hn) as [Hin Hn'].
    cbn [spec_ids] in H. destruct l1 as [|x l1].
    + cbn [app] in H. inversion H as [[Hp He Hr]].
      destruct r as [|o' r']; [|discriminate Hr].
      destruct o; cbn [cop_nested_go negb] in Hn'; try discriminate Hn'. reflexivity.
    + cbn [app] in H. inversion H as [[Hx Hr]]. eapply IH; [exact Hn'|exact Hr].
Qed.

(* 3. For every event id reached by the walk:
   - an event that is not an End is followed by another event, and
     next_event_id_in_sub_path = next_event_id_in_path = the id of that event;
   - at an End, next_event_id_in_sub_path is the id of the Begin event of the
     same sub-path (the latest Begin before it in the walk). *)
Theorem cmd_sub_path_spec p l (Hn : cop_nested p = true)
  (Hw : cmd_walk (length (cmd_build p)) (cmd_build p) 0 = ROk l) :
  (forall l1 id e l2, l = l1 ++ (id, e) :: l2 -> is_end e = false ->
     exists id' e' l3, l2 = (id', e') :: l3 /\
       cmd_next_in_sub_path (cmd_build p) id = Some id' /\
       cmd_next_in_path (cmd_build p) id = Some (Some id')) /\
  (forall l1 b a mid id la fi cl l2,
     l = l1 ++ (b, EvBegin a) :: mid ++ (id, EvEnd la fi cl) :: l2 ->
     forallb (fun x => negb (is_begin (snd x))) mid = true ->
     cmd_next_in_sub_path (cmd_build p) id = Some b).
Proof.
  assert (Hne : p <> []).
  { intros ->. cbn in Hw. discriminate Hw. }
  pose proof (cmd_walk_spec p Hn Hne) as Hs.
  assert (Hl : l = spec_ids 0 p 0 0) by congruence. subst l. clear Hs.
  pose proof (cmd_sub_path_list p Hn) as Hsub.
  split.
  - intros l1 id e l2 El He.
    destruct l2 as [|[id' e'] l3].
    + pose proof (spec_ids_last_end _ _ _ _ _ _ _ _ Hn El) as Hend.
      congruence.
    + exists id', e', l3. split; [reflexivity|].
      rewrite El in Hsub. pose proof (sub_point _ _ _ _ _ Hsub) as Hp.
      cbn [fst sub_next_spec hd] in Hp. rewrite He in Hp. split; [exact Hp|].
      rewrite El in Hw. exact (proj2 (cmd_walk_link _ _ _ _ _ _ _ _ _ Hw)).
  - intros l1 b a mid id la fi cl l2 El Hmid.
    assert (El' : spec_ids 0 p 0 0
                  = (l1 ++ (b, EvBegin a) :: mid) ++ (id, EvEnd la fi cl) :: l2)
      by (rewrite <- app_assoc; exact El).
    rewrite El' in Hsub. pose proof (sub_point _ _ _ _ _ Hsub) as Hp.
    cbn [fst sub_next_spec hd is_end is_begin] in Hp. rewrite Hp. f_equal.
    rewrite cur_after_app. change ((b, EvBegin a) :: mid) with ([(b, EvBegin a)] ++ mid).
    rewrite cur_after_app. rewrite (cur_after_nobegin _ _ Hmid). reflexivity.
Qed.

(* ========================================================= 4. Events::next *)

Lemma rd_nth {A} (l : list A) i d :
  in_rng (length l) i = true -> rd l i = Some (nth (Z.to_nat i) l d).
Proof.
  unfold in_rng, rd. intros H. apply andb_true_iff in H. destruct H as [H0 H1].
  apply Z.leb_le in H0. apply Z.ltb_lt in H1.
  destruct (Z.ltb_spec i 0) as [H|_]; [lia|].
  apply nth_error_nth'. lia.
Qed.

Section Resolve.
Context {E C : Type} (eps : list E) (cps : list C) (dE : E) (dC : C).

Definition ep_of (i : Z) : E := nth (Z.to_nat i) eps dE.
Definition cp_of (i : Z) : C := nth (Z.to_nat i) cps dC.

Lemma events_collect_enc p : forall fuel pos fe prev first inside,
  cop_nested_go inside p = true ->
  cop_in_range (length eps) (length cps) p = true ->
  (inside = true -> in_rng (length eps) prev = true /\ in_rng (length eps) first = true) ->
  (length p < fuel)%nat ->
  events_collect fuel eps cps (mkEv (enc pos fe p) prev first)
  = ROk (map (map_event ep_of cp_of) (cop_events_go p prev first)).
Proof.
  induction p as [|o r IH]; intros fuel pos fe prev first inside Hn Hr Hctx Hf;
    (destruct fuel as [|f]; [cbn [length] in Hf; lia|]).
  - reflexivity.
  - cbn [length] in Hf. assert (Hf' : (length r < f)%nat) by lia.
    destruct (nested_step _ _ _ Hn) as [Hin Hn'].
    cbn [cop_in_range forallb] in Hr. apply andb_true_iff in Hr. destruct Hr as [Ho Hr].
    cbn [events_collect cop_events_go]. unfold events_next.
    destruct o as [a | t | c t | c1 c2 t | cl]; cbn [negb] in Hin; cbn [cop_ids_ok] in Ho;
      try (destruct (Hctx Hin) as [Hp Hfi]).
    + cbn [enc op_words op_fe app ev_cmds cnext ev_prev ev_first]; verbs.
      rewrite (rd_nth eps a dE Ho). cbn [obind ostep].
      rewrite (IH f _ _ _ _ true Hn' Hr (fun _ => conj Ho Ho) Hf'). reflexivity.
    + cbn [enc op_words op_fe app ev_cmds cnext ev_prev ev_first]; verbs.
      rewrite (rd_nth eps prev dE Hp), (rd_nth eps t dE Ho). cbn [obind ostep].
      rewrite (IH f _ _ _ _ true Hn' Hr (fun _ => conj Ho Hfi) Hf'). reflexivity.
    + destruct (andb_prop _ _ Ho) as [Hc Ht].
      cbn [enc op_words op_fe app ev_cmds cnext ev_prev ev_first]; verbs.
      rewrite (rd_nth eps prev dE Hp), (rd_nth cps c dC Hc), (rd_nth eps t dE Ht).
      cbn [obind ostep].
      rewrite (IH f _ _ _ _ true Hn' Hr (fun _ => conj Ht Hfi) Hf'). reflexivity.
    + destruct (andb_prop _ _ Ho) as [Hc Ht]. destruct (andb_prop _ _ Hc) as [Hc1 Hc2].
      cbn [enc op_words op_fe app ev_cmds cnext ev_prev ev_first]; verbs.
      rewrite (rd_nth eps prev dE Hp), (rd_nth cps c1 dC Hc1), (rd_nth cps c2 dC Hc2),
              (rd_nth eps t dE Ht).
      cbn [obind ostep].
      rewrite (IH f _ _ _ _ true Hn' Hr (fun _ => conj Ht Hfi) Hf'). reflexivity.
    + destruct cl; cbn [enc op_words op_fe app ev_cmds cnext ev_prev ev_first]; verbs;
        rewrite (rd_nth eps prev dE Hp), (rd_nth eps first dE Hfi); cbn [obind ostep];
        rewrite (IH f _ _ _ _ false Hn' Hr ltac:(discriminate) Hf'); reflexivity.
Qed.

(* 4. Events resolves every id of the iteration through the two slices; no
   index is out of bounds when all the ids of the program are in range. *)
Theorem cmd_events_resolve p
  (Hn : cop_nested p = true)
  (Hr : cop_in_range (length eps) (length cps) p = true) :
  cmd_events (cmd_build p) eps cps = ROk (map (map_event ep_of cp_of) (cop_events p)).
Proof.
  unfold cmd_events, events_new, cop_events. rewrite cmd_build_enc.
  apply (events_collect_enc p _ 0 0 0 0 false Hn Hr); [discriminate|].
  pose proof (enc_length_ge p 0 0). lia.
Qed.

End Resolve.

(* The two ways an ROk walk is linked, for any buffer (no hypothesis on how it
   was built): every id in the list was read by event(); next_event_id_in_path
   is Some(next id) at every element but the last, and None at the last. *)
Theorem cmd_walk_stops fuel cmds id0 l (Hw : cmd_walk fuel cmds id0 = ROk l) :
  (forall l1 id e id' e' l2, l = l1 ++ (id, e) :: (id', e') :: l2 ->
     cmd_event cmds id = Some e /\ cmd_next_in_path cmds id = Some (Some id')) /\
  (forall l1 id e, l = l1 ++ [(id, e)] ->
     cmd_event cmds id = Some e /\ cmd_next_in_path cmds id = Some None).
Proof.
  split.
  - intros l1 id e id' e' l2 ->. eapply cmd_walk_link; exact Hw.
  - intros l1 id e ->. eapply cmd_walk_last; exact Hw.
Qed.

(* ================================================================ example *)

(* Two sub-paths: a closed one with a line and a quadratic, an open one with a
   cubic and a line. *)
Definition ex_prog : list cop :=
  [CBegin 10; CLine 11; CQuad 100 12; CEnd true;
   CBegin 20; CCubic 101 102 21; CLine 22; CEnd false].

Example ex_nested : cop_nested ex_prog = true.
Proof. vm_compute. reflexivity. Qed.

(*                     0  1   2  3   4   5   6   7  8  9  10  11  12   13  14  15  16  17 18 *)
Example ex_buffer : cmd_build ex_prog
  = [3; 10; 0; 11; 1; 100; 12; 4; 0; 3; 20; 2; 101; 102; 21; 0; 22; 5; 9].
Proof. vm_compute. reflexivity. Qed.

Example ex_build_ids : cmd_build_ids ex_prog = [0; 2; 4; 7; 9; 11; 15; 17].
Proof. vm_compute. reflexivity. Qed.

Example ex_iter : cmd_iter (cmd_build ex_prog)
  = ROk [EvBegin 10; EvLine 10 11; EvQuad 11 100 12; EvEnd 12 10 true;
         EvBegin 20; EvCubic 20 101 102 21; EvLine 21 22; EvEnd 22 20 false].
Proof. vm_compute. reflexivity. Qed.

Example ex_spec : cop_events ex_prog
  = [EvBegin 10; EvLine 10 11; EvQuad 11 100 12; EvEnd 12 10 true;
     EvBegin 20; EvCubic 20 101 102 21; EvLine 21 22; EvEnd 22 20 false].
Proof. vm_compute. reflexivity. Qed.

Example ex_walk : cmd_walk (length (cmd_build ex_prog)) (cmd_build ex_prog) 0
  = ROk [(0, EvBegin 10); (2, EvLine 10 11); (4, EvQuad 11 100 12); (7, EvEnd 12 10 true);
         (9, EvBegin 20); (11, EvCubic 20 101 102 21); (15, EvLine 21 22);
         (17, EvEnd 22 20 false)].
Proof. vm_compute. reflexivity. Qed.

(* next_event_id_in_sub_path at each event id: the two Ends loop back to 0 and 9 *)
Example ex_sub_path :
  omap (cmd_next_in_sub_path (cmd_build ex_prog)) [0; 2; 4; 7; 9; 11; 15; 17]
  = Some [2; 4; 7; 0; 11; 15; 17; 9].
Proof. vm_compute. reflexivity. Qed.

Example ex_next_in_path_last : cmd_next_in_path (cmd_build ex_prog) 17 = Some None.
Proof. vm_compute. reflexivity. Qed.

(* ids resolved through two stores (endpoints 0..2, control points 0..2) *)
Definition ex_prog2 : list cop :=
  [CBegin 0; CQuad 0 1; CEnd true; CBegin 2; CCubic 1 2 0; CEnd false].

Example ex_events :
  cmd_events (cmd_build ex_prog2) [(0, 0); (10, 0); (10, 10)] [(5, -5); (7, 7); (8, 8)]
  = ROk [EvBegin (0, 0); EvQuad (0, 0) (5, -5) (10, 0); EvEnd (10, 0) (0, 0) true;
         EvBegin (10, 10); EvCubic (10, 10) (7, 7) (8, 8) (0, 0);
         EvEnd (0, 0) (10, 10) false].
Proof. vm_compute. reflexivity. Qed.

(* an id outside the store is the panic outcome *)
Example ex_events_oob :
  cmd_events (cmd_build ex_prog2) [(0, 0); (10, 0)] [(5, -5); (7, 7); (8, 8)] = RPanic.
Proof. vm_compute. reflexivity. Qed.

(* Outside the theorems' hypotheses. *)

(* the empty path: event(EventId(0)) is an out-of-bounds read *)
Example ex_empty_walk : cmd_walk 1 (cmd_build []) 0 = RPanic.
Proof. vm_compute. reflexivity. Qed.

(* A program the DebugValidator rejects (an edge after `end`), which release
   builds accept: Iter and event() disagree on `from` of the stray edge; Iter
   reports the first endpoint of the closed sub-path (7), event() reports the
   word before the verb, which is the first_event_index stored by `end` (0). *)
Definition ex_bad : list cop := [CBegin 7; CEnd true; CLine 1; CEnd true].

Example ex_bad_iter : cmd_iter (cmd_build ex_bad)
  = ROk [EvBegin 7; EvEnd 7 7 true; EvLine 7 1; EvEnd 1 7 true].
Proof. vm_compute. reflexivity. Qed.

Example ex_bad_walk : cmd_walk 8 (cmd_build ex_bad) 0
  = ROk [(0, EvBegin 7); (2, EvEnd 7 7 true); (4, EvLine 0 1); (6, EvEnd 1 7 true)].
Proof. vm_compute. reflexivity. Qed.

(* an edge as the very first call: event(EventId(0)) reads cmds[0 - 1] *)
Example ex_bad_first : cmd_event (cmd_build [CLine 1; CEnd false]) 0 = None.
Proof. vm_compute. reflexivity. Qed.

(* a truncated buffer: Iter does not unwrap the word after END / CLOSE, so a
   buffer that stops right after the verb still yields the End event, whereas a
   truncated edge panics *)
Example ex_truncated_end : cmd_iter [3; 10; 5] = ROk [EvBegin 10; EvEnd 10 10 false].
Proof. vm_compute. reflexivity. Qed.
Example ex_truncated_edge : cmd_iter [3; 10; 0] = RPanic.
Proof. vm_compute. reflexivity. Qed.

Print Assumptions cmd_build_enc.
Print Assumptions cmd_iter_spec.
Print Assumptions cmd_iter_spec_total.
Print Assumptions cmd_iter_idx_spec.
Print Assumptions cmd_iter_never_out_of_fuel.
Print Assumptions cmd_walk_spec.
Print Assumptions cmd_event_spec.
Print Assumptions cmd_walk_stops.
Print Assumptions cmd_sub_path_list.
Print Assumptions cmd_sub_path_spec.
Print Assumptions cmd_events_resolve.
