(* C11, quadratic part: for_each_monotonic_range / for_each_monotonic. *)
From Coq Require Import QArith Qminmax Lqa Lia.
From LV Require Import Base.Prelude Model.Bezier Proofs.C11_Quad.
Open Scope Q_scope.

(* same body as [chain] / [quad_eq] of Props/C11.v (convertible) *)
Fixpoint chain (s : Q) (l : list (Q * Q)) (e : Q) : Prop :=
  match l with
  | [] => s == e
  | (a, b) :: r => a == s /\ a < b /\ chain b r e
  end.
Definition quad_eq (a b : quad) : Prop :=
  q_from a =p= q_from b /\ q_ctrl a =p= q_ctrl b /\ q_to a =p= q_to b.

(* a parameter range on which one coordinate has no interior extremum *)
Definition okr (f c0 t_ : Q) (r : Q * Q) : Prop :=
  0 <= fst r /\ fst r <= snd r /\ snd r <= 1 /\
  (q_local_extremum f c0 t_ = None \/
   exists e, q_local_extremum f c0 t_ = Some e /\ (e <= fst r \/ snd r <= e)).

Ltac ranges_cases c :=
  unfold q_monotonic_ranges, q_local_x_extremum_t, q_local_y_extremum_t;
  destruct (q_local_extremum (px (q_from c)) (px (q_ctrl c)) (px (q_to c))) as [tx|] eqn:Ex;
  destruct (q_local_extremum (py (q_from c)) (py (q_ctrl c)) (py (q_to c))) as [ty|] eqn:Ey;
  try (pose proof (q_local_extremum_Some _ _ _ _ Ex) as (_ & _ & ? & ?));
  try (pose proof (q_local_extremum_Some _ _ _ _ Ey) as (_ & _ & ? & ?));
  [ destruct (Qltb ty tx) eqn:E;
    [ destruct (Qeq_bool tx ty) eqn:E2
    | destruct (Qeq_bool ty tx) eqn:E2 ]
  | destruct (Qeq_bool tx 0) eqn:E2
  | destruct (Qeq_bool ty 0) eqn:E2
  | ]; boolq; cbn [app fst snd].

Lemma quad_monotonic_ranges_chain : forall c, chain 0 (q_monotonic_ranges c) 1.
Proof.
  intros c. ranges_cases c; cbn [chain]; repeat split; try reflexivity; try lra.
Qed.

Lemma ranges_ok c :
  Forall (fun r => okr (px (q_from c)) (px (q_ctrl c)) (px (q_to c)) r /\
                   okr (py (q_from c)) (py (q_ctrl c)) (py (q_to c)) r)
         (q_monotonic_ranges c).
Proof.
  unfold okr.
  ranges_cases c;
    repeat first [apply Forall_nil | apply Forall_cons | match goal with |- _ /\ _ => split end];
    cbn [fst snd]; try lra;
    try (left; reflexivity);
    try (right; eexists; split; [reflexivity|lra]).
Qed.

(* ------------------------------------------------ clamp *)
Lemma clampq_id v lo hi : lo <= v -> v <= hi -> clampq v lo hi == v.
Proof.
  intros A B. unfold clampq. rewrite (Q.max_l v lo A). apply Q.min_l; auto.
Qed.

Lemma clampq_between v f t :
  (f <= clampq v (Qmin f t) (Qmax f t) /\ clampq v (Qmin f t) (Qmax f t) <= t) \/
  (t <= clampq v (Qmin f t) (Qmax f t) /\ clampq v (Qmin f t) (Qmax f t) <= f).
Proof.
  unfold clampq.
  destruct (Q.min_spec f t) as [[A B]|[A B]]; destruct (Q.max_spec f t) as [[C D]|[C D]];
  destruct (Q.max_spec v (Qmin f t)) as [[E F]|[E F]];
  destruct (Q.min_spec (Qmax v (Qmin f t)) (Qmax f t)) as [[G H]|[G H]];
  rewrite ?H, ?F, ?D, ?B in *; lra.
Qed.

Lemma quad_pieces_monotone : forall c p, In p (q_monotonic_pieces c) ->
  q_local_x_extremum_t p = None /\ q_local_y_extremum_t p = None.
Proof.
  intros c p H. unfold q_monotonic_pieces in H. apply in_map_iff in H.
  destruct H as (r & <- & _).
  unfold q_local_x_extremum_t, q_local_y_extremum_t; cbn [q_from q_ctrl q_to px py fst snd].
  split; apply q_local_extremum_None; apply clampq_between.
Qed.

(* ------------------------------------------------ split_range keeps ctrl between the ends *)
Lemma split_ctrl_between f c0 t_ a b : okr f c0 t_ (a, b) ->
  let from := q_coord f c0 t_ a in
  let to := q_coord f c0 t_ b in
  let ctrl := from + ((1 - a) * (c0 - f) + a * (t_ - c0)) * (b - a) in
  (from <= ctrl /\ ctrl <= to) \/ (to <= ctrl /\ ctrl <= from).
Proof.
  intros H from to ctrl. unfold okr in H; cbn [fst snd] in H. destruct H as (H0 & H1 & H2 & H).
  set (D0 := (1 - a) * (c0 - f) + a * (t_ - c0)).
  set (D1 := (1 - b) * (c0 - f) + b * (t_ - c0)).
  assert (E0 : ctrl - from == D0 * (b - a)) by (unfold ctrl, D0; ring).
  assert (E1 : to - ctrl == D1 * (b - a)) by (unfold ctrl, to, from, D0, D1, q_coord; ring).
  assert (S : (0 <= D0 /\ 0 <= D1) \/ (D0 <= 0 /\ D1 <= 0)).
  { destruct H as [H|(e & H & He)].
    - apply q_local_extremum_None in H. unfold D0, D1. destruct H as [[A B]|[A B]]; [left|right].
      + assert (0 <= (1 - a) * (c0 - f)) by (apply Qmult_le_0_compat; lra).
        assert (0 <= a * (t_ - c0)) by (apply Qmult_le_0_compat; lra).
        assert (0 <= (1 - b) * (c0 - f)) by (apply Qmult_le_0_compat; lra).
        assert (0 <= b * (t_ - c0)) by (apply Qmult_le_0_compat; lra). lra.
      + assert (0 <= (1 - a) * (f - c0)) by (apply Qmult_le_0_compat; lra).
        assert (0 <= a * (c0 - t_)) by (apply Qmult_le_0_compat; lra).
        assert (0 <= (1 - b) * (f - c0)) by (apply Qmult_le_0_compat; lra).
        assert (0 <= b * (c0 - t_)) by (apply Qmult_le_0_compat; lra). lra.
    - apply q_local_extremum_Some in H. destruct H as (_ & Ht & _ & _).
      set (d := f - 2 * c0 + t_) in *.
      assert (F0 : D0 == d * (a - e)).
      { setoid_replace D0 with ((c0 - f) + a * d) by (unfold D0, d; ring).
        setoid_replace (c0 - f) with (- (e * d)) by lra. ring. }
      assert (F1 : D1 == d * (b - e)).
      { setoid_replace D1 with ((c0 - f) + b * d) by (unfold D1, d; ring).
        setoid_replace (c0 - f) with (- (e * d)) by lra. ring. }
      rewrite F0, F1.
      destruct (Qlt_le_dec d 0); destruct He; [right|left|left|right]; split; nra. }
  destruct S as [[A B]|[A B]]; [left|right].
  - assert (0 <= D0 * (b - a)) by (apply Qmult_le_0_compat; lra).
    assert (0 <= D1 * (b - a)) by (apply Qmult_le_0_compat; lra). lra.
  - assert (0 <= (- D0) * (b - a)) by (apply Qmult_le_0_compat; lra).
    assert (0 <= (- D1) * (b - a)) by (apply Qmult_le_0_compat; lra). lra.
Qed.

Lemma split_clamp_id f c0 t_ a b : okr f c0 t_ (a, b) ->
  let from := q_coord f c0 t_ a in
  let to := q_coord f c0 t_ b in
  let ctrl := from + ((1 - a) * (c0 - f) + a * (t_ - c0)) * (b - a) in
  clampq ctrl (Qmin from to) (Qmax from to) == ctrl.
Proof.
  intros H. pose proof (split_ctrl_between f c0 t_ a b H) as S. cbv zeta in *.
  set (from := q_coord f c0 t_ a) in *. set (to := q_coord f c0 t_ b) in *.
  set (ctrl := from + _) in *.
  apply clampq_id.
  - destruct (Q.min_spec from to) as [[A B]|[A B]]; rewrite B; lra.
  - destruct (Q.max_spec from to) as [[A B]|[A B]]; rewrite B; lra.
Qed.

Lemma Forall2_map_r {A B} (R : A -> B -> Prop) (g : A -> B) l :
  Forall (fun a => R a (g a)) l -> Forall2 R l (map g l).
Proof. induction 1; cbn; constructor; auto. Qed.

Lemma quad_pieces_retrace : forall c,
  Forall2 (fun r p => quad_eq p (q_split_range c (fst r) (snd r)))
          (q_monotonic_ranges c) (q_monotonic_pieces c).
Proof.
  intros c. unfold q_monotonic_pieces. apply Forall2_map_r.
  eapply Forall_impl; [|apply ranges_ok].
  intros [a b] [Hx Hy]. cbn [fst snd].
  unfold quad_eq; cbn [q_from q_ctrl q_to]. split; [split; reflexivity|]. split; [|split; reflexivity].
  split; cbn [px py fst snd].
  - apply (split_clamp_id _ _ _ a b Hx).
  - apply (split_clamp_id _ _ _ a b Hy).
Qed.
