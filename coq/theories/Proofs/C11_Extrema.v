(* C11: bounding boxes / extrema / monotone splits - entry point re-exporting the lemmas
   used by Props/C11.v.
     C11_Quad        quadratic extremum, monotonicity, exact and fast bounding range
     C11_QuadSplit   for_each_monotonic_range / for_each_monotonic
     C11_Cubic       cubic root list (sound/complete), min/max folds, convex hull
     C11_CubicRange  cubic exact bounding range contains the curve
     C11_SqrtOracle  [sqrt_ok] is unsatisfiable over Q; the [*_at] lemmas are the non-vacuous forms *)
From LV Require Export Proofs.C11_Quad Proofs.C11_QuadSplit Proofs.C11_Cubic Proofs.C11_CubicRange
  Proofs.C11_SqrtOracle.

Print Assumptions cubic_extrema_sound_at.
Print Assumptions cubic_extrema_complete_at.
Print Assumptions cubic_range_contains_at.
Print Assumptions sqrt_ok_unsatisfiable.
