(* C07 - proofs about Model/Sources.v: the parameter-range algebra of the sweep, the vertex source
   iterator, and attribute interpolation in exact arithmetic. *)
From Coq Require Import QArith Qabs Lia Lqa.
From LV Require Import Base.Prelude Base.F32 Model.Bezier Model.Sources Proofs.C10_Bezier.
Open Scope Q_scope.

(* ------------------------------------------------------------------ helpers: Q booleans, peq *)
Lemma Qltb_true a b : Qltb a b = true <-> a < b.
Proof.
  unfold Qltb. rewrite negb_true_iff. split.
  - intros H. apply Qnot_le_lt. intro H'. apply Qle_bool_iff in H'. congruence.
  - intros H. destruct (Qle_bool b a) eqn:E; auto.
    apply Qle_bool_iff in E. exfalso. exact (Qlt_not_le _ _ H E).
Qed.

Lemma peq_refl a : a =p= a.
Proof. split; reflexivity. Qed.
Lemma peq_sym a b : a =p= b -> b =p= a.
Proof. intros [H1 H2]; split; symmetry; assumption. Qed.
Lemma peq_trans a b c : a =p= b -> b =p= c -> a =p= c.
Proof. intros [H1 H2] [H3 H4]; split; etransitivity; eassumption. Qed.

Lemma plerp_peq_l a a' b t : a =p= a' -> plerp a b t =p= plerp a' b t.
Proof.
  intros [H1 H2]. unfold plerp, peq, px, py in *. cbn [fst snd] in *.
  rewrite H1, H2. split; reflexivity.
Qed.

(* ------------------------------------------------------------------ (1) ranges *)
Lemma remap_affine : forall v s e, remap_t_in_range v s e == s + v * (e - s).
Proof. intros. unfold remap_t_in_range, remap_gen. destruct (Qltb s e); ring. Qed.

Lemma cut_sound : forall p v,
  pc_from (cut_lower p v) =p= plerp (pc_from p) (pc_to p) v /\
  pc_to (cut_upper p v) =p= plerp (pc_from p) (pc_to p) v /\
  pc_from (cut_upper p v) = pc_from p /\ pc_to (cut_lower p v) = pc_to p.
Proof.
  intros [a b t0 t1] v.
  unfold pc_from, pc_to, cut_lower, cut_upper; cbn [pc_a pc_b pc_t0 pc_t1].
  split; [|split; [|split; reflexivity]];
    unfold remap_t_in_range, remap_gen; destruct (Qltb t0 t1);
    unfold plerp, peq, px, py; cbn [fst snd]; split; ring.
Qed.

Lemma cuts_gen : forall vs p q T, pc_from p =p= q -> pc_to p = T ->
  pc_from (fold_left cut_lower vs p) =p= fold_left (fun q v => plerp q T v) vs q
  /\ pc_to (fold_left cut_lower vs p) = T.
Proof.
  induction vs as [|v vs IH]; intros p q T Hq HT; cbn [fold_left].
  - split; assumption.
  - apply IH.
    + destruct (cut_sound p v) as (H1 & _). eapply peq_trans; [exact H1|].
      rewrite HT. apply plerp_peq_l; exact Hq.
    + destruct (cut_sound p v) as (_ & _ & _ & H4). rewrite H4; exact HT.
Qed.

Lemma cuts_sound : forall vs p,
  pc_from (fold_left cut_lower vs p) =p= fold_left (fun q v => plerp q (pc_to p) v) vs (pc_from p)
  /\ pc_to (fold_left cut_lower vs p) = pc_to p.
Proof. intros vs p. apply cuts_gen; [apply peq_refl | reflexivity]. Qed.

Lemma stale_start_refuted :
  let p := mkPiece (0, 0) (0, 10) 0 1 in
  stale_point p (1#2) (1#2) =p= (0, 15#2) /\
  stale_report p (1#2) (1#2) == 1#2 /\
  ~ (plerp (pc_a p) (pc_b p) (stale_report p (1#2) (1#2)) =p= stale_point p (1#2) (1#2)).
Proof.
  cbv zeta. split; [|split].
  - vm_compute. split; reflexivity.
  - vm_compute. reflexivity.
  - intros [_ H]. vm_compute in H. discriminate H.
Qed.

Lemma flipped_quadratic_parameter : forall c t, q_sample (q_flip c) t =p= q_sample c (1 - t).
Proof. exact quad_flip. Qed.
Lemma flipped_cubic_parameter : forall c t, c_sample (c_flip c) t =p= c_sample c (1 - t).
Proof. exact cubic_flip. Qed.

(* ------------------------------------------------------------------ (2) source iterator *)
Lemma Qeq_bool_refl' x : Qeq_bool x x = true.
Proof. apply Qeq_bool_iff; reflexivity. Qed.

Lemma Qeq_bool_sym' x y : Qeq_bool x y = Qeq_bool y x.
Proof.
  destruct (Qeq_bool x y) eqn:E1, (Qeq_bool y x) eqn:E2; auto.
  - apply Qeq_bool_iff in E1. symmetry in E1. apply Qeq_bool_iff in E1. congruence.
  - apply Qeq_bool_iff in E2. symmetry in E2. apply Qeq_bool_iff in E2. congruence.
Qed.

Lemma vsource_eqb_refl v : vsource_eqb v v = true.
Proof.
  destruct v as [i|f t x]; cbn [vsource_eqb].
  - apply Z.eqb_refl.
  - rewrite !Z.eqb_refl, Qeq_bool_refl'. reflexivity.
Qed.

Lemma vsource_eqb_sym a b : vsource_eqb a b = vsource_eqb b a.
Proof.
  destruct a as [i|f1 t1 x1], b as [j|f2 t2 x2]; cbn [vsource_eqb]; auto.
  - apply Z.eqb_sym.
  - rewrite (Z.eqb_sym f1), (Z.eqb_sym t1), (Qeq_bool_sym' x1). reflexivity.
Qed.

Fixpoint chain (prev : option vsource) (l : list vsource) : Prop :=
  match l with
  | [] => True
  | x :: r => match prev with Some p => vsource_eqb x p = false | None => True end /\ chain (Some x) r
  end.

Lemma sources_from_chain l : forall prev, chain prev (sources_from prev l).
Proof.
  induction l as [|s r IH]; intros prev; cbn [sources_from]; [exact I|].
  destruct prev as [p|].
  - destruct (vsource_eqb (classify s) p) eqn:E; [apply IH|].
    cbn [chain]. split; [exact E | apply IH].
  - cbn [chain]. split; [exact I | apply IH].
Qed.

Lemma chain_app pre : forall prev a b post,
  chain prev (pre ++ a :: b :: post) -> vsource_eqb b a = false.
Proof.
  induction pre as [|x pre IH]; intros prev a b post H; cbn [app chain] in H.
  - destruct H as (_ & H & _). exact H.
  - destruct H as (_ & H). eapply IH; exact H.
Qed.

Lemma sources_no_consecutive_duplicates : forall l a b pre post,
  sources l = pre ++ a :: b :: post -> vsource_eqb a b = false.
Proof.
  intros l a b pre post H. rewrite vsource_eqb_sym.
  apply (chain_app pre None a b post). rewrite <- H. apply sources_from_chain.
Qed.

Lemma sources_complete_gen l : forall prev s, In s l ->
  exists v, (In v (sources_from prev l) \/ prev = Some v) /\ vsource_eqb (classify s) v = true.
Proof.
  induction l as [|s0 r IH]; intros prev s Hin; [destruct Hin|].
  cbn [sources_from]. destruct Hin as [Heq|Hin].
  - subst s0. destruct prev as [p|].
    + destruct (vsource_eqb (classify s) p) eqn:E.
      * exists p. split; [right; reflexivity | exact E].
      * exists (classify s). split; [left; left; reflexivity | apply vsource_eqb_refl].
    + exists (classify s). split; [left; left; reflexivity | apply vsource_eqb_refl].
  - assert (Hemit : exists v, In v (classify s0 :: sources_from (Some (classify s0)) r)
                              /\ vsource_eqb (classify s) v = true).
    { destruct (IH (Some (classify s0)) s Hin) as (v & [H|H] & Hv).
      - exists v; split; [right; exact H | exact Hv].
      - inversion H; subst v. exists (classify s0); split; [left; reflexivity | exact Hv]. }
    destruct prev as [p|].
    + destruct (vsource_eqb (classify s0) p) eqn:E.
      * apply IH; exact Hin.
      * destruct Hemit as (v & H & Hv). exists v; split; [left; exact H | exact Hv].
    + destruct Hemit as (v & H & Hv). exists v; split; [left; exact H | exact Hv].
Qed.

Lemma sources_complete : forall l s, In s l ->
  exists v, In v (sources l) /\ vsource_eqb (classify s) v = true.
Proof.
  intros l s Hin. destruct (sources_complete_gen l None s Hin) as (v & [H|H] & Hv).
  - exists v; split; assumption.
  - discriminate H.
Qed.

Lemma sources_sound_gen l : forall prev v, In v (sources_from prev l) ->
  exists s, In s l /\ v = classify s.
Proof.
  induction l as [|s0 r IH]; intros prev v Hin; cbn [sources_from] in Hin; [destruct Hin|].
  assert (Hemit : In v (classify s0 :: sources_from (Some (classify s0)) r) ->
                  exists s, In s (s0 :: r) /\ v = classify s).
  { intros [H|H].
    - exists s0; split; [left; reflexivity | symmetry; exact H].
    - destruct (IH _ _ H) as (s & Hs & Hv). exists s; split; [right; exact Hs | exact Hv]. }
  destruct prev as [p|].
  - destruct (vsource_eqb (classify s0) p).
    + destruct (IH _ _ Hin) as (s & Hs & Hv). exists s; split; [right; exact Hs | exact Hv].
    + apply Hemit; exact Hin.
  - apply Hemit; exact Hin.
Qed.

Lemma sources_sound : forall l v, In v (sources l) -> exists s, In s l /\ v = classify s.
Proof. intros l v. apply sources_sound_gen. Qed.

Lemma sources_nonempty : forall l, l <> [] -> sources l <> [].
Proof. intros [|s r] H; [congruence|]. unfold sources; cbn [sources_from]. discriminate. Qed.

Definition not_endpoint (prev : option vsource) : Prop :=
  match prev with Some (VEndpoint _) => False | _ => True end.

Lemma as_endpoint_gen l : forall prev, not_endpoint prev ->
  as_endpoint_id l = first_endpoint (sources_from prev l).
Proof.
  induction l as [|[[f t] x] r IH]; intros prev Hp; [reflexivity|].
  cbn [as_endpoint_id sources_from classify].
  destruct (Qeq_bool x 0) eqn:E0.
  { destruct prev as [[i|f' t' x']|]; [destruct Hp | reflexivity | reflexivity]. }
  destruct (Qeq_bool x 1) eqn:E1.
  { destruct prev as [[i|f' t' x']|]; [destruct Hp | reflexivity | reflexivity]. }
  destruct prev as [[i|f' t' x']|]; [destruct Hp | |].
  - destruct (vsource_eqb (VEdge f t x) (VEdge f' t' x')).
    + exact (IH (Some (VEdge f' t' x')) I).
    + exact (IH (Some (VEdge f t x)) I).
  - exact (IH (Some (VEdge f t x)) I).
Qed.

Lemma as_endpoint_is_first_endpoint_source : forall l, as_endpoint_id l = first_endpoint (sources l).
Proof. intros l. apply as_endpoint_gen. exact I. Qed.

(* ------------------------------------------------------------------ (3) attributes *)
Lemma lerp_attr_exact : forall t a b, lerp_attr (fun x => x) t a b == a * (1 - t) + b * t.
Proof. intros. unfold lerp_attr. cbv beta. ring. Qed.

Lemma map2_length {A B C} (f : A -> B -> C) : forall l1 l2,
  length l1 = length l2 -> length (map2 f l1 l2) = length l1.
Proof.
  induction l1 as [|x r IH]; intros [|y r2] H; cbn [map2 length] in *; try discriminate; auto.
  all: f_equal; apply IH; lia.
Qed.

Lemma map2_nth {A B C} (f : A -> B -> C) da db dc : forall l1 l2 k,
  length l1 = length l2 -> (k < length l1)%nat ->
  nth k (map2 f l1 l2) dc = f (nth k l1 da) (nth k l2 db).
Proof.
  induction l1 as [|x r IH]; intros [|y r2] k H Hk; cbn [map2 length] in *; try discriminate; try lia.
  destruct k; cbn [nth]; [reflexivity | apply IH; lia].
Qed.

Definition sumk (k : nat) (ss : list src) : Q :=
  fold_right (fun s acc => nth k (src_attrs (fun x => x) s) 0 + acc) 0 ss.

Lemma fold_add : forall rest b n, length b = n ->
  (forall s, In s rest -> length (src_attrs (fun x => x) s) = n) ->
  length (fold_left (fun buf s => map2 (fun x y => x + y) buf (src_attrs (fun x => x) s)) rest b) = n /\
  forall k, (k < n)%nat ->
    nth k (fold_left (fun buf s => map2 (fun x y => x + y) buf (src_attrs (fun x => x) s)) rest b) 0
    == nth k b 0 + sumk k rest.
Proof.
  induction rest as [|s rest IH]; intros b n Hb Hall; cbn [fold_left].
  - split; [exact Hb|]. intros k Hk. unfold sumk; cbn [fold_right]. ring.
  - assert (Hs : length (src_attrs (fun x => x) s) = n) by (apply Hall; left; reflexivity).
    destruct (IH (map2 (fun x y => x + y) b (src_attrs (fun x => x) s)) n) as [HL HN].
    + rewrite map2_length; [exact Hb | congruence].
    + intros s' Hs'; apply Hall; right; exact Hs'.
    + split; [exact HL|]. intros k Hk. rewrite (HN k Hk).
      rewrite (map2_nth (fun x y => x + y) 0 0 0) by (try congruence; rewrite Hb; exact Hk).
      unfold sumk; cbn [fold_right]. ring.
Qed.

Definition interp_gen (first : src) (rest : list src) : list Q :=
  let buf := fold_left (fun buf s => map2 (fun x y => x + y) buf (src_attrs (fun x => x) s))
                       rest (src_attrs (fun x => x) first) in
  let div := inject_Z (Z.of_nat (length (first :: rest))) in
  if Qltb 1 div then map (fun x => x / div) buf else buf.

Lemma Qltb_1_nat m : (2 <= m)%nat -> Qltb 1 (inject_Z (Z.of_nat m)) = true.
Proof. intros H. apply Qltb_true. unfold Qlt, inject_Z; cbn [Qnum Qden]. lia. Qed.

Lemma interp_gen_avg first rest n :
  (forall s, In s (first :: rest) -> length (src_attrs (fun x => x) s) = n) ->
  length (interp_gen first rest) = n /\
  forall k, (k < n)%nat ->
    nth k (interp_gen first rest) 0
    == sumk k (first :: rest) / inject_Z (Z.of_nat (length (first :: rest))).
Proof.
  intros Hall.
  destruct (fold_add rest (src_attrs (fun x => x) first) n) as [HL HN].
  { apply Hall; left; reflexivity. }
  { intros s Hs; apply Hall; right; exact Hs. }
  unfold interp_gen. cbv zeta.
  set (div := inject_Z (Z.of_nat (length (first :: rest)))).
  set (buf := fold_left _ rest _) in *.
  destruct (Qltb 1 div) eqn:E.
  - split; [rewrite map_length; exact HL|]. intros k Hk.
    transitivity (nth k buf 0 / div).
    + rewrite (nth_indep _ 0 ((fun x => x / div) 0)) by (rewrite map_length, HL; exact Hk).
      rewrite (map_nth (fun x => x / div)). reflexivity.
    + rewrite (HN k Hk). unfold sumk; cbn [fold_right]. reflexivity.
  - destruct rest as [|s rest].
    + subst buf div. cbn [fold_left] in *. split; [exact HL|]. intros k Hk.
      unfold sumk; cbn [fold_right length].
      change (inject_Z (Z.of_nat 1)) with 1. field.
    + exfalso. subst div. rewrite Qltb_1_nat in E; [discriminate|]. cbn [length]. lia.
Qed.

Lemma interp_is_gen first rest : interp (fun x => x) (first :: rest) = Some (interp_gen first rest).
Proof. destruct first; destruct rest; reflexivity. Qed.

Lemma interp_is_average : forall (ss : list src) (n : nat),
  ss <> [] -> (forall s, In s ss -> length (src_attrs (fun x => x) s) = n) ->
  exists a, interp (fun x => x) ss = Some a /\ length a = n /\
    forall k, (k < n)%nat ->
      nth k a 0 == fold_right (fun s acc => nth k (src_attrs (fun x => x) s) 0 + acc) 0 ss
                   / inject_Z (Z.of_nat (length ss)).
Proof.
  intros ss n Hne Hall. destruct ss as [|first rest]; [congruence|].
  exists (interp_gen first rest). split; [apply interp_is_gen|].
  exact (interp_gen_avg first rest n Hall).
Qed.

(* ---- affine attributes ---- *)
Lemma nth_attrs_at cs p k : (k < length cs)%nat ->
  nth k (attrs_at cs p) 0 = aff_at (nth k cs (0, 0, 0)) p.
Proof.
  intros Hk. unfold attrs_at.
  rewrite (nth_indep _ 0 ((fun c => aff_at c p) (0, 0, 0))) by (rewrite map_length; exact Hk).
  apply (map_nth (fun c => aff_at c p)).
Qed.

Lemma attrs_at_length cs p : length (attrs_at cs p) = length cs.
Proof. unfold attrs_at. apply map_length. Qed.

Lemma aff_at_peq c p q : p =p= q -> aff_at c p == aff_at c q.
Proof.
  destruct c as [[c0 c1] c2]. unfold aff_at, peq. intros [H1 H2]. rewrite H1, H2. reflexivity.
Qed.

Lemma aff_at_plerp c pa pb t :
  lerp_attr (fun x => x) t (aff_at c pa) (aff_at c pb) == aff_at c (plerp pa pb t).
Proof.
  destruct c as [[c0 c1] c2]. unfold lerp_attr, aff_at, plerp, px, py. cbv beta. cbn [fst snd]. ring.
Qed.

Lemma src_affine_length cs s : src_affine cs s -> length (src_attrs (fun x => x) s) = length cs.
Proof.
  destruct s; cbn [src_affine src_attrs]; try contradiction.
  - intros ->. apply attrs_at_length.
  - intros [-> ->]. rewrite map2_length; rewrite !attrs_at_length; reflexivity.
Qed.

Lemma src_affine_nth cs pos s k : src_affine cs s -> src_point s =p= pos -> (k < length cs)%nat ->
  nth k (src_attrs (fun x => x) s) 0 == nth k (attrs_at cs pos) 0.
Proof.
  intros Ha Hp Hk. rewrite (nth_attrs_at cs pos k Hk).
  destruct s; cbn [src_affine src_attrs src_point] in *; try contradiction.
  - subst a. rewrite (nth_attrs_at cs p k Hk). apply aff_at_peq; exact Hp.
  - destruct Ha as [-> ->].
    rewrite (map2_nth (lerp_attr (fun x => x) t) 0 0 0)
      by (rewrite !attrs_at_length; auto).
    rewrite !(nth_attrs_at cs _ k Hk).
    rewrite aff_at_plerp. apply aff_at_peq; exact Hp.
Qed.

Lemma sumk_const k v : forall ss,
  (forall s, In s ss -> nth k (src_attrs (fun x => x) s) 0 == v) ->
  sumk k ss == inject_Z (Z.of_nat (length ss)) * v.
Proof.
  induction ss as [|s ss IH]; intros H; unfold sumk; cbn [fold_right length].
  - change (inject_Z (Z.of_nat 0)) with 0. ring.
  - fold (sumk k ss). rewrite IH by (intros s' Hs'; apply H; right; exact Hs').
    rewrite (H s) by (left; reflexivity).
    rewrite Nat2Z.inj_succ. unfold Z.succ. rewrite inject_Z_plus.
    change (inject_Z 1) with 1. ring.
Qed.

Lemma length_nonzero {A} (ss : list A) : ss <> [] -> ~ inject_Z (Z.of_nat (length ss)) == 0.
Proof.
  destruct ss as [|s r]; [congruence|]. intros _.
  unfold Qeq, inject_Z; cbn [Qnum Qden length]. lia.
Qed.

Lemma Forall2_nth : forall a b : list Q, length a = length b ->
  (forall k, (k < length a)%nat -> nth k a 0 == nth k b 0) -> Forall2 Qeq a b.
Proof.
  induction a as [|x a IH]; intros [|y b] HL H; cbn [length] in *; try discriminate; constructor.
  - apply (H 0%nat). lia.
  - apply IH; [lia|]. intros k Hk. apply (H (S k)). lia.
Qed.

Lemma attrs_affine : forall (cs : list aff3) (pos : qpt) (ss : list src),
  ss <> [] -> (forall s, In s ss -> src_affine cs s /\ src_point s =p= pos) ->
  exists a, interp (fun x => x) ss = Some a /\ Forall2 Qeq a (attrs_at cs pos).
Proof.
  intros cs pos ss Hne Hall.
  destruct (interp_is_average ss (length cs) Hne) as (a & Ha & HL & HN).
  { intros s Hs. apply src_affine_length. apply (Hall s Hs). }
  exists a. split; [exact Ha|].
  apply Forall2_nth; [rewrite attrs_at_length; exact HL|].
  intros k Hk. rewrite HL in Hk. rewrite (HN k Hk).
  fold (sumk k ss).
  rewrite (sumk_const k (nth k (attrs_at cs pos) 0)).
  - field. apply length_nonzero; exact Hne.
  - intros s Hs. destruct (Hall s Hs) as [H1 H2]. apply src_affine_nth; assumption.
Qed.

Lemma src_sound_spec : forall slack2 pos s, src_sound slack2 pos s = true ->
  match s with
  | SEnd p _ => p =p= pos
  | _ => pdist2 pos (src_point s) <= slack2
  end.
Proof.
  intros slack2 pos s H. destruct s; cbn [src_sound] in H.
  - unfold peqb in H. apply andb_true_iff in H. destruct H as [H1 H2].
    apply Qeq_bool_iff in H1. apply Qeq_bool_iff in H2. split; assumption.
  - apply Qle_bool_iff; exact H.
  - apply Qle_bool_iff; exact H.
  - apply Qle_bool_iff; exact H.
Qed.

Lemma attrs_affine_example :
  let cs := [(1, 2, -1)] in
  let ss := [SLine (0, 0) (4, 4) (1#2) (attrs_at cs (0, 0)) (attrs_at cs (4, 4));
             SLine (4, 0) (0, 4) (1#2) (attrs_at cs (4, 0)) (attrs_at cs (0, 4))] in
  (forall s, In s ss -> src_affine cs s /\ src_point s =p= (2, 2)) /\
  exists a, interp (fun x => x) ss = Some a /\ Forall2 Qeq a [3].
Proof.
  cbv zeta. split.
  - intros s [<-|[<-|[]]]; (split; [split; reflexivity | vm_compute; split; reflexivity]).
  - eexists. split; [reflexivity|]. vm_compute. constructor; [reflexivity | constructor].
Qed.
