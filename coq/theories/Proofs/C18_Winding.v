(* Proofs for C18: winding number, hit test, signed area and orientation. *)
From Coq Require Import QArith Qminmax Qfield Lqa Zquot.
From LV Require Import Base.Prelude Model.Bezier Model.Winding.
Open Scope Q_scope.

(* ------------------------------------------------------------------ *)
(* boolean tests as propositions *)

Lemma Qle_bool_spec a b : BoolSpec (a <= b) (b < a) (Qle_bool a b).
Proof.
  destruct (Qle_bool a b) eqn:E; constructor.
  - apply Qle_bool_iff; exact E.
  - apply Qnot_le_lt. intro H. apply Qle_bool_iff in H. congruence.
Qed.

Lemma Qltb_spec a b : BoolSpec (a < b) (b <= a) (Qltb a b).
Proof.
  unfold Qltb. destruct (Qle_bool_spec b a); cbn [negb]; constructor; assumption.
Qed.

Lemma Qeq_bool_spec a b : BoolSpec (a == b) (~ a == b) (Qeq_bool a b).
Proof.
  destruct (Qeq_bool a b) eqn:E; constructor.
  - apply Qeq_bool_iff; exact E.
  - intro H. apply Qeq_bool_iff in H. congruence.
Qed.

Lemma Qltb_true a b : Qltb a b = true <-> a < b.
Proof. destruct (Qltb_spec a b); split; intros; try reflexivity; try assumption; try discriminate; lra. Qed.

Lemma Qltb_false a b : Qltb a b = false <-> b <= a.
Proof. destruct (Qltb_spec a b); split; intros; try reflexivity; try assumption; try discriminate; lra. Qed.

(* ------------------------------------------------------------------ *)
(* edge_wn characterisation *)

Lemma edge_wn_up p a b :
  py a <= py p -> py p < py b -> x_at a b (py p) < px p -> edge_wn p a b = 1%Z.
Proof.
  intros H1 H2 H3. unfold edge_wn.
  destruct (Qle_bool_spec (py a) (py p)); [|lra].
  destruct (Qltb_spec (py p) (py b)); [|lra].
  destruct (Qltb_spec (x_at a b (py p)) (px p)); [|lra].
  reflexivity.
Qed.

Lemma edge_wn_down p a b :
  py b <= py p -> py p < py a -> x_at a b (py p) < px p -> edge_wn p a b = (-1)%Z.
Proof.
  intros H1 H2 H3. unfold edge_wn.
  destruct (Qle_bool_spec (py b) (py p)); [|lra].
  destruct (Qltb_spec (py p) (py a)); [|lra].
  destruct (Qltb_spec (x_at a b (py p)) (px p)); [|lra].
  destruct (Qle_bool_spec (py a) (py p)); destruct (Qltb_spec (py p) (py b)); cbn [andb]; try reflexivity; lra.
Qed.

Lemma edge_wn_zero p a b :
  ~ (py a <= py p /\ py p < py b /\ x_at a b (py p) < px p) ->
  ~ (py b <= py p /\ py p < py a /\ x_at a b (py p) < px p) ->
  edge_wn p a b = 0%Z.
Proof.
  intros H1 H2. unfold edge_wn.
  destruct (Qle_bool_spec (py a) (py p)); destruct (Qltb_spec (py p) (py b));
    destruct (Qltb_spec (x_at a b (py p)) (px p)); cbn [andb]; try tauto;
  destruct (Qle_bool_spec (py b) (py p)); destruct (Qltb_spec (py p) (py a)); cbn [andb];
    try reflexivity; tauto.
Qed.

Lemma edge_wn_cases p a b :
  (py a <= py p /\ py p < py b /\ x_at a b (py p) < px p /\ edge_wn p a b = 1%Z) \/
  (py b <= py p /\ py p < py a /\ x_at a b (py p) < px p /\ edge_wn p a b = (-1)%Z) \/
  (~ (py a <= py p /\ py p < py b /\ x_at a b (py p) < px p) /\
   ~ (py b <= py p /\ py p < py a /\ x_at a b (py p) < px p) /\ edge_wn p a b = 0%Z).
Proof.
  destruct (Qlt_le_dec (x_at a b (py p)) (px p)) as [Hx|Hx].
  - destruct (Qlt_le_dec (py p) (py a)) as [Ha|Ha]; destruct (Qlt_le_dec (py p) (py b)) as [Hb|Hb].
    + right; right. repeat split; try (intros (?&?&?); lra). apply edge_wn_zero; intros (?&?&?); lra.
    + right; left. repeat split; try assumption. apply edge_wn_down; assumption.
    + left. repeat split; try assumption. apply edge_wn_up; assumption.
    + right; right. repeat split; try (intros (?&?&?); lra). apply edge_wn_zero; intros (?&?&?); lra.
  - right; right. repeat split; try (intros (?&?&?); lra). apply edge_wn_zero; intros (?&?&?); lra.
Qed.

(* x_at facts *)
Lemma x_at_sym a b y : ~ py a == py b -> x_at a b y == x_at b a y.
Proof. intro H. unfold x_at. field. split; intro; apply H; lra. Qed.

Lemma x_at_translate a b d y :
  x_at (padd a d) (padd b d) (y + py d) == x_at a b y + px d.
Proof.
  unfold x_at, padd, px, py; cbn [fst snd].
  assert (E1 : y + snd d - (snd a + snd d) == y - snd a) by ring.
  assert (E2 : fst b + fst d - (fst a + fst d) == fst b - fst a) by ring.
  assert (E3 : snd b + snd d - (snd a + snd d) == snd b - snd a) by ring.
  rewrite E1, E2, E3. ring.
Qed.

(* ------------------------------------------------------------------ *)
(* wn: list lemmas *)

Lemma wn_cons p e l : wn p (e :: l) = (edge_wn p (fst e) (snd e) + wn p l)%Z.
Proof. reflexivity. Qed.

Theorem wn_app : forall p e1 e2, wn p (e1 ++ e2) = (wn p e1 + wn p e2)%Z.
Proof.
  intros p e1 e2. induction e1 as [|e r IH].
  - cbn [app]. unfold wn at 2. cbn [fold_right]. lia.
  - cbn [app]. rewrite !wn_cons, IH. lia.
Qed.

Lemma edge_wn_reverse p a b : edge_wn p b a = (- edge_wn p a b)%Z.
Proof.
  destruct (Qeq_dec (py a) (py b)) as [E|N].
  - rewrite (edge_wn_zero p a b), (edge_wn_zero p b a); try reflexivity; intros (?&?&?); lra.
  - pose proof (x_at_sym a b (py p) N) as S.
    destruct (edge_wn_cases p a b) as [(H1&H2&H3&->)|[(H1&H2&H3&->)|(H1&H2&->)]].
    + rewrite (edge_wn_down p b a); try assumption; try reflexivity. lra.
    + rewrite (edge_wn_up p b a); try assumption; try reflexivity. lra.
    + rewrite (edge_wn_zero p b a); try reflexivity; intros (?&?&?).
      * apply H2. repeat split; try assumption. lra.
      * apply H1. repeat split; try assumption. lra.
Qed.

Theorem wn_reverse_neg : forall p edges,
  wn p (map (fun e => (snd e, fst e)) edges) = (- wn p edges)%Z.
Proof.
  intros p edges. induction edges as [|e r IH].
  - reflexivity.
  - cbn [map]. rewrite !wn_cons, IH. cbn [fst snd]. rewrite edge_wn_reverse. lia.
Qed.

Lemma edge_wn_translate p d a b :
  edge_wn (padd p d) (padd a d) (padd b d) = edge_wn p a b.
Proof.
  pose proof (x_at_translate a b d (py p)) as X.
  assert (Ep : py (padd p d) = py p + py d) by reflexivity.
  assert (Ea : py (padd a d) = py a + py d) by reflexivity.
  assert (Eb : py (padd b d) = py b + py d) by reflexivity.
  assert (Ex : px (padd p d) = px p + px d) by reflexivity.
  destruct (edge_wn_cases p a b) as [(H1&H2&H3&->)|[(H1&H2&H3&->)|(H1&H2&->)]].
  - apply edge_wn_up; rewrite ?Ep, ?Ea, ?Eb, ?Ex, ?X; lra.
  - apply edge_wn_down; rewrite ?Ep, ?Ea, ?Eb, ?Ex, ?X; lra.
  - apply edge_wn_zero; rewrite ?Ep, ?Ea, ?Eb, ?Ex, ?X; intros (?&?&?).
    + apply H1. repeat split; lra.
    + apply H2. repeat split; lra.
Qed.

Theorem wn_translate : forall p d edges,
  wn (padd p d) (map (fun e => (padd (fst e) d, padd (snd e) d)) edges) = wn p edges.
Proof.
  intros p d edges. induction edges as [|e r IH].
  - reflexivity.
  - cbn [map]. rewrite !wn_cons, IH. cbn [fst snd]. rewrite edge_wn_translate. reflexivity.
Qed.

(* ------------------------------------------------------------------ *)
(* test_segment against edge_wn *)

Lemma x_at_param a b y : ~ py a == py b ->
  let t := (y - py a) / (py b - py a) in
  t * (py b - py a) == y - py a /\
  x_at a b y == px a + t * (px b - px a) /\
  px (l_sample (mkLine a b) t) == x_at a b y /\
  py (l_sample (mkLine a b) t) == y.
Proof.
  intros N t. subst t.
  assert (D : ~ py b - py a == 0) by (intro; apply N; lra).
  unfold x_at, l_sample, plerp, l_from, l_to, px, py in *; cbn [fst snd] in *.
  repeat split; field; exact D.
Qed.

Lemma t_range d n t : t * d == n -> (0 < d /\ 0 <= n /\ n <= d) \/ (d < 0 /\ n <= 0 /\ d <= n) ->
  0 <= t /\ t <= 1.
Proof.
  intros E [(H1&H2&H3)|(H1&H2&H3)]; split.
  - destruct (Qlt_le_dec t 0) as [L|L]; [exfalso|exact L].
    assert (0 < (-t) * d) by (apply Qmult_lt_0_compat; lra). lra.
  - destruct (Qlt_le_dec 1 t) as [L|L]; [exfalso|exact L].
    assert (0 < (t - 1) * d) by (apply Qmult_lt_0_compat; lra). lra.
  - destruct (Qlt_le_dec t 0) as [L|L]; [exfalso|exact L].
    assert (0 < (-t) * (-d)) by (apply Qmult_lt_0_compat; lra). lra.
  - destruct (Qlt_le_dec 1 t) as [L|L]; [exfalso|exact L].
    assert (0 < (t - 1) * (-d)) by (apply Qmult_lt_0_compat; lra). lra.
Qed.

Lemma x_at_ge_min a b y :
  (py a <= y /\ y < py b) \/ (py b <= y /\ y < py a) -> Qmin (px a) (px b) <= x_at a b y.
Proof.
  intros H.
  assert (N : ~ py a == py b) by (intro; lra).
  destruct (x_at_param a b y N) as (E & X & _ & _).
  set (t := (y - py a) / (py b - py a)) in *. clearbody t.
  assert (R : 0 <= t /\ t <= 1) by (apply (t_range _ _ _ E); destruct H as [[? ?]|[? ?]]; [left|right]; repeat split; lra).
  rewrite X.
  destruct (Q.min_spec (px a) (px b)) as [[H1 ->]|[H1 ->]].
  - assert (0 <= t * (px b - px a)) by (apply Qmult_le_0_compat; lra). lra.
  - assert (0 <= (1 - t) * (px a - px b)) by (apply Qmult_le_0_compat; lra). lra.
Qed.

Lemma test_segment_spec p a b w :
  ~ on_edge p a b -> test_segment p a b w = (w + edge_wn p a b)%Z.
Proof.
  intro Hoff. unfold test_segment; cbv zeta.
  pose proof (x_at_ge_min a b (py p)) as Hmin.
  destruct (Q.min_spec (py a) (py b)) as [[Hm1 Em]|[Hm1 Em]];
  destruct (Q.max_spec (py a) (py b)) as [[HM1 EM]|[HM1 EM]]; try lra.
  - (* ascending *)
    destruct (Qltb_spec (py p) (Qmin (py a) (py b))); cbn [orb].
    { rewrite edge_wn_zero; [lia| intros (?&?&?); lra ..]. }
    destruct (Qle_bool_spec (Qmax (py a) (py b)) (py p)); cbn [orb].
    { rewrite edge_wn_zero; [lia| intros (?&?&?); lra ..]. }
    destruct (Qltb_spec (px p) (Qmin (px a) (px b))).
    { rewrite edge_wn_zero; [lia| intros (?&?&?); lra ..]. }
    destruct (Qeq_bool_spec (py a) (py b)); [lra|].
    destruct (x_at_param a b (py p) H2) as (E & X & Sx & Sy).
    set (t := (py p - py a) / (py b - py a)) in *. clearbody t.
    assert (R : 0 <= t /\ t <= 1) by (apply (t_range _ _ _ E); left; repeat split; lra).
    destruct (Qltb_spec (px p) (px (l_sample (mkLine a b) t))).
    { rewrite edge_wn_zero; [lia| intros (?&?&?); lra ..]. }
    destruct (Qltb_spec 0 (py b - py a)); [|lra].
    assert (Lt : x_at a b (py p) < px p).
    { destruct (Qlt_le_dec (px (l_sample (mkLine a b) t)) (px p)) as [Lt|Ge]; [lra|].
      exfalso. apply Hoff. exists t. repeat split; try lra. }
    rewrite edge_wn_up by lra. reflexivity.
  - (* descending or horizontal *)
    destruct (Qltb_spec (py p) (Qmin (py a) (py b))); cbn [orb].
    { rewrite edge_wn_zero; [lia| intros (?&?&?); lra ..]. }
    destruct (Qle_bool_spec (Qmax (py a) (py b)) (py p)); cbn [orb].
    { rewrite edge_wn_zero; [lia| intros (?&?&?); lra ..]. }
    destruct (Qltb_spec (px p) (Qmin (px a) (px b))).
    { rewrite edge_wn_zero; [lia| intros (?&?&?); lra ..]. }
    destruct (Qeq_bool_spec (py a) (py b)).
    { rewrite edge_wn_zero; [lia| intros (?&?&?); lra ..]. }
    destruct (x_at_param a b (py p) H2) as (E & X & Sx & Sy).
    set (t := (py p - py a) / (py b - py a)) in *. clearbody t.
    assert (R : 0 <= t /\ t <= 1) by (apply (t_range _ _ _ E); right; repeat split; lra).
    destruct (Qltb_spec (px p) (px (l_sample (mkLine a b) t))).
    { rewrite edge_wn_zero; [lia| intros (?&?&?); lra ..]. }
    destruct (Qltb_spec 0 (py b - py a)); [lra|].
    assert (Lt : x_at a b (py p) < px p).
    { destruct (Qlt_le_dec (px (l_sample (mkLine a b) t)) (px p)) as [Lt|Ge]; [lra|].
      exfalso. apply Hoff. exists t. repeat split; try lra. }
    rewrite edge_wn_down by lra. reflexivity.
Qed.

Lemma fold_test_segment p l : forall w,
  (forall e, In e l -> ~ on_edge p (fst e) (snd e)) ->
  fold_left (fun w e => test_segment p (fst e) (snd e) w) l w = (w + wn p l)%Z.
Proof.
  induction l as [|e r IH]; intros w H.
  - cbn [fold_left]. unfold wn; cbn [fold_right]. lia.
  - cbn [fold_left]. rewrite IH by (intros e' He'; apply H; right; exact He').
    rewrite test_segment_spec by (apply H; left; reflexivity).
    rewrite wn_cons. lia.
Qed.

Theorem hit_wn_spec : forall p path, off_outline p (path_edges path) ->
  path_winding p path = wn p (path_edges path).
Proof.
  intros p path H. unfold path_winding. rewrite fold_test_segment by exact H. lia.
Qed.

Theorem hit_test_is_in : forall p path r,
  hit_test p path r = is_in r (path_winding p path).
Proof. reflexivity. Qed.

Theorem is_in_spec : forall w,
  (is_in EvenOdd w = true <-> Z.odd w = true) /\ (is_in NonZero w = true <-> w <> 0%Z).
Proof.
  intro w. split.
  - unfold is_in. rewrite Zodd_rem. reflexivity.
  - unfold is_in. rewrite negb_true_iff, Z.eqb_neq. reflexivity.
Qed.

(* ------------------------------------------------------------------ *)
(* the unit triangle *)

Lemma x_at_hyp y : x_at (1, 0) (0, 1) y == 1 - y.
Proof. unfold x_at; cbn [px py fst snd]. field. Qed.

Lemma x_at_left y : x_at (0, 1) (0, 0) y == 0.
Proof. unfold x_at; cbn [px py fst snd]. field. Qed.

Lemma wn_triangle_unfold p :
  wn p (sub_edges ((0,0), [(1,0); (0,1)])) =
  Z.add (edge_wn p (0,0) (1,0)) (Z.add (edge_wn p (1,0) (0,1)) (Z.add (edge_wn p (0,1) (0,0)) 0%Z)).
Proof. reflexivity. Qed.

Ltac ew_side := cbn [px py fst snd]; try (intros (?&?&?)); lra.

Theorem wn_unit_triangle : forall x y, 0 < x -> 0 < y -> x + y < 1 ->
  wn (x, y) (sub_edges ((0,0), [(1,0); (0,1)])) = (-1)%Z.
Proof.
  intros x y Hx Hy Hxy. rewrite wn_triangle_unfold.
  pose proof (x_at_hyp y) as E1. pose proof (x_at_left y) as E2.
  rewrite (edge_wn_zero (x,y) (0,0) (1,0)) by ew_side.
  rewrite (edge_wn_zero (x,y) (1,0) (0,1)) by ew_side.
  rewrite (edge_wn_down (x,y) (0,1) (0,0)) by ew_side.
  reflexivity.
Qed.

Theorem wn_unit_triangle_outside : forall x y, (x < 0 \/ y < 0 \/ 1 < x + y) ->
  ~ on_edge (x, y) (0,0) (1,0) -> ~ on_edge (x, y) (1,0) (0,1) -> ~ on_edge (x, y) (0,1) (0,0) ->
  wn (x, y) (sub_edges ((0,0), [(1,0); (0,1)])) = 0%Z.
Proof.
  intros x y H _ _ _. rewrite wn_triangle_unfold.
  pose proof (x_at_hyp y) as E1. pose proof (x_at_left y) as E2.
  rewrite (edge_wn_zero (x,y) (0,0) (1,0)) by ew_side.
  destruct (Qlt_le_dec y 0) as [Y0|Y0]; [|destruct (Qlt_le_dec y 1) as [Y1|Y1]].
  - rewrite (edge_wn_zero (x,y) (1,0) (0,1)) by ew_side.
    rewrite (edge_wn_zero (x,y) (0,1) (0,0)) by ew_side. reflexivity.
  - destruct H as [H|[H|H]].
    + rewrite (edge_wn_zero (x,y) (1,0) (0,1)) by ew_side.
      rewrite (edge_wn_zero (x,y) (0,1) (0,0)) by ew_side. reflexivity.
    + exfalso; lra.
    + rewrite (edge_wn_up (x,y) (1,0) (0,1)) by ew_side.
      rewrite (edge_wn_down (x,y) (0,1) (0,0)) by ew_side. reflexivity.
  - rewrite (edge_wn_zero (x,y) (1,0) (0,1)) by ew_side.
    rewrite (edge_wn_zero (x,y) (0,1) (0,0)) by ew_side. reflexivity.
Qed.

(* ------------------------------------------------------------------ *)
(* signed area *)

Lemma shoelace2_cons e l :
  shoelace2 (e :: l) = (px (fst e) * py (snd e) - px (snd e) * py (fst e)) + shoelace2 l.
Proof. reflexivity. Qed.

Lemma fan_gen first : forall pts cur v0,
  px v0 == px cur - px first -> py v0 == py cur - py first ->
  fan_double_area first v0 pts ==
  shoelace2 (chain_edges cur pts first) - (px cur * py first - px first * py cur).
Proof.
  induction pts as [|p r IH]; intros cur v0 Hx Hy.
  - cbn [fan_double_area chain_edges]. rewrite shoelace2_cons. cbn [fst snd].
    unfold shoelace2; cbn [fold_right]. ring.
  - cbn [fan_double_area chain_edges]. cbv zeta. rewrite shoelace2_cons. cbn [fst snd].
    rewrite (IH p (psub p first)) by reflexivity.
    rewrite Hx, Hy. unfold psub, px, py; cbn [fst snd]. ring.
Qed.

Theorem area_fan_shoelace : forall s, sub_signed_area s * 2 == shoelace2 (sub_edges s).
Proof.
  intros [first pts]. unfold sub_signed_area, sub_edges. cbn [fst snd]. cbv zeta.
  rewrite (fan_gen first pts first (0,0)) by (unfold px, py; cbn [fst snd]; ring).
  ring.
Qed.

Fixpoint psum (cur : qpt) (l : list qpt) : Q :=
  match l with
  | [] => 0
  | p :: r => (px cur * py p - px p * py cur) + psum p r
  end.

Lemma shoelace_chain_psum : forall pts cur first,
  shoelace2 (chain_edges cur pts first) == psum cur (pts ++ [first]).
Proof.
  induction pts as [|p r IH]; intros cur first.
  - reflexivity.
  - cbn [chain_edges app psum]. rewrite shoelace2_cons, IH. cbn [fst snd]. reflexivity.
Qed.

Lemma psum_snoc2 : forall m b p a,
  psum b ((m ++ [p]) ++ [a]) == psum b (m ++ [p]) + (px p * py a - px a * py p).
Proof.
  induction m as [|q m IH]; intros b p a.
  - cbn [app psum]. ring.
  - cbn [app psum]. rewrite IH. ring.
Qed.

Lemma psum_rev : forall l a b, psum a (l ++ [b]) == - psum b (rev l ++ [a]).
Proof.
  induction l as [|p r IH]; intros a b.
  - cbn [rev app psum]. ring.
  - cbn [rev app psum]. rewrite psum_snoc2, IH. ring.
Qed.

Theorem area_reverse_neg : forall s, sub_signed_area (rev_sub s) == - sub_signed_area s.
Proof.
  intros [first pts].
  pose proof (area_fan_shoelace (first, pts)) as A.
  pose proof (area_fan_shoelace (rev_sub (first, pts))) as B.
  unfold rev_sub, sub_edges in *. cbn [fst snd] in *.
  rewrite shoelace_chain_psum in A, B.
  rewrite psum_rev in A. lra.
Qed.

Theorem winding_sign_area : forall s,
  (compute_winding s = Positive <-> 0 < sub_signed_area s).
Proof.
  intro s. unfold compute_winding.
  destruct (Qltb_spec 0 (sub_signed_area s * 2)); split; intro; try reflexivity; try discriminate; lra.
Qed.

Theorem rectangle_direction : forall minp maxp, px minp < px maxp -> py minp < py maxp ->
  0 < sub_signed_area (rect_points minp maxp Positive) /\
  sub_signed_area (rect_points minp maxp Negative) < 0.
Proof.
  intros [x0 y0] [x1 y1]. cbn [px py fst snd]. intros Hx Hy.
  pose proof (area_fan_shoelace (rect_points (x0,y0) (x1,y1) Positive)) as P.
  pose proof (area_fan_shoelace (rect_points (x0,y0) (x1,y1) Negative)) as N.
  set (AP := sub_signed_area _) in P |- *.
  set (AN := sub_signed_area _) in N |- *.
  cbv [rect_points sub_edges chain_edges shoelace2 fold_right fst snd px py] in P, N.
  assert (M : 0 < (x1 - x0) * (y1 - y0)) by (apply Qmult_lt_0_compat; lra).
  assert (P' : AP * 2 == 2 * ((x1 - x0) * (y1 - y0))) by (rewrite P; ring).
  assert (N' : AN * 2 == - (2 * ((x1 - x0) * (y1 - y0)))) by (rewrite N; ring).
  split; lra.
Qed.
