(* C02, part 4: areas of the triangles emitted by the monotone triangulation model.
     A1 basic_orientation   every emitted triangle has non-positive doubled signed area
     A2 basic_nat_conserved the un-normalised triangles add up to the polygon's shoelace sum
     A3 basic_nat_swapped   emitted = un-normalised up to the order of the first two vertices
     A4 basic_area_bound    emitted sum <= -|shoelace sum|
     A5 basic_area_exact    emitted sum = shoelace sum when no un-normalised triangle is flipped
     A6 flush_area          flush_side's triangles add up to the chain polygon's shoelace sum
   No monotonicity assumption anywhere. *)
From Coq Require Import QArith Lqa Morphisms.
From LV Require Import Base.Prelude Model.Bezier Model.Winding Model.Monotone Model.MonotoneArea.
From LV Require Import Proofs.C02_Flush.
Open Scope Q_scope.

(* ------------------------------------------------------------------ algebra *)
(* one shoelace term *)
Definition cross (p q : qpt) : Q := px p * py q - px q * py p.

(* x, or -x *)
Definition sg (b : bool) (x : Q) : Q := if b then x else - x.

Global Instance sg_proper : Proper (eq ==> Qeq ==> Qeq) sg.
Proof. intros b b' <- x y E. destruct b; unfold sg; rewrite E; reflexivity. Qed.

Lemma area2_cross a b c : area2 a b c == cross a b + cross b c + cross c a.
Proof. unfold area2, vcross, cross, psub, px, py; cbn [fst snd]; ring. Qed.

Lemma area2_swap a b c : area2 b a c == - area2 a b c.
Proof. rewrite !area2_cross. unfold cross. ring. Qed.

Lemma cross_self a : cross a a == 0.
Proof. unfold cross. ring. Qed.

Lemma cross_anti a b : cross a b == - cross b a.
Proof. unfold cross. ring. Qed.

(* open-chain shoelace sum of a list of points *)
Fixpoint path2 (l : list qpt) : Q :=
  match l with
  | a :: ((b :: _) as r) => cross a b + path2 r
  | _ => 0
  end.

Lemma path2_cons2 a b r : path2 (a :: b :: r) = cross a b + path2 (b :: r).
Proof. reflexivity. Qed.

Lemma last_cons {A} : forall (l : list A) (a d : A), last (a :: l) d = last l a.
Proof.
  induction l as [|b l IH]; intros a d; [reflexivity|].
  change (last (a :: b :: l) d) with (last (b :: l) d).
  rewrite (IH b d), (IH b a). reflexivity.
Qed.

Lemma last_mid {A} : forall (l1 l2 : list A) (a d : A), last (l1 ++ a :: l2) d = last l2 a.
Proof.
  induction l1 as [|x l1 IH]; intros l2 a d; cbn [app].
  - apply last_cons.
  - rewrite last_cons. apply IH.
Qed.

Lemma last_rev_hd {A} (l : list A) (d : A) : last (rev l) d = hd d l.
Proof. destruct l as [|a l]; [reflexivity|]. cbn [rev hd]. apply last_last. Qed.

Lemma hd_rev_last {A} (l : list A) (d : A) : hd d (rev l) = last l d.
Proof. rewrite <- (rev_involutive l) at 2. symmetry. apply last_rev_hd. Qed.

Lemma path2_snoc : forall l a, path2 (l ++ [a]) == path2 l + cross (last l a) a.
Proof.
  induction l as [|b l IH]; intros a.
  - cbn [app path2 last]. rewrite cross_self. ring.
  - destruct l as [|c l].
    + cbn [app path2 last]. ring.
    + change ((b :: c :: l) ++ [a]) with (b :: c :: (l ++ [a])).
      rewrite !path2_cons2.
      change (c :: l ++ [a]) with ((c :: l) ++ [a]).
      rewrite IH. change (last (b :: c :: l) a) with (last (c :: l) a). ring.
Qed.

Lemma path2_app : forall l1 a l2, path2 (l1 ++ a :: l2) == path2 (l1 ++ [a]) + path2 (a :: l2).
Proof.
  induction l1 as [|b l1 IH]; intros a l2.
  - cbn [app]. change (path2 [a]) with 0. ring.
  - destruct l1 as [|c l1].
    + cbn [app]. rewrite !path2_cons2. change (path2 [a]) with 0. ring.
    + change ((b :: c :: l1) ++ a :: l2) with (b :: c :: (l1 ++ a :: l2)).
      change ((b :: c :: l1) ++ [a]) with (b :: c :: (l1 ++ [a])).
      rewrite !path2_cons2.
      change (c :: l1 ++ a :: l2) with ((c :: l1) ++ a :: l2).
      change (c :: l1 ++ [a]) with ((c :: l1) ++ [a]).
      rewrite IH. ring.
Qed.

Lemma path2_rev : forall l, path2 (rev l) == - path2 l.
Proof.
  induction l as [|a l IH].
  - cbn [rev path2]. ring.
  - cbn [rev]. rewrite path2_snoc, IH, last_rev_hd.
    destruct l as [|b l].
    + cbn [hd path2]. rewrite cross_self. ring.
    + cbn [hd]. rewrite path2_cons2. rewrite (cross_anti b a). ring.
Qed.

(* closed polygon shoelace in terms of path2 *)
Lemma shoelace_chain : forall pts cur f,
  shoelace2 (chain_edges cur pts f) == path2 (cur :: pts) + cross (last pts cur) f.
Proof.
  induction pts as [|p r IH]; intros cur f.
  - cbn [chain_edges shoelace2 fold_right fst snd path2 last]. unfold cross. ring.
  - cbn [chain_edges]. unfold shoelace2 in *. cbn [fold_right fst snd].
    rewrite IH, path2_cons2, last_cons. unfold cross. ring.
Qed.

(* ------------------------------------------------------------- sums of areas *)
Lemma sum_area2_cons P x ts : sum_area2 P (x :: ts) = tri_area2 P x + sum_area2 P ts.
Proof. reflexivity. Qed.

Lemma sum_area2_app P : forall l1 l2,
  sum_area2 P (l1 ++ l2) == sum_area2 P l1 + sum_area2 P l2.
Proof.
  induction l1 as [|x l1 IH]; intros l2.
  - cbn [app]. change (sum_area2 P []) with 0. ring.
  - cbn [app]. rewrite !sum_area2_cons, IH. ring.
Qed.

(* ------------------------------------------------------------------ resolution *)
Definition res (P : Z -> qpt) (v : mv) : Prop := P (m_id v) = m_pos v.

Lemma pop_loop_cons cur lp top rest :
  pop_loop cur lp (top :: rest) =
    let a := if m_left cur then lp else top in
    let b := if m_left cur then top else lp in
    if Qle_bool 0 (vcross (psub (m_pos cur) (m_pos b)) (psub (m_pos a) (m_pos b))) then
      let '(ts, lp', st') := pop_loop cur top rest in
      ((m_id b, m_id a, m_id cur) :: ts, lp', st')
    else ([], lp, top :: rest).
Proof. cbn [pop_loop]. destruct (m_left cur); reflexivity. Qed.

Lemma pop_loop_split cur : forall st lp ts lp' st',
  pop_loop cur lp st = (ts, lp', st') -> exists pre, lp :: st = pre ++ lp' :: st'.
Proof.
  induction st as [|top rest IH]; intros lp ts lp' st' H.
  - cbn [pop_loop] in H. inversion H; subst. exists []. reflexivity.
  - rewrite pop_loop_cons in H. cbv zeta in H.
    destruct (Qle_bool _ _).
    + destruct (pop_loop cur top rest) as [[ts0 lp0] st0] eqn:E.
      inversion H; subst. destruct (IH _ _ _ _ E) as [pre Hpre].
      exists (lp :: pre). cbn [app]. rewrite Hpre. reflexivity.
    + inversion H; subst. exists []. reflexivity.
Qed.

Lemma Qle_bool_false x y : Qle_bool x y = false -> y < x.
Proof.
  intros H. apply Qnot_le_lt. intros Hle. apply Qle_bool_iff in Hle. congruence.
Qed.

(* pop loop: orientation of the emitted triangles and their (telescoping) sum *)
Lemma pop_loop_sum P cur : res P cur -> forall st lp ts lp' st',
  res P lp -> Forall (res P) st ->
  pop_loop cur lp st = (ts, lp', st') ->
  Forall (fun x => tri_area2 P x <= 0) ts /\
  sum_area2 P ts ==
    sg (m_left cur) (path2 (map m_pos (lp' :: st')) - path2 (map m_pos (lp :: st))
                     + cross (m_pos lp) (m_pos cur) - cross (m_pos lp') (m_pos cur)).
Proof.
  intros Hc. induction st as [|top rest IH]; intros lp ts lp' st' Hlp Hst H.
  - cbn [pop_loop] in H. inversion H; subst. split; [constructor|].
    change (sum_area2 P []) with 0. destruct (m_left cur); unfold sg; ring.
  - rewrite pop_loop_cons in H. cbv zeta in H.
    inversion Hst as [|? ? Htop Hrest]; subst.
    destruct (Qle_bool _ _) eqn:Ecr.
    + destruct (pop_loop cur top rest) as [[ts0 lp0] st0] eqn:E.
      inversion H; subst. destruct (IH _ _ _ _ Htop Hrest E) as [IHo IHs].
      apply Qle_bool_iff in Ecr.
      unfold res in Hc, Hlp, Htop.
      split.
      * constructor; [|exact IHo].
        cbn [tri_area2]. rewrite Hc.
        destruct (m_left cur); rewrite Hlp, Htop;
          unfold area2; unfold vcross, psub, px, py in *; cbn [fst snd] in *; lra.
      * rewrite sum_area2_cons, IHs. cbn [tri_area2]. rewrite Hc.
        cbn [map]. rewrite (path2_cons2 (m_pos lp) (m_pos top)).
        destruct (m_left cur); rewrite Hlp, Htop, area2_cross; unfold sg, cross; ring.
    + inversion H; subst. split; [constructor|].
      change (sum_area2 P []) with 0. destruct (m_left cur); unfold sg; ring.
Qed.

(* ----------------------------------------------------------------- the fans *)
Lemma fan_orientation P cur : res P cur -> forall s, Forall (res P) s ->
  Forall (fun x => tri_area2 P x <= 0) (side_change_tris cur s).
Proof.
  intros Hc. induction s as [|a s IH]; intros Hs; [constructor|].
  destruct s as [|b r]; [constructor|].
  inversion Hs as [|? ? Ha Hs']; subst. inversion Hs' as [|? ? Hb _]; subst.
  cbn [side_change_tris]. constructor; [|apply IH; exact Hs'].
  unfold res in Hc, Ha, Hb.
  destruct (Qle_bool _ _) eqn:E.
  - apply Qle_bool_iff in E. cbn [tri_area2]. rewrite Hc, Ha, Hb.
    unfold area2; unfold vcross, psub, px, py in *; cbn [fst snd] in *; lra.
  - apply Qle_bool_false in E. cbn [tri_area2]. rewrite Hc, Ha, Hb.
    unfold area2; unfold vcross, psub, px, py in *; cbn [fst snd] in *; lra.
Qed.

Lemma fan_sum P cur : res P cur -> forall s, Forall (res P) s ->
  sum_area2 P (side_change_tris_nat cur s) ==
    sg (negb (m_left cur))
       (path2 (map m_pos s) + cross (last (map m_pos s) (m_pos cur)) (m_pos cur)
        + cross (m_pos cur) (hd (m_pos cur) (map m_pos s))).
Proof.
  intros Hc. induction s as [|a s IH]; intros Hs.
  - cbn [side_change_tris_nat map path2 last hd]. change (sum_area2 P []) with 0.
    rewrite cross_self. destruct (m_left cur); unfold sg; cbn [negb]; ring.
  - destruct s as [|b r].
    + cbn [side_change_tris_nat map path2 last hd]. change (sum_area2 P []) with 0.
      rewrite (cross_anti (m_pos cur) (m_pos a)).
      destruct (m_left cur); unfold sg; cbn [negb]; ring.
    + inversion Hs as [|? ? Ha Hs']; subst. inversion Hs' as [|? ? Hb _]; subst.
      cbn [side_change_tris_nat]. rewrite sum_area2_cons, (IH Hs').
      cbn [map hd]. rewrite path2_cons2.
      change (last (m_pos a :: m_pos b :: map m_pos r) (m_pos cur))
        with (last (m_pos b :: map m_pos r) (m_pos cur)).
      unfold res in Hc, Ha, Hb.
      destruct (m_left cur); cbn [tri_area2 negb]; rewrite Hc, Ha, Hb, area2_cross;
        unfold sg, cross; ring.
Qed.

Lemma fan_swapped cur : forall s,
  Forall2 tri_same_or_swapped (side_change_tris_nat cur s) (side_change_tris cur s).
Proof.
  induction s as [|a s IH]; [constructor|].
  destruct s as [|b r]; [constructor|].
  cbn [side_change_tris_nat side_change_tris]. constructor; [|exact IH].
  destruct (m_left cur), (Qle_bool _ _); cbn; auto.
Qed.

(* ------------------------------------------------------------------------ A3 *)
Definition nstep (t : basic) (v : qpt * Z * bool) : basic :=
  monotone_vertex_nat t (mkMV (fst (fst v)) (snd (fst v)) (snd v)).
Definition rstep (t : basic) (v : qpt * Z * bool) : basic :=
  basic_vertex t (fst (fst v)) (snd (fst v)) (snd v).

(* nat state / emitted state *)
Definition sim (n t : basic) : Prop :=
  b_stack n = b_stack t /\ b_prev n = b_prev t /\ Forall2 tri_same_or_swapped (b_tris n) (b_tris t).

Lemma tri_same_refl x : tri_same_or_swapped x x.
Proof. destruct x as [[a b] c]. left. reflexivity. Qed.

Lemma Forall2_same_refl : forall l, Forall2 tri_same_or_swapped l l.
Proof. induction l; constructor; auto using tri_same_refl. Qed.

Lemma vertex_sim n t cur : sim n t -> sim (monotone_vertex_nat n cur) (monotone_vertex t cur).
Proof.
  intros (Hs & Hp & Ht). unfold monotone_vertex_nat, monotone_vertex. rewrite Hs, Hp.
  destruct (negb _).
  - repeat split; cbn [b_stack b_prev b_tris].
    apply Forall2_app; [exact Ht|apply fan_swapped].
  - destruct (b_stack t) as [|top rest].
    + repeat split; cbn [b_stack b_prev b_tris]. exact Ht.
    + destruct (pop_loop cur top rest) as [[ts lp] st].
      repeat split; cbn [b_stack b_prev b_tris].
      apply Forall2_app; [exact Ht|apply Forall2_same_refl].
Qed.

Lemma fold_sim : forall vs n t, sim n t -> sim (fold_left nstep vs n) (fold_left rstep vs t).
Proof.
  induction vs as [|v vs IH]; intros n t H; cbn [fold_left]; [exact H|].
  apply IH. apply vertex_sim. exact H.
Qed.

Lemma basic_run_nat_eq first vs last :
  basic_run_nat first vs last =
  let t := fold_left nstep vs (basic_begin (fst first) (snd first)) in
  b_tris (monotone_vertex_nat t (mkMV (fst last) (snd last) (negb (m_left (b_prev t))))).
Proof. reflexivity. Qed.

Lemma basic_run_eq first vs last :
  basic_run first vs last =
  let t := fold_left rstep vs (basic_begin (fst first) (snd first)) in
  b_tris (monotone_vertex t (mkMV (fst last) (snd last) (negb (m_left (b_prev t))))).
Proof. reflexivity. Qed.

Lemma basic_nat_swapped : forall first vs last,
  Forall2 tri_same_or_swapped (basic_run_nat first vs last) (basic_run first vs last).
Proof.
  intros first vs last. rewrite basic_run_nat_eq, basic_run_eq. cbv zeta.
  set (t0 := basic_begin (fst first) (snd first)).
  assert (H0 : sim t0 t0) by (repeat split; apply Forall2_same_refl).
  pose proof (fold_sim vs t0 t0 H0) as Hf.
  destruct Hf as (Hs & Hp & Ht).
  rewrite Hp.
  apply (vertex_sim _ _ (mkMV (fst last) (snd last) (negb (m_left (b_prev (fold_left rstep vs t0)))))).
  repeat split; assumption.
Qed.

(* ------------------------------------------------------------------------ A1 *)
Definition okO (P : Z -> qpt) (t : basic) : Prop :=
  Forall (res P) (b_stack t) /\ res P (b_prev t) /\ Forall (fun x => tri_area2 P x <= 0) (b_tris t).

Lemma vertex_orientation P t cur : res P cur -> okO P t -> okO P (monotone_vertex t cur).
Proof.
  intros Hc (Hs & Hp & Ht). unfold monotone_vertex.
  destruct (negb _).
  - repeat split; cbn [b_stack b_prev b_tris]; auto.
    apply Forall_app; split; [exact Ht|].
    apply fan_orientation; [exact Hc|]. apply Forall_rev. exact Hs.
  - destruct (b_stack t) as [|top rest].
    + repeat split; cbn [b_stack b_prev b_tris]; auto.
    + inversion Hs as [|? ? Htop Hrest]; subst.
      destruct (pop_loop cur top rest) as [[ts lp] st] eqn:E.
      destruct (pop_loop_sum P cur Hc _ _ _ _ _ Htop Hrest E) as [Ho _].
      destruct (pop_loop_split _ _ _ _ _ _ E) as [pre Hpre].
      assert (Hall : Forall (res P) (pre ++ lp :: st)) by (rewrite <- Hpre; exact Hs).
      apply Forall_app in Hall. destruct Hall as [_ Hall].
      repeat split; cbn [b_stack b_prev b_tris]; auto.
      apply Forall_app; split; assumption.
Qed.

Lemma fold_orientation P : forall vs t,
  (forall v, In v vs -> P (snd (fst v)) = fst (fst v)) ->
  okO P t -> okO P (fold_left rstep vs t).
Proof.
  induction vs as [|v vs IH]; intros t Hvs Ht; cbn [fold_left]; [exact Ht|].
  apply IH.
  - intros w Hw. apply Hvs. right. exact Hw.
  - apply vertex_orientation; [|exact Ht]. unfold res. cbn [m_id m_pos]. apply Hvs. left. reflexivity.
Qed.

Lemma basic_orientation : forall P first vs last, resolves P first vs last ->
  Forall (fun t => tri_area2 P t <= 0) (basic_run first vs last).
Proof.
  intros P first vs last (Hf & Hl & Hvs). rewrite basic_run_eq. cbv zeta.
  set (t0 := basic_begin (fst first) (snd first)).
  assert (H0 : okO P t0).
  { unfold okO, t0, basic_begin. cbn [b_stack b_prev b_tris].
    repeat split; [constructor; [exact Hf|constructor]|exact Hf|constructor]. }
  pose proof (fold_orientation P vs t0 Hvs H0) as Ho.
  apply vertex_orientation; [exact Hl|exact Ho].
Qed.

(* ------------------------------------------------------------------------ A2 *)
(* [la]/[ra]: last point of the left/right chain so far; [ls]/[rs]: open shoelace sums of the
   two chains.  The stack (top first) joins the end of the current chain to the end of the
   opposite one. *)
Definition Inv (P : Z -> qpt) (t : basic) (la : qpt) (ls : Q) (ra : qpt) (rs : Q) : Prop :=
  exists rest,
    b_stack t = b_prev t :: rest /\
    Forall (res P) (b_stack t) /\
    m_pos (b_prev t) = (if m_left (b_prev t) then la else ra) /\
    last (map m_pos rest) (m_pos (b_prev t)) = (if m_left (b_prev t) then ra else la) /\
    sum_area2 P (b_tris t) == ls - rs + sg (m_left (b_prev t)) (path2 (map m_pos (b_stack t))).

Lemma Inv_ext P t la ls ra rs ls' rs' :
  ls == ls' -> rs == rs' -> Inv P t la ls ra rs -> Inv P t la ls' ra rs'.
Proof.
  intros El Er (rest & H1 & H2 & H3 & H4 & H5). exists rest.
  split; [exact H1|]. split; [exact H2|]. split; [exact H3|]. split; [exact H4|].
  rewrite H5, El, Er. reflexivity.
Qed.

Lemma side_change_total P t cur la ls ra rs :
  res P cur -> Inv P t la ls ra rs -> m_left cur = negb (m_left (b_prev t)) ->
  sum_area2 P (b_tris t ++ side_change_tris_nat cur (rev (b_stack t))) ==
    (if m_left cur then ls + cross la (m_pos cur) else ls)
    - (if m_left cur then rs else rs + cross ra (m_pos cur))
    + sg (m_left cur) (cross (m_pos cur) (m_pos (b_prev t))).
Proof.
  intros Hc (rest & Hst & Hres & Hprev & Hbot & Hsum) Hside.
  rewrite sum_area2_app, Hsum, (fan_sum P cur Hc) by (apply Forall_rev; exact Hres).
  rewrite map_rev, path2_rev, last_rev_hd, hd_rev_last.
  rewrite Hst. cbn [map hd]. rewrite last_cons, Hbot. rewrite Hside.
  set (X := path2 _).
  destruct (m_left (b_prev t)); cbn [negb]; rewrite Hprev; unfold sg, cross; ring.
Qed.

Lemma step_inv P t cur la ls ra rs :
  res P cur -> Inv P t la ls ra rs ->
  Inv P (monotone_vertex_nat t cur)
      (if m_left cur then m_pos cur else la) (if m_left cur then ls + cross la (m_pos cur) else ls)
      (if m_left cur then ra else m_pos cur) (if m_left cur then rs else rs + cross ra (m_pos cur)).
Proof.
  intros Hc HI.
  destruct (Bool.eqb (m_left cur) (m_left (b_prev t))) eqn:Eside.
  - (* same side *)
    apply Bool.eqb_prop in Eside.
    destruct HI as (rest & Hst & Hres & Hprev & Hbot & Hsum).
    unfold monotone_vertex_nat. rewrite Eside, Bool.eqb_reflx. cbn [negb].
    rewrite Hst.
    destruct (pop_loop cur (b_prev t) rest) as [[ts lp] st] eqn:E.
    rewrite Hst in Hres. inversion Hres as [|? ? Hp Hrest]; subst.
    destruct (pop_loop_sum P cur Hc _ _ _ _ _ Hp Hrest E) as [_ Hs].
    destruct (pop_loop_split _ _ _ _ _ _ E) as [pre Hpre].
    assert (Hall : Forall (res P) (pre ++ lp :: st)) by (rewrite <- Hpre; exact Hres).
    apply Forall_app in Hall. destruct Hall as [_ Hall].
    assert (Hb : last (map m_pos st) (m_pos lp) = last (map m_pos rest) (m_pos (b_prev t))).
    { apply (f_equal (map m_pos)) in Hpre. rewrite map_app in Hpre. cbn [map] in Hpre.
      apply (f_equal (fun l => last l (0, 0))) in Hpre.
      rewrite last_cons, last_mid in Hpre. symmetry. exact Hpre. }
    exists (lp :: st). cbn [b_stack b_prev b_tris].
    split; [reflexivity|]. split; [|split; [|split]].
    + constructor; [exact Hc|exact Hall].
    + rewrite <- Eside. destruct (m_left cur); reflexivity.
    + cbn [map]. rewrite last_cons, Hb, Hbot, <- Eside. destruct (m_left cur); reflexivity.
    + rewrite sum_area2_app, Hsum, Hs, Hst. rewrite <- Eside.
      cbn [map]. rewrite (path2_cons2 (m_pos cur) (m_pos lp)).
      set (X := path2 (m_pos lp :: _)). set (Y := path2 (m_pos (b_prev t) :: _)).
      rewrite <- Eside in Hprev.
      destruct (m_left cur); rewrite Hprev; unfold sg, cross; ring.
  - (* side change *)
    assert (Hside : m_left cur = negb (m_left (b_prev t)))
      by (revert Eside; destruct (m_left cur), (m_left (b_prev t)); cbn; congruence).
    pose proof (side_change_total P t cur la ls ra rs Hc HI Hside) as Htot.
    destruct HI as (rest & Hst & Hres & Hprev & Hbot & Hsum).
    unfold monotone_vertex_nat. rewrite Eside. cbn [negb].
    exists [b_prev t]. cbn [b_stack b_prev b_tris].
    assert (Hp : res P (b_prev t)) by (rewrite Hst in Hres; inversion Hres; assumption).
    split; [reflexivity|]. split; [|split; [|split]].
    + constructor; [exact Hc|constructor; [exact Hp|constructor]].
    + destruct (m_left cur); reflexivity.
    + cbn [map last]. rewrite Hprev, Hside. destruct (m_left (b_prev t)); reflexivity.
    + rewrite Htot. cbn [map path2]. destruct (m_left cur); unfold sg; ring.
Qed.

Lemma lefts_cons v vs :
  lefts (v :: vs) = if snd v then fst (fst v) :: lefts vs else lefts vs.
Proof. unfold lefts. cbn [filter]. destruct (snd v); reflexivity. Qed.

Lemma rights_cons v vs :
  rights (v :: vs) = if snd v then rights vs else fst (fst v) :: rights vs.
Proof. unfold rights. cbn [filter]. destruct (snd v); reflexivity. Qed.

Lemma fold_inv P : forall vs t la ls ra rs,
  (forall v, In v vs -> P (snd (fst v)) = fst (fst v)) ->
  Inv P t la ls ra rs ->
  Inv P (fold_left nstep vs t)
      (last (lefts vs) la) (ls + path2 (la :: lefts vs))
      (last (rights vs) ra) (rs + path2 (ra :: rights vs)).
Proof.
  induction vs as [|v vs IH]; intros t la ls ra rs Hvs HI.
  - cbn [fold_left]. change (lefts []) with (@nil qpt). change (rights []) with (@nil qpt).
    cbn [last path2]. apply (Inv_ext P t la ls ra rs); [ring|ring|exact HI].
  - cbn [fold_left].
    set (cur := mkMV (fst (fst v)) (snd (fst v)) (snd v)).
    assert (Hc : res P cur) by (unfold res, cur; cbn [m_id m_pos]; apply Hvs; left; reflexivity).
    pose proof (step_inv P t cur la ls ra rs Hc HI) as Hstep.
    assert (Hvs' : forall w, In w vs -> P (snd (fst w)) = fst (fst w))
      by (intros w Hw; apply Hvs; right; exact Hw).
    specialize (IH (nstep t v) _ _ _ _ Hvs' Hstep).
    rewrite lefts_cons, rights_cons.
    unfold cur in IH. cbn [m_left m_pos] in IH.
    destruct (snd v).
    + rewrite last_cons, path2_cons2.
      eapply Inv_ext; [| |exact IH]; ring.
    + rewrite last_cons, path2_cons2.
      eapply Inv_ext; [| |exact IH]; ring.
Qed.

Lemma polygon_area2_eq first vs last :
  polygon_area2 first vs last ==
    path2 (fst first :: lefts vs) + cross (List.last (lefts vs) (fst first)) (fst last)
    - path2 (fst first :: rights vs) - cross (List.last (rights vs) (fst first)) (fst last).
Proof.
  unfold polygon_area2, polygon_of, sub_edges. cbn [fst snd].
  set (f := fst first). set (e := fst last). set (L := lefts vs). set (R := rights vs).
  rewrite shoelace_chain.
  change (f :: L ++ [e] ++ rev R) with ((f :: L) ++ e :: rev R).
  rewrite path2_app, path2_snoc, last_cons.
  change ([e] ++ rev R) with (e :: rev R). rewrite last_mid.
  assert (H : path2 (e :: rev R) + cross (List.last (rev R) e) f == - (path2 (f :: R) + cross (List.last R f) e)).
  { rewrite <- (last_cons (rev R) e f), <- path2_snoc.
    assert (Hr : (e :: rev R) ++ [f] = rev ((f :: R) ++ [e])).
    { rewrite rev_app_distr. cbn [rev app]. reflexivity. }
    rewrite Hr, path2_rev, path2_snoc, last_cons. reflexivity. }
  rewrite <- Qplus_assoc, H. ring.
Qed.

Lemma basic_nat_conserved : forall P first vs last, resolves P first vs last ->
  sum_area2 P (basic_run_nat first vs last) == polygon_area2 first vs last.
Proof.
  intros P first vs last (Hf & Hl & Hvs). rewrite basic_run_nat_eq, polygon_area2_eq. cbv zeta.
  set (t0 := basic_begin (fst first) (snd first)).
  assert (H0 : Inv P t0 (fst first) 0 (fst first) 0).
  { exists []. unfold t0, basic_begin. cbn [b_stack b_prev b_tris m_left m_pos map List.last path2].
    split; [reflexivity|]. split; [constructor; [exact Hf|constructor]|].
    split; [reflexivity|]. split; [reflexivity|].
    change (sum_area2 P []) with 0. unfold sg. ring. }
  pose proof (fold_inv P vs t0 _ _ _ _ Hvs H0) as HI.
  set (t := fold_left nstep vs t0) in *.
  set (cur := mkMV (fst last) (snd last) (negb (m_left (b_prev t)))).
  assert (Hc : res P cur) by exact Hl.
  assert (Hside : m_left cur = negb (m_left (b_prev t))) by reflexivity.
  pose proof (side_change_total P t cur _ _ _ _ Hc HI Hside) as Htot.
  assert (Ht : b_tris (monotone_vertex_nat t cur)
               = b_tris t ++ side_change_tris_nat cur (rev (b_stack t))).
  { unfold monotone_vertex_nat. rewrite Hside.
    destruct (m_left (b_prev t)); cbn [negb Bool.eqb b_tris]; reflexivity. }
  rewrite Ht, Htot.
  destruct HI as (rest & _ & _ & Hprev & _ & _).
  cbn [m_left m_pos cur].
  destruct (m_left (b_prev t)); cbn [negb]; rewrite Hprev; unfold sg, cross; ring.
Qed.

(* -------------------------------------------------------------------- A4, A5 *)
Lemma swapped_area P x y :
  tri_same_or_swapped x y -> tri_area2 P y == tri_area2 P x \/ tri_area2 P y == - tri_area2 P x.
Proof.
  destruct x as [[a b] c]. intros [H|H]; subst y; cbn [tri_area2].
  - left. reflexivity.
  - right. apply area2_swap.
Qed.

Lemma swapped_sums P : forall ns es,
  Forall2 tri_same_or_swapped ns es ->
  Forall (fun t => tri_area2 P t <= 0) es ->
  sum_area2 P es <= sum_area2 P ns /\ sum_area2 P es <= - sum_area2 P ns /\
  (Forall (fun t => tri_area2 P t <= 0) ns -> sum_area2 P es == sum_area2 P ns).
Proof.
  induction 1 as [|x y ns es Hxy Hrest IH]; intros Ho.
  - change (sum_area2 P []) with 0. split; [lra|]. split; [lra|]. intros _. reflexivity.
  - inversion Ho as [|? ? Hy Ho']; subst.
    destruct (IH Ho') as (I1 & I2 & I3).
    rewrite !sum_area2_cons.
    destruct (swapped_area P x y Hxy) as [E|E].
    + split; [lra|]. split; [lra|].
      intros Hn. inversion Hn as [|? ? Hx Hn']; subst. specialize (I3 Hn'). lra.
    + split; [lra|]. split; [lra|].
      intros Hn. inversion Hn as [|? ? Hx Hn']; subst. specialize (I3 Hn'). lra.
Qed.

Lemma basic_area_bound : forall P first vs last, resolves P first vs last ->
  sum_area2 P (basic_run first vs last) <= polygon_area2 first vs last /\
  sum_area2 P (basic_run first vs last) <= - polygon_area2 first vs last.
Proof.
  intros P first vs last Hr.
  destruct (swapped_sums P _ _ (basic_nat_swapped first vs last) (basic_orientation P first vs last Hr))
    as (H1 & H2 & _).
  pose proof (basic_nat_conserved P first vs last Hr) as Hc.
  split; lra.
Qed.

Lemma basic_area_exact : forall P first vs last, resolves P first vs last ->
  Forall (fun t => tri_area2 P t <= 0) (basic_run_nat first vs last) ->
  sum_area2 P (basic_run first vs last) == polygon_area2 first vs last.
Proof.
  intros P first vs last Hr Hn.
  destruct (swapped_sums P _ _ (basic_nat_swapped first vs last) (basic_orientation P first vs last Hr))
    as (_ & _ & H3).
  rewrite (H3 Hn). apply basic_nat_conserved. exact Hr.
Qed.

(* ------------------------------------------------------------------------ A6 *)
Definition ptn (pts : list qpt) (i : nat) : qpt := nth i pts (0, 0).

Definition tsum (pts : list qpt) (l : list (nat * nat * nat)) : Q :=
  fold_right (fun x acc => let '(a, b, c) := x in
     area2 (ptn pts a) (ptn pts b) (ptn pts c) + acc) 0 l.

Lemma flush_area2_tsum right pts :
  flush_area2 right pts = tsum pts (flush_levels right (length pts) 1 (length pts)).
Proof. reflexivity. Qed.

Lemma tsum_cons pts a b c l :
  tsum pts ((a, b, c) :: l) = area2 (ptn pts a) (ptn pts b) (ptn pts c) + tsum pts l.
Proof. reflexivity. Qed.

Lemma tsum_app pts : forall l1 l2, tsum pts (l1 ++ l2) == tsum pts l1 + tsum pts l2.
Proof.
  induction l1 as [|[[a b] c] l1 IH]; intros l2.
  - cbn [app]. change (tsum pts []) with 0. ring.
  - cbn [app]. rewrite !tsum_cons, IH. ring.
Qed.

(* open shoelace sum over the points with indices i*s, (i+1)*s, ..., (i+k)*s *)
Fixpoint osum (pts : list qpt) (s k i : nat) : Q :=
  match k with
  | O => 0
  | S k' => cross (ptn pts (i * s)) (ptn pts (i * s + s)) + osum pts s k' (S i)
  end.

(* closed polygon over the indices 0, s, ..., n*s *)
Definition closed (pts : list qpt) (s n : nat) : Q :=
  osum pts s n 0 + cross (ptn pts (n * s)) (ptn pts 0).

Lemma osum_snoc pts s : forall k i,
  osum pts s (S k) i == osum pts s k i + cross (ptn pts ((i + k) * s)) (ptn pts ((i + k) * s + s)).
Proof.
  induction k as [|k IH]; intros i.
  - cbn [osum]. replace (i + 0)%nat with i by lia. ring.
  - change (osum pts s (S (S k)) i)
      with (cross (ptn pts (i * s)) (ptn pts (i * s + s)) + osum pts s (S k) (S i)).
    rewrite IH. cbn [osum]. replace (S i + k)%nat with (i + S k)%nat by lia. ring.
Qed.

Lemma area2_swap23 a b c : area2 a c b == - area2 a b c.
Proof. rewrite !area2_cross. unfold cross. ring. Qed.

Lemma tsum_cons_sg pts (right : bool) a b c l :
  tsum pts ((if right then (b, a, c) else (a, b, c)) :: l)
  == sg (negb right) (area2 (ptn pts a) (ptn pts b) (ptn pts c)) + tsum pts l.
Proof.
  destruct right; rewrite tsum_cons; cbn [negb]; unfold sg; [rewrite area2_swap|]; reflexivity.
Qed.

Lemma inner_sum pts right s : forall k i,
  tsum pts (inner_tris right s k i) + sg (negb right) (osum pts (s * 2) k i)
  == sg (negb right) (osum pts s (2 * k) (2 * i)).
Proof.
  induction k as [|k IH]; intros i.
  - change (2 * 0)%nat with 0%nat. cbn [inner_tris osum]. change (tsum pts []) with 0.
    destruct right; unfold sg; cbn [negb]; ring.
  - replace (2 * S k)%nat with (S (S (2 * k))) by lia.
    cbn [inner_tris osum]. rewrite tsum_cons_sg. specialize (IH (S i)).
    replace (2 * S i)%nat with (S (S (2 * i))) in IH by lia.
    set (A := ptn pts (2 * i * s)).
    set (B := ptn pts (2 * i * s + s)).
    set (C := ptn pts (S (2 * i) * s + s)).
    replace (ptn pts (i * 2 * s)) with A by (unfold A; f_equal; lia).
    replace (ptn pts (i * 2 * s + s)) with B by (unfold B; f_equal; lia).
    replace (ptn pts (i * 2 * s + s + s)) with C by (unfold C; f_equal; lia).
    replace (ptn pts (i * (s * 2))) with A by (unfold A; f_equal; lia).
    replace (ptn pts (i * (s * 2) + s * 2)) with C by (unfold C; f_equal; lia).
    replace (ptn pts (S (2 * i) * s)) with B by (unfold B; f_equal; lia).
    set (X := osum pts (s * 2) k (S i)) in *.
    set (Y := osum pts s (2 * k) (S (S (2 * i)))) in *.
    set (T := tsum pts (inner_tris right s k (S i))) in *.
    destruct right; cbn [negb] in *; unfold sg in *; rewrite area2_cross.
    + assert (IH' : T == - Y + X) by lra. rewrite IH'. unfold cross. ring.
    + assert (IH' : T == Y - X) by lra. rewrite IH'. unfold cross. ring.
Qed.

Lemma flush_levels_sum pts right : forall fuel step,
  (1 <= step)%nat -> (length pts <= step + fuel)%nat ->
  tsum pts (flush_levels right (length pts) step fuel)
  == sg (negb right) (closed pts step ((length pts - 1) / step)).
Proof.
  set (len := length pts).
  induction fuel as [|f IH]; intros step Hs Hf.
  - cbn [flush_levels]. change (tsum pts []) with 0.
    rewrite Nat.div_small by lia. unfold closed. cbn [osum Nat.mul].
    rewrite cross_self. destruct right; unfold sg; cbn [negb]; ring.
  - cbn [flush_levels]. destruct (Nat.ltb_spec (step * 2) len) as [H2|H2].
    + destruct (level_arith len step Hs H2) as (Hq1 & Hq2 & Hq3 & Hq4).
      cbv zeta in Hq1, Hq2, Hq3, Hq4.
      rewrite last_index_eq.
      set (q := ((len - 1) / (2 * step))%nat) in *.
      rewrite !tsum_app, IH by lia. rewrite Hq3.
      pose proof (inner_sum pts right step q 0) as Hin.
      change (2 * 0)%nat with 0%nat in Hin.
      set (n := ((len - 1) / step)%nat) in *.
      unfold closed.
      set (P0 := ptn pts 0).
      set (B := ptn pts (q * 2 * step)).
      replace (ptn pts (q * (step * 2))) with B by (unfold B; f_equal; lia).
      set (X := osum pts (step * 2) q 0) in *.
      set (T := tsum pts (inner_tris right step q 0)) in *.
      destruct (q * 2 * step + step <? len)%nat.
      * assert (Hn : n = S (2 * q)) by lia. rewrite Hn.
        rewrite osum_snoc.
        set (Y := osum pts step (2 * q) 0) in *.
        set (C := ptn pts (q * 2 * step + step)).
        replace (ptn pts ((0 + 2 * q) * step)) with B by (unfold B; f_equal; lia).
        replace (ptn pts ((0 + 2 * q) * step + step)) with C by (unfold C; f_equal; lia).
        replace (ptn pts (S (2 * q) * step)) with C by (unfold C; f_equal; lia).
        destruct right; cbn [negb] in *; unfold sg in *; rewrite tsum_cons;
          change (tsum pts []) with 0; fold P0; fold B; fold C.
        -- rewrite area2_swap23, area2_cross.
           assert (Hin' : T == - Y + X) by lra. rewrite Hin'. unfold cross. ring.
        -- rewrite area2_cross.
           assert (Hin' : T == Y - X) by lra. rewrite Hin'. unfold cross. ring.
      * assert (Hn : n = (2 * q)%nat) by lia. rewrite Hn.
        set (Y := osum pts step (2 * q) 0) in *.
        replace (ptn pts (2 * q * step)) with B by (unfold B; f_equal; lia).
        change (tsum pts []) with 0.
        destruct right; cbn [negb] in *; unfold sg in *.
        -- assert (Hin' : T == - Y + X) by lra. rewrite Hin'. ring.
        -- assert (Hin' : T == Y - X) by lra. rewrite Hin'. ring.
    + change (tsum pts []) with 0.
      assert (Hn : ((len - 1) / step < 2)%nat) by (apply Nat.div_lt_upper_bound; lia).
      unfold closed.
      destruct ((len - 1) / step)%nat as [|[|n]]; [| |lia].
      * cbn [osum Nat.mul]. rewrite cross_self. destruct right; unfold sg; cbn [negb]; ring.
      * cbn [osum]. replace (1 * step)%nat with step by lia.
        replace (0 * step + step)%nat with step by lia. change (0 * step)%nat with 0%nat.
        rewrite (cross_anti (ptn pts step) (ptn pts 0)).
        destruct right; unfold sg; cbn [negb]; ring.
Qed.

Lemma osum_shift q l : forall k i, osum (q :: l) 1 k (S i) = osum l 1 k i.
Proof.
  induction k as [|k IH]; intros i; [reflexivity|].
  cbn [osum]. rewrite IH. reflexivity.
Qed.

Lemma osum_path2 : forall r p, osum (p :: r) 1 (length r) 0 == path2 (p :: r).
Proof.
  induction r as [|q r IH]; intros p.
  - reflexivity.
  - cbn [length osum]. rewrite osum_shift, IH, path2_cons2.
    change (ptn (p :: q :: r) (0 * 1)) with p.
    change (ptn (p :: q :: r) (0 * 1 + 1)) with q. reflexivity.
Qed.

Lemma nth_length_last {A} : forall (r : list A) (p d : A), nth (length r) (p :: r) d = last r p.
Proof.
  induction r as [|q r IH]; intros p d; [reflexivity|].
  rewrite last_cons. cbn [length]. change (nth (S (length r)) (p :: q :: r) d) with (nth (length r) (q :: r) d).
  apply IH.
Qed.

Lemma flush_area : forall right pts,
  flush_area2 right pts == (if right then - chain_area2 pts else chain_area2 pts).
Proof.
  intros right pts. rewrite flush_area2_tsum, flush_levels_sum by lia.
  rewrite Nat.div_1_r.
  assert (H : closed pts 1 (length pts - 1) == chain_area2 pts).
  { destruct pts as [|p r].
    - unfold closed. cbn [length Nat.sub osum Nat.mul chain_area2]. rewrite cross_self. ring.
    - cbn [length chain_area2]. rewrite Nat.sub_succ, Nat.sub_0_r.
      unfold closed, sub_edges. cbn [fst snd].
      rewrite shoelace_chain, osum_path2.
      replace (length r * 1)%nat with (length r) by lia.
      unfold ptn at 1. rewrite nth_length_last. reflexivity. }
  rewrite H. destruct right; unfold sg; cbn [negb]; reflexivity.
Qed.

Print Assumptions basic_orientation.
Print Assumptions basic_nat_conserved.
Print Assumptions basic_nat_swapped.
Print Assumptions basic_area_bound.
Print Assumptions basic_area_exact.
Print Assumptions flush_area.
