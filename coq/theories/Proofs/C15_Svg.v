(* Proofs for C15: the SVG-style builder adapter (Model/SvgBuilder.v).
   - svg_protocol / svg_protocol_prefix : the adapter only emits well nested calls
     (proved directly on the adapter model, no arithmetic hypothesis);
   - svg_refines_sem : the adapter emits exactly the calls of the SVG semantics, by a simulation
     relation [R]; the only arithmetic fact used is  x + (x - x) = x ;
   - sem_protocol : the SVG semantics itself only emits well nested calls. *)
From LV Require Import Base.Prelude Model.SvgBuilder Gen.Constants.

Local Arguments cx {C}. Local Arguments cy {C}.
Local Arguments IBegin {C}. Local Arguments ILine {C}. Local Arguments IQuad {C}.
Local Arguments ICubic {C}. Local Arguments IEnd {C}.
Local Arguments ao_straight {C}. Local Arguments ao_skip {C}. Local Arguments ao_start {C}.
Local Arguments ao_near {C}. Local Arguments ao_quads {C}.
Local Arguments mkSvg {C}. Local Arguments s_first {C}. Local Arguments s_cur {C}.
Local Arguments s_last_ctrl {C}. Local Arguments s_last_cmd {C}. Local Arguments s_need_moveto {C}.
Local Arguments s_is_empty {C}. Local Arguments s_out {C}.
Local Arguments emit {C}. Local Arguments end_if_needed {C}. Local Arguments do_move_to {C}.
Local Arguments begin_if_needed {C}. Local Arguments do_line_to {C}. Local Arguments do_close {C}.
Local Arguments do_quad_to {C}. Local Arguments do_cubic_to {C}. Local Arguments set_last_ctrl {C}.
Local Arguments set_cur {C}. Local Arguments do_arc {C}. Local Arguments do_arc_to {C}.
Local Arguments mkSem {C}. Local Arguments m_cur {C}. Local Arguments m_start {C}.
Local Arguments m_open {C}. Local Arguments m_empty {C}. Local Arguments m_qctrl {C}.
Local Arguments m_cctrl {C}. Local Arguments m_out {C}.
Local Arguments sem_emit {C}. Local Arguments sem_move {C}. Local Arguments sem_draw {C}.
Local Arguments sem_close {C}. Local Arguments sem_arc {C}.
Local Arguments well_nested {C}.

Section SvgProofs.
Variable C : Type.
Variable zero : C.
Variables add1 sub1 : C -> C -> C.

Local Notation cpt := (cpt C).
Local Notation icall := (icall C).
Local Notation svg_state := (svg_state C).
Local Notation sem_state := (sem_state C).
Local Notation svg_cmd := (svg_cmd C).
Local Notation addp := (addp C add1).
Local Notation reflect := (reflect C add1 sub1).
Local Notation svg_init := (svg_init C zero).
Local Notation sem_init := (sem_init C zero).
Local Notation svg_step := (svg_step C add1 sub1).
Local Notation sem_step := (sem_step C add1 sub1).
Local Notation svg_run := (svg_run C zero add1 sub1).
Local Notation sem_run := (sem_run C zero add1 sub1).
Local Notation smooth_quad_ctrl := (smooth_quad_ctrl C add1 sub1).
Local Notation smooth_cubic_ctrl := (smooth_cubic_ctrl C add1 sub1).
Local Notation sem_qctrl := (sem_qctrl C add1 sub1).
Local Notation sem_cctrl := (sem_cctrl C add1 sub1).

(* ---------------------------------------------------------------------------------------- *)
(* generic helpers *)

(* `last_cmd as u8 <= Verb::Begin as u8` *)
Definition is_open (v : sverb) : bool :=
  match v with SvLine | SvQuad | SvCubic | SvBegin => true | SvClose | SvEnd => false end.

Lemma leb_is_open v : (sverb_num v <=? sverb_num SvBegin)%Z = is_open v.
Proof. destruct v; reflexivity. Qed.

Lemma last_cons (A : Type) (l : list A) : forall a d, last (a :: l) d = last l a.
Proof.
  induction l as [|b l IH]; intros a d; [reflexivity|].
  change (last (a :: b :: l) d) with (last (b :: l) d). rewrite IH. symmetry; apply IH.
Qed.

Definition quads_calls (qs : list (cpt * cpt)) : list icall :=
  map (fun q => IQuad (fst q) (snd q)) qs.

(* the arc loop only appends quadratic calls and moves the current position *)
Lemma fold_quads qs : forall s : svg_state,
  fold_left (fun s q => set_cur (emit s (IQuad (fst q) (snd q))) (snd q)) qs s =
  mkSvg (s_first s) (last (map snd qs) (s_cur s)) (s_last_ctrl s) (s_last_cmd s)
        (s_need_moveto s) (s_is_empty s) (s_out s ++ quads_calls qs).
Proof.
  induction qs as [|q qs IH]; intros s.
  - destruct s; cbn. rewrite app_nil_r. reflexivity.
  - cbn [fold_left]. rewrite IH. unfold set_cur, emit.
    cbn [s_first s_cur s_last_ctrl s_last_cmd s_need_moveto s_is_empty s_out].
    cbn [map quads_calls]. rewrite last_cons. rewrite <- app_assoc. reflexivity.
Qed.

Lemma wn_quads qs : forall rest : list icall,
  well_nested true (quads_calls qs ++ rest) = well_nested true rest.
Proof. induction qs as [|q qs IH]; intros rest; [reflexivity|]. cbn. apply IH. Qed.

Ltac svg_proj :=
  cbn [s_first s_cur s_last_ctrl s_last_cmd s_need_moveto s_is_empty s_out
       m_cur m_start m_open m_empty m_qctrl m_cctrl m_out] in *.

(* ---------------------------------------------------------------------------------------- *)
(* 1. protocol of the adapter *)

Definition Inv (s : svg_state) : Prop :=
  is_open (s_last_cmd s) = negb (s_need_moveto s) /\
  forall rest, well_nested false (s_out s ++ rest) = well_nested (negb (s_need_moveto s)) rest.

Ltac inv_start s H :=
  destruct s as [f cu lc cmd nm em out]; destruct H as [Ho Hw]; unfold Inv in *; svg_proj.

Ltac inv_fin Hw :=
  split; [reflexivity | intros rest; rewrite <- ?app_assoc; rewrite Hw; cbn; rewrite ?wn_quads; reflexivity].

Lemma Inv_init : Inv svg_init.
Proof. split; [reflexivity | intros rest; reflexivity]. Qed.

Lemma Inv_move s p : Inv s -> Inv (do_move_to s p).
Proof.
  intros H; inv_start s H.
  unfold do_move_to, end_if_needed, emit; svg_proj; rewrite leb_is_open.
  destruct nm, cmd; try discriminate Ho; cbn [is_open]; svg_proj; inv_fin Hw.
Qed.

Lemma Inv_line s p : Inv s -> Inv (do_line_to s p).
Proof.
  intros H; inv_start s H.
  unfold do_line_to, begin_if_needed, do_move_to, end_if_needed, emit; svg_proj; rewrite leb_is_open.
  destruct nm, em, cmd; try discriminate Ho; cbn [is_open]; svg_proj; inv_fin Hw.
Qed.

Lemma Inv_quad s c p : Inv s -> Inv (do_quad_to s c p).
Proof.
  intros H; inv_start s H.
  unfold do_quad_to, begin_if_needed, do_move_to, end_if_needed, emit; svg_proj; rewrite leb_is_open.
  destruct nm, em, cmd; try discriminate Ho; cbn [is_open]; svg_proj; inv_fin Hw.
Qed.

Lemma Inv_cubic s c1 c2 p : Inv s -> Inv (do_cubic_to s c1 c2 p).
Proof.
  intros H; inv_start s H.
  unfold do_cubic_to, begin_if_needed, do_move_to, end_if_needed, emit; svg_proj; rewrite leb_is_open.
  destruct nm, em, cmd; try discriminate Ho; cbn [is_open]; svg_proj; inv_fin Hw.
Qed.

Lemma Inv_close s : Inv s -> Inv (do_close s).
Proof.
  intros H; inv_start s H.
  unfold do_close; svg_proj.
  destruct nm; svg_proj; [split; assumption | inv_fin Hw].
Qed.

Lemma Inv_arc s o : Inv s -> Inv (do_arc s o).
Proof.
  intros H; inv_start s H.
  unfold do_arc. rewrite fold_quads.
  unfold set_last_ctrl, do_move_to, end_if_needed, emit; svg_proj; rewrite leb_is_open.
  destruct (ao_skip o); svg_proj; [split; assumption|].
  destruct nm, cmd; try discriminate Ho; cbn [is_open]; svg_proj;
    try (destruct (ao_near o)); svg_proj; inv_fin Hw.
Qed.

Lemma Inv_step s c : Inv s -> Inv (svg_step s c).
Proof.
  intros H; destruct c; cbn [SvgBuilder.svg_step]; unfold do_arc_to;
    try (destruct (ao_straight o));
    auto using Inv_move, Inv_line, Inv_quad, Inv_cubic, Inv_close, Inv_arc.
Qed.

Lemma Inv_fold cmds : forall s, Inv s -> Inv (fold_left svg_step cmds s).
Proof. induction cmds as [|c cmds IH]; intros s H; [exact H | cbn [fold_left]; apply IH, Inv_step, H]. Qed.

Lemma Inv_end s : Inv s -> well_nested false (s_out (end_if_needed s)) = true.
Proof.
  intros H; inv_start s H.
  unfold end_if_needed, emit; svg_proj; rewrite leb_is_open, Ho.
  destruct nm; cbn [negb]; svg_proj.
  - rewrite <- (app_nil_r out), Hw. reflexivity.
  - rewrite Hw. reflexivity.
Qed.

Lemma svg_protocol_sec (cmds : list svg_cmd) : well_nested false (svg_run cmds) = true.
Proof. unfold SvgBuilder.svg_run. apply Inv_end, Inv_fold, Inv_init. Qed.

(* ---------------------------------------------------------------------------------------- *)
(* 2. protocol of the semantics *)

Definition SInv (m : sem_state) : Prop :=
  forall rest, well_nested false (m_out m ++ rest) = well_nested (m_open m) rest.

Ltac sinv_start m H := destruct m as [cu st op em qc cc out]; unfold SInv in *; svg_proj.
Ltac sinv_fin Hw :=
  intros rest; rewrite <- ?app_assoc; rewrite Hw; cbn; rewrite ?wn_quads; reflexivity.

Lemma SInv_move m p : SInv m -> SInv (sem_move m p).
Proof.
  intros H; sinv_start m H. unfold sem_move, sem_emit; svg_proj.
  destruct op; sinv_fin H.
Qed.

Lemma SInv_draw m p e q c :
  match e with IBegin _ | IEnd _ => False | _ => True end ->
  SInv m -> SInv (sem_draw m p e q c).
Proof.
  intros He H; sinv_start m H. unfold sem_draw, sem_move, sem_emit; svg_proj.
  destruct op, em, e; try contradiction; svg_proj; sinv_fin H.
Qed.

Lemma SInv_close m : SInv m -> SInv (sem_close m).
Proof.
  intros H; sinv_start m H. unfold sem_close, sem_emit; svg_proj.
  destruct op; svg_proj; [sinv_fin H | exact H].
Qed.

Lemma SInv_arc m o : SInv m -> SInv (sem_arc m o).
Proof.
  intros H; sinv_start m H. unfold sem_arc, sem_move, sem_emit; svg_proj.
  destruct (ao_skip o); svg_proj; [exact H|].
  destruct op; svg_proj; try (destruct (ao_near o)); svg_proj; fold (quads_calls (ao_quads o)); sinv_fin H.
Qed.

Lemma SInv_step m c : SInv m -> SInv (sem_step m c).
Proof.
  intros H; destruct c; cbn [SvgBuilder.sem_step]; try (destruct (ao_straight o));
    auto using SInv_move, SInv_close, SInv_arc; apply SInv_draw; auto; exact I.
Qed.

Lemma SInv_fold cmds : forall m, SInv m -> SInv (fold_left sem_step cmds m).
Proof. induction cmds as [|c cmds IH]; intros m H; [exact H | cbn [fold_left]; apply IH, SInv_step, H]. Qed.

Lemma sem_protocol_sec (cmds : list svg_cmd) : well_nested false (sem_run cmds) = true.
Proof.
  unfold SvgBuilder.sem_run.
  assert (H : SInv (fold_left sem_step cmds sem_init))
    by (apply SInv_fold; intros rest; reflexivity).
  rewrite H. destruct (m_open _); reflexivity.
Qed.

(* ---------------------------------------------------------------------------------------- *)
(* 3. the adapter refines the semantics *)

Hypothesis add_sub_self : forall x, add1 x (sub1 x x) = x.

Lemma reflect_self (p : cpt) : reflect p p = p.
Proof.
  destruct p as [x y]. unfold SvgBuilder.reflect, SvgBuilder.addp, SvgBuilder.subp, cx, cy; cbn [fst snd].
  rewrite !add_sub_self. reflexivity.
Qed.

(* control point of the previous command: the adapter keeps (last_cmd, last_ctrl); after an arc
   last_cmd may still be a curve verb but then last_ctrl = current position *)
Definition qrel (s : svg_state) (m : sem_state) : Prop :=
  match s_last_cmd s with
  | SvQuad => m_qctrl m = Some (s_last_ctrl s) \/ (m_qctrl m = None /\ s_last_ctrl s = s_cur s)
  | _ => m_qctrl m = None
  end.
Definition crel (s : svg_state) (m : sem_state) : Prop :=
  match s_last_cmd s with
  | SvCubic => m_cctrl m = Some (s_last_ctrl s) \/ (m_cctrl m = None /\ s_last_ctrl s = s_cur s)
  | _ => m_cctrl m = None
  end.

Record R (s : svg_state) (m : sem_state) : Prop := mkR {
  R_out : s_out s = m_out m;
  R_cur : s_cur s = m_cur m;
  R_empty : s_is_empty s = m_empty m;
  R_nm : s_need_moveto s = negb (m_open m);
  R_open : is_open (s_last_cmd s) = m_open m;
  R_first : m_empty m = false -> s_first s = m_start m;
  R_eo : m_empty m = true -> m_open m = false;
  R_q : qrel s m;
  R_c : crel s m }.

Lemma R_init : R svg_init sem_init.
Proof. constructor; cbn; auto; discriminate. Qed.

Lemma smooth_q s m : R s m -> smooth_quad_ctrl s = sem_qctrl m.
Proof.
  intros [_ Hc _ _ _ _ _ Hq _]. unfold SvgBuilder.smooth_quad_ctrl, SvgBuilder.sem_qctrl, qrel in *.
  rewrite <- Hc. destruct (s_last_cmd s); try (rewrite Hq; reflexivity).
  destruct Hq as [-> | [-> ->]]; [reflexivity | apply reflect_self].
Qed.

Lemma smooth_c s m : R s m -> smooth_cubic_ctrl s = sem_cctrl m.
Proof.
  intros [_ Hc _ _ _ _ _ _ Hq]. unfold SvgBuilder.smooth_cubic_ctrl, SvgBuilder.sem_cctrl, crel in *.
  rewrite <- Hc. destruct (s_last_cmd s); try (rewrite Hq; reflexivity).
  destruct Hq as [-> | [-> ->]]; [reflexivity | apply reflect_self].
Qed.

Ltac r_start s m H :=
  destruct s as [f cu lc cmd nm em out]; destruct m as [mcu mst mop mem mq mc mout];
  destruct H as [Hout Hcur Hem Hnm Hop Hfirst Heo Hq Hc]; unfold qrel, crel in *; svg_proj; subst.

Ltac r_fin :=
  constructor; unfold qrel, crel; svg_proj;
  try solve [ reflexivity | assumption | discriminate | intros; discriminate | auto
            | rewrite <- ?app_assoc; reflexivity ].

Lemma R_move s m p : R s m -> R (do_move_to s p) (sem_move m p).
Proof.
  intros H; r_start s m H.
  unfold do_move_to, end_if_needed, emit, sem_move, sem_emit; svg_proj; rewrite leb_is_open.
  destruct cmd; cbn [is_open negb]; svg_proj; r_fin.
Qed.

Ltac r_draw mem cmd f Hfirst Heo :=
  destruct mem; [ specialize (Heo eq_refl) | pose proof (Hfirst eq_refl); subst f; clear Heo ];
  destruct cmd; cbn [is_open negb] in *; try (match goal with HH : true = false |- _ => discriminate HH end); svg_proj; r_fin.

Lemma R_line s m p : R s m -> R (do_line_to s p) (sem_draw m p (ILine p) None None).
Proof.
  intros H; r_start s m H.
  unfold do_line_to, begin_if_needed, do_move_to, end_if_needed, emit, sem_draw, sem_move, sem_emit;
    svg_proj; rewrite leb_is_open.
  r_draw mem cmd f Hfirst Heo.
Qed.

Lemma R_quad s m c p : R s m -> R (do_quad_to s c p) (sem_draw m p (IQuad c p) (Some c) None).
Proof.
  intros H; r_start s m H.
  unfold do_quad_to, begin_if_needed, do_move_to, end_if_needed, emit, sem_draw, sem_move, sem_emit;
    svg_proj; rewrite leb_is_open.
  r_draw mem cmd f Hfirst Heo.
Qed.

Lemma R_cubic s m c1 c2 p :
  R s m -> R (do_cubic_to s c1 c2 p) (sem_draw m p (ICubic c1 c2 p) None (Some c2)).
Proof.
  intros H; r_start s m H.
  unfold do_cubic_to, begin_if_needed, do_move_to, end_if_needed, emit, sem_draw, sem_move, sem_emit;
    svg_proj; rewrite leb_is_open.
  r_draw mem cmd f Hfirst Heo.
Qed.

Lemma R_close s m : R s m -> R (do_close s) (sem_close m).
Proof.
  intros H; r_start s m H.
  unfold do_close, sem_close, sem_emit; svg_proj.
  destruct cmd; cbn [is_open negb] in *; svg_proj;
    (destruct mem; [try (specialize (Heo eq_refl); discriminate Heo) | try rewrite (Hfirst eq_refl)]);
    r_fin.
Qed.

Lemma R_arc s m o : R s m -> R (do_arc s o) (sem_arc m o).
Proof.
  intros H; r_start s m H.
  unfold do_arc. rewrite fold_quads.
  unfold set_last_ctrl, do_move_to, end_if_needed, emit, sem_arc, sem_move, sem_emit;
    svg_proj; rewrite leb_is_open.
  fold (quads_calls (ao_quads o)).
  destruct (ao_skip o); svg_proj.
  - destruct cmd; r_fin; auto.
  - destruct cmd; cbn [is_open negb] in *; svg_proj;
      try (destruct (ao_near o)); svg_proj;
      (destruct mem; [try (specialize (Heo eq_refl); discriminate Heo) | ]);
      r_fin; auto.
Qed.

Lemma R_step s m c : R s m -> R (svg_step s c) (sem_step m c).
Proof.
  intros H; destruct c; cbn [SvgBuilder.svg_step SvgBuilder.sem_step]; unfold do_arc_to;
    rewrite ?(smooth_q _ _ H), ?(smooth_c _ _ H), ?(R_cur _ _ H);
    try (destruct (ao_straight o));
    auto using R_move, R_line, R_quad, R_cubic, R_close, R_arc.
Qed.

Lemma R_fold cmds : forall s m, R s m -> R (fold_left svg_step cmds s) (fold_left sem_step cmds m).
Proof. induction cmds as [|c cmds IH]; intros s m H; [exact H | cbn [fold_left]; apply IH, R_step, H]. Qed.

Lemma svg_refines_sem_sec (cmds : list svg_cmd) : svg_run cmds = sem_run cmds.
Proof.
  unfold SvgBuilder.svg_run, SvgBuilder.sem_run.
  pose proof (R_fold cmds _ _ R_init) as H.
  set (s := fold_left svg_step cmds svg_init) in *.
  set (m := fold_left sem_step cmds sem_init) in *.
  unfold end_if_needed, emit. rewrite leb_is_open, (R_open _ _ H).
  destruct (m_open m); svg_proj; rewrite (R_out _ _ H); [reflexivity | symmetry; apply app_nil_r].
Qed.

End SvgProofs.

(* ---------------------------------------------------------------------------------------- *)
(* exported statements, exactly as used by Props/C15.v *)

Theorem svg_protocol : forall (C : Type) (zero : C) (add1 sub1 : C -> C -> C) (cmds : list (svg_cmd C)),
  @SvgBuilder.well_nested C false (svg_run C zero add1 sub1 cmds) = true.
Proof. exact svg_protocol_sec. Qed.

Theorem svg_protocol_prefix : forall (C : Type) (zero : C) (add1 sub1 : C -> C -> C) (cmds more : list (svg_cmd C)),
  @SvgBuilder.well_nested C false (svg_run C zero add1 sub1 cmds) = true /\
  @SvgBuilder.well_nested C false (svg_run C zero add1 sub1 (cmds ++ more)) = true.
Proof. intros; split; apply svg_protocol. Qed.

Theorem svg_refines_sem : forall (C : Type) (zero : C) (add1 sub1 : C -> C -> C),
  (forall x, add1 x (sub1 x x) = x) ->
  forall cmds : list (svg_cmd C), svg_run C zero add1 sub1 cmds = sem_run C zero add1 sub1 cmds.
Proof. exact svg_refines_sem_sec. Qed.

Theorem sem_protocol : forall (C : Type) (zero : C) (add1 sub1 : C -> C -> C) (cmds : list (svg_cmd C)),
  @SvgBuilder.well_nested C false (sem_run C zero add1 sub1 cmds) = true.
Proof. exact sem_protocol_sec. Qed.
