(* C14 proofs, part 1: storage layout of a program, builder lemmas and the
   basic read lemmas (pop_endpoint / ep_at on a known split of the storage). *)
From LV Require Import Base.Prelude Model.PathStore Model.PathSpec.

Ltac norm_app := repeat (first [rewrite <- app_assoc | progress (cbn [app])]).

(* ------------------------------------------------------------ arithmetic *)

Lemma stride_SS k : stride_of (S (S k)) = S (stride_of k).
Proof.
  unfold stride_of.
  replace (S (S k) + 1) with ((k + 1) + 1 * 2) by lia.
  rewrite Nat.div_add by lia. lia.
Qed.

Lemma stride_0 : stride_of 0 = 0.
Proof. reflexivity. Qed.

Lemma stride_1 : stride_of 1 = 1.
Proof. reflexivity. Qed.

Lemma pack_length_le k : forall a, length a <= k -> length (pack a) = stride_of (length a).
Proof.
  induction k as [|k IH]; intros a Hk.
  - destruct a as [|x a]; [reflexivity | cbn [length] in Hk; lia].
  - destruct a as [|x [|y a]]; [reflexivity | reflexivity |].
    cbn [pack length]. rewrite stride_SS. f_equal.
    apply IH. cbn [length] in Hk. lia.
Qed.

Lemma pack_length a : length (pack a) = stride_of (length a).
Proof. apply (pack_length_le (length a)). lia. Qed.

Lemma flat_cons p r : flat (p :: r) = fst p :: snd p :: flat r.
Proof. reflexivity. Qed.

Lemma flat_pack_le k : forall a rest, length a <= k ->
  firstn (length a) (flat (pack a ++ rest)) = a.
Proof.
  induction k as [|k IH]; intros a rest Hk.
  - destruct a as [|x a]; [reflexivity | cbn [length] in Hk; lia].
  - destruct a as [|x [|y a]]; [reflexivity | reflexivity |].
    cbn [pack length app]. rewrite flat_cons. cbn [fst snd firstn].
    f_equal. f_equal. apply IH. cbn [length] in Hk. lia.
Qed.

Lemma flat_pack a rest : firstn (length a) (flat (pack a ++ rest)) = a.
Proof. apply (flat_pack_le (length a)). lia. Qed.

Lemma skipn_app_exact {A} (l1 l2 : list A) : skipn (length l1) (l1 ++ l2) = l2.
Proof. induction l1 as [|x l1 IH]; [reflexivity | exact IH]. Qed.

Lemma nth_error_app_exact {A} (l1 : list A) x l2 : nth_error (l1 ++ x :: l2) (length l1) = Some x.
Proof. induction l1 as [|y l1 IH]; [reflexivity | exact IH]. Qed.

Lemma flat_map_concat {A B} (f : A -> list B) (l : list (list A)) :
  flat_map f (concat l) = flat_map (flat_map f) l.
Proof.
  induction l as [|x l IH]; [reflexivity |].
  cbn [concat flat_map]. rewrite flat_map_app, IH. reflexivity.
Qed.

(* ---------------------------------------------------------------- layout *)

Definition layout_edge (e : edge) : list pt :=
  match e with
  | ELine p a => p :: pack a
  | EQuad c p a => c :: p :: pack a
  | ECubic c1 c2 p a => c1 :: c2 :: p :: pack a
  end.

Definition verb_of_edge (e : edge) : verb :=
  match e with ELine _ _ => VLine | EQuad _ _ _ => VQuad | ECubic _ _ _ _ => VCubic end.

Definition close_tail (s : subpath) : list pt :=
  if sp_close s then sp_at s :: pack (sp_attrs s) else [].

Definition close_verb (s : subpath) : verb := if sp_close s then VClose else VEnd.

Definition layout_sub (s : subpath) : list pt :=
  sp_at s :: pack (sp_attrs s) ++ flat_map layout_edge (sp_edges s) ++ close_tail s.

Definition verbs_sub (s : subpath) : list verb :=
  VBegin :: map verb_of_edge (sp_edges s) ++ [close_verb s].

(* --------------------------------------------------------------- builder *)

Lemma b_run_cons s o r :
  b_run s (o :: r) =
  (fst (b_run (fst (b_step s o)) r), snd (b_step s o) :: snd (b_run (fst (b_step s o)) r)).
Proof.
  cbn [b_run]. destruct (b_step s o) as [s' id]. cbn [fst snd].
  destruct (b_run s' r) as [s'' ids]. reflexivity.
Qed.

Lemma b_run_app l1 : forall s l2,
  b_run s (l1 ++ l2) =
  (fst (b_run (fst (b_run s l1)) l2), snd (b_run s l1) ++ snd (b_run (fst (b_run s l1)) l2)).
Proof.
  induction l1 as [|o l1 IH]; intros s l2.
  - cbn [app b_run fst snd]. destruct (b_run s l2); reflexivity.
  - cbn [app]. rewrite !b_run_cons. cbn [fst snd]. rewrite IH. cbn [fst snd]. reflexivity.
Qed.

Lemma b_run_edges es : forall s,
  fst (b_run s (map op_of_edge es)) =
  mkB (b_points s ++ flat_map layout_edge es) (b_verbs s ++ map verb_of_edge es)
      (b_first s) (b_first_attrs s).
Proof.
  induction es as [|e es IH]; intros s.
  - cbn [map b_run fst flat_map]. rewrite !app_nil_r. destruct s; reflexivity.
  - cbn [map]. rewrite b_run_cons. cbn [fst]. rewrite IH.
    destruct e; cbn [op_of_edge b_step fst b_points b_verbs b_first b_first_attrs
                     flat_map layout_edge verb_of_edge map];
      rewrite <- !app_assoc; reflexivity.
Qed.

Lemma b_run_sub s0 s :
  fst (b_run s0 (ops_of_sub s)) =
  mkB (b_points s0 ++ layout_sub s) (b_verbs s0 ++ verbs_sub s) (sp_at s) (sp_attrs s).
Proof.
  unfold ops_of_sub. rewrite b_run_cons. cbn [fst].
  rewrite b_run_app. cbn [fst]. rewrite b_run_edges.
  cbn [b_step fst b_points b_verbs b_first b_first_attrs].
  unfold layout_sub, verbs_sub, close_tail, close_verb.
  destruct (sp_close s); cbn [b_run b_step fst b_points b_verbs b_first b_first_attrs];
    rewrite <- ?app_assoc; cbn [app]; rewrite <- ?app_assoc; cbn [app];
    rewrite ?app_nil_r; reflexivity.
Qed.

Lemma b_run_prog prog : forall s0,
  b_points (fst (b_run s0 (ops_of prog))) = b_points s0 ++ flat_map layout_sub prog /\
  b_verbs (fst (b_run s0 (ops_of prog))) = b_verbs s0 ++ flat_map verbs_sub prog.
Proof.
  induction prog as [|s prog IH]; intros s0.
  - cbn [ops_of flat_map b_run fst]. rewrite !app_nil_r. split; reflexivity.
  - cbn [ops_of flat_map]. fold (ops_of prog). rewrite b_run_app. cbn [fst].
    rewrite b_run_sub. destruct (IH (mkB (b_points s0 ++ layout_sub s) (b_verbs s0 ++ verbs_sub s)
                                         (sp_at s) (sp_attrs s))) as [H1 H2].
    rewrite H1, H2. cbn [b_points b_verbs]. rewrite <- !app_assoc. split; reflexivity.
Qed.

Lemma build_layout n prog :
  build n (ops_of prog) = mkPath (flat_map layout_sub prog) (flat_map verbs_sub prog) n.
Proof.
  unfold build. destruct (b_run_prog prog (b_init n)) as [H1 H2].
  rewrite H1, H2. reflexivity.
Qed.

(* ------------------------------------------------------ basic raw reads *)

Lemma padvance_pack a rest : padvance (stride_of (length a)) (pack a ++ rest) = Some rest.
Proof.
  unfold padvance. rewrite <- pack_length.
  rewrite app_length.
  replace (Nat.leb (length (pack a)) (length (pack a) + length rest)) with true
    by (symmetry; apply Nat.leb_le; lia).
  rewrite skipn_app_exact. reflexivity.
Qed.

Lemma pop_endpoint_layout n p a rest : length a = n ->
  pop_endpoint n (p :: pack a ++ rest) = Some ((p, a), rest).
Proof.
  intros Ha. subst n. unfold pop_endpoint. cbn [pnext obind].
  rewrite padvance_pack. cbn [obind]. rewrite flat_pack. reflexivity.
Qed.

Lemma pget_split pts i pre c post :
  pts = pre ++ c :: post -> i = length pre -> pget pts i = Some c.
Proof. intros -> ->. unfold pget. apply nth_error_app_exact. Qed.

Lemma attrs_at_split n pts i pre p a post :
  pts = pre ++ p :: pack a ++ post -> length a = n -> i = length pre ->
  attrs_at n pts i = Some a.
Proof.
  intros -> Ha ->. unfold attrs_at.
  destruct (Nat.eqb_spec n 0) as [Hz|Hz].
  - destruct a as [|x a]; [reflexivity | cbn [length] in Ha; lia].
  - assert (Hle : Nat.leb (S (length pre) + stride_of n) (length (pre ++ p :: pack a ++ post)) = true).
    { apply Nat.leb_le. rewrite app_length. cbn [length]. rewrite app_length, pack_length, Ha. lia. }
    rewrite Hle.
    replace (skipn (S (length pre)) (pre ++ p :: pack a ++ post)) with (pack a ++ post).
    + rewrite <- Ha. rewrite flat_pack. reflexivity.
    + replace (pre ++ p :: pack a ++ post) with ((pre ++ [p]) ++ pack a ++ post)
        by (rewrite <- app_assoc; reflexivity).
      replace (S (length pre)) with (length (pre ++ [p]))
        by (rewrite app_length; cbn [length]; lia).
      rewrite skipn_app_exact. reflexivity.
Qed.

Lemma ep_at_split P i pre p a post :
  p_points P = pre ++ p :: pack a ++ post -> length a = p_nattr P -> i = length pre ->
  ep_at P i = Some (p, a).
Proof.
  intros HP Ha Hi. unfold ep_at.
  rewrite (pget_split _ _ _ _ _ HP Hi). cbn [obind].
  rewrite (attrs_at_split _ _ _ _ _ _ _ HP Ha Hi). reflexivity.
Qed.

(* --------------------------------------------- attrs_ok bookkeeping *)

Lemma attrs_ok_cons n s prog :
  attrs_ok n (s :: prog) ->
  length (sp_attrs s) = n /\ Forall (edge_attrs_ok n) (sp_edges s) /\ attrs_ok n prog.
Proof.
  intros H. inversion H as [|? ? [H1 H2] H3]; subst. auto.
Qed.
