(* C19 - proofs for Props/C19.v: sampler cursor (C19_Cursor), walker (C19_Walk) and the
   query-sequence theorem (here). *)
From Coq Require Import QArith Lqa.
From LV Require Import Base.Prelude Model.Bezier Model.Measure.
From LV Require Export Proofs.C19_Cursor Proofs.C19_Walk.
Open Scope Q_scope.

Definition kind_of (tbl : list mrow) (kinds : list Z) (i : nat) : Z :=
  match nth_error tbl i with
  | Some r => nth (r_index r) kinds 2%Z
  | None => 2%Z
  end.
Definition table_shape_ok (tbl : list mrow) (kinds : list Z) : Prop :=
  table_ok tbl kinds = true /\ kind_of tbl kinds 0 = 0%Z /\
  (forall i, (i < length tbl)%nat -> kind_of tbl kinds i = 0%Z \/ kind_of tbl kinds i = 1%Z) /\
  (forall i r p, nth_error tbl (S i) = Some r -> nth_error tbl i = Some p ->
                 kind_of tbl kinds (S i) = 0%Z -> r_dist r == r_dist p) /\
  0 < table_length tbl.

Fixpoint queries_ok (tbl : list mrow) (kinds : list Z) (cursor : nat) (qs : list (Q * bool)) : Prop :=
  match qs with
  | [] => True
  | (d, binary) :: r =>
      exists c idx, sample_cursor tbl kinds cursor d binary = Some (c, idx, 1%Z) /\
                    in_bounds tbl c d = Some true /\ queries_ok tbl kinds c r
  end.

Section Shape.
Variables (tbl : list mrow) (kinds : list Z).
Hypothesis Hshape : table_shape_ok tbl kinds.

Let n := length tbl.
Let Hok : table_ok tbl kinds = true := proj1 Hshape.

Lemma kind_at_row : forall i, (i < n)%nat ->
  kind_at kinds (r_index (rw tbl i)) = Some (kind_of tbl kinds i).
Proof.
  intros i Hi. destruct (table_ok_facts _ _ Hok) as [Tlen Tzero Tmono Tidx Tlast].
  unfold kind_of. change (nth_error tbl i) with (row_at tbl i). rewrite (row_at_lt tbl i Hi).
  unfold kind_at. apply nth_error_nth'. apply Tidx; exact Hi.
Qed.

Lemma begin_repeats : forall i, (S i < n)%nat -> kind_of tbl kinds (S i) = 0%Z ->
  dn tbl (S i) == dn tbl i.
Proof.
  intros i Hi Hk. pose proof Hshape as [_ [_ [_ [Hb _]]]].
  apply (Hb i (rw tbl (S i)) (rw tbl i)); [| |exact Hk].
  - apply (row_at_lt tbl (S i)); exact Hi.
  - apply (row_at_lt tbl i). unfold n in Hi. lia.
Qed.

Lemma kind_01 : forall i, (i < n)%nat -> kind_of tbl kinds i = 0%Z \/ kind_of tbl kinds i = 1%Z.
Proof. pose proof Hshape as [_ [_ [H _]]]. exact H. Qed.

Lemma skip_spec : forall fuel c, (c < n)%nat -> (n - 1 - c <= fuel)%nat ->
  exists c', skip_begin fuel tbl kinds c = Some c' /\ (c <= c')%nat /\ (c' < n)%nat /\
             (forall i, (c <= i)%nat -> (i < c')%nat -> kind_of tbl kinds i = 0%Z) /\
             (c' = (n - 1)%nat \/ kind_of tbl kinds c' <> 0%Z).
Proof.
  induction fuel as [|f IH]; intros c Hc Hf; cbn [skip_begin].
  - exists c. split; [reflexivity|]. split; [lia|]. split; [exact Hc|]. split; [intros; lia | left; lia].
  - fold n. destruct (Nat.ltb (S c) n) eqn:E.
    + apply Nat.ltb_lt in E. rewrite (row_at_lt tbl c Hc). cbn [obind].
      rewrite (kind_at_row c Hc). cbn [obind].
      destruct (Z.eqb (kind_of tbl kinds c) 0) eqn:Ek.
      * apply Z.eqb_eq in Ek. destruct (IH (S c)) as [c' [H1 [H2 [H3 [H4 H5]]]]]; try lia.
        exists c'. split; [exact H1|]. split; [lia|]. split; [exact H3|]. split; [|exact H5].
        intros i Hi1 Hi2. destruct (Nat.eq_dec i c) as [->|Hne]; [exact Ek|]. apply H4; lia.
      * apply Z.eqb_neq in Ek. exists c. split; [reflexivity|]. split; [lia|]. split; [exact Hc|].
        split; [intros; lia | right; exact Ek].
    + apply Nat.ltb_ge in E. exists c. split; [reflexivity|]. split; [lia|]. split; [exact Hc|].
      split; [intros; lia | left; lia].
Qed.

Lemma skip_segment : forall c, (c < n)%nat -> kind_of tbl kinds c = 1%Z ->
  skip_begin n tbl kinds c = Some c.
Proof.
  intros c Hc Hk. destruct (skip_spec n c Hc) as [c' [H1 [H2 [H3 [H4 H5]]]]]; [lia|].
  rewrite H1. f_equal. destruct (Nat.eq_dec c' c) as [He|Hne]; [exact He|].
  exfalso. rewrite (H4 c) in Hk by lia. discriminate.
Qed.

Lemma sample_finish : forall cursor d binary c0 c,
  move_cursor tbl cursor d binary = Some c0 -> skip_begin n tbl kinds c0 = Some c ->
  (c < n)%nat -> kind_of tbl kinds c = 1%Z ->
  sample_cursor tbl kinds cursor d binary = Some (c, r_index (rw tbl c), 1%Z).
Proof.
  intros cursor d binary c0 c Hm Hs Hc Hk. unfold sample_cursor. rewrite Hm. cbn [obind].
  fold n. rewrite Hs. cbn [obind]. rewrite (row_at_lt tbl c Hc). cbn [obind].
  rewrite (kind_at_row c Hc). cbn [obind]. rewrite Hk. reflexivity.
Qed.

Lemma zero_prefix : forall c, (c < n)%nat ->
  (forall i, (1 <= i)%nat -> (i <= c)%nat -> kind_of tbl kinds i = 0%Z) -> dn tbl c == 0.
Proof.
  destruct (table_ok_facts _ _ Hok) as [Tlen Tzero Tmono Tidx Tlast].
  induction c as [|c IH]; intros Hc Hk; [exact Tzero|].
  rewrite (begin_repeats c Hc) by (apply Hk; lia). apply IH; [lia|]. intros i Hi1 Hi2. apply Hk; lia.
Qed.

Lemma sample_step : forall cursor d binary,
  (cursor < n)%nat -> (cursor = 0%nat \/ kind_of tbl kinds cursor = 1%Z) ->
  0 <= d -> d <= table_length tbl ->
  exists c idx, sample_cursor tbl kinds cursor d binary = Some (c, idx, 1%Z) /\
                in_bounds tbl c d = Some true /\ (c < n)%nat /\ kind_of tbl kinds c = 1%Z.
Proof.
  intros cursor d binary Hcur Hinv H0 Hlen.
  destruct (table_ok_facts _ _ Hok) as [Tlen Tzero Tmono Tidx Tlast]. fold n in Tlen, Tlast.
  assert (Hpos : 0 < table_length tbl) by (pose proof Hshape as [_ [_ [_ [_ H]]]]; exact H).
  destruct (move_cursor_spec tbl kinds cursor d binary Hok Hcur H0 Hlen) as [c0 [Hm Hpost]].
  destruct (mc_post_bounds _ _ _ _ _ Hok H0 Hpost) as [B1 [B2 [B3 B4]]]. fold n in B2.
  destruct Hpost as [[Hz ->]|[[Hz [Hib ->]]|[Hz [Hib [A1 [A2 [A3 A4]]]]]]].
  - (* d == 0: cursor 1, then skip the Begin rows *)
    destruct (skip_spec n 1%nat) as [c [S1 [S2 [S3 [S4 S5]]]]]; try lia.
    assert (Hprev : dn tbl (c - 1) == 0).
    { apply zero_prefix; [lia|]. intros i Hi1 Hi2. apply S4; lia. }
    assert (Hk : kind_of tbl kinds c = 1%Z).
    { destruct (kind_01 c S3) as [Hk|Hk]; [|exact Hk]. exfalso.
      destruct S5 as [S5|S5]; [|contradiction].
      assert (Hc0 : dn tbl c == 0).
      { replace c with (S (c - 1)) by lia. rewrite begin_repeats.
        - exact Hprev.
        - replace (S (c - 1)) with c by lia. exact S3.
        - replace (S (c - 1)) with c by lia. exact Hk. }
      rewrite Tlast, <- S5, Hc0 in Hpos. apply (Qlt_irrefl _ Hpos). }
    exists c, (r_index (rw tbl c)). split; [eapply sample_finish; eassumption|].
    split; [|split; assumption].
    apply in_bounds_intro; try lia; try assumption.
    + rewrite Hprev, Hz. apply Qle_refl.
    + rewrite Hz, <- Tzero. apply Tmono; lia.
  - (* already in bounds: the cursor is a segment row by the invariant *)
    assert (Hk : kind_of tbl kinds cursor = 1%Z) by (destruct Hinv as [->|Hk]; [lia|exact Hk]).
    exists cursor, (r_index (rw tbl cursor)).
    split; [eapply sample_finish; [eassumption|apply skip_segment; assumption|assumption|assumption]|].
    split; [exact Hib|split; assumption].
  - (* a search: strictly after the previous row, so not a Begin row *)
    assert (Hk : kind_of tbl kinds c0 = 1%Z).
    { destruct (kind_01 c0 B2) as [Hk|Hk]; [|exact Hk]. exfalso.
      assert (He : dn tbl c0 == dn tbl (c0 - 1)).
      { replace c0 with (S (c0 - 1)) at 1 by lia. apply begin_repeats.
        - replace (S (c0 - 1)) with c0 by lia. exact B2.
        - replace (S (c0 - 1)) with c0 by lia. exact Hk. }
      rewrite He in A4. apply (Qlt_not_le _ _ A3 A4). }
    exists c0, (r_index (rw tbl c0)).
    split; [eapply sample_finish; [eassumption|apply skip_segment; assumption|assumption|assumption]|].
    split; [|split; assumption].
    apply in_bounds_intro; assumption.
Qed.

Lemma queries_from : forall qs cursor,
  (cursor < n)%nat -> (cursor = 0%nat \/ kind_of tbl kinds cursor = 1%Z) ->
  Forall (fun q => 0 <= fst q /\ fst q <= table_length tbl) qs ->
  queries_ok tbl kinds cursor qs.
Proof.
  induction qs as [|[d binary] r IH]; intros cursor Hc Hinv Hqs; cbn [queries_ok]; [exact I|].
  inversion Hqs as [|? ? [Hq0 Hq1] Hr]; subst. cbn [fst] in Hq0, Hq1.
  destruct (sample_step cursor d binary Hc Hinv Hq0 Hq1) as [c [idx [H1 [H2 [H3 H4]]]]].
  exists c, idx. split; [exact H1|]. split; [exact H2|]. apply IH; [exact H3|right; exact H4|exact Hr].
Qed.
End Shape.

Lemma query_sequences_select_segments : forall tbl kinds qs,
  table_shape_ok tbl kinds ->
  Forall (fun q => 0 <= fst q /\ fst q <= table_length tbl) qs ->
  queries_ok tbl kinds 0 qs.
Proof.
  intros tbl kinds qs Hshape Hqs. apply queries_from; [exact Hshape| |left; reflexivity|exact Hqs].
  destruct (table_ok_facts _ _ (proj1 Hshape)) as [Tlen _ _ _ _]. lia.
Qed.
