(* C19 - proofs about the sampler cursor model (in_bounds / move_cursor and its four search loops). *)
From Coq Require Import QArith Lqa.
From LV Require Import Base.Prelude Model.Bezier Model.Measure.
Open Scope Q_scope.

(* ------------------------------------------------------------------ booleans *)
Lemma Qle_bool_false' : forall a b, Qle_bool a b = false -> b < a.
Proof.
  intros a b H. apply Qnot_le_lt. intro Hle. apply Qle_bool_iff in Hle. congruence.
Qed.
Lemma Qltb_true : forall a b, Qltb a b = true -> a < b.
Proof. unfold Qltb; intros a b H. apply negb_true_iff in H. apply Qle_bool_false'; exact H. Qed.
Lemma Qltb_false : forall a b, Qltb a b = false -> b <= a.
Proof. unfold Qltb; intros a b H. apply negb_false_iff in H. apply Qle_bool_iff; exact H. Qed.
Lemma Qle_bool_true_intro : forall a b, a <= b -> Qle_bool a b = true.
Proof. intros; apply Qle_bool_iff; assumption. Qed.
Lemma Qle_bool_false_intro : forall a b, b < a -> Qle_bool a b = false.
Proof.
  intros a b H. destruct (Qle_bool a b) eqn:E; [|reflexivity].
  apply Qle_bool_iff in E. exfalso. apply (Qlt_not_le _ _ H E).
Qed.
Lemma Qeq_bool_false : forall a b, Qeq_bool a b = false -> ~ a == b.
Proof. intros a b H E. apply Qeq_bool_iff in E. congruence. Qed.

(* ------------------------------------------------------------------ tables *)
Definition R0 : mrow := mkRow 0 0 0.
Definition rw (tbl : list mrow) (i : nat) : mrow := nth i tbl R0.
Definition dn (tbl : list mrow) (i : nat) : Q := r_dist (rw tbl i).

Lemma row_at_lt : forall tbl i, (i < length tbl)%nat -> row_at tbl i = Some (rw tbl i).
Proof. intros. unfold row_at, rw. apply nth_error_nth'. assumption. Qed.

Lemma row_at_some : forall tbl i r, row_at tbl i = Some r -> (i < length tbl)%nat /\ r = rw tbl i.
Proof.
  intros tbl i r H. assert (Hl : (i < length tbl)%nat).
  { apply nth_error_Some. unfold row_at in H. congruence. }
  split; [exact Hl|]. rewrite (row_at_lt _ _ Hl) in H. congruence.
Qed.

Lemma nd_spec : forall tbl p, nondecreasing p tbl = true ->
  (forall i, (i < length tbl)%nat -> p <= dn tbl i) /\
  (forall i j, (i <= j)%nat -> (j < length tbl)%nat -> dn tbl i <= dn tbl j).
Proof.
  induction tbl as [|r rest IH]; intros p H.
  - split; intros; cbn [length] in *; lia.
  - cbn [nondecreasing] in H. apply andb_true_iff in H. destruct H as [H1 H2].
    apply Qle_bool_iff in H1. destruct (IH _ H2) as [IHa IHb]. split.
    + intros [|i] Hi; unfold dn, rw; cbn [nth]; [exact H1|].
      cbn [length] in Hi. eapply Qle_trans; [exact H1|]. apply (IHa i). lia.
    + intros [|i] [|j] Hij Hj; unfold dn, rw; cbn [nth]; cbn [length] in Hj.
      * apply Qle_refl.
      * apply (IHa j). lia.
      * lia.
      * apply (IHb i j); lia.
Qed.

Lemma last_nth : forall (tbl : list mrow), tbl <> [] -> last tbl R0 = rw tbl (length tbl - 1).
Proof.
  induction tbl as [|r rest IH]; intros Hne; [congruence|].
  destruct rest as [|r' rest'].
  - reflexivity.
  - change (last (r :: r' :: rest') R0) with (last (r' :: rest') R0).
    rewrite IH by discriminate. unfold rw.
    replace (length (r :: r' :: rest') - 1)%nat with (S (length (r' :: rest') - 1)) by (cbn [length]; lia).
    reflexivity.
Qed.

Record tbl_facts (tbl : list mrow) (kinds : list Z) : Prop := {
  tf_len : (2 <= length tbl)%nat;
  tf_zero : dn tbl 0 == 0;
  tf_mono : forall i j, (i <= j)%nat -> (j < length tbl)%nat -> dn tbl i <= dn tbl j;
  tf_idx : forall i, (i < length tbl)%nat -> (r_index (rw tbl i) < length kinds)%nat;
  tf_last : table_length tbl = dn tbl (length tbl - 1)
}.

Lemma table_ok_facts : forall tbl kinds, table_ok tbl kinds = true -> tbl_facts tbl kinds.
Proof.
  intros tbl kinds H. unfold table_ok in H.
  destruct tbl as [|r0 [|r1 rest]]; try discriminate.
  apply andb_true_iff in H. destruct H as [H H3]. apply andb_true_iff in H. destruct H as [H1 H2].
  apply Qeq_bool_iff in H1. destruct (nd_spec _ _ H2) as [Ha Hb].
  constructor.
  - cbn [length]. lia.
  - exact H1.
  - exact Hb.
  - intros i Hi. rewrite forallb_forall in H3. apply Nat.ltb_lt. apply H3. unfold rw. apply nth_In. exact Hi.
  - unfold table_length. rewrite last_nth by discriminate. reflexivity.
Qed.

(* ------------------------------------------------------------------ in_bounds *)
Lemma in_bounds_S : forall tbl c dist, (S c < length tbl)%nat ->
  in_bounds tbl (S c) dist = Some (Qle_bool (dn tbl c) dist && Qle_bool dist (dn tbl (S c))).
Proof.
  intros tbl c dist H. unfold in_bounds.
  rewrite (row_at_lt tbl c) by lia. rewrite (row_at_lt tbl (S c)) by lia. reflexivity.
Qed.

Lemma in_bounds_true : forall tbl c dist, in_bounds tbl c dist = Some true ->
  exists c', c = S c' /\ (c < length tbl)%nat /\ dn tbl c' <= dist /\ dist <= dn tbl c.
Proof.
  intros tbl [|c'] dist H; cbn [in_bounds] in H; [discriminate|].
  destruct (row_at tbl c') as [a|] eqn:Ha; cbn [obind] in H; [|discriminate].
  destruct (row_at tbl (S c')) as [b|] eqn:Hb; cbn [obind] in H; [|discriminate].
  apply row_at_some in Ha. apply row_at_some in Hb. destruct Ha as [_ ->]. destruct Hb as [Hl ->].
  inversion H as [H']. apply andb_true_iff in H'. destruct H' as [H1 H2].
  apply Qle_bool_iff in H1. apply Qle_bool_iff in H2.
  exists c'. repeat split; assumption.
Qed.

Lemma in_bounds_intro : forall tbl c dist, (1 <= c)%nat -> (c < length tbl)%nat ->
  dn tbl (c - 1) <= dist -> dist <= dn tbl c -> in_bounds tbl c dist = Some true.
Proof.
  intros tbl [|c] dist H1 H2 Ha Hb; [lia|]. rewrite in_bounds_S by exact H2.
  cbn [Nat.sub] in Ha. rewrite Nat.sub_0_r in Ha.
  rewrite (Qle_bool_true_intro _ _ Ha), (Qle_bool_true_intro _ _ Hb). reflexivity.
Qed.

(* ------------------------------------------------------------------ the four loops *)
Lemma fwd_spec : forall tbl dist fuel cursor j,
  (cursor < j)%nat -> (j < length tbl)%nat -> dist <= dn tbl j -> (j - cursor <= fuel)%nat ->
  exists c, fwd_linear fuel tbl cursor dist = Some c /\ (cursor < c)%nat /\ (c < length tbl)%nat /\
            dist <= dn tbl c /\ forall i, (cursor < i)%nat -> (i < c)%nat -> dn tbl i < dist.
Proof.
  intros tbl dist. induction fuel as [|f IH]; intros cursor j Hcj Hj Hd Hf; [lia|].
  cbn [fwd_linear]. rewrite (row_at_lt tbl (S cursor)) by lia. cbn [obind].
  fold (dn tbl (S cursor)).
  destruct (Qle_bool dist (dn tbl (S cursor))) eqn:E.
  - apply Qle_bool_iff in E. exists (S cursor). repeat split; try lia; try assumption.
  - apply Qle_bool_false' in E.
    assert (S cursor <> j). { intro Heq. subst j. apply (Qlt_not_le _ _ E Hd). }
    destruct (IH (S cursor) j) as [c [Hc [H1 [H2 [H3 H4]]]]]; try lia; try assumption.
    exists c. repeat split; try lia; try assumption.
    intros i Hi1 Hi2. destruct (Nat.eq_dec i (S cursor)) as [->|Hne]; [exact E|].
    apply H4; lia.
Qed.

Lemma bwd_spec : forall tbl dist fuel cursor,
  (1 <= cursor)%nat -> (cursor <= length tbl)%nat -> (cursor <= fuel)%nat ->
  exists c, bwd_linear fuel tbl cursor dist = Some c /\ (c < cursor)%nat /\
            (c = 0%nat \/ dn tbl (c - 1) < dist) /\
            forall i, (c < i)%nat -> (i < cursor)%nat -> dist <= dn tbl (i - 1).
Proof.
  intros tbl dist. induction fuel as [|f IH]; intros cursor H1 Hl Hf; [lia|].
  cbn [bwd_linear]. destruct cursor as [|c]; [lia|]. destruct c as [|c'].
  - exists 0%nat. repeat split; try lia.
  - rewrite (row_at_lt tbl c') by lia. cbn [obind]. fold (dn tbl c').
    destruct (Qltb (dn tbl c') dist) eqn:E.
    + apply Qltb_true in E. exists (S c'). repeat split; try lia.
      right. cbn [Nat.sub]. rewrite Nat.sub_0_r. exact E.
    + apply Qltb_false in E.
      destruct (IH (S c')) as [c [Hc [Ha [Hb Hd]]]]; try lia.
      exists c. repeat split; try lia; try assumption.
      intros i Hi1 Hi2. destruct (Nat.eq_dec i (S c')) as [->|Hne].
      * cbn [Nat.sub]. rewrite Nat.sub_0_r. exact E.
      * apply Hd; lia.
Qed.

Lemma mid_bounds : forall l r, (l < r)%nat -> (l <= (l + r) / 2)%nat /\ ((l + r) / 2 < r)%nat.
Proof.
  intros l r H. split.
  - apply Nat.div_le_lower_bound; lia.
  - apply Nat.div_lt_upper_bound; lia.
Qed.

Lemma pp_spec : forall tbl dist,
  (forall i j, (i <= j)%nat -> (j < length tbl)%nat -> dn tbl i <= dn tbl j) ->
  forall fuel l r, (l <= r)%nat -> (r <= length tbl)%nat -> (r - l < fuel)%nat ->
  exists p, partition_point fuel tbl l r dist = Some p /\ (l <= p)%nat /\ (p <= r)%nat /\
            (forall i, (l <= i)%nat -> (i < p)%nat -> dn tbl i < dist) /\
            (forall i, (p <= i)%nat -> (i < r)%nat -> dist <= dn tbl i).
Proof.
  intros tbl dist Hmono. induction fuel as [|f IH]; intros l r Hlr Hr Hf; [lia|].
  cbn [partition_point]. destruct (Nat.ltb l r) eqn:E.
  - apply Nat.ltb_lt in E. destruct (mid_bounds l r E) as [Hm1 Hm2].
    set (mid := ((l + r) / 2)%nat) in *. cbv zeta.
    rewrite (row_at_lt tbl mid) by lia. cbn [obind]. fold (dn tbl mid).
    destruct (Qltb (dn tbl mid) dist) eqn:Em.
    + apply Qltb_true in Em.
      destruct (IH (S mid) r) as [p [Hp [H1 [H2 [H3 H4]]]]]; try lia.
      exists p. repeat split; try lia; try assumption.
      intros i Hi1 Hi2. destruct (Nat.le_gt_cases i mid) as [Hle|Hgt].
      * eapply Qle_lt_trans; [apply (Hmono i mid); lia | exact Em].
      * apply H3; lia.
    + apply Qltb_false in Em.
      destruct (IH l mid) as [p [Hp [H1 [H2 [H3 H4]]]]]; try lia.
      exists p. repeat split; try lia; try assumption.
      intros i Hi1 Hi2. destruct (Nat.lt_ge_cases i mid) as [Hlt|Hge].
      * apply H4; lia.
      * eapply Qle_trans; [exact Em | apply (Hmono mid i); lia].
  - apply Nat.ltb_ge in E. exists l. repeat split; try lia; intros; lia.
Qed.

(* ------------------------------------------------------------------ move_cursor *)
(* what the cursor returned by move_cursor satisfies; determines it uniquely *)
Definition mc_post (tbl : list mrow) (cursor : nat) (dist : Q) (c : nat) : Prop :=
  (dist == 0 /\ c = 1%nat) \/
  (~ dist == 0 /\ in_bounds tbl cursor dist = Some true /\ c = cursor) \/
  (~ dist == 0 /\ in_bounds tbl cursor dist = Some false /\
   (1 <= c)%nat /\ (c < length tbl)%nat /\ dn tbl (c - 1) < dist /\ dist <= dn tbl c).

Lemma move_cursor_spec : forall tbl kinds cursor dist binary,
  table_ok tbl kinds = true -> (cursor < length tbl)%nat ->
  0 <= dist -> dist <= table_length tbl ->
  exists c, move_cursor tbl cursor dist binary = Some c /\ mc_post tbl cursor dist c.
Proof.
  intros tbl kinds cursor dist binary Hok Hcur H0 Hlen.
  destruct (table_ok_facts _ _ Hok) as [Tlen Tzero Tmono Tidx Tlast].
  rewrite Tlast in Hlen. set (n := length tbl) in *.
  unfold move_cursor. destruct (Qeq_bool dist 0) eqn:Ez.
  - apply Qeq_bool_iff in Ez. exists 1%nat. split; [reflexivity|]. left. split; [exact Ez|reflexivity].
  - apply Qeq_bool_false in Ez. assert (Hpos : 0 < dist).
    { apply Qnot_le_lt. intro Hle. apply Ez. apply Qle_antisym; assumption. }
    assert (Hib : exists ib, in_bounds tbl cursor dist = Some ib).
    { destruct cursor as [|c]; [exists false; reflexivity|]. rewrite in_bounds_S by exact Hcur. eauto. }
    destruct Hib as [ib Hib]. rewrite Hib. cbn [obind]. destruct ib.
    + exists cursor. split; [reflexivity|]. right; left. auto.
    + rewrite (row_at_lt tbl cursor) by exact Hcur. cbn [obind]. fold (dn tbl cursor). fold n.
      destruct (Qltb (dn tbl cursor) dist) eqn:Ecur.
      * (* forward *)
        apply Qltb_true in Ecur.
        assert (Hcn : (S cursor <= n - 1)%nat).
        { destruct (Nat.eq_dec cursor (n - 1)) as [->|Hne]; [|lia].
          exfalso. apply (Qlt_not_le _ _ Ecur Hlen). }
        destruct binary.
        -- destruct (pp_spec tbl dist Tmono (S n) (S cursor) n) as [p [Hp [H1 [H2 [H3 H4]]]]]; try lia.
           exists p. split; [exact Hp|]. right; right.
           assert (Hpn : (p < n)%nat).
           { destruct (Nat.eq_dec p n) as [->|Hne]; [|lia]. exfalso.
             apply (Qlt_not_le _ _ (H3 (n - 1)%nat ltac:(lia) ltac:(lia)) Hlen). }
           repeat split; try assumption; try lia.
           ++ destruct (Nat.eq_dec (p - 1) cursor) as [->|Hne]; [exact Ecur|]. apply H3; lia.
           ++ apply H4; lia.
        -- destruct (fwd_spec tbl dist (S n) cursor (n - 1)%nat) as [c [Hc [H1 [H2 [H3 H4]]]]];
             try lia; try assumption.
           exists c. split; [exact Hc|]. right; right.
           repeat split; try assumption; try lia.
           destruct (Nat.eq_dec (c - 1) cursor) as [->|Hne]; [exact Ecur|]. apply H4; lia.
      * (* backward *)
        apply Qltb_false in Ecur.
        assert (Hprev : (1 <= cursor)%nat /\ dist < dn tbl (cursor - 1)).
        { destruct cursor as [|c].
          - exfalso. rewrite Tzero in Ecur. apply (Qlt_not_le _ _ Hpos Ecur).
          - split; [lia|]. rewrite in_bounds_S in Hib by exact Hcur. inversion Hib as [Hb].
            rewrite (Qle_bool_true_intro _ _ Ecur), andb_true_r in Hb.
            cbn [Nat.sub]. rewrite Nat.sub_0_r. apply Qle_bool_false'; exact Hb. }
        destruct Hprev as [Hc1 Hprev].
        destruct binary.
        -- destruct (pp_spec tbl dist Tmono (S n) 0%nat cursor) as [p [Hp [H1 [H2 [H3 H4]]]]]; try lia.
           exists p. split; [exact Hp|]. right; right.
           assert (Hpc : (p < cursor)%nat).
           { destruct (Nat.eq_dec p cursor) as [->|Hne]; [|lia]. exfalso.
             apply (Qlt_irrefl dist). eapply Qlt_trans; [exact Hprev|]. apply H3; lia. }
           assert (Hp1 : (1 <= p)%nat).
           { destruct p as [|p]; [|lia]. exfalso.
             pose proof (H4 0%nat ltac:(lia) ltac:(lia)) as Hz. rewrite Tzero in Hz.
             apply (Qlt_not_le _ _ Hpos Hz). }
           repeat split; try assumption; try lia.
           ++ apply H3; lia.
           ++ apply H4; lia.
        -- destruct (bwd_spec tbl dist (S n) cursor) as [c [Hc [Ha [Hb Hd]]]]; try lia.
           exists c. split; [exact Hc|]. right; right.
           assert (Hc0 : (1 <= c)%nat).
           { destruct c as [|c]; [|lia]. exfalso.
             destruct (Nat.eq_dec cursor 1) as [->|Hne].
             - cbn [Nat.sub] in Hprev. rewrite Tzero in Hprev. apply (Qlt_irrefl 0). eapply Qlt_trans; eassumption.
             - pose proof (Hd 1%nat ltac:(lia) ltac:(lia)) as Hz. cbn [Nat.sub] in Hz. rewrite Tzero in Hz.
               apply (Qlt_not_le _ _ Hpos Hz). }
           destruct Hb as [Hb|Hb]; [lia|].
           repeat split; try assumption; try lia.
           destruct (Nat.eq_dec (S c) cursor) as [He|Hne].
           ++ apply Qlt_le_weak. replace c with (cursor - 1)%nat by lia. exact Hprev.
           ++ pose proof (Hd (S c) ltac:(lia) ltac:(lia)) as Hz. cbn [Nat.sub] in Hz.
              rewrite Nat.sub_0_r in Hz. exact Hz.
Qed.

Lemma mc_post_bounds : forall tbl kinds cursor dist c,
  table_ok tbl kinds = true -> 0 <= dist -> mc_post tbl cursor dist c ->
  (1 <= c)%nat /\ (c < length tbl)%nat /\ dn tbl (c - 1) <= dist /\ dist <= dn tbl c.
Proof.
  intros tbl kinds cursor dist c Hok H0 H.
  destruct (table_ok_facts _ _ Hok) as [Tlen Tzero Tmono Tidx Tlast].
  destruct H as [[Hz ->]|[[Hz [Hib ->]]|[Hz [Hib [H1 [H2 [H3 H4]]]]]]].
  - repeat split; try lia.
    + cbn [Nat.sub]. rewrite Tzero, Hz. apply Qle_refl.
    + rewrite Hz. rewrite <- Tzero. apply Tmono; lia.
  - apply in_bounds_true in Hib. destruct Hib as [c' [-> [Hl [Ha Hb]]]].
    cbn [Nat.sub]. rewrite Nat.sub_0_r. repeat split; try lia; assumption.
  - repeat split; try assumption. apply Qlt_le_weak; exact H3.
Qed.

Lemma move_cursor_in_bounds : forall tbl kinds cursor dist binary,
  table_ok tbl kinds = true -> (cursor < length tbl)%nat ->
  0 <= dist -> dist <= table_length tbl ->
  exists c, move_cursor tbl cursor dist binary = Some c /\ (c < length tbl)%nat /\
            in_bounds tbl c dist = Some true.
Proof.
  intros tbl kinds cursor dist binary Hok Hcur H0 Hlen.
  destruct (move_cursor_spec tbl kinds cursor dist binary Hok Hcur H0 Hlen) as [c [Hc Hpost]].
  destruct (mc_post_bounds _ _ _ _ _ Hok H0 Hpost) as [H1 [H2 [H3 H4]]].
  exists c. split; [exact Hc|]. split; [exact H2|]. apply in_bounds_intro; assumption.
Qed.

Lemma mc_post_unique : forall tbl kinds cursor dist c1 c2,
  table_ok tbl kinds = true ->
  mc_post tbl cursor dist c1 -> mc_post tbl cursor dist c2 -> c1 = c2.
Proof.
  intros tbl kinds cursor dist c1 c2 Hok P1 P2.
  destruct (table_ok_facts _ _ Hok) as [Tlen Tzero Tmono Tidx Tlast].
  destruct P1 as [[Hz1 ->]|[[Hz1 [Hib1 ->]]|[Hz1 [Hib1 [A1 [A2 [A3 A4]]]]]]];
  destruct P2 as [[Hz2 ->]|[[Hz2 [Hib2 ->]]|[Hz2 [Hib2 [B1 [B2 [B3 B4]]]]]]];
    try reflexivity; try contradiction; try congruence.
  destruct (Nat.lt_trichotomy c1 c2) as [Hlt|[Heq|Hgt]]; [|exact Heq|]; exfalso.
  - apply (Qlt_irrefl dist). eapply Qle_lt_trans; [exact A4|].
    eapply Qle_lt_trans; [apply (Tmono c1 (c2 - 1)%nat); lia | exact B3].
  - apply (Qlt_irrefl dist). eapply Qle_lt_trans; [exact B4|].
    eapply Qle_lt_trans; [apply (Tmono c2 (c1 - 1)%nat); lia | exact A3].
Qed.

Lemma branches_agree : forall tbl kinds cursor dist,
  table_ok tbl kinds = true -> (cursor < length tbl)%nat ->
  0 <= dist -> dist <= table_length tbl ->
  move_cursor tbl cursor dist true = move_cursor tbl cursor dist false.
Proof.
  intros tbl kinds cursor dist Hok Hcur H0 Hlen.
  destruct (move_cursor_spec tbl kinds cursor dist true Hok Hcur H0 Hlen) as [c1 [Hc1 P1]].
  destruct (move_cursor_spec tbl kinds cursor dist false Hok Hcur H0 Hlen) as [c2 [Hc2 P2]].
  rewrite Hc1, Hc2. f_equal. eapply mc_post_unique; eassumption.
Qed.

(* ------------------------------------------------------------------ uniqueness of the cursor *)
Lemma strict_mono : forall tbl,
  (forall i a b, nth_error tbl i = Some a -> nth_error tbl (S i) = Some b -> r_dist a < r_dist b) ->
  forall j i, (i <= j)%nat -> (j < length tbl)%nat -> dn tbl i <= dn tbl j.
Proof.
  intros tbl Hs. induction j as [|j IH]; intros i Hij Hj.
  - replace i with 0%nat by lia. apply Qle_refl.
  - destruct (Nat.eq_dec i (S j)) as [->|Hne]; [apply Qle_refl|].
    eapply Qle_trans; [apply (IH i); lia|]. apply Qlt_le_weak.
    apply (Hs j); [apply (row_at_lt tbl j); lia | apply (row_at_lt tbl (S j)); lia].
Qed.

Lemma in_bounds_unique : forall tbl kinds c1 c2 dist,
  table_ok tbl kinds = true ->
  (forall i a b, nth_error tbl i = Some a -> nth_error tbl (S i) = Some b -> r_dist a < r_dist b) ->
  (forall r, In r tbl -> ~ r_dist r == dist) ->
  in_bounds tbl c1 dist = Some true -> in_bounds tbl c2 dist = Some true -> c1 = c2.
Proof.
  intros tbl kinds c1 c2 dist _ Hs Hne H1 H2.
  pose proof (strict_mono tbl Hs) as Hm.
  apply in_bounds_true in H1. destruct H1 as [a [-> [La [A1 A2]]]].
  apply in_bounds_true in H2. destruct H2 as [b [-> [Lb [B1 B2]]]].
  assert (Hneq : forall i, (i < length tbl)%nat -> ~ dn tbl i == dist).
  { intros i Hi. apply Hne. unfold rw. apply nth_In. exact Hi. }
  assert (A1' : dn tbl a < dist).
  { apply Qle_lt_or_eq in A1. destruct A1 as [A1|A1]; [exact A1|]. exfalso. apply (Hneq a); [lia|exact A1]. }
  assert (B1' : dn tbl b < dist).
  { apply Qle_lt_or_eq in B1. destruct B1 as [B1|B1]; [exact B1|]. exfalso. apply (Hneq b); [lia|exact B1]. }
  destruct (Nat.lt_trichotomy a b) as [Hlt|[Heq|Hgt]]; [|congruence|]; exfalso.
  - apply (Qlt_irrefl dist). eapply Qle_lt_trans; [exact A2|].
    eapply Qle_lt_trans; [apply (Hm b (S a)); lia | exact B1'].
  - apply (Qlt_irrefl dist). eapply Qle_lt_trans; [exact B2|].
    eapply Qle_lt_trans; [apply (Hm a (S b)); lia | exact A1'].
Qed.
