(* C20 - proofs about the hatching model (Model/Hatch.v). *)
From Coq Require Import QArith Qminmax Permutation Sorted Lqa.
From LV Require Import Base.Prelude Model.Bezier Model.Hatch.
From LV Require Export Proofs.C20_Sort.
Open Scope Q_scope.

(* ------------------------------------------------------------ no edges *)
Theorem no_edges_no_output : forall solve_x fadd fsub uvx uvy offsets,
  hatch solve_x fadd fsub [] uvx uvy offsets = [].
Proof. reflexivity. Qed.

(* ------------------------------------------------------------ events *)
Lemma add_edge_same edges a b : peqb a b = true -> add_edge edges a b = edges.
Proof. unfold add_edge. intros ->. reflexivity. Qed.

Lemma sub_edges_points edges first : forall pts cur,
  peqb first cur = true -> Forall (fun q => peqb first q = true) pts ->
  sub_edges_from edges cur first pts = edges.
Proof.
  induction pts as [|p r IH]; intros cur Hc Hp; cbn [sub_edges_from].
  - apply add_edge_same. rewrite peqb_sym. assumption.
  - inversion Hp; subst. rewrite add_edge_same.
    + apply IH; assumption.
    + eapply peqb_trans; [rewrite peqb_sym; eassumption | assumption].
Qed.

Theorem points_give_no_events : forall p : hpath,
  Forall (fun s => Forall (fun q => peqb (fst s) q = true) (snd s)) p -> build_events p = [].
Proof.
  intros p Hp. unfold build_events.
  assert (H : forall acc,
    fold_left (fun acc s => sub_edges_from acc (fst s) (fst s) (snd s)) p acc = acc).
  { induction Hp as [|s r Hs _ IH]; intros acc; cbn [fold_left]; [reflexivity|].
    rewrite sub_edges_points; [apply IH | apply peqb_true; split; reflexivity | assumption]. }
  rewrite H. reflexivity.
Qed.

Definition oriented (e : hedge) : Prop :=
  pos_gt (fst e) (snd e) = false /\ peqb (fst e) (snd e) = false.

Lemma add_edge_oriented edges a b : Forall oriented edges -> Forall oriented (add_edge edges a b).
Proof.
  intros H. unfold add_edge. destruct (peqb a b) eqn:E; [assumption|].
  destruct (pos_gt a b) eqn:G; apply Forall_app; (split; [assumption|]);
    (apply Forall_cons; [|apply Forall_nil]); unfold oriented; cbn [fst snd].
  - split; [apply pos_gt_asym; assumption | rewrite peqb_sym; assumption].
  - split; assumption.
Qed.

Lemma sub_edges_oriented first : forall pts edges cur,
  Forall oriented edges -> Forall oriented (sub_edges_from edges cur first pts).
Proof.
  induction pts as [|p r IH]; intros edges cur H; cbn [sub_edges_from].
  - apply add_edge_oriented; assumption.
  - apply IH. apply add_edge_oriented; assumption.
Qed.

Lemma raw_events_oriented (p : hpath) : forall acc, Forall oriented acc ->
  Forall oriented (fold_left (fun acc s => sub_edges_from acc (fst s) (fst s) (snd s)) p acc).
Proof.
  induction p as [|s r IH]; intros acc H; cbn [fold_left]; [assumption|].
  apply IH. apply sub_edges_oriented; assumption.
Qed.

Theorem events_oriented : forall p e, In e (build_events p) ->
  pos_gt (fst e) (snd e) = false /\ peqb (fst e) (snd e) = false.
Proof.
  intros p e Hin. unfold build_events in Hin.
  eapply Permutation_in in Hin; [|apply sort_by_perm].
  pose proof (raw_events_oriented p [] (Forall_nil _)) as H.
  rewrite Forall_forall in H. exact (H e Hin).
Qed.

Theorem events_sorted : forall p,
  StronglySorted (fun a b => pos_gt (fst a) (fst b) = false) (build_events p).
Proof.
  intros p. unfold build_events.
  apply (sort_by_sorted (fun a b : hedge => pos_gt (fst a) (fst b))).
  - intros a b c. apply pos_le_trans.
  - intros a b. apply pos_gt_asym.
Qed.

(* ------------------------------------------------------------ one row *)
Definition live (y : Q) (e : hedge) : bool := negb (Qle_bool (py (snd e)) y).

Section Line.
Variable solve_x : hedge -> Q -> Q.
Variable fsub : Q -> Q -> Q.

Lemma line_go_pairs y uvx uvy row : forall act inside prev,
  map (fun s => (hs_ax s, hs_bx s)) (line_go solve_x fsub y uvx uvy row act inside prev)
  = if inside then pair_up (prev :: map (fun e => solve_x e y) (filter (live y) act))
    else pair_up (map (fun e => solve_x e y) (filter (live y) act)).
Proof.
  induction act as [|e r IH]; intros inside prev; cbn [line_go filter map].
  - destruct inside; reflexivity.
  - destruct (Qle_bool (py (snd e)) y) eqn:E.
    + assert (L : live y e = false) by (unfold live; rewrite E; reflexivity). rewrite L. apply IH.
    + assert (L : live y e = true) by (unfold live; rewrite E; reflexivity). rewrite L. cbn [map].
      rewrite map_app, IH. destruct inside; cbn [negb map app pair_up hs_ax hs_bx]; reflexivity.
Qed.

Lemma line_go_uv y uvx uvy row : forall act inside prev s,
  In s (line_go solve_x fsub y uvx uvy row act inside prev) ->
  hs_row s = row /\ hs_y s = y /\ hs_v s = fsub y uvy
  /\ hs_au s = fsub (hs_ax s) uvx /\ hs_bu s = fsub (hs_bx s) uvx.
Proof.
  induction act as [|e r IH]; intros inside prev s; cbn [line_go]; [intros []|].
  destruct (Qle_bool (py (snd e)) y); [apply IH|].
  intros H. apply in_app_or in H. destruct H as [H|H]; [|eapply IH; eassumption].
  destruct inside; [|destruct H]. destruct H as [<-|[]]. cbn. repeat split; reflexivity.
Qed.

Theorem row_pairs : forall y uvx uvy row act,
  let sorted := fst (hatch_line solve_x fsub y uvx uvy row act) in
  map (fun s => (hs_ax s, hs_bx s)) (snd (hatch_line solve_x fsub y uvx uvy row act))
  = pair_up (map (fun e => solve_x e y) (filter (fun e => negb (Qle_bool (py (snd e)) y)) sorted))
  /\ Permutation sorted act
  /\ StronglySorted (fun a b => Qltb (solve_x b y) (solve_x a y) = false) sorted.
Proof.
  intros y uvx uvy row act. unfold hatch_line; cbn [fst snd]. split; [|split].
  - apply (line_go_pairs y uvx uvy row _ false 0).
  - apply sort_by_perm.
  - apply (sort_by_sorted (fun a b : hedge => Qltb (solve_x b y) (solve_x a y))).
    + intros a b c. rewrite !Qltb_false. intros; lra.
    + intros a b. rewrite Qltb_true, Qltb_false. intros; lra.
Qed.

Theorem row_uv : forall y uvx uvy row act s,
  In s (snd (hatch_line solve_x fsub y uvx uvy row act)) ->
  hs_row s = row /\ hs_y s = y /\ hs_v s = fsub y uvy /\ hs_au s = fsub (hs_ax s) uvx /\ hs_bu s = fsub (hs_bx s) uvx.
Proof.
  intros y uvx uvy row act s. unfold hatch_line; cbn [snd]. apply line_go_uv.
Qed.
End Line.

(* ------------------------------------------------------------ list helpers *)
Lemma filter_perm {A} (f : A -> bool) l l' : Permutation l l' -> Permutation (filter f l) (filter f l').
Proof.
  induction 1 as [|x l l' _ IH|x y l|l l' l'' _ IH1 _ IH2]; cbn [filter].
  - constructor.
  - destruct (f x); [constructor|]; assumption.
  - destruct (f x), (f y); try reflexivity. apply perm_swap.
  - etransitivity; eassumption.
Qed.

Lemma filter_filter_same {A} (c keep : A -> bool) l :
  (forall a, In a l -> keep a = false -> c a = false) -> filter c (filter keep l) = filter c l.
Proof.
  induction l as [|a r IH]; intros H; cbn [filter]; [reflexivity|].
  assert (IH' : filter c (filter keep r) = filter c r) by (apply IH; intros; apply H; [right|]; assumption).
  destruct (keep a) eqn:K; cbn [filter].
  - rewrite IH'. reflexivity.
  - rewrite (H a (or_introl eq_refl) K). assumption.
Qed.

Lemma filter_none {A} (f : A -> bool) l : (forall a, In a l -> f a = false) -> filter f l = [].
Proof.
  induction l as [|a r IH]; intros H; cbn [filter]; [reflexivity|].
  rewrite (H a (or_introl eq_refl)). apply IH. intros; apply H; right; assumption.
Qed.

Lemma skipn_cons_firstn {A} : forall n (l : list A) o rest, skipn n l = o :: rest ->
  firstn (S n) l = firstn n l ++ [o] /\ skipn (S n) l = rest.
Proof.
  induction n as [|n IH]; intros l o rest H.
  - cbn [skipn] in H. subst l. split; reflexivity.
  - destruct l as [|a l]; [discriminate|]. cbn [skipn] in H. destruct (IH l o rest H) as [H1 H2].
    split; [|exact H2]. change (firstn (S (S n)) (a :: l)) with (a :: firstn (S n) l). rewrite H1. reflexivity.
Qed.

Lemma nth_error_snoc {A} (l : list A) x k v : nth_error (l ++ [x]) k = Some v ->
  nth_error l k = Some v \/ (k = length l /\ v = x).
Proof.
  intros H. destruct (Nat.lt_ge_cases k (length l)) as [Hk|Hk].
  - left. rewrite nth_error_app1 in H; assumption.
  - right. rewrite nth_error_app2 in H by assumption.
    destruct (k - length l)%nat eqn:E.
    + cbn in H. inversion H. split; [lia | reflexivity].
    + cbn in H. destruct n; discriminate.
Qed.

Lemma sorted_app_r {A} (R : A -> A -> Prop) l1 l2 : StronglySorted R (l1 ++ l2) -> StronglySorted R l2.
Proof.
  induction l1 as [|a l1 IH]; cbn [app]; [auto|]. intros H. inversion H; subst. auto.
Qed.

(* ------------------------------------------------------------ the row loop *)
Section Run.
Variable solve_x : hedge -> Q -> Q.
Variable fadd : Q -> Q -> Q.
Variable fsub : Q -> Q -> Q.

(* invariant principle for [rows_until]: the new active list is some permutation of the old *)
Lemma rows_until_inv (I : hstate -> Prop) limit uvx uvy :
  (forall s act' segs, I s -> h_stop s = false -> Qltb (h_y s) limit = true -> h_offs s = [] ->
     Permutation act' (h_act s) ->
     I (mkH (h_y s) (h_ymax s) (h_row s + 1)%Z act' [] (h_out s ++ segs) true
            (h_rows s ++ [(h_y s, h_act s)]))) ->
  (forall s act' segs o rest, I s -> h_stop s = false -> Qltb (h_y s) limit = true ->
     h_offs s = o :: rest -> Permutation act' (h_act s) ->
     I (mkH (fadd (h_y s) o) (h_ymax s) (h_row s + 1)%Z act' rest (h_out s ++ segs) (Qle_bool o 0)
            (h_rows s ++ [(h_y s, h_act s)]))) ->
  forall fuel s, I s -> I (rows_until solve_x fadd fsub fuel limit uvx uvy s).
Proof.
  intros H1 H2. induction fuel as [|f IH]; intros s Hs; cbn [rows_until]; [assumption|].
  destruct (h_stop s) eqn:Es; [assumption|].
  destruct (Qltb (h_y s) limit) eqn:El; [|assumption].
  unfold hatch_line. destruct (h_offs s) as [|o rest] eqn:Eo.
  - apply H1; auto. apply sort_by_perm.
  - apply IH. apply H2; auto. apply sort_by_perm.
Qed.

(* with enough fuel the loop only returns when stopped or when the limit is reached *)
Lemma rows_until_done limit uvx uvy : forall fuel s, (length (h_offs s) < fuel)%nat ->
  let s' := rows_until solve_x fadd fsub fuel limit uvx uvy s in
  h_stop s' = true \/ Qltb (h_y s') limit = false.
Proof.
  induction fuel as [|f IH]; intros s Hf; [lia|]. cbn [rows_until].
  destruct (h_stop s) eqn:Es; [left; assumption|].
  destruct (Qltb (h_y s) limit) eqn:El; [|right; assumption].
  unfold hatch_line. destruct (h_offs s) as [|o rest] eqn:Eo.
  - left. reflexivity.
  - apply IH. cbn [h_offs length] in *. lia.
Qed.

(* ---------------------------------------------------------- row positions *)
Section Positions.
Variable offsets : list Q.
Variable yf : Q.
Let F (k : nat) : Q := fold_left fadd (firstn (S k) offsets) yf.

Definition pos_inv (s : hstate) : Prop :=
  (forall k y act, nth_error (h_rows s) k = Some (y, act) -> y = F k)
  /\ (h_stop s = false ->
      h_y s = F (length (h_rows s)) /\ h_offs s = skipn (S (length (h_rows s))) offsets).

Lemma pos_inv_rows_until fuel limit uvx uvy s :
  pos_inv s -> pos_inv (rows_until solve_x fadd fsub fuel limit uvx uvy s).
Proof.
  apply rows_until_inv.
  - intros s0 act' segs [Hr Hy] Es _ _ _. destruct (Hy Es) as [Hy1 Hy2].
    split; cbn [h_rows h_stop]; [|discriminate].
    intros k y act Hk. apply nth_error_snoc in Hk. destruct Hk as [Hk|[-> Hk]]; [eauto|].
    inversion Hk; subst. assumption.
  - intros s0 act' segs o rest [Hr Hy] Es _ Eo _. destruct (Hy Es) as [Hy1 Hy2].
    rewrite Eo in Hy2. symmetry in Hy2. apply skipn_cons_firstn in Hy2. destruct Hy2 as [Hf Hs].
    split; cbn [h_rows h_stop h_y h_offs].
    + intros k y act Hk. apply nth_error_snoc in Hk. destruct Hk as [Hk|[-> Hk]]; [eauto|].
      inversion Hk; subst. assumption.
    + intros _. rewrite app_length. cbn [length]. rewrite Nat.add_1_r. split; [|symmetry; exact Hs].
      unfold F at 1. rewrite Hf, fold_left_app. cbn [fold_left]. rewrite Hy1. reflexivity.
Qed.
End Positions.

Theorem row_positions : forall first rest uvx uvy offsets k y act,
  nth_error (hatch_rows solve_x fadd fsub (first :: rest) uvx uvy offsets) k = Some (y, act) ->
  y = fold_left fadd (firstn (S k) offsets) (py (fst first)).
Proof.
  intros first rest uvx uvy offsets k y act. unfold hatch_rows, hatch_run.
  destruct offsets as [|o0 offs]; [destruct k; discriminate|].
  set (offsets := o0 :: offs). set (yf := py (fst first)).
  set (fuel := S (length offsets)).
  set (step := fun s e => if h_stop s then s else
     let s0 := rows_until solve_x fadd fsub fuel (py (fst e)) uvx uvy s in
     if h_stop s0 then s0 else
     mkH (h_y s0) (Qmax (h_ymax s0) (py (snd e))) (h_row s0) (update_sweep_line (h_act s0) e)
         (h_offs s0) (h_out s0) false (h_rows s0)).
  set (s0 := mkH (fadd yf o0) (fadd yf o0) 0%Z [] offs [] false []).
  assert (H0 : pos_inv offsets yf s0).
  { split; cbn [h_rows h_stop h_y h_offs length].
    - intros k0 ? ? Hk. destruct k0; discriminate.
    - intros _. split; reflexivity. }
  assert (Hstep : forall s e, pos_inv offsets yf s -> pos_inv offsets yf (step s e)).
  { intros s e Hs. unfold step. destruct (h_stop s); [assumption|].
    pose proof (pos_inv_rows_until offsets yf fuel (py (fst e)) uvx uvy s Hs) as H1.
    destruct (h_stop (rows_until solve_x fadd fsub fuel (py (fst e)) uvx uvy s)) eqn:E1; [assumption|].
    destruct H1 as [Hr Hy]. split; cbn [h_rows h_stop h_y h_offs]; [assumption|]. intros _. apply Hy. assumption. }
  assert (Hfold : forall l s, pos_inv offsets yf s -> pos_inv offsets yf (fold_left step l s)).
  { induction l as [|e l IH]; intros s Hs; cbn [fold_left]; [assumption|]. apply IH, Hstep, Hs. }
  specialize (Hfold (first :: rest) s0 H0).
  set (sf := fold_left step (first :: rest) s0) in *.
  assert (Hfin : pos_inv offsets yf (if h_stop sf then sf else rows_until solve_x fadd fsub fuel (h_ymax sf) uvx uvy sf)).
  { destruct (h_stop sf); [assumption|]. apply pos_inv_rows_until; assumption. }
  intros Hk. destruct Hfin as [Hr _]. exact (Hr k y act Hk).
Qed.

(* ---------------------------------------------------------- the active set *)
Section Active.
Hypothesis fadd_mono : forall a o, 0 < o -> a <= fadd a o.
Variable events : list hedge.
Variable FUEL : nat.

Definition row_ok (r : Q * list hedge) : Prop :=
  Permutation (filter (crosses (fst r)) (snd r)) (filter (crosses (fst r)) events)
  /\ (forall e, In e (snd r) -> negb (Qle_bool (py (snd e)) (fst r)) = true -> crosses (fst r) e = true).

Definition act_inv (proc : list hedge) (s : hstate) : Prop :=
  Forall row_ok (h_rows s)
  /\ (length (h_offs s) < FUEL)%nat
  /\ (h_stop s = false ->
      (forall y, h_y s <= y -> Permutation (filter (crosses y) (h_act s)) (filter (crosses y) proc))
      /\ (forall e, In e (h_act s) -> py (fst e) <= h_y s)).

Lemma crosses_intro y e : py (fst e) <= y -> negb (Qle_bool (py (snd e)) y) = true -> crosses y e = true.
Proof.
  intros H1 H2. unfold crosses. apply andb_true_iff. split.
  - apply Qle_bool_iff. assumption.
  - exact H2.
Qed.

Lemma crosses_below y e : y < py (fst e) -> crosses y e = false.
Proof.
  intros H. unfold crosses. apply andb_false_iff. left. apply Qle_bool_false. assumption.
Qed.

Lemma crosses_above y e : py (snd e) <= y -> crosses y e = false.
Proof.
  intros H. unfold crosses. apply andb_false_iff. right. apply Qltb_false. assumption.
Qed.

Lemma act_inv_rows_until proc rem limit uvx uvy fuel s :
  events = proc ++ rem -> (forall e, In e rem -> limit <= py (fst e)) ->
  act_inv proc s -> act_inv proc (rows_until solve_x fadd fsub fuel limit uvx uvy s).
Proof.
  intros Hev Hrem.
  assert (Hrow : forall s0, act_inv proc s0 -> h_stop s0 = false -> Qltb (h_y s0) limit = true ->
             Forall row_ok (h_rows s0 ++ [(h_y s0, h_act s0)])).
  { intros s0 (Hr & Hf & Hi) Es El. destruct (Hi Es) as [Hp Ha]. apply Qltb_true in El.
    apply Forall_app. split; [assumption|]. constructor; [|constructor].
    split; cbn [fst snd].
    - rewrite Hev, filter_app, (filter_none (crosses (h_y s0)) rem), app_nil_r.
      + apply Hp. apply Qle_refl.
      + intros a Ha'. apply crosses_below. specialize (Hrem a Ha'). lra.
    - intros e He Hl. apply crosses_intro; auto. }
  apply rows_until_inv.
  - intros s0 act' segs Hs Es El Eo Hperm. pose proof (Hrow s0 Hs Es El) as Hr.
    destruct Hs as (_ & Hf & _).
    split; [|split]; cbn [h_rows h_offs h_stop]; [assumption | cbn [length]; lia | discriminate].
  - intros s0 act' segs o rest Hs Es El Eo Hperm. pose proof (Hrow s0 Hs Es El) as Hr.
    destruct Hs as (_ & Hf & Hi). destruct (Hi Es) as [Hp Ha].
    split; [|split]; cbn [h_rows h_offs h_stop h_y h_act]; [assumption | rewrite Eo in Hf; cbn [length] in Hf; lia |].
    intros Eo0. apply Qle_bool_false in Eo0. pose proof (fadd_mono (h_y s0) o Eo0) as Hm. split.
    + intros y Hy. rewrite (filter_perm (crosses y) _ _ Hperm). apply Hp. lra.
    + intros e He. eapply Permutation_in in He; [|exact Hperm]. specialize (Ha e He). lra.
Qed.

Lemma act_inv_step proc e rem uvx uvy s :
  (S (length (h_offs s)) <= FUEL)%nat ->
  events = proc ++ e :: rem ->
  StronglySorted (fun a b => pos_gt (fst a) (fst b) = false) events ->
  act_inv proc s ->
  let s1 := rows_until solve_x fadd fsub FUEL (py (fst e)) uvx uvy s in
  act_inv (proc ++ [e])
    (if h_stop s then s
     else if h_stop s1 then s1
     else mkH (h_y s1) (Qmax (h_ymax s1) (py (snd e))) (h_row s1) (update_sweep_line (h_act s1) e)
              (h_offs s1) (h_out s1) false (h_rows s1)).
Proof.
  intros _ Hev Hsort Hs s1.
  destruct (h_stop s) eqn:Es.
  { destruct Hs as (Hr & Hf & _). split; [|split]; auto. congruence. }
  assert (Hlim : forall e', In e' (e :: rem) -> py (fst e) <= py (fst e')).
  { rewrite Hev in Hsort. apply sorted_app_r in Hsort. inversion Hsort as [|? ? _ Hall]; subst.
    intros e' [<-|He']; [apply Qle_refl|]. rewrite Forall_forall in Hall.
    specialize (Hall e' He'). apply pos_gt_false in Hall. tauto. }
  pose proof (act_inv_rows_until proc (e :: rem) (py (fst e)) uvx uvy FUEL s Hev Hlim Hs) as H1.
  fold s1 in H1.
  destruct (h_stop s1) eqn:Es1.
  { destruct H1 as (Hr & Hf & _). split; [|split]; auto. congruence. }
  assert (Hge : py (fst e) <= h_y s1).
  { destruct Hs as (_ & Hf & _).
    destruct (rows_until_done (py (fst e)) uvx uvy FUEL s Hf) as [Hd|Hd]; fold s1 in Hd.
    - congruence.
    - apply Qltb_false in Hd. assumption. }
  destruct H1 as (Hr & Hf & Hi). destruct (Hi Es1) as [Hp Ha].
  split; [|split]; cbn [h_rows h_offs h_stop h_y h_act]; [assumption..|].
  intros _. unfold update_sweep_line. split.
  - intros y Hy. rewrite !filter_app. apply Permutation_app_tail.
    rewrite filter_filter_same; [apply Hp; assumption|].
    intros a _ Hk. apply negb_false_iff in Hk. unfold pos_lt in Hk. apply pos_gt_true in Hk.
    apply crosses_above. destruct Hk as [Hk|[Hk _]]; [apply Qlt_le_weak in Hk | rewrite <- Hk];
      (eapply Qle_trans; [|exact Hy]); (eapply Qle_trans; [|exact Hge]); [assumption | apply Qle_refl].
  - intros e0 He0. apply in_app_or in He0. destruct He0 as [He0|[<-|[]]]; [|assumption].
    apply filter_In in He0. apply Ha. tauto.
Qed.
End Active.

Theorem active_set_partial :
  (forall a o, 0 < o -> a <= fadd a o) ->
  forall events uvx uvy offsets y act,
  StronglySorted (fun a b => pos_gt (fst a) (fst b) = false) events ->
  (forall e, In e events -> pos_gt (fst e) (snd e) = false) ->
  In (y, act) (hatch_rows solve_x fadd fsub events uvx uvy offsets) ->
  Permutation (filter (crosses y) act) (filter (crosses y) events)
  /\ (forall e, In e act -> negb (Qle_bool (py (snd e)) y) = true -> crosses y e = true).
Proof.
  intros Hmono events uvx uvy offsets y act Hsort _. unfold hatch_rows, hatch_run.
  destruct events as [|first rest] eqn:Eev; [intros []|]. rewrite <- Eev in *.
  destruct offsets as [|o0 offs]; [intros []|].
  set (FUEL := S (length (o0 :: offs))).
  set (step := fun s e => if h_stop s then s else
     let s0 := rows_until solve_x fadd fsub FUEL (py (fst e)) uvx uvy s in
     if h_stop s0 then s0 else
     mkH (h_y s0) (Qmax (h_ymax s0) (py (snd e))) (h_row s0) (update_sweep_line (h_act s0) e)
         (h_offs s0) (h_out s0) false (h_rows s0)).
  set (s0 := mkH (fadd (py (fst first)) o0) (fadd (py (fst first)) o0) 0%Z [] offs [] false []).
  assert (H0 : act_inv events FUEL [] s0).
  { unfold s0. split; [|split]; cbn [h_rows h_offs h_stop h_act].
    - constructor.
    - unfold FUEL. cbn [length]. lia.
    - intros _. split; [intros; constructor | intros ? []]. }
  assert (Hfold : forall rem proc s, events = proc ++ rem -> act_inv events FUEL proc s ->
            act_inv events FUEL events (fold_left step rem s)).
  { induction rem as [|e rem IH]; intros proc s Hev Hs; cbn [fold_left].
    - rewrite app_nil_r in Hev. subst proc. assumption.
    - apply (IH (proc ++ [e])).
      + rewrite <- app_assoc. exact Hev.
      + unfold step. apply (act_inv_step Hmono events FUEL proc e rem); auto.
        destruct Hs as (_ & Hf & _). lia. }
  specialize (Hfold events [] s0 eq_refl H0).
  set (sf := fold_left step events s0) in *.
  assert (Hfin : act_inv events FUEL events
            (if h_stop sf then sf else rows_until solve_x fadd fsub FUEL (h_ymax sf) uvx uvy sf)).
  { destruct (h_stop sf); [assumption|].
    apply (act_inv_rows_until Hmono events FUEL events []); auto.
    - rewrite app_nil_r; reflexivity.
    - intros ? []. }
  intros Hin. destruct Hfin as (Hr & _). rewrite Forall_forall in Hr. exact (Hr (y, act) Hin).
Qed.
End Run.

(* counterexample to the unrestricted statement: an addition that is not monotone lets the row
   height fall back below the start of an already active edge *)
Definition cex_fadd (a o : Q) : Q := if Qle_bool 1 a then - (1) else a + o.
Definition cex_edge : hedge := ((0, 0), (0, 10)).
Lemma active_set_counterexample :
  StronglySorted (fun a b => pos_gt (fst a) (fst b) = false) [cex_edge]
  /\ (forall e, In e [cex_edge] -> pos_gt (fst e) (snd e) = false)
  /\ In (- (1), [cex_edge]) (hatch_rows exact_solve_x cex_fadd Qminus [cex_edge] 0 0 [1; 1; 1])
  /\ In cex_edge [cex_edge]
  /\ negb (Qle_bool (py (snd cex_edge)) (- (1))) = true
  /\ crosses (- (1)) cex_edge = false.
Proof.
  split; [repeat constructor|]. split; [intros e [<-|[]]; reflexivity|].
  split; [vm_compute; right; left; reflexivity|].
  split; [left; reflexivity|]. split; reflexivity.
Qed.

(* ------------------------------------------------------------ even-odd *)
Lemma cnt_lt_map_filter (sx : hedge -> Q) y x l :
  cnt_lt x (map sx (filter (live y) l))
  = length (filter (fun e => live y e && Qltb (sx e) x) l).
Proof.
  unfold cnt_lt. induction l as [|e r IH]; cbn [filter map]; [reflexivity|].
  destruct (live y e); cbn [andb map filter]; [|assumption].
  destruct (Qltb (sx e) x); cbn [length]; [f_equal|]; assumption.
Qed.

Lemma sorted_map_filter (sx : hedge -> Q) y l :
  StronglySorted (fun a b => Qltb (sx b) (sx a) = false) l ->
  StronglySorted Qle (map sx (filter (live y) l)).
Proof.
  induction 1 as [|a l Hs IH Ha]; cbn [filter map]; [constructor|].
  destruct (live y a); cbn [map]; [|assumption].
  constructor; [assumption|].
  apply Forall_forall. intros v Hv. apply in_map_iff in Hv. destruct Hv as [e [<- He]].
  apply filter_In in He. destruct He as [He _]. rewrite Forall_forall in Ha.
  apply Qltb_false. apply Ha. assumption.
Qed.

(* general form: no parity assumption, the right-hand side excludes the region to the right of an
   unpaired last crossing *)
Theorem row_even_odd_general : forall fsub y uvx uvy row act x,
  (forall e, In e act -> negb (Qle_bool (py (snd e)) y) = true -> ~ exact_solve_x e y == x) ->
  (exists s, In s (snd (hatch_line exact_solve_x fsub y uvx uvy row act)) /\ hs_ax s < x /\ x < hs_bx s)
  <-> (Nat.odd (length (filter (fun e => negb (Qle_bool (py (snd e)) y) && Qltb (exact_solve_x e y) x) act)) = true
       /\ (length (filter (fun e => negb (Qle_bool (py (snd e)) y) && Qltb (exact_solve_x e y) x) act)
           < length (filter (fun e => negb (Qle_bool (py (snd e)) y)) act))%nat).
Proof.
  intros fsub y uvx uvy row act x Hne.
  destruct (row_pairs exact_solve_x fsub y uvx uvy row act) as (Hpairs & Hperm & Hsorted).
  set (sorted := fst (hatch_line exact_solve_x fsub y uvx uvy row act)) in *.
  set (segs := snd (hatch_line exact_solve_x fsub y uvx uvy row act)) in *.
  set (xs := map (fun e => exact_solve_x e y) (filter (live y) sorted)).
  change (map (fun s => (hs_ax s, hs_bx s)) segs = pair_up xs) in Hpairs.
  assert (Hxs_sorted : StronglySorted Qle xs) by (apply sorted_map_filter; assumption).
  assert (Hxs_ne : forall v, In v xs -> ~ v == x).
  { intros v Hv. apply in_map_iff in Hv. destruct Hv as [e [<- He]]. apply filter_In in He.
    destruct He as [He Hl]. apply Hne; [|exact Hl]. eapply Permutation_in; eassumption. }
  assert (Hcnt : cnt_lt x xs = length (filter (fun e => live y e && Qltb (exact_solve_x e y) x) act)).
  { unfold xs. rewrite cnt_lt_map_filter. apply Permutation_length, filter_perm, Hperm. }
  assert (Hlen : length xs = length (filter (live y) act)).
  { unfold xs. rewrite map_length. apply Permutation_length, filter_perm, Hperm. }
  pose proof (pair_up_even_odd x xs Hxs_sorted Hxs_ne) as Hmain.
  rewrite Hcnt, Hlen in Hmain. unfold live in Hmain.
  rewrite <- Hmain. rewrite <- Hpairs. split.
  - intros [s [Hs Hx]]. exists (hs_ax s, hs_bx s). split; [|exact Hx].
    apply (in_map (fun s => (hs_ax s, hs_bx s))). assumption.
  - intros [p [Hp Hx]]. apply in_map_iff in Hp. destruct Hp as [s [<- Hs]]. exists s. split; assumption.
Qed.

Theorem row_even_odd_partial : forall fsub y uvx uvy row act x,
  Nat.even (length (filter (fun e => negb (Qle_bool (py (snd e)) y)) act)) = true ->
  (forall e, In e act -> negb (Qle_bool (py (snd e)) y) = true -> ~ exact_solve_x e y == x) ->
  (exists s, In s (snd (hatch_line exact_solve_x fsub y uvx uvy row act)) /\ hs_ax s < x /\ x < hs_bx s)
  <-> Nat.odd (length (filter (fun e => negb (Qle_bool (py (snd e)) y) && Qltb (exact_solve_x e y) x) act)) = true.
Proof.
  intros fsub y uvx uvy row act x Heven Hne.
  rewrite (row_even_odd_general fsub y uvx uvy row act x Hne).
  split; [tauto|]. intros Hodd. split; [assumption|].
  assert (Hle : (length (filter (fun e => negb (Qle_bool (py (snd e)) y) && Qltb (exact_solve_x e y) x) act)
                 <= length (filter (fun e => negb (Qle_bool (py (snd e)) y)) act))%nat).
  { clear. induction act as [|e r IH]; cbn [filter length]; [lia|].
    destruct (negb (Qle_bool (py (snd e)) y)); cbn [andb]; [|assumption].
    destruct (Qltb (exact_solve_x e y) x); cbn [length]; lia. }
  destruct (Nat.eq_dec (length (filter (fun e => negb (Qle_bool (py (snd e)) y) && Qltb (exact_solve_x e y) x) act))
                       (length (filter (fun e => negb (Qle_bool (py (snd e)) y)) act))) as [E|E]; [|lia].
  rewrite E in Hodd. rewrite <- Nat.negb_even in Hodd. rewrite Heven in Hodd. discriminate.
Qed.

(* counterexample to the unrestricted statement: a single crossing edge, the point to its right *)
Lemma row_even_odd_counterexample :
  let act := [cex_edge] in let y := 5 in let x := 1 in
  (forall e, In e act -> negb (Qle_bool (py (snd e)) y) = true -> ~ exact_solve_x e y == x)
  /\ snd (hatch_line exact_solve_x Qminus y 0 0 0%Z act) = []
  /\ Nat.odd (length (filter (fun e => negb (Qle_bool (py (snd e)) y) && Qltb (exact_solve_x e y) x) act)) = true.
Proof.
  cbv zeta. split; [|split; vm_compute; reflexivity].
  intros e [<-|[]] _. vm_compute. discriminate.
Qed.
