(* C09 proofs: control structure of the flattening interfaces (Model/Flatten.v). *)
From LV Require Import Base.Prelude Model.Flatten.

(* restated identically to Props/C09.v *)
Fixpoint chain {P T} (a : P) (ta : T) (l : list (piece P T)) (b : P) (tb : T) : Prop :=
  match l with
  | [] => False
  | [p] => pc_from P T p = a /\ pc_t0 P T p = ta /\ pc_to P T p = b /\ pc_t1 P T p = tb
  | p :: r => pc_from P T p = a /\ pc_t0 P T p = ta /\ chain (pc_to P T p) (pc_t1 P T p) r b tb
  end.

Section ChainFacts.
Context {P T : Type}.
Implicit Types (a b m : P) (ta tb tm : T) (l r : list (piece P T)) (p : piece P T).

Lemma chain_nil a ta b tb : ~ chain a ta [] b tb.
Proof. cbn. tauto. Qed.

Lemma chain_single a ta p b tb :
  chain a ta [p] b tb <-> pc_from P T p = a /\ pc_t0 P T p = ta /\ pc_to P T p = b /\ pc_t1 P T p = tb.
Proof. cbn. tauto. Qed.

Lemma chain_cons_iff a ta p r b tb : r <> [] ->
  (chain a ta (p :: r) b tb <->
   pc_from P T p = a /\ pc_t0 P T p = ta /\ chain (pc_to P T p) (pc_t1 P T p) r b tb).
Proof. destruct r as [|q r']; [congruence|]. intros _. cbn [chain]. tauto. Qed.

Lemma chain_cons a ta p r b tb :
  pc_from P T p = a -> pc_t0 P T p = ta -> chain (pc_to P T p) (pc_t1 P T p) r b tb ->
  chain a ta (p :: r) b tb.
Proof.
  intros Ha Hta Hr. destruct r as [|q r'].
  - exfalso; exact (chain_nil _ _ _ _ Hr).
  - apply chain_cons_iff; [discriminate|]. auto.
Qed.

Lemma chain_nonempty a ta l b tb : chain a ta l b tb -> l <> [].
Proof. destruct l; [intros H; exfalso; exact (chain_nil _ _ _ _ H) | discriminate]. Qed.

Lemma chain_app l1 : forall a ta m tm l2 b tb,
  chain a ta l1 m tm -> chain m tm l2 b tb -> chain a ta (l1 ++ l2) b tb.
Proof.
  induction l1 as [|p r IH]; intros a ta m tm l2 b tb H1 H2.
  - exfalso; exact (chain_nil _ _ _ _ H1).
  - destruct r as [|q r'].
    + apply chain_single in H1. destruct H1 as (Ha & Hta & Hm & Htm).
      cbn [app]. apply chain_cons; auto. rewrite Hm, Htm. exact H2.
    + apply chain_cons_iff in H1; [|discriminate]. destruct H1 as (Ha & Hta & Hr).
      change ((p :: q :: r') ++ l2) with (p :: ((q :: r') ++ l2)).
      apply chain_cons; auto. eapply IH; eauto.
Qed.

Lemma chain_last a ta l b tb : chain a ta l b tb ->
  exists front pl, l = front ++ [pl] /\ pc_to P T pl = b /\ pc_t1 P T pl = tb.
Proof.
  revert a ta. induction l as [|p r IH]; intros a ta H.
  - exfalso; exact (chain_nil _ _ _ _ H).
  - destruct r as [|q r'].
    + apply chain_single in H. destruct H as (_ & _ & Hb & Htb).
      exists [], p. auto.
    + apply chain_cons_iff in H; [|discriminate]. destruct H as (_ & _ & Hr).
      destruct (IH _ _ Hr) as (front & pl & E & Hb & Htb).
      exists (p :: front), pl. rewrite E. auto.
Qed.
End ChainFacts.

(* ------------------------------------------------------------------ quadratic *)
Section Quad.
Variables (P T : Type) (t0 t1 : T) (from to : P) (sample : T -> P) (count : nat) (t_at : nat -> T).

Lemma quad_loop_chain : forall n i cur tf,
  chain cur tf (quad_loop P T t1 to sample t_at n i cur tf) to t1 /\
  length (quad_loop P T t1 to sample t_at n i cur tf) = S n.
Proof.
  induction n as [|k IH]; intros i cur tf; cbn [quad_loop].
  - split; [apply chain_single; cbn; auto | reflexivity].
  - destruct (IH (S i) (sample (t_at i)) (t_at i)) as [Hc Hl]. split.
    + apply chain_cons; cbn; auto.
    + cbn [length]. rewrite Hl. reflexivity.
Qed.

Lemma quad_loop_inner : forall n i cur tf p,
  In p (removelast (quad_loop P T t1 to sample t_at n i cur tf)) ->
  pc_to P T p = sample (pc_t1 P T p).
Proof.
  induction n as [|k IH]; intros i cur tf p; cbn [quad_loop].
  - cbn. tauto.
  - remember (quad_loop P T t1 to sample t_at k (S i) (sample (t_at i)) (t_at i)) as rest eqn:E.
    destruct rest as [|q rest'].
    + cbn. tauto.
    + cbn [removelast]. intros [<- | Hin].
      * reflexivity.
      * apply (IH (S i) (sample (t_at i)) (t_at i)). rewrite <- E. exact Hin.
Qed.

Lemma quad_loop_points : forall n fuel i cur tf,
  (count - i = n)%nat -> (n < fuel)%nat ->
  quad_iter_points P T to sample count t_at fuel i
    = map (pc_to P T) (quad_loop P T t1 to sample t_at n i cur tf).
Proof.
  induction n as [|k IH]; intros fuel i cur tf Hn Hf;
    (destruct fuel as [|f]; [lia|]); cbn [quad_iter_points quad_loop map].
  - replace (Nat.leb count i) with true by (symmetry; apply Nat.leb_le; lia). reflexivity.
  - replace (Nat.leb count i) with false by (symmetry; apply Nat.leb_gt; lia).
    cbn [pc_to]. f_equal. apply IH; lia.
Qed.

Lemma quad_loop_ts : forall n fuel i cur tf,
  (count - i = n)%nat -> (n < fuel)%nat ->
  quad_iter_ts T t1 count t_at fuel i
    = map (pc_t1 P T) (quad_loop P T t1 to sample t_at n i cur tf).
Proof.
  induction n as [|k IH]; intros fuel i cur tf Hn Hf;
    (destruct fuel as [|f]; [lia|]); cbn [quad_iter_ts quad_loop map].
  - replace (Nat.leb count i) with true by (symmetry; apply Nat.leb_le; lia). reflexivity.
  - replace (Nat.leb count i) with false by (symmetry; apply Nat.leb_gt; lia).
    cbn [pc_t1]. f_equal. apply IH; lia.
Qed.
End Quad.

Lemma quad_chain : forall (P T : Type) (t0 t1 : T) (from to : P) (sample : T -> P) count t_at,
  chain from t0 (quad_callback P T t0 t1 from to sample count t_at) to t1 /\
  length (quad_callback P T t0 t1 from to sample count t_at) = Nat.max count 1.
Proof.
  intros. unfold quad_callback.
  destruct (quad_loop_chain P T t1 to sample t_at (count - 1) 1 from t0) as [Hc Hl].
  split; [exact Hc | rewrite Hl; lia].
Qed.

Lemma quad_inner_points : forall (P T : Type) (t0 t1 : T) (from to : P) (sample : T -> P) count t_at p,
  In p (removelast (quad_callback P T t0 t1 from to sample count t_at)) ->
  pc_to P T p = sample (pc_t1 P T p).
Proof. intros until p. unfold quad_callback. intros H. eapply quad_loop_inner; eassumption. Qed.

Lemma quad_iterators : forall (P T : Type) (t0 t1 : T) (from to : P) (sample : T -> P) count t_at,
  quad_points P T to sample count t_at
    = map (pc_to P T) (quad_callback P T t0 t1 from to sample count t_at) /\
  quad_ts T t1 count t_at
    = map (pc_t1 P T) (quad_callback P T t0 t1 from to sample count t_at).
Proof.
  intros. unfold quad_points, quad_ts, quad_callback. split.
  - apply quad_loop_points; lia.
  - apply quad_loop_ts; lia.
Qed.

(* ------------------------------------------------------------------ cubic *)
Section Cubic.
Variables (P T : Type) (t0 t1 : T) (nq : nat) (q_from q_to : nat -> P) (q_sample : nat -> T -> P)
          (q_count : nat -> nat) (q_t_at : nat -> nat -> T) (remap : T -> nat -> T) (is_one : T -> bool).

(* the fold of cubic_quad_pieces as a structural recursion *)
Definition newt (j : nat) (p : piece P T) : T :=
  if Nat.eqb (S j) nq && is_one (pc_t1 P T p) then t1 else remap (pc_t1 P T p) j.

Fixpoint retime (j : nat) (l : list (piece P T)) (tf : T) : list (piece P T) * T :=
  match l with
  | [] => ([], tf)
  | p :: r => let t := newt j p in
              (mkPiece P T (pc_from P T p) (pc_to P T p) tf t :: fst (retime j r t), snd (retime j r t))
  end.

Definition cstep (j : nat) (acc : list (piece P T) * T) (p : piece P T) : list (piece P T) * T :=
  let '(out, tf) := acc in
  let last_seg := is_one (pc_t1 P T p) in
  let t := if Nat.eqb (S j) nq && last_seg then t1 else remap (pc_t1 P T p) j in
  (out ++ [mkPiece P T (pc_from P T p) (pc_to P T p) tf t], t).

Lemma fold_retime j : forall l out tf,
  fold_left (cstep j) l (out, tf) = (out ++ fst (retime j l tf), snd (retime j l tf)).
Proof.
  induction l as [|p r IH]; intros out tf; cbn [fold_left retime fst snd].
  - rewrite app_nil_r. reflexivity.
  - unfold cstep at 2. fold (newt j p). rewrite IH. rewrite <- app_assoc. reflexivity.
Qed.

Lemma cubic_quad_pieces_retime j tf :
  cubic_quad_pieces P T t0 t1 nq q_from q_to q_sample q_count q_t_at remap is_one j tf
  = retime j (quad_callback P T t0 t1 (q_from j) (q_to j) (q_sample j) (q_count j) (q_t_at j)) tf.
Proof.
  unfold cubic_quad_pieces. change (fold_left _ ?l ([], tf)) with (fold_left (cstep j) l ([], tf)).
  rewrite fold_retime. cbn [app]. symmetry. apply surjective_pairing.
Qed.

Lemma retime_chain j : forall l a x b y tf,
  chain a x l b y -> (Nat.eqb (S j) nq = true -> is_one y = true) ->
  chain a tf (fst (retime j l tf)) b (snd (retime j l tf)) /\
  (Nat.eqb (S j) nq = true -> snd (retime j l tf) = t1).
Proof.
  induction l as [|p r IH]; intros a x b y tf H Hone.
  - exfalso; exact (chain_nil _ _ _ _ H).
  - destruct r as [|q r'].
    + apply chain_single in H. destruct H as (Ha & _ & Hb & Hy).
      cbn [retime fst snd]. split.
      * apply chain_single. cbn. auto.
      * intros E. unfold newt. rewrite E, Hy, (Hone E). reflexivity.
    + apply chain_cons_iff in H; [|discriminate]. destruct H as (Ha & _ & Hr).
      destruct (IH _ _ _ _ (newt j p) Hr Hone) as [Hc Hl].
      cbn [retime fst snd] in *. split; [|exact Hl].
      apply chain_cons; cbn; auto.
Qed.

Hypothesis Hone : is_one t1 = true.
Variables (cfrom cto : P).
Hypothesis Hto : q_to (nq - 1)%nat = cto.
Hypothesis Hshare : forall j, (S j < nq)%nat -> q_to j = q_from (S j).

Lemma cubic_loop_chain : forall n j tf, (j + S n = nq)%nat ->
  chain (q_from j) tf
        (cubic_loop P T t0 t1 nq q_from q_to q_sample q_count q_t_at remap is_one (S n) j tf) cto t1.
Proof.
  induction n as [|k IH]; intros j tf Hj.
  - cbn [cubic_loop]. rewrite cubic_quad_pieces_retime.
    destruct (quad_chain P T t0 t1 (q_from j) (q_to j) (q_sample j) (q_count j) (q_t_at j)) as [Hc _].
    destruct (retime_chain j _ _ _ _ _ tf Hc (fun _ => Hone)) as [Hc' Hl].
    destruct (retime j _ tf) as [ps tf'] eqn:E. cbn [fst snd] in *.
    rewrite app_nil_r. rewrite Hl in Hc' by (apply Nat.eqb_eq; lia).
    replace (q_to j) with cto in Hc' by (rewrite <- Hto; f_equal; lia). exact Hc'.
  - change (cubic_loop P T t0 t1 nq q_from q_to q_sample q_count q_t_at remap is_one (S (S k)) j tf)
      with (let '(ps, tf') := cubic_quad_pieces P T t0 t1 nq q_from q_to q_sample q_count q_t_at remap is_one j tf in
            ps ++ cubic_loop P T t0 t1 nq q_from q_to q_sample q_count q_t_at remap is_one (S k) (S j) tf').
    rewrite cubic_quad_pieces_retime.
    destruct (quad_chain P T t0 t1 (q_from j) (q_to j) (q_sample j) (q_count j) (q_t_at j)) as [Hc _].
    destruct (retime_chain j _ _ _ _ _ tf Hc (fun _ => Hone)) as [Hc' _].
    destruct (retime j _ tf) as [ps tf'] eqn:E. cbn [fst snd] in *.
    eapply chain_app; [exact Hc'|]. rewrite Hshare by lia. apply IH. lia.
Qed.
End Cubic.

Lemma cubic_chain : forall (P T : Type) (t0 t1 : T) nq q_from q_to q_sample q_count q_t_at remap is_one
                           (cfrom cto : P),
  (0 < nq)%nat -> is_one t1 = true ->
  q_from 0%nat = cfrom -> q_to (nq - 1)%nat = cto ->
  (forall j, (S j < nq)%nat -> q_to j = q_from (S j)) ->
  chain cfrom t0 (cubic_callback P T t0 t1 nq q_from q_to q_sample q_count q_t_at remap is_one) cto t1.
Proof.
  intros P T t0 t1 nq q_from q_to q_sample q_count q_t_at remap is_one cfrom cto Hnq Hone Hf Ht Hs.
  unfold cubic_callback. destruct nq as [|n]; [lia|]. rewrite <- Hf.
  apply cubic_loop_chain; auto.
Qed.

(* ------------------------------------------------------------------ cubic point iterator *)
Lemma quad_iter_ts_last (T : Type) (t1 : T) count t_at : forall fuel i,
  (1 <= fuel)%nat -> (count < fuel + i)%nat ->
  exists front, quad_iter_ts T t1 count t_at fuel i = front ++ [t1].
Proof.
  induction fuel as [|f IH]; intros i H1 H2; [lia|]. cbn [quad_iter_ts].
  destruct (Nat.leb count i) eqn:E.
  - exists []. reflexivity.
  - apply Nat.leb_gt in E. destruct (IH (S i)) as [front Hf]; [lia|lia|].
    exists (t_at i :: front). rewrite Hf. reflexivity.
Qed.

Lemma quad_ts_last (T : Type) (t1 : T) count t_at :
  exists front, quad_ts T t1 count t_at = front ++ [t1].
Proof. unfold quad_ts. apply quad_iter_ts_last; lia. Qed.

Lemma cubic_iter_end : forall (P T : Type) (t1 : T) (cto : P) csample nq q_count q_t_at is_one iter_map,
  (0 < nq)%nat -> is_one t1 = true ->
  last (cubic_iter_points P T t1 cto csample nq q_count q_t_at is_one iter_map) cto = cto /\
  cubic_iter_points P T t1 cto csample nq q_count q_t_at is_one iter_map <> [].
Proof.
  intros P T t1 cto csample nq q_count q_t_at is_one iter_map Hnq Hone.
  unfold cubic_iter_points. destruct nq as [|n]; [lia|].
  rewrite seq_S, flat_map_app. cbn [flat_map plus]. rewrite app_nil_r.
  destruct (quad_ts_last T t1 (q_count n) (q_t_at n)) as [front ->].
  rewrite map_app. cbn [map]. rewrite Nat.eqb_refl, Hone. cbn [andb].
  rewrite app_assoc. split.
  - apply last_last.
  - intros E. apply app_eq_nil in E. destruct E as [_ E]. discriminate.
Qed.
