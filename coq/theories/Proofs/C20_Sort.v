(* C20 - generic facts: the stable insertion sort [sort_by], boolean order on Q, the
   lexicographic position order [pos_gt], [pair_up] and the even-odd counting lemma. *)
From Coq Require Import QArith Qminmax Permutation Sorted Lqa.
From LV Require Import Base.Prelude Model.Bezier Model.Hatch.
Open Scope Q_scope.

(* ------------------------------------------------------------ booleans over Q *)
Lemma Qltb_true a b : Qltb a b = true <-> a < b.
Proof.
  unfold Qltb. rewrite negb_true_iff. split.
  - intros H. apply Qnot_le_lt. intros Hle. apply Qle_bool_iff in Hle. congruence.
  - intros H. destruct (Qle_bool b a) eqn:E; [|reflexivity].
    apply Qle_bool_iff in E. exfalso. apply (Qlt_not_le _ _ H E).
Qed.

Lemma Qltb_false a b : Qltb a b = false <-> b <= a.
Proof.
  unfold Qltb. rewrite negb_false_iff. apply Qle_bool_iff.
Qed.

Lemma Qle_bool_false a b : Qle_bool a b = false <-> b < a.
Proof.
  rewrite <- Qltb_true. unfold Qltb. rewrite negb_true_iff. tauto.
Qed.

Lemma Qeq_bool_false a b : Qeq_bool a b = false <-> ~ a == b.
Proof.
  split.
  - intros H E. apply Qeq_bool_iff in E. congruence.
  - intros H. destruct (Qeq_bool a b) eqn:E; [|reflexivity]. apply Qeq_bool_iff in E. contradiction.
Qed.

(* ------------------------------------------------------------ pos_gt *)
Lemma pos_gt_false a b :
  pos_gt a b = false <-> py a <= py b /\ (py a == py b -> px a <= px b).
Proof.
  unfold pos_gt. rewrite orb_false_iff, andb_false_iff, !Qltb_false, Qeq_bool_false. split.
  - intros [H1 [H2|H2]]; split; auto. intros E; contradiction.
  - intros [H1 H2]; split; auto.
    destruct (Qeq_dec (py a) (py b)) as [E|E]; [right; auto | left; auto].
Qed.

Lemma pos_gt_true a b :
  pos_gt a b = true <-> py b < py a \/ (py a == py b /\ px b < px a).
Proof.
  unfold pos_gt. rewrite orb_true_iff, andb_true_iff, !Qltb_true, Qeq_bool_iff. tauto.
Qed.

Lemma pos_gt_asym a b : pos_gt a b = true -> pos_gt b a = false.
Proof.
  rewrite pos_gt_true, pos_gt_false. intros [H|[H1 H2]]; split; try lra; intros; lra.
Qed.

Lemma pos_le_trans a b c : pos_gt a b = false -> pos_gt b c = false -> pos_gt a c = false.
Proof.
  rewrite !pos_gt_false. intros [H1 H2] [H3 H4]. split; [lra|].
  intros E. assert (E1 : py a == py b) by lra. assert (E2 : py b == py c) by lra.
  specialize (H2 E1). specialize (H4 E2). lra.
Qed.

Lemma peqb_true a b : peqb a b = true <-> px a == px b /\ py a == py b.
Proof. unfold peqb. rewrite andb_true_iff, !Qeq_bool_iff. tauto. Qed.

Lemma peqb_sym a b : peqb a b = peqb b a.
Proof.
  destruct (peqb a b) eqn:E1, (peqb b a) eqn:E2; try reflexivity.
  - apply peqb_true in E1. assert (peqb b a = true) by (apply peqb_true; split; symmetry; tauto). congruence.
  - apply peqb_true in E2. assert (peqb a b = true) by (apply peqb_true; split; symmetry; tauto). congruence.
Qed.

Lemma peqb_trans a b c : peqb a b = true -> peqb b c = true -> peqb a c = true.
Proof.
  rewrite !peqb_true. intros [H1 H2] [H3 H4]. split; [rewrite H1 | rewrite H2]; assumption.
Qed.

(* ------------------------------------------------------------ insertion sort *)
Section Sort.
Context {A : Type} (gt : A -> A -> bool).

Lemma insert_by_perm x l : Permutation (insert_by gt x l) (x :: l).
Proof.
  induction l as [|y r IH]; cbn [insert_by]; [reflexivity|].
  destruct (gt y x); [reflexivity|].
  rewrite IH. apply perm_swap.
Qed.

Lemma fold_insert_perm l acc :
  Permutation (fold_left (fun acc x => insert_by gt x acc) l acc) (acc ++ l).
Proof.
  revert acc; induction l as [|x r IH]; intros acc; cbn [fold_left].
  - rewrite app_nil_r. reflexivity.
  - rewrite IH, insert_by_perm.
    change (x :: acc) with ([x] ++ acc). rewrite (Permutation_app_comm [x] acc), <- app_assoc. reflexivity.
Qed.

Lemma sort_by_perm l : Permutation (sort_by gt l) l.
Proof. unfold sort_by. rewrite fold_insert_perm. reflexivity. Qed.

Let R a b := gt a b = false.
Hypothesis Rtrans : forall a b c, R a b -> R b c -> R a c.
Hypothesis Rasym : forall a b, gt a b = true -> R b a.

Lemma insert_by_sorted x l : StronglySorted R l -> StronglySorted R (insert_by gt x l).
Proof.
  induction l as [|y r IH]; intros Hs; cbn [insert_by].
  - constructor; constructor.
  - inversion Hs as [|? ? Hr Hy]; subst.
    destruct (gt y x) eqn:E.
    + constructor; [assumption|]. constructor.
      * apply Rasym; assumption.
      * eapply Forall_impl; [|exact Hy]. intros z Hz. eapply Rtrans; [apply Rasym; eassumption | exact Hz].
    + constructor; [apply IH; assumption|].
      eapply Permutation_Forall; [symmetry; apply insert_by_perm|].
      constructor; assumption.
Qed.

Lemma sort_by_sorted l : StronglySorted R (sort_by gt l).
Proof.
  unfold sort_by.
  assert (H : forall acc, StronglySorted R acc ->
            StronglySorted R (fold_left (fun acc x => insert_by gt x acc) l acc)).
  { induction l as [|x r IH]; intros acc Hacc; cbn [fold_left]; [assumption|].
    apply IH. apply insert_by_sorted; assumption. }
  apply H. constructor.
Qed.
End Sort.

(* ------------------------------------------------------------ pair_up and counting *)
Fixpoint pair_up (l : list Q) : list (Q * Q) :=
  match l with
  | a :: b :: r => (a, b) :: pair_up r
  | _ => []
  end.

Lemma pair_ind (P : list Q -> Prop) :
  P [] -> (forall a, P [a]) -> (forall a b r, P r -> P (a :: b :: r)) -> forall l, P l.
Proof.
  intros H0 H1 H2.
  assert (H : forall l, P l /\ forall a, P (a :: l)).
  { induction l as [|b r [IH1 IH2]]; split; auto. }
  intros l; apply H.
Qed.

Definition cnt_lt (x : Q) (xs : list Q) : nat := length (filter (fun v => Qltb v x) xs).

Lemma cnt_lt_le x xs : (cnt_lt x xs <= length xs)%nat.
Proof.
  unfold cnt_lt. induction xs as [|v r IH]; cbn [filter length]; [lia|].
  destruct (Qltb v x); cbn [length]; lia.
Qed.

Lemma cnt_lt_zero x h r : StronglySorted Qle (h :: r) -> x <= h -> cnt_lt x (h :: r) = 0%nat.
Proof.
  intros Hs Hx. inversion Hs as [|? ? _ Hh]; subst.
  unfold cnt_lt. replace (filter (fun v => Qltb v x) (h :: r)) with (@nil Q); [reflexivity|].
  symmetry. assert (Hall : Forall (fun v => Qltb v x = false) (h :: r)).
  { constructor; [apply Qltb_false; assumption|].
    eapply Forall_impl; [|exact Hh]. intros v Hv. apply Qltb_false. lra. }
  clear -Hall. induction Hall as [|v l Hv _ IH]; cbn [filter]; [reflexivity|]. rewrite Hv. assumption.
Qed.

(* a point that is not at a crossing lies strictly inside one of the consecutive pairs iff the
   number of crossings to its left is odd, and it is not to the right of an unpaired last crossing *)
Lemma pair_up_even_odd x : forall xs,
  StronglySorted Qle xs -> (forall v, In v xs -> ~ v == x) ->
  (exists p, In p (pair_up xs) /\ fst p < x /\ x < snd p)
  <-> (Nat.odd (cnt_lt x xs) = true /\ (cnt_lt x xs < length xs)%nat).
Proof.
  induction xs as [|a|a b r IH] using pair_ind; intros Hs Hne.
  - cbn. split; [intros [p [[] _]] | intros [H _]; discriminate].
  - split; [intros [p [[] _]] |]. intros [H1 H2]. cbn [length] in H2.
    assert (cnt_lt x [a] = 0)%nat by lia. rewrite H in H1. discriminate.
  - inversion Hs as [|? ? Hs1 Ha]; subst. inversion Hs1 as [|? ? Hs2 Hb]; subst.
    assert (Hab : a <= b) by (inversion Ha; assumption).
    assert (Hna : ~ a == x) by (apply Hne; left; reflexivity).
    assert (Hnb : ~ b == x) by (apply Hne; right; left; reflexivity).
    specialize (IH Hs2 (fun v Hv => Hne v (or_intror (or_intror Hv)))).
    cbn [pair_up].
    destruct (Qlt_le_dec x a) as [Hxa|Hxa].
    + (* x < a : nothing to the left *)
      rewrite (cnt_lt_zero x a (b :: r) Hs) by lra.
      split; [|intros [H _]; discriminate].
      intros [p [[Hp|Hp] [H1 H2]]].
      * subst p. cbn [fst snd] in *. lra.
      * exfalso. destruct r as [|c r'].
        { destruct Hp. }
        assert (Hc : b <= c) by (inversion Hb; assumption).
        assert (Hz : cnt_lt x (c :: r') = 0%nat) by (apply cnt_lt_zero; [assumption | lra]).
        destruct IH as [IH _]. destruct IH as [IH _]; [exists p; auto|]. rewrite Hz in IH. discriminate.
    + assert (Hax : a < x) by (destruct (Qeq_dec a x); [contradiction | lra]).
      destruct (Qlt_le_dec x b) as [Hxb|Hxb].
      * (* a < x < b *)
        assert (Hc : cnt_lt x (a :: b :: r) = 1%nat).
        { unfold cnt_lt. cbn [filter]. apply Qltb_true in Hax. rewrite Hax. cbn [length]. f_equal.
          apply (cnt_lt_zero x b r Hs1). lra. }
        rewrite Hc. split.
        -- intros _. split; [reflexivity | cbn [length]; lia].
        -- intros _. exists (a, b). split; [left; reflexivity | cbn [fst snd]; split; assumption].
      * assert (Hbx : b < x) by (destruct (Qeq_dec b x); [contradiction | lra]).
        assert (Hc : cnt_lt x (a :: b :: r) = S (S (cnt_lt x r))).
        { unfold cnt_lt. cbn [filter]. apply Qltb_true in Hax, Hbx. rewrite Hax, Hbx. reflexivity. }
        rewrite Hc. cbn [length].
        change (Nat.odd (S (S (cnt_lt x r)))) with (Nat.odd (cnt_lt x r)).
        split.
        -- intros [p [[Hp|Hp] [H1 H2]]].
           ++ subst p. cbn [fst snd] in *. lra.
           ++ destruct IH as [IH _]. destruct IH as [I1 I2]; [exists p; auto|]. split; [assumption | lia].
        -- intros [H1 H2]. destruct IH as [_ IH]. destruct IH as [p [Hp Hq]]; [split; [assumption | lia]|].
           exists p. split; [right; assumption | assumption].
Qed.
