(* C02, part 1: the BasicMonotoneTessellator model.
   Step lemmas about [monotone_vertex] (count / id membership / id distinctness) and the
   three [basic_run] theorems. *)
From Coq Require Import QArith.
From LV Require Import Base.Prelude Base.F32 Model.Bezier Model.Monotone.
Local Open Scope nat_scope.

Definition input_ids (first : qpt * Z) (vs : list (qpt * Z * bool)) (last : qpt * Z) : list Z :=
  snd first :: map (fun v => snd (fst v)) vs ++ [snd last].

Definition tri_ids_in (ids : list Z) (t : tri) : Prop :=
  let '(a, b, c) := t in In a ids /\ In b ids /\ In c ids.
Definition tri_distinct (t : tri) : Prop :=
  let '(a, b, c) := t in a <> b /\ b <> c /\ a <> c.

(* generic "all three ids satisfy P" *)
Definition tri_all (P : Z -> Prop) (t : tri) : Prop :=
  let '(a, b, c) := t in P a /\ P b /\ P c.

(* ------------------------------------------------------------------ counts *)
Lemma side_change_tris_length cur s :
  length (side_change_tris cur s) = (length s - 1)%nat.
Proof.
  induction s as [|a [|b r] IH]; cbn [side_change_tris length]; try reflexivity.
  cbn [side_change_tris length] in IH. rewrite IH. lia.
Qed.

Lemma pop_loop_length cur : forall st lp ts lp' st',
  pop_loop cur lp st = (ts, lp', st') -> (length ts + length st' = length st)%nat.
Proof.
  induction st as [|top rest IH]; intros lp ts lp' st' H; cbn [pop_loop] in H.
  - inversion H; reflexivity.
  - destruct (if m_left cur then (lp, top) else (top, lp)) as [a b].
    destruct (Qle_bool _ _).
    + destruct (pop_loop cur top rest) as [[ts0 lp0] st0] eqn:E.
      inversion H; subst. specialize (IH _ _ _ _ E). cbn [length]. lia.
    + inversion H; subst. cbn [length]. lia.
Qed.

Definition wt (t : basic) : nat := (length (b_tris t) + length (b_stack t))%nat.

Lemma monotone_vertex_count t cur :
  b_stack t <> [] ->
  wt (monotone_vertex t cur) = S (wt t) /\ b_stack (monotone_vertex t cur) <> [].
Proof.
  intros Hne. unfold monotone_vertex, wt.
  destruct (negb _).
  - cbn [b_tris b_stack]. split; [|discriminate].
    rewrite app_length, side_change_tris_length, rev_length.
    destruct (b_stack t); [congruence|]. cbn [length]. lia.
  - destruct (b_stack t) as [|top rest]; [congruence|].
    destruct (pop_loop cur top rest) as [[ts lp] st] eqn:E.
    cbn [b_tris b_stack]. split; [|discriminate].
    apply pop_loop_length in E. rewrite app_length. cbn [length]. lia.
Qed.

(* the changed-side branch, as used by [basic_end] *)
Lemma basic_end_tris t pos id :
  b_tris (basic_end t pos id)
  = b_tris t ++ side_change_tris (mkMV pos id (negb (m_left (b_prev t)))) (rev (b_stack t)).
Proof.
  unfold basic_end, basic_vertex, monotone_vertex. cbn [m_left b_tris].
  destruct (m_left (b_prev t)); cbn [negb Bool.eqb b_tris]; reflexivity.
Qed.

Lemma basic_end_count t pos id :
  b_stack t <> [] ->
  length (b_tris (basic_end t pos id)) = (wt t - 1)%nat.
Proof.
  intros Hne. rewrite basic_end_tris, app_length, side_change_tris_length, rev_length.
  unfold wt. destruct (b_stack t); [congruence|]. cbn [length]. lia.
Qed.

Definition bstep (t : basic) (v : qpt * Z * bool) : basic :=
  basic_vertex t (fst (fst v)) (snd (fst v)) (snd v).

Lemma fold_count : forall vs t,
  b_stack t <> [] ->
  wt (fold_left bstep vs t) = (wt t + length vs)%nat /\ b_stack (fold_left bstep vs t) <> [].
Proof.
  induction vs as [|v vs IH]; intros t Hne; cbn [fold_left length].
  - split; [lia|assumption].
  - destruct (monotone_vertex_count t (mkMV (fst (fst v)) (snd (fst v)) (snd v)) Hne) as [Hw Hs].
    destruct (IH (bstep t v) Hs) as [Hw' Hs']. split; [|assumption].
    rewrite Hw'. unfold bstep, basic_vertex. rewrite Hw. lia.
Qed.

Theorem basic_count : forall first vs last,
  length (basic_run first vs last) = length vs.
Proof.
  intros first vs last. unfold basic_run. fold bstep.
  assert (Hne : b_stack (basic_begin (fst first) (snd first)) <> []) by (cbn; discriminate).
  destruct (fold_count vs _ Hne) as [Hw Hs].
  rewrite basic_end_count by assumption. rewrite Hw. cbn. lia.
Qed.

(* ------------------------------------------------------------ id membership *)
Lemma side_change_tris_all (P : Z -> Prop) cur s :
  P (m_id cur) -> Forall (fun v => P (m_id v)) s ->
  Forall (tri_all P) (side_change_tris cur s).
Proof.
  intros Hc. induction s as [|a [|b r] IH]; intros Hs; cbn [side_change_tris]; try constructor.
  - inversion Hs as [|? ? Ha Hr]; subst. inversion Hr as [|? ? Hb _]; subst.
    destruct (Qle_bool _ _); cbn; auto.
  - apply IH. inversion Hs; assumption.
Qed.

Lemma pop_loop_all (P : Z -> Prop) cur : forall st lp ts lp' st',
  P (m_id cur) -> P (m_id lp) -> Forall (fun v => P (m_id v)) st ->
  pop_loop cur lp st = (ts, lp', st') ->
  Forall (tri_all P) ts /\ P (m_id lp') /\ Forall (fun v => P (m_id v)) st'.
Proof.
  intros st; induction st as [|top rest IH]; intros lp ts lp' st' Hc Hl Hs H; cbn [pop_loop] in H.
  - inversion H; subst. auto.
  - inversion Hs as [|? ? Ht Hr]; subst.
    destruct (if m_left cur then (lp, top) else (top, lp)) as [a b] eqn:Eab.
    assert (Hab : P (m_id a) /\ P (m_id b))
      by (destruct (m_left cur); inversion Eab; subst; auto).
    destruct (Qle_bool _ _).
    + destruct (pop_loop cur top rest) as [[ts0 lp0] st0] eqn:E.
      inversion H; subst. destruct (IH _ _ _ _ Hc Ht Hr E) as (H1 & H2 & H3).
      split; [|auto]. constructor; [|assumption]. cbn. tauto.
    + inversion H; subst. auto.
Qed.

Definition okT (P : Z -> Prop) (t : basic) : Prop :=
  Forall (fun v => P (m_id v)) (b_stack t) /\ P (m_id (b_prev t)) /\ Forall (tri_all P) (b_tris t).

Lemma monotone_vertex_all P t cur :
  okT P t -> P (m_id cur) -> okT P (monotone_vertex t cur).
Proof.
  intros (Hs & Hp & Ht) Hc. unfold monotone_vertex, okT.
  destruct (negb _).
  - cbn [b_tris b_stack b_prev]. repeat split; auto.
    apply Forall_app; split; [assumption|].
    apply side_change_tris_all; [assumption|]. apply Forall_rev; assumption.
  - destruct (b_stack t) as [|top rest].
    + cbn [b_tris b_stack b_prev]. auto.
    + inversion Hs as [|? ? Htop Hrest]; subst.
      destruct (pop_loop cur top rest) as [[ts lp] st] eqn:E.
      destruct (pop_loop_all P _ _ _ _ _ _ Hc Htop Hrest E) as (H1 & H2 & H3).
      cbn [b_tris b_stack b_prev]. repeat split; auto.
      apply Forall_app; auto.
Qed.

Lemma basic_end_all P t pos id :
  okT P t -> P id -> Forall (tri_all P) (b_tris (basic_end t pos id)).
Proof.
  intros H Hid. unfold basic_end, basic_vertex. cbn [b_tris].
  apply (monotone_vertex_all P t (mkMV pos id (negb (m_left (b_prev t))))); assumption.
Qed.

Lemma fold_all P : forall vs t,
  okT P t -> Forall (fun v => P (snd (fst v))) vs -> okT P (fold_left bstep vs t).
Proof.
  induction vs as [|v vs IH]; intros t Ht Hvs; cbn [fold_left]; [assumption|].
  inversion Hvs; subst. apply IH; [|assumption].
  apply monotone_vertex_all; assumption.
Qed.

Lemma input_ids_first first vs last : In (snd first) (input_ids first vs last).
Proof. left; reflexivity. Qed.
Lemma input_ids_last first vs last : In (snd last) (input_ids first vs last).
Proof. right. apply in_or_app. right. left. reflexivity. Qed.
Lemma input_ids_mid first vs last :
  Forall (fun v => In (snd (fst v)) (input_ids first vs last)) vs.
Proof.
  apply Forall_forall. intros v Hv. right. apply in_or_app. left.
  apply (in_map (fun v => snd (fst v))). assumption.
Qed.

Theorem basic_ids : forall first vs last,
  Forall (tri_ids_in (input_ids first vs last)) (basic_run first vs last).
Proof.
  intros first vs last. unfold basic_run. fold bstep.
  apply (basic_end_all (fun z => In z (input_ids first vs last))).
  - apply fold_all; [|apply input_ids_mid].
    unfold okT, basic_begin. cbn [b_stack b_prev b_tris m_id].
    pose proof (input_ids_first first vs last). repeat split; auto.
  - apply input_ids_last.
Qed.

(* ----------------------------------------------------------- id distinctness *)
Definition ids_of (s : list mv) : list Z := map m_id s.

(* consecutive entries of [s] have distinct ids and differ from [c] *)
Lemma side_change_tris_distinct cur s :
  NoDup (ids_of s) -> ~ In (m_id cur) (ids_of s) ->
  Forall tri_distinct (side_change_tris cur s).
Proof.
  induction s as [|a [|b r] IH]; intros Hnd Hc; cbn [side_change_tris]; try constructor.
  - unfold ids_of in *. cbn [map] in *. inversion Hnd as [|? ? Ha Hnd']; subst.
    assert (m_id a <> m_id b) by (intros E; apply Ha; left; auto).
    assert (m_id a <> m_id cur) by (intros E; apply Hc; left; auto).
    assert (m_id b <> m_id cur) by (intros E; apply Hc; right; left; auto).
    destruct (Qle_bool _ _); cbn; repeat split; auto.
  - apply IH.
    + inversion Hnd; assumption.
    + intros Hin; apply Hc; right; exact Hin.
Qed.

Lemma pop_loop_distinct cur : forall st lp ts lp' st',
  NoDup (ids_of (lp :: st)) -> ~ In (m_id cur) (ids_of (lp :: st)) ->
  pop_loop cur lp st = (ts, lp', st') ->
  Forall tri_distinct ts /\ NoDup (ids_of (lp' :: st')) /\ incl (ids_of (lp' :: st')) (ids_of (lp :: st)).
Proof.
  intros st; induction st as [|top rest IH]; intros lp ts lp' st' Hnd Hc H; cbn [pop_loop] in H.
  - inversion H; subst. repeat split; auto. apply incl_refl.
  - destruct (if m_left cur then (lp, top) else (top, lp)) as [a b] eqn:Eab.
    unfold ids_of in Hnd, Hc. cbn [map] in Hnd, Hc.
    assert (Hlt : m_id lp <> m_id top)
      by (inversion Hnd as [|? ? Ha _]; subst; intros E; apply Ha; left; auto).
    assert (Hlc : m_id lp <> m_id cur) by (intros E; apply Hc; left; auto).
    assert (Htc : m_id top <> m_id cur) by (intros E; apply Hc; right; left; auto).
    destruct (Qle_bool _ _).
    + destruct (pop_loop cur top rest) as [[ts0 lp0] st0] eqn:E.
      inversion H; subst.
      assert (Hnd' : NoDup (ids_of (top :: rest))) by (inversion Hnd; assumption).
      assert (Hc' : ~ In (m_id cur) (ids_of (top :: rest)))
        by (intros Hin; apply Hc; right; exact Hin).
      destruct (IH _ _ _ _ Hnd' Hc' E) as (H1 & H2 & H3).
      repeat split; auto.
      * constructor; [|assumption].
        destruct (m_left cur); inversion Eab; subst; cbn; repeat split; auto.
      * intros z Hz. right. apply H3. exact Hz.
    + inversion H; subst. repeat split; auto. apply incl_refl.
Qed.

(* distinctness invariant: the stack starts with b_prev and its ids are duplicate-free *)
Definition okD (t : basic) : Prop :=
  (exists rest, b_stack t = b_prev t :: rest) /\ NoDup (ids_of (b_stack t)) /\ Forall tri_distinct (b_tris t).

Lemma monotone_vertex_distinct t cur :
  okD t -> ~ In (m_id cur) (ids_of (b_stack t)) ->
  okD (monotone_vertex t cur) /\ incl (ids_of (b_stack (monotone_vertex t cur))) (m_id cur :: ids_of (b_stack t)).
Proof.
  intros ([rest Hst] & Hnd & Ht) Hc. unfold monotone_vertex, okD.
  destruct (negb _).
  - cbn [b_tris b_stack b_prev]. repeat split.
    + eexists; reflexivity.
    + unfold ids_of; cbn [map]. constructor; [|constructor; [intros []|constructor]].
      intros [E|[]]. apply Hc. rewrite Hst. left. exact E.
    + apply Forall_app; split; [assumption|].
      apply side_change_tris_distinct.
      * unfold ids_of. rewrite map_rev. apply NoDup_rev. exact Hnd.
      * unfold ids_of. rewrite map_rev, <- in_rev. exact Hc.
    + intros z [E|[E|[]]]; [left; exact E|]. right. rewrite Hst. left. exact E.
  - rewrite Hst in *. set (top := b_prev t) in *.
    destruct (pop_loop cur top rest) as [[ts lp] st] eqn:E.
    destruct (pop_loop_distinct _ _ _ _ _ _ Hnd Hc E) as (H1 & H2 & H3).
    cbn [b_tris b_stack b_prev]. repeat split.
    + eexists; reflexivity.
    + change (ids_of (cur :: lp :: st)) with (m_id cur :: ids_of (lp :: st)).
      constructor; [|assumption]. intros Hin. apply Hc. apply H3. exact Hin.
    + apply Forall_app; auto.
    + change (ids_of (cur :: lp :: st)) with (m_id cur :: ids_of (lp :: st)).
      intros z [Ez|Hz]; [left; exact Ez|right; apply H3; exact Hz].
Qed.

Lemma fold_distinct : forall vs t seen,
  okD t -> incl (ids_of (b_stack t)) seen ->
  NoDup (seen ++ map (fun v => snd (fst v)) vs) ->
  exists seen', okD (fold_left bstep vs t) /\ incl (ids_of (b_stack (fold_left bstep vs t))) seen' /\ (forall z, In z seen' -> In z (seen ++ map (fun v => snd (fst v)) vs)).
Proof.
  induction vs as [|v vs IH]; intros t seen Ht Hincl Hnd; cbn [fold_left map].
  - exists seen. split; [exact Ht|]. split; [exact Hincl|].
    intros z Hz. apply in_or_app; left; exact Hz.
  - cbn [map] in Hnd.
    set (cur := mkMV (fst (fst v)) (snd (fst v)) (snd v)).
    assert (Hc : ~ In (m_id cur) (ids_of (b_stack t))).
    { intros Hin. apply Hincl in Hin. cbn [m_id cur] in Hin.
      apply NoDup_remove_2 in Hnd. apply Hnd. apply in_or_app; left; exact Hin. }
    destruct (monotone_vertex_distinct t cur Ht Hc) as [Hd Hi].
    destruct (IH (bstep t v) (seen ++ [snd (fst v)])) as (seen' & H1 & H2 & H3).
    + exact Hd.
    + intros z Hz. apply Hi in Hz. apply in_or_app. destruct Hz as [Ez|Hz].
      * right; left; exact Ez.
      * left; apply Hincl; exact Hz.
    + rewrite <- app_assoc. exact Hnd.
    + exists seen'. split; [exact H1|]. split; [exact H2|].
      intros z Hz. apply H3 in Hz. rewrite <- app_assoc in Hz. exact Hz.
Qed.

Theorem basic_ids_distinct : forall first vs last,
  NoDup (input_ids first vs last) -> Forall tri_distinct (basic_run first vs last).
Proof.
  intros first vs last Hnd. unfold basic_run. fold bstep.
  set (t0 := basic_begin (fst first) (snd first)).
  assert (H0 : okD t0).
  { unfold okD, t0, basic_begin. cbn [b_stack b_prev b_tris]. repeat split.
    - eexists; reflexivity.
    - unfold ids_of; cbn [map]. constructor; [intros []|constructor].
    - constructor. }
  unfold input_ids in Hnd.
  change (snd first :: map (fun v => snd (fst v)) vs ++ [snd last])
    with ([snd first] ++ map (fun v => snd (fst v)) vs ++ [snd last]) in Hnd.
  rewrite app_assoc in Hnd.
  apply NoDup_remove in Hnd. rewrite app_nil_r in Hnd. destruct Hnd as [Hnd Hlast].
  destruct (fold_distinct vs t0 [snd first]) as (seen' & H1 & H2 & H3).
  - exact H0.
  - apply incl_refl.
  - exact Hnd.
  - rewrite basic_end_tris. destruct H1 as (_ & Hs & Ht).
    apply Forall_app; split; [assumption|].
    apply side_change_tris_distinct.
    + unfold ids_of. rewrite map_rev. apply NoDup_rev. exact Hs.
    + unfold ids_of. rewrite map_rev, <- in_rev. cbn [m_id]. intros Hin.
      apply H2 in Hin. apply H3 in Hin. apply Hlast. exact Hin.
Qed.
