(* The geometry functions regenerated from the Rust source (Gen/Functions.v, tools/rs2coq.py) ARE the hand-written
   models the C10 / C11 / C12 theorems are about: every equation below is between the translation of the current
   source text and the model definition, so an edit of one of these functions in /repo that changes what it computes
   breaks the corresponding proof here (and with it the property theorems restated on the source functions in
   Props/C10.v and Props/C12.v). *)
From Coq Require Import ZArith QArith Qabs.
From LV Require Import Model.Bezier Model.Winding Model.LineInter Model.Sources Model.Triangle Gen.Functions.
Open Scope Q_scope.

(* ---- LineSegment *)
Lemma src_line_sample_is_model s t : src_line_sample s t = l_sample s t.
Proof. reflexivity. Qed.
Lemma src_line_x_is_model s t : src_line_x s t = l_x s t.
Proof. reflexivity. Qed.
Lemma src_line_y_is_model s t : src_line_y s t = l_y s t.
Proof. reflexivity. Qed.
Lemma src_line_flip_is_model s : src_line_flip s = l_flip s.
Proof. reflexivity. Qed.
Lemma src_line_split_range_is_model s t0 t1 : src_line_split_range s t0 t1 = l_split_range s t0 t1.
Proof. reflexivity. Qed.
Lemma src_line_split_is_model s t : src_line_split s t = l_split s t.
Proof. reflexivity. Qed.
Lemma src_line_before_split_is_model s t : src_line_before_split s t = l_before_split s t.
Proof. reflexivity. Qed.
Lemma src_line_after_split_is_model s t : src_line_after_split s t = l_after_split s t.
Proof. reflexivity. Qed.
Lemma src_line_to_vector_is_model s : src_line_to_vector s = l_derivative s.
Proof. reflexivity. Qed.
Lemma src_line_intersection_t_is_model s o : src_line_intersection_t s o = seg_intersection_t s o.
Proof. reflexivity. Qed.

(* ---- QuadraticBezierSegment *)
Lemma src_quad_sample_is_model c t : src_quad_sample c t = q_sample c t.
Proof. reflexivity. Qed.
Lemma src_quad_x_is_model c t : src_quad_x c t = q_x c t.
Proof. reflexivity. Qed.
Lemma src_quad_y_is_model c t : src_quad_y c t = q_y c t.
Proof. reflexivity. Qed.
Lemma src_quad_derivative_is_model c t : src_quad_derivative c t = q_derivative c t.
Proof. reflexivity. Qed.
Lemma src_quad_dx_is_model c t : src_quad_dx c t = q_dcoord (px (q_from c)) (px (q_ctrl c)) (px (q_to c)) t.
Proof. reflexivity. Qed.
Lemma src_quad_dy_is_model c t : src_quad_dy c t = q_dcoord (py (q_from c)) (py (q_ctrl c)) (py (q_to c)) t.
Proof. reflexivity. Qed.
Lemma src_quad_flip_is_model c : src_quad_flip c = q_flip c.
Proof. reflexivity. Qed.
Lemma src_quad_split_range_is_model c t0 t1 : src_quad_split_range c t0 t1 = q_split_range c t0 t1.
Proof. reflexivity. Qed.
Lemma src_quad_split_is_model c t : src_quad_split c t = q_split c t.
Proof. reflexivity. Qed.
Lemma src_quad_before_split_is_model c t : src_quad_before_split c t = q_before_split c t.
Proof. reflexivity. Qed.
Lemma src_quad_after_split_is_model c t : src_quad_after_split c t = q_after_split c t.
Proof. reflexivity. Qed.

(* ---- CubicBezierSegment *)
Lemma src_cubic_sample_is_model c t : src_cubic_sample c t = c_sample c t.
Proof. reflexivity. Qed.
Lemma src_cubic_x_is_model c t : src_cubic_x c t = c_x c t.
Proof. reflexivity. Qed.
Lemma src_cubic_y_is_model c t : src_cubic_y c t = c_y c t.
Proof. reflexivity. Qed.
Lemma src_cubic_derivative_is_model c t : src_cubic_derivative c t = c_derivative c t.
Proof. reflexivity. Qed.
Lemma src_cubic_flip_is_model c : src_cubic_flip c = c_flip c.
Proof. reflexivity. Qed.
Lemma src_cubic_split_range_is_model c t0 t1 : src_cubic_split_range c t0 t1 = c_split_range c t0 t1.
Proof. reflexivity. Qed.
Lemma src_cubic_split_is_model c t : src_cubic_split c t = c_split c t.
Proof. reflexivity. Qed.
Lemma src_cubic_before_split_is_model c t : src_cubic_before_split c t = c_before_split c t.
Proof. reflexivity. Qed.
Lemma src_cubic_after_split_is_model c t : src_cubic_after_split c t = c_after_split c t.
Proof. reflexivity. Qed.

(* ---- further functions *)
Lemma src_line_line_intersection_t_is_model s lp lv : src_line_line_intersection_t s lp lv = seg_line_intersection_t s lp lv.
Proof. reflexivity. Qed.
Lemma src_line_square_length_is_model s : src_line_square_length s = l_square_length s.
Proof. reflexivity. Qed.
Lemma src_quad_to_cubic_is_model c : src_quad_to_cubic c = q_to_cubic c.
Proof. reflexivity. Qed.
Lemma src_cubic_to_quadratic_is_model c : src_cubic_to_quadratic c = c_to_quadratic c.
Proof. reflexivity. Qed.
Lemma src_quad_local_x_extremum_t_is_model c : src_quad_local_x_extremum_t c = q_local_x_extremum_t c.
Proof. reflexivity. Qed.
Lemma src_quad_local_y_extremum_t_is_model c : src_quad_local_y_extremum_t c = q_local_y_extremum_t c.
Proof. reflexivity. Qed.

Theorem src_more_is_model : forall s lp lv q c,
  src_line_line_intersection_t s lp lv = seg_line_intersection_t s lp lv /\
  src_line_square_length s = l_square_length s /\
  src_quad_to_cubic q = q_to_cubic q /\ src_cubic_to_quadratic c = c_to_quadratic c /\
  src_quad_local_x_extremum_t q = q_local_x_extremum_t q /\ src_quad_local_y_extremum_t q = q_local_y_extremum_t q.
Proof. intros; repeat split; reflexivity. Qed.

(* ---- the three groups as single statements (for Props) *)
Theorem src_line_is_model : forall s o t t0 t1,
  src_line_sample s t = l_sample s t /\ src_line_x s t = l_x s t /\ src_line_y s t = l_y s t /\
  src_line_flip s = l_flip s /\ src_line_split_range s t0 t1 = l_split_range s t0 t1 /\
  src_line_split s t = l_split s t /\ src_line_before_split s t = l_before_split s t /\
  src_line_after_split s t = l_after_split s t /\ src_line_to_vector s = l_derivative s /\
  src_line_intersection_t s o = seg_intersection_t s o.
Proof. intros; repeat split; reflexivity. Qed.

Theorem src_quad_is_model : forall c t t0 t1,
  src_quad_sample c t = q_sample c t /\ src_quad_x c t = q_x c t /\ src_quad_y c t = q_y c t /\
  src_quad_derivative c t = q_derivative c t /\
  src_quad_dx c t = px (q_derivative c t) /\ src_quad_dy c t = py (q_derivative c t) /\
  src_quad_flip c = q_flip c /\ src_quad_split_range c t0 t1 = q_split_range c t0 t1 /\
  src_quad_split c t = q_split c t /\ src_quad_before_split c t = q_before_split c t /\
  src_quad_after_split c t = q_after_split c t.
Proof. intros; repeat split; reflexivity. Qed.

Theorem src_cubic_is_model : forall c t t0 t1,
  src_cubic_sample c t = c_sample c t /\ src_cubic_x c t = c_x c t /\ src_cubic_y c t = c_y c t /\
  src_cubic_derivative c t = c_derivative c t /\
  src_cubic_dx c t = px (c_derivative c t) /\ src_cubic_dy c t = py (c_derivative c t) /\
  src_cubic_flip c = c_flip c /\ src_cubic_split_range c t0 t1 = c_split_range c t0 t1 /\
  src_cubic_split c t = c_split c t /\ src_cubic_before_split c t = c_before_split c t /\
  src_cubic_after_split c t = c_after_split c t.
Proof. intros; repeat split; reflexivity. Qed.

(* ---- hit_test.rs: the per-segment step of the winding number *)
Lemma src_test_segment_is_model p a b w : src_test_segment p (mkLine a b) w = test_segment p a b w.
Proof. reflexivity. Qed.

(* ---- fill.rs: remap_t_in_range (C07), exact arithmetic *)
Lemma src_remap_t_in_range_is_model val s e : src_remap_t_in_range val s e = Model.Sources.remap_t_in_range val s e.
Proof. reflexivity. Qed.

(* ---- quadratic extrema and ranges (C11) *)
Lemma src_quad_x_maximum_t_is_model c : src_quad_x_maximum_t c = q_maximum_t (px (q_from c)) (px (q_ctrl c)) (px (q_to c)).
Proof. reflexivity. Qed.
Lemma src_quad_x_minimum_t_is_model c : src_quad_x_minimum_t c = q_minimum_t (px (q_from c)) (px (q_ctrl c)) (px (q_to c)).
Proof. reflexivity. Qed.
Lemma src_quad_y_maximum_t_is_model c : src_quad_y_maximum_t c = q_maximum_t (py (q_from c)) (py (q_ctrl c)) (py (q_to c)).
Proof. reflexivity. Qed.
Lemma src_quad_y_minimum_t_is_model c : src_quad_y_minimum_t c = q_minimum_t (py (q_from c)) (py (q_ctrl c)) (py (q_to c)).
Proof. reflexivity. Qed.
Lemma src_quad_bounding_range_x_is_model c : src_quad_bounding_range_x c = q_bounding_range_x c.
Proof. reflexivity. Qed.
Lemma src_quad_bounding_range_y_is_model c : src_quad_bounding_range_y c = q_bounding_range_y c.
Proof. reflexivity. Qed.
Lemma src_quad_fast_bounding_range_x_is_model c :
  src_quad_fast_bounding_range_x c = q_fast_bounding_range (px (q_from c)) (px (q_ctrl c)) (px (q_to c)).
Proof. reflexivity. Qed.
Lemma src_quad_fast_bounding_range_y_is_model c :
  src_quad_fast_bounding_range_y c = q_fast_bounding_range (py (q_from c)) (py (q_ctrl c)) (py (q_to c)).
Proof. reflexivity. Qed.

Theorem src_quad_extrema_are_model : forall c,
  src_quad_x_maximum_t c = q_maximum_t (px (q_from c)) (px (q_ctrl c)) (px (q_to c)) /\
  src_quad_x_minimum_t c = q_minimum_t (px (q_from c)) (px (q_ctrl c)) (px (q_to c)) /\
  src_quad_y_maximum_t c = q_maximum_t (py (q_from c)) (py (q_ctrl c)) (py (q_to c)) /\
  src_quad_y_minimum_t c = q_minimum_t (py (q_from c)) (py (q_ctrl c)) (py (q_to c)) /\
  src_quad_bounding_range_x c = q_bounding_range_x c /\ src_quad_bounding_range_y c = q_bounding_range_y c /\
  src_quad_fast_bounding_range_x c = q_fast_bounding_range (px (q_from c)) (px (q_ctrl c)) (px (q_to c)) /\
  src_quad_fast_bounding_range_y c = q_fast_bounding_range (py (q_from c)) (py (q_ctrl c)) (py (q_to c)).
Proof. intro c. repeat split; reflexivity. Qed.

(* ---- Triangle (C12) *)
Lemma src_line_intersects_is_model s o : src_line_intersects s o = seg_intersects s o.
Proof. reflexivity. Qed.
Lemma src_tri_bary_is_model t p : src_tri_get_barycentric_coords_for_point t p = tri_bary t p.
Proof. reflexivity. Qed.
Lemma src_tri_contains_point_is_model t p : src_tri_contains_point t p = tri_contains_point t p.
Proof. reflexivity. Qed.
Lemma src_tri_edges_are_model t :
  src_tri_ab t = tri_ab t /\ src_tri_bc t = tri_bc t /\ src_tri_ac t = tri_ac t /\
  src_tri_ba t = l_flip (tri_ab t) /\ src_tri_cb t = l_flip (tri_bc t) /\ src_tri_ca t = l_flip (tri_ac t).
Proof. repeat split; reflexivity. Qed.
Lemma src_tri_intersects_line_segment_is_model t s :
  src_tri_intersects_line_segment t s = tri_intersects_line_segment t s.
Proof. reflexivity. Qed.
