(* Proofs for C05: the stroke-mesh oracle means what it says; add_edge_triangles guards; miter limit;
   reach geometry of tangent corners. *)
From Coq Require Import QArith Qminmax Qabs Qfield Lqa.
From LV Require Import Base.Prelude Base.F32 Model.Bezier Gen.Constants Checker.Region Checker.StrokeSpec
  Proofs.C01_Dist.
Open Scope Q_scope.

(* ------------------------------------------------------------------ the oracle *)

Lemma peqb_peq a b : peqb a b = true -> a =p= b.
Proof. unfold peqb, peq. rewrite andb_true_iff, !Qeq_bool_iff. tauto. Qed.

Lemma vertex_ok_sound segs allowed2 v : vertex_ok segs allowed2 v = true ->
  position_f32 v =p= sv_pos v /\ exists s, In s segs /\ seg_dist2 (sv_pos v) s <= allowed2.
Proof.
  unfold vertex_ok. rewrite andb_true_iff. intros [H1 H2]. split.
  - apply peqb_peq; exact H1.
  - apply existsb_exists in H2. destruct H2 as (s & Hin & Hle).
    exists s. split; [exact Hin|]. apply Qle_bool_iff; exact Hle.
Qed.

Lemma tri_ok_sound n t : tri_ok n t = true ->
  tri_distinct t /\
  let '(a, b, c) := t in (0 <= a < n)%Z /\ (0 <= b < n)%Z /\ (0 <= c < n)%Z.
Proof.
  destruct t as [[a b] c]. unfold tri_ok, tri_distinct.
  rewrite !andb_true_iff, !negb_true_iff, !Z.eqb_neq, !Z.leb_le, !Z.ltb_lt.
  intuition.
Qed.

Lemma mesh_ok_sound : forall segs allowed2 vs ts,
  mesh_ok segs allowed2 vs ts = true ->
  (forall v, In v vs ->
     position_f32 v =p= sv_pos v /\
     exists s, In s segs /\ seg_dist2 (sv_pos v) s <= allowed2) /\
  (forall t, In t ts ->
     tri_distinct t /\
     let '(a, b, c) := t in
     (0 <= a < Z.of_nat (length vs))%Z /\ (0 <= b < Z.of_nat (length vs))%Z /\ (0 <= c < Z.of_nat (length vs))%Z).
Proof.
  intros segs allowed2 vs ts H. unfold mesh_ok in H.
  apply andb_true_iff in H. destruct H as [Hv Ht].
  rewrite forallb_forall in Hv, Ht. split.
  - intros v Hin. apply vertex_ok_sound. apply Hv; exact Hin.
  - intros t Hin. apply tri_ok_sound. apply Ht; exact Hin.
Qed.

Lemma within_reach_meaning : forall segs allowed2 v,
  vertex_ok segs allowed2 v = true ->
  exists s t, In s segs /\ 0 <= t /\ t <= 1 /\
    norm2 (psub (sv_pos v) (seg_point (fst s) (snd s) t)) <= allowed2.
Proof.
  intros segs allowed2 v H.
  destruct (vertex_ok_sound _ _ _ H) as (_ & s & Hin & Hle).
  unfold seg_dist2 in Hle.
  destruct (dist2_spec (sv_pos v) (fst s) (snd s)) as (_ & t & T0 & T1 & E).
  exists s, t. repeat split; try assumption.
  rewrite <- E. exact Hle.
Qed.

(* ------------------------------------------------------------------ add_edge_triangles *)

Definition aet (n0 q0 n1 q1 : Z) : list (Z * Z * Z) :=
  if (n0 =? q1)%Z then []
  else
    (if negb (n0 =? q0)%Z && negb (q0 =? q1)%Z then [(n0, q0, q1)] else [])
    ++ (if negb (n0 =? n1)%Z && negb (q1 =? n1)%Z then [(n0, q1, n1)] else []).

Lemma add_edge_triangles_aet p0 p1 :
  add_edge_triangles p0 p1 =
  aet (if fold_pos p0 then pos_prev p0 else neg_next p0)
      (if fold_neg p0 then neg_prev p0 else pos_next p0)
      (if fold_pos p1 then pos_next p1 else neg_prev p1)
      (if fold_neg p1 then neg_next p1 else pos_prev p1).
Proof. reflexivity. Qed.

Lemma aet_in n0 q0 n1 q1 t : In t (aet n0 q0 n1 q1) ->
  (t = (n0, q0, q1) /\ n0 <> q0 /\ q0 <> q1 /\ n0 <> q1) \/
  (t = (n0, q1, n1) /\ n0 <> q1 /\ q1 <> n1 /\ n0 <> n1).
Proof.
  unfold aet. destruct (Z.eqb_spec n0 q1) as [E0|N0]; [intros []|].
  destruct (Z.eqb_spec n0 q0), (Z.eqb_spec q0 q1), (Z.eqb_spec n0 n1), (Z.eqb_spec q1 n1);
    cbn [negb andb app In]; intros H;
    repeat match goal with
           | H : _ \/ _ |- _ => destruct H as [H|H]
           | H : False |- _ => destruct H
           end;
    subst t; auto 10.
Qed.

Lemma aet_length n0 q0 n1 q1 : (length (aet n0 q0 n1 q1) <= 2)%nat.
Proof.
  unfold aet. destruct (n0 =? q1)%Z; [cbn [length]; lia|].
  destruct (negb (n0 =? q0)%Z && negb (q0 =? q1)%Z), (negb (n0 =? n1)%Z && negb (q1 =? n1)%Z);
    cbn [app length]; lia.
Qed.

Lemma edge_triangles_distinct : forall p0 p1 t, In t (add_edge_triangles p0 p1) -> tri_distinct t.
Proof.
  intros p0 p1 t H. rewrite add_edge_triangles_aet in H.
  apply aet_in in H. destruct H as [(-> & A & B & C)|(-> & A & B & C)];
    unfold tri_distinct; auto.
Qed.

Lemma edge_triangles_at_most_two : forall p0 p1, (length (add_edge_triangles p0 p1) <= 2)%nat.
Proof. intros p0 p1. rewrite add_edge_triangles_aet. apply aet_length. Qed.

Lemma edge_triangles_ids : forall p0 p1 a b c, In (a, b, c) (add_edge_triangles p0 p1) ->
  let ids := [pos_prev p0; pos_next p0; neg_prev p0; neg_next p0; pos_prev p1; pos_next p1; neg_prev p1; neg_next p1] in
  In a ids /\ In b ids /\ In c ids.
Proof.
  intros p0 p1 a b c H. rewrite add_edge_triangles_aet in H.
  apply aet_in in H. cbv zeta.
  destruct H as [(E & _)|(E & _)]; inversion E; subst a b c; clear E;
    destruct (fold_pos p0), (fold_neg p0), (fold_pos p1), (fold_neg p1);
    cbn [In]; repeat split; auto 12.
Qed.

(* ------------------------------------------------------------------ miter limit *)

Lemma miter_limit_factor_is_one : miter_limit_factor == 1.
Proof. unfold miter_limit_factor. reflexivity. Qed.

Lemma miter_limit_meaning : forall normal ml,
  miter_limit_is_exceeded normal ml = false <-> sdot normal normal <= ml * ml.
Proof.
  intros normal ml. unfold miter_limit_is_exceeded, Qltb.
  rewrite negb_false_iff, Qle_bool_iff.
  assert (E : ml * ml * miter_limit_factor == ml * ml).
  { rewrite miter_limit_factor_is_one. ring. }
  rewrite E. reflexivity.
Qed.

(* ------------------------------------------------------------------ reach geometry *)

Lemma corner_alg (a b c d u v h : Q) :
  a * a + b * b == 1 -> c * c + d * d == 1 ->
  u * a + v * b == h -> u * c + v * d == h ->
  ~ (a * c + b * d) * (a * c + b * d) == 1 ->
  (u * u + v * v) * (1 + (a * c + b * d)) == 2 * h * h.
Proof.
  intros H1 H2 H3 H4 HN.
  set (k := a * c + b * d) in *.
  set (D := a * d - b * c).
  assert (HD : D * D == 1 - k * k).
  { assert (X : D * D == (a * a + b * b) * (c * c + d * d) - k * k) by (unfold D, k; ring).
    rewrite H1, H2 in X. rewrite X. ring. }
  assert (Hu : u * D == h * (d - b)).
  { assert (X : u * D == d * (u * a + v * b) - b * (u * c + v * d)) by (unfold D; ring).
    rewrite H3, H4 in X. rewrite X. ring. }
  assert (Hv : v * D == h * (a - c)).
  { assert (X : v * D == a * (u * c + v * d) - c * (u * a + v * b)) by (unfold D; ring).
    rewrite H3, H4 in X. rewrite X. ring. }
  assert (HS : (u * u + v * v) * (D * D) == h * h * (2 - 2 * k)).
  { assert (X : (u * u + v * v) * (D * D) == (u * D) * (u * D) + (v * D) * (v * D)) by ring.
    rewrite Hu, Hv in X. rewrite X.
    assert (Y : h * (d - b) * (h * (d - b)) + h * (a - c) * (h * (a - c)) ==
                h * h * ((a * a + b * b) + (c * c + d * d) - 2 * k)) by (unfold k; ring).
    rewrite H1, H2 in Y. rewrite Y. ring. }
  rewrite HD in HS.
  assert (Z0 : (1 - k) * ((u * u + v * v) * (1 + k) - 2 * h * h) == 0).
  { assert (X : (1 - k) * ((u * u + v * v) * (1 + k) - 2 * h * h) ==
                (u * u + v * v) * (1 - k * k) - h * h * (2 - 2 * k)) by ring.
    rewrite X, HS. ring. }
  apply Qmult_integral in Z0. destruct Z0 as [Z0|Z0].
  - exfalso. apply HN.
    assert (K1 : k == 1) by lra. rewrite K1. reflexivity.
  - lra.
Qed.

Lemma tangent_corner_distance : forall n1 n2 h x,
  tangent_corner n1 n2 h x -> ~ sdot n1 n2 * sdot n1 n2 == 1 ->
  sdot x x * (1 + sdot n1 n2) == 2 * h * h.
Proof.
  intros [a b] [c d] h [u v]. unfold tangent_corner, sdot, px, py; cbn [fst snd].
  intros (H1 & H2 & H3 & H4) HN. apply corner_alg; assumption.
Qed.

Lemma right_angle_corner : forall n1 n2 h x,
  tangent_corner n1 n2 h x -> sdot n1 n2 == 0 -> sdot x x == 2 * h * h.
Proof.
  intros n1 n2 h x HT H0.
  assert (HN : ~ sdot n1 n2 * sdot n1 n2 == 1).
  { rewrite H0. intro X. assert (Y : 0 * 0 == 0) by ring. rewrite Y in X.
    revert X. unfold Qeq; cbn. discriminate. }
  pose proof (tangent_corner_distance n1 n2 h x HT HN) as E.
  rewrite H0 in E. rewrite <- E. ring.
Qed.

Lemma miter_tip_within_limit : forall x h ml, 0 < h ->
  miter_limit_is_exceeded (px x / h, py x / h) ml = false -> sdot x x <= ml * ml * (h * h).
Proof.
  intros [u v] h ml Hh H. apply miter_limit_meaning in H.
  unfold sdot, px, py in *; cbn [fst snd] in *.
  assert (Hh2 : 0 < h * h) by nra.
  assert (E : u * u + v * v == (u / h * (u / h) + v / h * (v / h)) * (h * h)) by (field; lra).
  rewrite E. apply Qmult_le_compat_r; [exact H | lra].
Qed.

Lemma clip_corner_reach : forall c s ml,
  0 < s -> 0 < c -> c * c + s * s == 1 -> 1 <= ml -> ml * c < 1 ->
  (1 - ml * c) * (1 - ml * c) <= s * s.
Proof.
  intros c s ml Hs Hc E Hm Hlt.
  assert (A0 : 0 <= c * (ml - 1)) by (apply Qmult_le_0_compat; lra).
  assert (C1 : c < 1) by lra.
  assert (A : 0 <= (ml * c) * (1 - ml * c)).
  { apply Qmult_le_0_compat; [|lra]. apply Qmult_le_0_compat; lra. }
  assert (B : 0 <= c * (ml - c)) by (apply Qmult_le_0_compat; lra).
  lra.
Qed.

(* ------------------------------------------------------------------ non-vacuity *)

Lemma tangent_corner_example :
  tangent_corner (3#5, 4#5) (4#5, 3#5) 1 (5#7, 5#7) /\ ~ sdot (3#5, 4#5) (4#5, 3#5) * sdot (3#5, 4#5) (4#5, 3#5) == 1.
Proof.
  split.
  - unfold tangent_corner. repeat split; vm_compute; reflexivity.
  - intro H. vm_compute in H. discriminate.
Qed.

Lemma mesh_ok_example :
  mesh_ok [((0, 0), (4, 0))] (1#2)
    [mkSV (0, 1#2) (0, 0) (0, 1) 1; mkSV (0, -(1#2)) (0, 0) (0, -1) 1; mkSV (4, 1#2) (4, 0) (0, 1) 1]
    [(0, 1, 2)%Z] = true.
Proof. vm_compute. reflexivity. Qed.

Lemma edge_triangles_example :
  add_edge_triangles (mkEp 0 0 1 1 false false) (mkEp 2 2 3 3 false false) = [(1, 0, 2)%Z; (1, 2, 3)%Z]
  /\ add_edge_triangles (mkEp 0 0 0 0 false false) (mkEp 0 0 1 1 false false) = [].
Proof. split; vm_compute; reflexivity. Qed.

(* ------------------------------------------------------------------ miter-clip corners *)
(* side point n0 = (a,b) (non-zero); the miter tip T = (p,q) and the clipped corner i = (x,y) both lie on the
   side line {v : v.n0 = n0.n0}; the join is not straight (T is not n0 itself); the clip line is not beyond
   the tip (i.T <= T.T) and not before the side point (n0.T <= i.T, true whenever the miter limit is >= 1).
   Then the corner is not farther from the join than the tip. *)
Lemma clip_corner_within_tip : forall a b p q x y : Q,
  0 < a * a + b * b ->
  p * a + q * b == a * a + b * b ->
  x * a + y * b == a * a + b * b ->
  ~ (a * q - b * p == 0) ->
  x * p + y * q <= p * p + q * q ->
  a * p + b * q <= x * p + y * q ->
  x * x + y * y <= p * p + q * q.
Proof.
  intros a b p q x y Hpos HT Hi HS Hle Hge.
  set (h2 := a * a + b * b) in *.
  set (S := a * q - b * p) in *.
  set (R := a * y - b * x).
  assert (L1 : h2 * (p * p + q * q) == h2 * h2 + S * S).
  { setoid_replace (h2 * h2) with ((p * a + q * b) * (p * a + q * b)) by (rewrite HT; reflexivity). unfold h2, S. ring. }
  assert (L2 : h2 * (x * x + y * y) == h2 * h2 + R * R).
  { setoid_replace (h2 * h2) with ((x * a + y * b) * (x * a + y * b)) by (rewrite Hi; reflexivity). unfold h2, R. ring. }
  assert (L3 : h2 * (x * p + y * q) == h2 * h2 + R * S).
  { setoid_replace (h2 * h2) with ((x * a + y * b) * (p * a + q * b)) by (rewrite Hi, HT; reflexivity). unfold h2, R, S. ring. }
  assert (L4 : a * p + b * q == h2) by (rewrite <- HT; ring).
  assert (A : R * S <= S * S).
  { assert (h2 * (x * p + y * q) <= h2 * (p * p + q * q)) by (apply Qmult_le_l; auto). lra. }
  assert (B : 0 <= R * S).
  { assert (h2 * (a * p + b * q) <= h2 * (x * p + y * q)) by (apply Qmult_le_l; auto). rewrite L4 in H. lra. }
  assert (C : R * R <= S * S).
  { destruct (Qlt_le_dec 0 S) as [Sp|Sn].
    - assert (0 <= R) by nra. assert (R <= S) by nra. nra.
    - assert (Sneg : S < 0). { destruct (Qeq_dec S 0) as [E|E]; [contradiction|]. lra. }
      assert (R <= 0) by nra. assert (S <= R) by nra. nra. }
  assert (h2 * (x * x + y * y) <= h2 * (p * p + q * q)) by lra.
  apply Qmult_le_l in H; auto.
Qed.

