(* Proofs for C06: the stroke cover checker (Checker/StrokeCover.v) means what it says. *)
From Coq Require Import QArith Qminmax Qabs Qround Qfield Lqa Sorted.
From LV Require Import Base.Prelude Model.Bezier Model.Winding Checker.Region Checker.StrokeCover
  Proofs.C18_Winding Proofs.C01_Region.
Open Scope Q_scope.

(* ------------------------------------------------------------------ *)
(* simple_between *)

Lemma inject_Z_pow2_pos k : (0 <= k)%Z -> 0 < inject_Z (2 ^ k).
Proof.
  intro Hk. change 0 with (inject_Z 0). rewrite <- Zlt_Qlt.
  apply Z.pow_pos_nonneg; lia.
Qed.

Lemma simple_between_aux_strict fuel : forall k lo hi, (0 <= k)%Z -> lo < hi ->
  lo < simple_between_aux fuel k lo hi /\ simple_between_aux fuel k lo hi < hi.
Proof.
  induction fuel as [|f IH]; intros k lo hi Hk H; cbn [simple_between_aux].
  - rewrite Qred_correct.
    set (m := (lo + hi) / 2).
    assert (E : m * 2 == lo + hi) by (unfold m; field).
    split; lra.
  - cbv zeta.
    set (s := inject_Z (2 ^ k)).
    assert (Hs : 0 < s) by (apply inject_Z_pow2_pos; exact Hk).
    set (c := Qred (inject_Z (Qfloor (lo * s) + 1) / s)).
    destruct (Qltb_spec c hi) as [L|L].
    + split; [|exact L].
      unfold c. rewrite Qred_correct.
      apply Qlt_shift_div_l; [exact Hs|]. apply Qlt_floor.
    + apply IH; [lia|exact H].
Qed.

Theorem simple_between_strict : forall lo hi, lo < hi ->
  lo < simple_between lo hi /\ simple_between lo hi < hi.
Proof.
  intros lo hi H. unfold simple_between. apply simple_between_aux_strict; [lia|exact H].
Qed.

(* ------------------------------------------------------------------ *)
(* one line *)

Lemma breakpoints_concat_in y (ps : list polygon) ts r b :
  In r ps -> In b (breakpoints y r ts) -> In b (breakpoints y (concat ps) ts).
Proof.
  intros Hr Hb. unfold breakpoints in *.
  apply in_map_iff in Hb. destruct Hb as (e & <- & He).
  apply filter_In in He. destruct He as [He Hc].
  apply (in_map (fun e => x_at (fst e) (snd e) y)).
  apply filter_In. split; [|exact Hc].
  apply in_app_iff in He. apply in_app_iff. destruct He as [He|He]; [left|right; exact He].
  apply in_concat. exists r. split; assumption.
Qed.

Section Line.
Variables (ps : list polygon) (ts : list triangle) (y : Q).

Let B := breakpoints y (concat ps) ts.
Let P (x : Q) : Prop := sub_ok ps ts (x, y) = true.

Lemma sub_ok_const lo hi x :
  lo < x -> x <= hi ->
  (forall b, In b B -> b <= lo \/ hi <= b) ->
  sub_ok ps ts (x, y) = sub_ok ps ts (hi, y).
Proof.
  intros H1 H2 HB. unfold sub_ok. f_equal.
  - unfold in_polygons. apply existsb_ext_in. intros r Hr.
    apply (constant_between_breakpoints NonZero r ts y lo hi x H1 H2).
    intros b Hb. apply HB. unfold B. eapply breakpoints_concat_in; eassumption.
  - apply (constant_between_breakpoints NonZero (concat ps) ts y lo hi x H1 H2). exact HB.
Qed.

Lemma interval_ok lo hi rep :
  (forall b, In b B -> b <= lo \/ hi <= b) ->
  lo < rep -> rep <= hi -> P rep ->
  forall x, lo < x -> x <= hi -> P x.
Proof.
  intros HB R1 R2 HP x H1 H2. unfold P in *.
  rewrite (sub_ok_const lo hi x H1 H2 HB).
  rewrite <- (sub_ok_const lo hi rep R1 R2 HB). exact HP.
Qed.

Lemma left_ok hi rep :
  (forall b, In b B -> hi <= b) -> rep <= hi -> P rep ->
  forall x, x <= hi -> P x.
Proof.
  intros HB R HP x H. unfold P in *.
  rewrite (sub_ok_const (x - 1) hi x); [| lra | exact H | intros b Hb; right; apply HB; exact Hb].
  rewrite <- (sub_ok_const (rep - 1) hi rep); [exact HP | lra | exact R |].
  intros b Hb; right; apply HB; exact Hb.
Qed.

Lemma right_ok lo rep :
  (forall b, In b B -> b <= lo) -> lo < rep -> P rep ->
  forall x, lo < x -> P x.
Proof.
  intros HB R HP x H. unfold P in *.
  destruct (Qlt_le_dec rep x) as [G|G].
  - rewrite <- (sub_ok_const lo x rep); [exact HP | exact R | lra |].
    intros b Hb. left. apply HB. exact Hb.
  - rewrite (sub_ok_const lo rep x); [exact HP | exact H | exact G |].
    intros b Hb. left. apply HB. exact Hb.
Qed.

Lemma scan_simple_ok xs : forall l,
  scan_simple ps ts y l xs = [] ->
  StronglySorted Qle (l :: xs) ->
  (forall b, In b B -> b <= l \/ In b xs) ->
  forall x, l < x -> x <= last xs l -> P x.
Proof.
  induction xs as [|h rest IH]; intros l Sc St HB x H1 H2.
  - cbn [last] in H2. lra.
  - cbn [scan_simple] in Sc. apply app_eq_nil in Sc. destruct Sc as [Sc1 Sc2].
    inversion St as [|? ? St' Fl]; subst. inversion St' as [|? ? St'' Fh]; subst.
    inversion Fl as [|? ? Llh Fl']; subst.
    rewrite last_cons in H2.
    destruct (Qlt_le_dec h x) as [G|G].
    + apply (IH h); try assumption.
      intros b Hb. destruct (HB b Hb) as [Hl|[<-|Hr]].
      * left. lra.
      * left. apply Qle_refl.
      * right. exact Hr.
    + assert (Llt : l < h) by lra.
      destruct (Qltb_spec l h) as [_|C]; [|lra].
      cbv zeta in Sc1.
      destruct (simple_between_strict l h Llt) as [R1 R2].
      apply (interval_ok l h (simple_between l h)); try assumption.
      * intros b Hb. destruct (HB b Hb) as [Hl|[<-|Hr]].
        -- left. exact Hl.
        -- right. apply Qle_refl.
        -- right. rewrite Forall_forall in Fh. apply Fh. exact Hr.
      * lra.
      * unfold P. destruct (sub_ok ps ts (simple_between l h, y)); [reflexivity|discriminate].
Qed.

Lemma first_lt (h : Q) : inject_Z (Qfloor h - 1) < h.
Proof.
  pose proof (Qfloor_le h) as F.
  unfold Z.sub. rewrite inject_Z_plus, inject_Z_opp.
  change (inject_Z 1) with 1. lra.
Qed.

Lemma beyond_gt (h : Q) : h < inject_Z (Qfloor h + 2).
Proof.
  pose proof (Qlt_floor h) as F.
  rewrite inject_Z_plus in *. change (inject_Z 1) with 1 in F. change (inject_Z 2) with 2. lra.
Qed.

Theorem line_sub_sound_sec : check_line_sub ps ts y = [] -> forall x, P x.
Proof.
  unfold check_line_sub. cbv zeta. fold B.
  pose proof (sort_q_sorted B) as St.
  pose proof (sort_q_In B) as HIn.
  destruct (sort_q B) as [|h rest] eqn:E.
  - intros H x.
    assert (A : P 0).
    { unfold P. destruct (sub_ok ps ts (0, y)); [reflexivity|discriminate]. }
    assert (HB : forall b, In b B -> False) by (intros b Hb; apply HIn in Hb; exact Hb).
    destruct (Qlt_le_dec 0 x) as [G|G].
    + apply (right_ok (-1) 0); try assumption; try lra.
      intros b Hb. destruct (HB b Hb).
    + apply (left_ok 0 0); try assumption; try lra.
      intros b Hb. destruct (HB b Hb).
  - intros H x. apply app_eq_nil in H. destruct H as [Fi H].
    apply app_eq_nil in H. destruct H as [Sc Bey].
    set (fst_ := inject_Z (Qfloor h - 1)) in *.
    set (bey := inject_Z (Qfloor (last (h :: rest) 0) + 2)) in *.
    assert (A1 : P fst_).
    { unfold P. destruct (sub_ok ps ts (fst_, y)); [reflexivity|discriminate]. }
    assert (A2 : P bey).
    { unfold P. destruct (sub_ok ps ts (bey, y)); [reflexivity|discriminate]. }
    inversion St as [|? ? St' Fh]; subst.
    destruct (Qlt_le_dec h x) as [G|G]; [destruct (Qlt_le_dec (last rest h) x) as [G'|G']|].
    + apply (right_ok (last rest h) bey); try assumption.
      * intros b Hb. apply sorted_le_last; try assumption.
        apply HIn in Hb. destruct Hb as [<-|Hb]; [left; apply Qle_refl | right; exact Hb].
      * unfold bey. rewrite last_cons. apply beyond_gt.
    + apply (scan_simple_ok rest h); try assumption.
      intros b Hb. apply HIn in Hb. destruct Hb as [<-|Hb]; [left; apply Qle_refl | right; exact Hb].
    + apply (left_ok h fst_); try assumption.
      * intros b Hb. apply HIn in Hb. destruct Hb as [<-|Hb]; [apply Qle_refl|].
        rewrite Forall_forall in Fh. apply Fh. exact Hb.
      * apply Qlt_le_weak. apply first_lt.
Qed.

End Line.

Theorem line_sub_sound : forall ps ts y,
  check_line_sub ps ts y = [] ->
  forall x, in_polygons ps (x, y) = true -> covers ts (x, y) = true.
Proof.
  intros ps ts y H x Hin.
  pose proof (line_sub_sound_sec ps ts y H x) as HP. cbv beta in HP.
  unfold sub_ok in HP. rewrite Hin in HP. exact HP.
Qed.

Theorem check_sub_sound : forall ys ps ts,
  check_sub_on ys ps ts = [] ->
  forall y, In y ys -> forall x, in_polygons ps (x, y) = true -> covers ts (x, y) = true.
Proof.
  intros ys ps ts H y Hy. apply line_sub_sound.
  unfold check_sub_on in H.
  induction ys as [|h r IH]; [destruct Hy|].
  cbn [flat_map] in H. apply app_eq_nil in H. destruct H as [H1 H2].
  destruct Hy as [<-|Hy].
  - apply map_eq_nil in H1. exact H1.
  - apply IH; assumption.
Qed.

(* ------------------------------------------------------------------ *)
(* thinning *)

Lemma every_from_In k l : forall i y, In y (every_from k i l) -> In y l.
Proof.
  induction l as [|h r IH]; intros i y H; cbn [every_from] in H.
  - exact H.
  - destruct i as [|j].
    + destruct H as [<-|H]; [left; reflexivity | right; eapply IH; exact H].
    + right. eapply IH; exact H.
Qed.

Theorem thin_subset : forall budget l y, In y (thin budget l) -> In y l.
Proof.
  intros budget l y H. unfold thin in H. eapply every_from_In; exact H.
Qed.

(* ------------------------------------------------------------------ *)
(* outer bound *)

Theorem tri_within_sound : forall r2 segs t,
  tri_within r2 segs t = true ->
  exists s, In s segs /\
    forall u v, 0 <= u -> 0 <= v -> u + v <= 1 ->
      dist2 (tri_point t u v) (fst s) (snd s) <= r2.
Proof.
  intros r2 segs t H. unfold tri_within in H.
  apply existsb_exists in H. destruct H as (s & Hs & F).
  exists s. split; [exact Hs|].
  destruct t as [[a b] c]. cbn [tri_points forallb] in F.
  apply andb_true_iff in F. destruct F as [Na F].
  apply andb_true_iff in F. destruct F as [Nb F].
  apply andb_true_iff in F. destruct F as [Nc _].
  intros u v Hu Hv Huv. unfold tri_point.
  destruct (Qlt_le_dec 0 (u + v)) as [W|W].
  - set (w := u + v) in *.
    assert (Ew : w == u + v) by (unfold w; reflexivity).
    set (m := (px b + (v / w) * (px c - px b), py b + (v / w) * (py c - py b))).
    assert (F0 : 0 <= v / w) by (apply Qle_shift_div_l; lra).
    assert (F1 : v / w <= 1) by (apply Qle_shift_div_r; lra).
    assert (Nm : near_edge r2 m s = true) by (apply band_convex; assumption).
    assert (W0 : 0 <= w) by lra.
    pose proof (band_convex r2 a m s w W0 Huv Na Nm) as N.
    apply near_edge_true in N.
    eapply Qle_trans; [|exact N].
    clear Ew. subst m. subst w.
    apply dist2_point_le; unfold px, py; cbn [fst snd]; field; lra.
  - assert (U0 : u == 0) by lra.
    assert (V0 : v == 0) by lra.
    apply near_edge_true in Na.
    eapply Qle_trans; [|exact Na].
    apply dist2_point_le; unfold px, py; cbn [fst snd]; rewrite U0, V0; ring.
Qed.

Theorem all_within_sound : forall r2 segs ts,
  all_within r2 segs ts = [] -> forall t, In t ts -> tri_within r2 segs t = true.
Proof.
  intros r2 segs ts H t Ht. unfold all_within in H.
  destruct (tri_within r2 segs t) eqn:E; [reflexivity|].
  assert (I : In t (filter (fun t => negb (tri_within r2 segs t)) ts)).
  { apply filter_In. split; [exact Ht|]. rewrite E. reflexivity. }
  rewrite H in I. destruct I.
Qed.

(* ------------------------------------------------------------------ *)
(* examples *)

Example line_example :
  let must := [[((0, 0), (4, 0)); ((4, 0), (4, 1)); ((4, 1), (0, 1)); ((0, 1), (0, 0))]] in
  let t1 := ((0, 0), (4, 0), (4, 1)) in
  let t2 := ((0, 0), (4, 1), (0, 1)) in
  check_line_sub must [t1; t2] (1#2) = [] /\ check_line_sub must [t1] (1#2) <> []
  /\ in_polygons must (1, 1#2) = true.
Proof.
  cbv zeta. split; [|split].
  - vm_compute. reflexivity.
  - vm_compute. discriminate.
  - vm_compute. reflexivity.
Qed.

Example within_example :
  tri_within 1 [((0, 0), (4, 0))] ((0, 1#2), (4, 1#2), (4, -(1#2))) = true
  /\ tri_within 1 [((0, 0), (4, 0))] ((0, 1#2), (4, 1#2), (4, 2)) = false.
Proof.
  split; vm_compute; reflexivity.
Qed.
