(* C14 proofs, part 3: IdIter and resolution of ids through the stores. *)
From LV Require Import Base.Prelude Model.PathStore Model.PathSpec Proofs.C14_Layout.

(* ------------------------------------------------- lengths of the layout *)

Lemma len_ep n (pre : list pt) p a : length a = n ->
  length (pre ++ p :: pack a) = length pre + (stride_of n + 1).
Proof.
  intros <-. rewrite app_length. cbn [length]. rewrite pack_length. lia.
Qed.

Lemma len_pack n a : length a = n -> length (pack a) = stride_of n.
Proof. intros <-. apply pack_length. Qed.

Lemma len_edge n e : edge_attrs_ok n e ->
  length (layout_edge e) =
  match e with ELine _ _ => 0 | EQuad _ _ _ => 1 | ECubic _ _ _ _ => 2 end + (stride_of n + 1).
Proof.
  unfold edge_attrs_ok. destruct e as [p a | c p a | c1 c2 p a]; cbn [edge_to snd layout_edge length];
    intros <-; rewrite pack_length; lia.
Qed.

(* where the last endpoint of a run of edges sits *)
Lemma last_split n es : forall pre p0 a0 post,
  length a0 = n -> Forall (edge_attrs_ok n) es ->
  exists pre',
    pre ++ p0 :: pack a0 ++ flat_map layout_edge es ++ post
    = pre' ++ fst (snd (spec_edges (p0, a0) es)) :: pack (snd (snd (spec_edges (p0, a0) es))) ++ post
    /\ length pre' = length pre + length (flat_map layout_edge es)
    /\ length (snd (snd (spec_edges (p0, a0) es))) = n.
Proof.
  induction es as [|e es IH]; intros pre p0 a0 post Ha Hes.
  - exists pre. cbn [flat_map spec_edges snd fst app length]. repeat split; auto.
  - pose proof (Forall_inv Hes) as He. pose proof (Forall_inv_tail Hes) as Hes'.
    cbn [spec_edges]. destruct (spec_edges (edge_to e) es) as [evs last] eqn:Hse.
    cbn [snd].
    pose proof (len_edge n e He) as Hle.
    pose proof (len_pack n a0 Ha) as Hpa.
    destruct e as [p a | c p a | c1 c2 p a]; unfold edge_attrs_ok in He; cbn [edge_to snd] in He, Hse.
    + destruct (IH (pre ++ p0 :: pack a0) p a post He Hes') as (pre' & H1 & H2 & H3).
      rewrite Hse in H1, H3. cbn [snd] in H1, H3.
      exists pre'. split; [| split; [| exact H3]].
      * rewrite <- H1. cbn [flat_map layout_edge]. norm_app. reflexivity.
      * rewrite H2. cbn [flat_map]. rewrite !app_length. cbn [length] in *. lia.
    + destruct (IH (pre ++ p0 :: pack a0 ++ [c]) p a post He Hes') as (pre' & H1 & H2 & H3).
      rewrite Hse in H1, H3. cbn [snd] in H1, H3.
      exists pre'. split; [| split; [| exact H3]].
      * rewrite <- H1. cbn [flat_map layout_edge]. norm_app. reflexivity.
      * rewrite H2. cbn [flat_map]. rewrite !app_length. cbn [length] in *.
        rewrite !app_length. cbn [length]. lia.
    + destruct (IH (pre ++ p0 :: pack a0 ++ [c1; c2]) p a post He Hes') as (pre' & H1 & H2 & H3).
      rewrite Hse in H1, H3. cbn [snd] in H1, H3.
      exists pre'. split; [| split; [| exact H3]].
      * rewrite <- H1. cbn [flat_map layout_edge]. norm_app. reflexivity.
      * rewrite H2. cbn [flat_map]. rewrite !app_length. cbn [length] in *.
        rewrite !app_length. cbn [length]. lia.
Qed.

Lemma len_sub n s : length (sp_attrs s) = n -> Forall (edge_attrs_ok n) (sp_edges s) ->
  length (layout_sub s) =
  (stride_of n + 1) + length (flat_map layout_edge (sp_edges s))
  + (if sp_close s then stride_of n + 1 else 0).
Proof.
  intros Ha _. unfold layout_sub, close_tail. cbn [length]. rewrite !app_length.
  rewrite (len_pack n _ Ha). destruct (sp_close s); cbn [length]; rewrite ?(len_pack n _ Ha); lia.
Qed.

Section Ids.
Context (P : path).
Local Notation n := (p_nattr P).
Local Notation E := (stride_of (p_nattr P) + 1).

Lemma resolve_begin i e : ep_at P i = Some e ->
  resolve_event P (EvBegin i) = Some (EvBegin e).
Proof.
  intros H. change (resolve_event P (EvBegin i)) with (do a' <- ep_at P i; Some (EvBegin (C := pt) a')).
  rewrite H. reflexivity.
Qed.

Lemma resolve_line i j a b : ep_at P i = Some a -> ep_at P j = Some b ->
  resolve_event P (EvLine i j) = Some (EvLine a b).
Proof.
  intros H1 H2.
  change (resolve_event P (EvLine i j))
    with (do a' <- ep_at P i; do b' <- ep_at P j; Some (EvLine (C := pt) a' b')).
  rewrite H1, H2. reflexivity.
Qed.

Lemma resolve_quad i k j a c b :
  ep_at P i = Some a -> pget (p_points P) k = Some c -> ep_at P j = Some b ->
  resolve_event P (EvQuad i k j) = Some (EvQuad a c b).
Proof.
  intros H1 H2 H3.
  change (resolve_event P (EvQuad i k j))
    with (do a' <- ep_at P i; do c' <- pget (p_points P) k; do b' <- ep_at P j;
          Some (EvQuad a' c' b')).
  rewrite H1, H2, H3. reflexivity.
Qed.

Lemma resolve_cubic i k1 k2 j a c1 c2 b :
  ep_at P i = Some a -> pget (p_points P) k1 = Some c1 -> pget (p_points P) k2 = Some c2 ->
  ep_at P j = Some b ->
  resolve_event P (EvCubic i k1 k2 j) = Some (EvCubic a c1 c2 b).
Proof.
  intros H1 H2 H3 H4.
  change (resolve_event P (EvCubic i k1 k2 j))
    with (do a' <- ep_at P i; do c1' <- pget (p_points P) k1; do c2' <- pget (p_points P) k2;
          do b' <- ep_at P j; Some (EvCubic a' c1' c2' b')).
  rewrite H1, H2, H3, H4. reflexivity.
Qed.

Lemma resolve_end i j a b cl : ep_at P i = Some a -> ep_at P j = Some b ->
  resolve_event P (EvEnd i j cl) = Some (EvEnd a b cl).
Proof.
  intros H1 H2.
  change (resolve_event P (EvEnd i j cl))
    with (do a' <- ep_at P i; do b' <- ep_at P j; Some (EvEnd (C := pt) a' b' cl)).
  rewrite H1, H2. reflexivity.
Qed.

Lemma id_edges es : forall pre p0 a0 post cur first vs r,
  p_points P = pre ++ p0 :: pack a0 ++ flat_map layout_edge es ++ post ->
  cur = length pre ->
  length a0 = n -> Forall (edge_attrs_ok n) es ->
  omap (resolve_event P) (id_iter_go E vs (cur + length (flat_map layout_edge es)) first) = Some r ->
  omap (resolve_event P) (id_iter_go E (map verb_of_edge es ++ vs) cur first)
  = Some (fst (spec_edges (p0, a0) es) ++ r).
Proof.
  induction es as [|e es IH]; intros pre p0 a0 post cur first vs r HP Hcur Ha Hes Hr.
  - cbn [flat_map length map app spec_edges fst] in *. rewrite Nat.add_0_r in Hr. exact Hr.
  - pose proof (Forall_inv Hes) as He. pose proof (Forall_inv_tail Hes) as Hes'.
    pose proof (len_edge n e He) as Hle.
    pose proof (len_ep n pre p0 a0 Ha) as Hpre.
    assert (H0 : ep_at P cur = Some (p0, a0)).
    { apply (ep_at_split P cur pre p0 a0 _ HP Ha Hcur). }
    cbn [spec_edges]. destruct (spec_edges (edge_to e) es) as [evs last] eqn:Hse.
    cbn [fst]. cbn [flat_map] in Hr. rewrite app_length in Hr.
    destruct e as [p a | c p a | c1 c2 p a]; unfold edge_attrs_ok in He;
      cbn [edge_to snd] in He, Hse; cbn [flat_map layout_edge] in HP;
      cbn [map verb_of_edge app id_iter_go omap].
    + (* line *)
      assert (HP' : p_points P = (pre ++ p0 :: pack a0) ++ p :: pack a ++ flat_map layout_edge es ++ post).
      { rewrite HP. norm_app. reflexivity. }
      assert (H1 : ep_at P (cur + E) = Some (p, a)).
      { apply (ep_at_split P _ _ p a _ HP' He). lia. }
      rewrite (resolve_line _ _ _ _ H0 H1). cbn [obind].
      assert (Hlen : cur + E = length (pre ++ p0 :: pack a0)) by lia.
      pose proof (IH (pre ++ p0 :: pack a0) p a post (cur + E) first vs r HP' Hlen He Hes') as IH'.
      rewrite Hse in IH'. cbn [fst] in IH'. rewrite IH'; [reflexivity |].
      rewrite <- Hr. f_equal. f_equal. lia.
    + (* quad *)
      assert (HPc : p_points P = (pre ++ p0 :: pack a0) ++ c :: p :: pack a ++ flat_map layout_edge es ++ post).
      { rewrite HP. norm_app. reflexivity. }
      assert (HP' : p_points P = (pre ++ p0 :: pack a0 ++ [c]) ++ p :: pack a ++ flat_map layout_edge es ++ post).
      { rewrite HP. norm_app. reflexivity. }
      assert (Hl' : length (pre ++ p0 :: pack a0 ++ [c]) = cur + E + 1).
      { rewrite app_length in Hpre |- *. cbn [length] in Hpre |- *. rewrite app_length. cbn [length]. lia. }
      assert (Hc : pget (p_points P) (cur + E) = Some c).
      { apply (pget_split _ _ _ _ _ HPc). lia. }
      assert (H1 : ep_at P (cur + E + 1) = Some (p, a)).
      { apply (ep_at_split P _ _ p a _ HP' He). lia. }
      rewrite (resolve_quad _ _ _ _ _ _ H0 Hc H1). cbn [obind].
      assert (Hlen : cur + E + 1 = length (pre ++ p0 :: pack a0 ++ [c])) by lia.
      pose proof (IH (pre ++ p0 :: pack a0 ++ [c]) p a post (cur + E + 1) first vs r HP' Hlen He Hes') as IH'.
      rewrite Hse in IH'. cbn [fst] in IH'. rewrite IH'; [reflexivity |].
      rewrite <- Hr. f_equal. f_equal. lia.
    + (* cubic *)
      assert (HPc1 : p_points P = (pre ++ p0 :: pack a0) ++ c1 :: c2 :: p :: pack a ++ flat_map layout_edge es ++ post).
      { rewrite HP. norm_app. reflexivity. }
      assert (HPc2 : p_points P = (pre ++ p0 :: pack a0 ++ [c1]) ++ c2 :: p :: pack a ++ flat_map layout_edge es ++ post).
      { rewrite HP. norm_app. reflexivity. }
      assert (HP' : p_points P = (pre ++ p0 :: pack a0 ++ [c1; c2]) ++ p :: pack a ++ flat_map layout_edge es ++ post).
      { rewrite HP. norm_app. reflexivity. }
      assert (Hl1 : length (pre ++ p0 :: pack a0 ++ [c1]) = cur + E + 1).
      { rewrite app_length in Hpre |- *. cbn [length] in Hpre |- *. rewrite app_length. cbn [length]. lia. }
      assert (Hl2 : length (pre ++ p0 :: pack a0 ++ [c1; c2]) = cur + E + 2).
      { rewrite app_length in Hpre |- *. cbn [length] in Hpre |- *. rewrite app_length. cbn [length]. lia. }
      assert (Hc1 : pget (p_points P) (cur + E) = Some c1).
      { apply (pget_split _ _ _ _ _ HPc1). lia. }
      assert (Hc2 : pget (p_points P) (cur + E + 1) = Some c2).
      { apply (pget_split _ _ _ _ _ HPc2). lia. }
      assert (H1 : ep_at P (cur + E + 2) = Some (p, a)).
      { apply (ep_at_split P _ _ p a _ HP' He). lia. }
      rewrite (resolve_cubic _ _ _ _ _ _ _ _ H0 Hc1 Hc2 H1). cbn [obind].
      assert (Hlen : cur + E + 2 = length (pre ++ p0 :: pack a0 ++ [c1; c2])) by lia.
      pose proof (IH (pre ++ p0 :: pack a0 ++ [c1; c2]) p a post (cur + E + 2) first vs r HP' Hlen He Hes') as IH'.
      rewrite Hse in IH'. cbn [fst] in IH'. rewrite IH'; [reflexivity |].
      rewrite <- Hr. f_equal. f_equal. lia.
Qed.

Lemma id_sub s : forall pre post cur first vs r,
  p_points P = pre ++ layout_sub s ++ post ->
  cur = length pre ->
  length (sp_attrs s) = n -> Forall (edge_attrs_ok n) (sp_edges s) ->
  omap (resolve_event P) (id_iter_go E vs (cur + length (layout_sub s)) cur) = Some r ->
  omap (resolve_event P) (id_iter_go E (verbs_sub s ++ vs) cur first) = Some (spec_sub s ++ r).
Proof.
  intros pre post cur first vs r HP Hcur Ha Hes Hr.
  rewrite (len_sub n s Ha Hes) in Hr.
  unfold layout_sub in HP. cbn [app] in HP. rewrite <- !app_assoc in HP.
  unfold verbs_sub, spec_sub.
  assert (H0 : ep_at P cur = Some (sp_at s, sp_attrs s)).
  { apply (ep_at_split P cur pre _ _ _ HP Ha Hcur). }
  destruct (last_split n (sp_edges s) pre (sp_at s) (sp_attrs s) (close_tail s ++ post) Ha Hes)
    as (pre' & HL1 & HL2 & HL3).
  pose proof (id_edges (sp_edges s) pre (sp_at s) (sp_attrs s) (close_tail s ++ post) cur cur
                ([close_verb s] ++ vs)) as Hed.
  destruct (spec_edges (sp_at s, sp_attrs s) (sp_edges s)) as [evs [pl al]] eqn:Hse.
  cbn [fst snd] in *.
  assert (HLast : ep_at P (cur + length (flat_map layout_edge (sp_edges s))) = Some (pl, al)).
  { apply (ep_at_split P _ pre' pl al (close_tail s ++ post)); [| exact HL3 | lia].
    rewrite HP. exact HL1. }
  cbn [app id_iter_go omap]. rewrite (resolve_begin _ _ H0). cbn [obind].
  rewrite <- app_assoc.
  rewrite (Hed ([EvEnd (pl, al) (sp_at s, sp_attrs s) (sp_close s)] ++ r)); auto;
    [cbn [obind]; rewrite <- app_assoc; reflexivity |].
  unfold close_verb. destruct (sp_close s); cbn [app id_iter_go omap];
    rewrite (resolve_end _ _ _ _ _ HLast H0); cbn [obind].
  - match goal with |- context [id_iter_go _ vs ?i cur] =>
      replace i with (cur + ((stride_of n + 1) + length (flat_map layout_edge (sp_edges s))
                      + (stride_of n + 1))) by lia end.
    rewrite Hr. reflexivity.
  - match goal with |- context [id_iter_go _ vs ?i cur] =>
      replace i with (cur + ((stride_of n + 1) + length (flat_map layout_edge (sp_edges s)) + 0))
        by lia end.
    rewrite Hr. reflexivity.
Qed.

Lemma id_prog prog : forall pre cur first,
  p_points P = pre ++ flat_map layout_sub prog ->
  cur = length pre -> attrs_ok n prog ->
  omap (resolve_event P) (id_iter_go E (flat_map verbs_sub prog) cur first)
  = Some (spec_events prog).
Proof.
  induction prog as [|s prog IH]; intros pre cur first HP Hcur Hok.
  - reflexivity.
  - apply attrs_ok_cons in Hok. destruct Hok as (Ha & Hes & Hok).
    cbn [flat_map] in *. unfold spec_events. cbn [flat_map]. fold (spec_events prog).
    apply (id_sub s pre (flat_map layout_sub prog)); auto.
    apply (IH (pre ++ layout_sub s)); auto.
    + rewrite HP, <- app_assoc. reflexivity.
    + rewrite app_length. lia.
Qed.

End Ids.

Lemma id_iter_resolves : forall n prog, attrs_ok n prog ->
  id_iter_resolved (build n (ops_of prog)) = Some (spec_events prog).
Proof.
  intros n prog Hok. rewrite build_layout. unfold id_iter_resolved, id_iter.
  cbn [p_nattr p_verbs].
  apply (id_prog (mkPath (flat_map layout_sub prog) (flat_map verbs_sub prog) n) prog []);
    auto.
Qed.
