(* C02, part 3: the AdvancedMonotoneTessellator model. *)
From Coq Require Import QArith Qminmax.
From LV Require Import Base.Prelude Base.F32 Model.Bezier Model.Monotone.
From LV Require Import Proofs.C02_Basic Proofs.C02_Flush.
Local Open Scope nat_scope.

Definition ws (s : side_events) : nat := length (se_events s).

Definition okS (P : Z -> Prop) (s : side_events) : Prop :=
  1 <= ws s /\ Forall P (se_events s) /\ P (m_id (se_last s)).

Lemma nthz_P (P : Z -> Prop) l i : Forall P l -> i < length l -> P (nthz l i).
Proof.
  intros H Hi. unfold nthz. rewrite Forall_forall in H. apply H. apply nth_In. exact Hi.
Qed.

(* flush_side followed by feeding the returned vertex (if any) to the basic tessellator *)
Definition feed (t : basic) (ov : option mv) : basic :=
  match ov with Some v => monotone_vertex t v | None => t end.

Definition bonus (ov : option mv) : nat := match ov with Some _ => 1 | None => 0 end.
Definition okO (P : Z -> Prop) (ov : option mv) : Prop :=
  match ov with Some v => P (m_id v) | None => True end.

(* flush_side alone: only appends triangles to the tessellator *)
Lemma flush_side_raw P s left t s' t' ov :
  okS P s -> okT P t ->
  flush_side s left t = (s', t', ov) ->
  okS P s' /\ okT P t' /\ b_stack t' = b_stack t /\ okO P ov /\
  ws s' = 1 /\ wt t' + 1 + bonus ov = wt t + ws s.
Proof.
  intros (Hs1 & Hs2 & Hs3) Ht. unfold flush_side.
  fold (ws s). destruct (Nat.ltb_spec (ws s) 2) as [Hlt|Hge]; intros H; inversion H; subst; clear H.
  - cbn [bonus okO]. split; [split; [|split]; assumption|].
    split; [assumption|]. split; [reflexivity|]. split; [exact I|]. lia.
  - set (ts := map _ _).
    set (t1 := mkBasic (b_stack t) (b_prev t) (b_tris t ++ ts)).
    set (s1 := mkSE _ _ _ _ _).
    assert (Hts : Forall (tri_all P) ts).
    { unfold ts. apply Forall_map. eapply Forall_impl; [|apply flush_indices].
      intros [[a b] c] (Ha & Hb & Hc & _). cbn. unfold ws in *.
      repeat split; apply nthz_P; assumption. }
    assert (Hlen : @length tri ts = ws s - 2).
    { unfold ts. rewrite map_length. apply flush_count. exact Hge. }
    clearbody ts.
    assert (Ht1 : okT P t1).
    { destruct Ht as (A & B & C). unfold okT, t1. cbn [b_stack b_prev b_tris].
      repeat split; auto. apply Forall_app; auto. }
    split; [|split; [|split; [|split; [|split]]]].
    + split; [cbn; lia|split; [|exact Hs3]].
      cbn. constructor; [assumption|constructor].
    + exact Ht1.
    + reflexivity.
    + exact Hs3.
    + reflexivity.
    + unfold wt, t1. cbn [b_stack b_tris bonus]. rewrite app_length, Hlen. lia.
Qed.

Lemma feed_step P t ov :
  okT P t -> b_stack t <> [] -> okO P ov ->
  okT P (feed t ov) /\ b_stack (feed t ov) <> [] /\ wt (feed t ov) = wt t + bonus ov.
Proof.
  intros Ht Hne Ho. destruct ov as [v|]; cbn [feed bonus].
  - destruct (monotone_vertex_count t v Hne) as [Hw Hs].
    split; [apply monotone_vertex_all; assumption|]. split; [assumption|]. lia.
  - split; [assumption|]. split; [assumption|]. lia.
Qed.

Lemma flush_side_step P s left t s' t' ov :
  okS P s -> okT P t -> b_stack t <> [] ->
  flush_side s left t = (s', t', ov) ->
  okS P s' /\ okT P (feed t' ov) /\ b_stack (feed t' ov) <> [] /\
  ws s' = 1 /\ wt (feed t' ov) + 1 = wt t + ws s.
Proof.
  intros Hs Ht Hne H.
  destruct (flush_side_raw P _ _ _ _ _ _ Hs Ht H) as (A & B & C & D & E & F).
  rewrite <- C in Hne.
  destruct (feed_step P t' ov B Hne D) as (B' & C' & D').
  split; [assumption|]. split; [assumption|]. split; [assumption|]. split; [assumption|]. lia.
Qed.

(* invariant on a (side, opposite side, tessellator) triple *)
Definition tinv (P : Z -> Prop) (N : nat) (s o : side_events) (t : basic) : Prop :=
  okS P s /\ okS P o /\ okT P t /\ b_stack t <> [] /\ wt t + ws s + ws o = N.

Lemma tinv_swap P N s o t : tinv P N s o t -> tinv P N o s t.
Proof. unfold tinv. intros (A & B & C & D & E). repeat (split; [assumption|]). lia. Qed.

Lemma okS_same P s s' :
  se_events s' = se_events s -> se_last s' = se_last s -> okS P s -> okS P s'.
Proof. unfold okS, ws. intros -> ->. auto. Qed.

Lemma tinv_flush P N s o t left s' t' ov :
  tinv P N s o t -> flush_side s left t = (s', t', ov) ->
  tinv P N s' o (feed t' ov) /\ ws s' = 1.
Proof.
  intros (A & B & C & D & E) H.
  destruct (flush_side_step P _ _ _ _ _ _ A C D H) as (A' & C' & D' & W & Wt).
  split; [|exact W]. repeat (split; [assumption|]). lia.
Qed.

Lemma tinv_cref_o P N s o t x : tinv P N s o t -> tinv P N s (set_cref o x) t.
Proof. intros (A & B & C & D & E). repeat (split; [assumption|]). exact E. Qed.
Lemma tinv_cref_s P N s o t x : tinv P N s o t -> tinv P N (set_cref s x) o t.
Proof. intros (A & B & C & D & E). repeat (split; [assumption|]). exact E. Qed.

Lemma tinv_push P N s o t v :
  tinv P N s o t -> P (m_id v) -> tinv P (S N) (se_push s v) o t.
Proof.
  intros (A & B & C & D & E) Hv. destruct A as (A1 & A2 & A3).
  split; [|repeat (split; [assumption|])].
  - unfold okS, ws, se_push in *. cbn [se_events se_last]. rewrite app_length. cbn [length].
    split; [lia|split; [|assumption]].
    apply Forall_app; split; [assumption|constructor; [assumption|constructor]].
  - unfold ws, se_push in *. cbn [se_events]. rewrite app_length. cbn [length]. lia.
Qed.

Definition ainv (P : Z -> Prop) (N : nat) (a : advanced) : Prop :=
  tinv P N (a_left a) (a_right a) (a_tess a).

Lemma tinv_ref_s P N s o t x y :
  tinv P N s o t -> tinv P N (set_cref (set_ref_x s x) y) o t.
Proof. intros (A & B & C & D & E). repeat (split; [assumption|]). exact E. Qed.

(* second stage of adv_vertex: flush the vertex's own side, then push the vertex *)
Ltac stage2 H Hid :=
  match goal with |- context [flush_side ?s ?l ?t] =>
    let E := fresh "E" in
    destruct (flush_side s l t) as [[? ?] [?|]] eqn:E;
    (apply (tinv_flush _ _ _ _ _ _ _ _ _ H) in E; destruct E as [E _]; cbn [feed] in E;
     cbn [a_left a_right a_tess];
     (first [apply tinv_push | apply tinv_swap; apply tinv_push];
      [first [exact E | apply tinv_cref_o; exact E] | exact Hid]))
  end.

(* first stage: possibly flush the opposite side *)
Ltac stage1 H1 Hid :=
  match goal with |- context [flush_side ?s ?l ?t] =>
    let E := fresh "E" in
    destruct (flush_side s l t) as [[? ?] [?|]] eqn:E;
    (apply (tinv_flush _ _ _ _ _ _ _ _ _ (tinv_swap _ _ _ _ _ H1)) in E; destruct E as [E _];
     cbn [feed] in E; apply tinv_swap in E);
    [ match goal with |- context [set_cref ?s ?x] =>
        apply (tinv_cref_s _ _ _ _ _ x) in E end | ];
    stage2 E Hid
  end.

Lemma adv_vertex_inv P N a pos id left :
  ainv P N a -> P id -> ainv P (S N) (adv_vertex a pos id left).
Proof.
  intros Ha Hid. unfold ainv in *. unfold adv_vertex.
  destruct left.
  - cbn [a_left a_right a_tess].
    set (l1 := set_cref (set_ref_x (a_left a) _) _).
    assert (H1 : tinv P N l1 (a_right a) (a_tess a)) by (apply tinv_ref_s; exact Ha).
    clearbody l1. clear Ha.
    set (c := (_ || _)%bool). clearbody c. destruct c.
    + set (c := is_after _ _). clearbody c. destruct c.
      * stage1 H1 Hid.
      * stage2 H1 Hid.
    + cbn [a_left a_right a_tess]. apply tinv_push; assumption.
  - cbn [a_left a_right a_tess].
    set (r1 := set_cref (set_ref_x (a_right a) _) _).
    assert (H1 : tinv P N r1 (a_left a) (a_tess a))
      by (apply tinv_ref_s; apply tinv_swap; exact Ha).
    clearbody r1. clear Ha.
    set (c := (_ || _)%bool). clearbody c. destruct c.
    + set (c := is_after _ _). clearbody c. destruct c.
      * stage1 H1 Hid.
      * stage2 H1 Hid.
    + cbn [a_left a_right a_tess]. apply tinv_swap. apply tinv_push; assumption.
Qed.

Lemma adv_end_inv P N a pos id :
  ainv P N a -> P id ->
  Forall (tri_all P) (b_tris (adv_end a pos id)) /\
  length (b_tris (adv_end a pos id)) + 3 = N.
Proof.
  intros (A & B & C & D & E) Hid. unfold adv_end.
  destruct (flush_side (a_left a) true (a_tess a)) as [[l t1] va] eqn:E1.
  destruct (flush_side_raw P _ _ _ _ _ _ A C E1) as (A1 & C1 & S1 & O1 & W1 & F1).
  destruct (flush_side (a_right a) false t1) as [[r t2] vb] eqn:E2.
  destruct (flush_side_raw P _ _ _ _ _ _ B C1 E2) as (A2 & C2 & S2 & O2 & W2 & F2).
  assert (D2 : b_stack t2 <> []) by (rewrite S2, S1; exact D).
  set (t3 := match va with Some _ => _ | None => _ end).
  assert (H3 : okT P t3 /\ b_stack t3 <> [] /\ wt t3 = wt t2 + bonus va + bonus vb).
  { unfold t3. destruct va as [v1|], vb as [v2|]; cbn [bonus okO] in *.
    - assert (G : forall x y, P (m_id x) -> P (m_id y) ->
        okT P (monotone_vertex (monotone_vertex t2 x) y) /\
        b_stack (monotone_vertex (monotone_vertex t2 x) y) <> [] /\
        wt (monotone_vertex (monotone_vertex t2 x) y) = wt t2 + 1 + 1).
      { intros x y Hx Hy.
        destruct (feed_step P t2 (Some x) C2 D2 Hx) as (X1 & X2 & X3). cbn [feed bonus] in *.
        destruct (feed_step P _ (Some y) X1 X2 Hy) as (Y1 & Y2 & Y3). cbn [feed bonus] in *.
        split; [assumption|]. split; [assumption|]. lia. }
      destruct (is_after _ _); apply G; assumption.
    - destruct (feed_step P t2 (Some v1) C2 D2 O1) as (X1 & X2 & X3). cbn [feed bonus] in *.
      split; [assumption|]. split; [assumption|]. lia.
    - destruct (feed_step P t2 (Some v2) C2 D2 O2) as (X1 & X2 & X3). cbn [feed bonus] in *.
      split; [assumption|]. split; [assumption|]. lia.
    - split; [assumption|]. split; [assumption|]. lia. }
  clearbody t3. destruct H3 as (T1 & T2 & T3).
  split.
  - apply basic_end_all; assumption.
  - rewrite basic_end_count by assumption. unfold wt in *. 
    destruct (b_stack t3); [congruence|]. cbn [length] in *. lia.
Qed.

Lemma fold_adv_inv (P : Z -> Prop) : forall vs N a,
  ainv P N a -> Forall (fun v => P (snd (fst v))) vs ->
  ainv P (N + length vs)
    (fold_left (fun a v => adv_vertex a (fst (fst v)) (snd (fst v)) (snd v)) vs a).
Proof.
  induction vs as [|v vs IH]; intros N a Ha Hvs; cbn [fold_left length].
  - rewrite Nat.add_0_r. exact Ha.
  - inversion Hvs; subst. replace (N + S (length vs)) with (S N + length vs) by lia.
    apply IH; [|assumption]. apply adv_vertex_inv; assumption.
Qed.

Lemma adv_begin_inv (P : Z -> Prop) pos id : P id -> ainv P 3 (adv_begin pos id).
Proof.
  intros Hid. unfold ainv, adv_begin, tinv, okS, okT, ws, wt, se_push, basic_begin.
  cbn [a_left a_right a_tess se_events se_last m_id b_stack b_prev b_tris app length].
  repeat split; auto; try discriminate.
Qed.

Lemma adv_run_inv (P : Z -> Prop) first vs last :
  P (snd first) -> Forall (fun v => P (snd (fst v))) vs -> P (snd last) ->
  Forall (tri_all P) (adv_run first vs last) /\ length (adv_run first vs last) = length vs.
Proof.
  intros Hf Hvs Hl. unfold adv_run.
  pose proof (fold_adv_inv P vs 3 _ (adv_begin_inv P (fst first) (snd first) Hf) Hvs) as H.
  destruct (adv_end_inv P _ _ (fst last) (snd last) H Hl) as [H1 H2].
  split; [exact H1|lia].
Qed.

Theorem advanced_count : forall first vs last,
  length (adv_run first vs last) = length vs.
Proof.
  intros first vs last.
  apply (adv_run_inv (fun _ => True) first vs last); [exact I| |exact I].
  apply Forall_forall. intros; exact I.
Qed.

Theorem advanced_ids : forall first vs last,
  Forall (tri_ids_in (input_ids first vs last)) (adv_run first vs last).
Proof.
  intros first vs last.
  apply (adv_run_inv (fun z => In z (input_ids first vs last)) first vs last).
  - apply input_ids_first.
  - apply input_ids_mid.
  - apply input_ids_last.
Qed.
