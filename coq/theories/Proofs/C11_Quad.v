(* C11, quadratic part: extrema, bounding ranges, monotone split. *)
From Coq Require Import QArith Qminmax Lqa Lia.
From LV Require Import Base.Prelude Model.Bezier.
Open Scope Q_scope.

(* ------------------------------------------------------------ booleans *)
Lemma Qltb_true a b : Qltb a b = true <-> a < b.
Proof.
  unfold Qltb. rewrite negb_true_iff. split.
  - intros H. apply Qnot_le_lt. intros Hle. apply Qle_bool_iff in Hle. congruence.
  - intros H. destruct (Qle_bool b a) eqn:E; auto. apply Qle_bool_iff in E. lra.
Qed.
Lemma Qltb_false a b : Qltb a b = false <-> b <= a.
Proof.
  unfold Qltb. rewrite negb_false_iff. apply Qle_bool_iff.
Qed.
Lemma Qeqb_false a b : Qeq_bool a b = false <-> ~ a == b.
Proof.
  split.
  - intros H E. apply Qeq_bool_iff in E. congruence.
  - intros H. destruct (Qeq_bool a b) eqn:E; auto. apply Qeq_bool_iff in E. tauto.
Qed.

Ltac boolq :=
  repeat match goal with
  | H : andb _ _ = true |- _ => apply andb_true_iff in H; destruct H
  | H : andb _ _ = false |- _ => apply andb_false_iff in H
  | H : Qltb _ _ = true |- _ => apply Qltb_true in H
  | H : Qltb _ _ = false |- _ => apply Qltb_false in H
  | H : Qeq_bool _ _ = true |- _ => apply Qeq_bool_iff in H
  | H : Qeq_bool _ _ = false |- _ => apply Qeqb_false in H
  end.

Global Instance q_coord_proper : Proper (Qeq ==> Qeq ==> Qeq ==> Qeq ==> Qeq) q_coord.
Proof. intros a a' Ha b b' Hb c c' Hc d d' Hd. unfold q_coord. rewrite Ha, Hb, Hc, Hd. reflexivity. Qed.
Global Instance q_dcoord_proper : Proper (Qeq ==> Qeq ==> Qeq ==> Qeq ==> Qeq) q_dcoord.
Proof. intros a a' Ha b b' Hb c c' Hc d d' Hd. unfold q_dcoord. rewrite Ha, Hb, Hc, Hd. reflexivity. Qed.

(* ------------------------------------------------ local extremum: specs *)
Lemma q_local_extremum_Some f c0 t_ t :
  q_local_extremum f c0 t_ = Some t ->
  ~ (f - 2 * c0 + t_ == 0) /\ t * (f - 2 * c0 + t_) == f - c0 /\ 0 < t /\ t < 1.
Proof.
  unfold q_local_extremum.
  destruct (Qeq_bool (f - 2 * c0 + t_) 0) eqn:E; [discriminate|].
  destruct (Qltb 0 ((f - c0) / (f - 2 * c0 + t_)) && Qltb ((f - c0) / (f - 2 * c0 + t_)) 1) eqn:E2;
    [|discriminate].
  intros H; injection H as <-. boolq.
  repeat split; auto. field. auto.
Qed.

Lemma q_local_extremum_Some_intro f c0 t_ t :
  ~ (f - 2 * c0 + t_ == 0) -> t * (f - 2 * c0 + t_) == f - c0 -> 0 < t -> t < 1 ->
  exists t', q_local_extremum f c0 t_ = Some t' /\ t' == t.
Proof.
  intros Hd Ht H0 H1.
  assert (Et : (f - c0) / (f - 2 * c0 + t_) == t) by (rewrite <- Ht; field; auto).
  exists ((f - c0) / (f - 2 * c0 + t_)). split; auto.
  unfold q_local_extremum.
  apply Qeqb_false in Hd. rewrite Hd.
  assert (A : Qltb 0 ((f - c0) / (f - 2 * c0 + t_)) = true) by (apply Qltb_true; rewrite Et; auto).
  assert (B : Qltb ((f - c0) / (f - 2 * c0 + t_)) 1 = true) by (apply Qltb_true; rewrite Et; auto).
  rewrite A, B. reflexivity.
Qed.

(* no interior extremum <-> the control value lies (weakly) between the end values *)
Lemma q_local_extremum_None f c0 t_ :
  q_local_extremum f c0 t_ = None <-> (f <= c0 /\ c0 <= t_) \/ (t_ <= c0 /\ c0 <= f).
Proof.
  unfold q_local_extremum.
  destruct (Qeq_bool (f - 2 * c0 + t_) 0) eqn:E; boolq.
  - split; auto. intros _. destruct (Qlt_le_dec c0 f); [right|left]; lra.
  - assert (Ht : (f - c0) / (f - 2 * c0 + t_) * (f - 2 * c0 + t_) == f - c0) by (field; auto).
    remember ((f - c0) / (f - 2 * c0 + t_)) as t eqn:Et. clear Et.
    destruct (Qltb 0 t) eqn:E0; destruct (Qltb t 1) eqn:E1; cbn [andb]; boolq.
    + split; [discriminate|]. intros H; exfalso.
      destruct (Qlt_le_dec 0 (f - 2 * c0 + t_)); destruct H as [[A B]|[A B]]; nra.
    + split; auto; intros _.
      destruct (Qlt_le_dec 0 (f - 2 * c0 + t_)); [right|left]; split; nra.
    + split; auto; intros _.
      destruct (Qlt_le_dec 0 (f - 2 * c0 + t_)); [left|right]; split; nra.
    + exfalso; lra.
Qed.

(* ------------------------------------------------ the three easy theorems *)
Lemma quad_extremum_sound : forall f c0 t_ t,
  q_local_extremum f c0 t_ = Some t -> 0 < t /\ t < 1 /\ q_dcoord f c0 t_ t == 0.
Proof.
  intros f c0 t_ t H. apply q_local_extremum_Some in H. destruct H as (Hd & Ht & H0 & H1).
  repeat split; auto. unfold q_dcoord.
  setoid_replace (f * (2 * t - 2) + c0 * (- (4) * t + 2) + t_ * (2 * t))
    with (2 * (t * (f - 2 * c0 + t_) - (f - c0))) by ring.
  rewrite Ht. ring.
Qed.

Lemma quad_extremum_complete : forall f c0 t_ t,
  0 < t -> t < 1 -> q_dcoord f c0 t_ t == 0 -> ~ (f - 2 * c0 + t_ == 0) ->
  exists t', q_local_extremum f c0 t_ = Some t' /\ t' == t.
Proof.
  intros f c0 t_ t H0 H1 Hd Hn. apply q_local_extremum_Some_intro; auto.
  unfold q_dcoord in Hd. lra.
Qed.

Lemma quad_dcoord_is_derivative : forall f c0 t_ t h,
  q_coord f c0 t_ (t + h) - q_coord f c0 t_ t == h * q_dcoord f c0 t_ t + h * h * (f - 2 * c0 + t_).
Proof. intros. unfold q_coord, q_dcoord. ring. Qed.

(* ------------------------------------------------ monotonicity *)
Lemma q_coord_diff f c0 t_ s u :
  q_coord f c0 t_ u - q_coord f c0 t_ s ==
  (u - s) * ((c0 - f) * (1 - s) + (t_ - c0) * s + (c0 - f) * (1 - u) + (t_ - c0) * u).
Proof. unfold q_coord. ring. Qed.

Lemma quad_mono_inc f c0 t_ : f <= c0 -> c0 <= t_ ->
  forall s u, 0 <= s -> s <= u -> u <= 1 -> q_coord f c0 t_ s <= q_coord f c0 t_ u.
Proof.
  intros A B s u H0 H1 H2. pose proof (q_coord_diff f c0 t_ s u) as E.
  assert (0 <= (c0 - f) * (1 - s)) by (apply Qmult_le_0_compat; lra).
  assert (0 <= (t_ - c0) * s) by (apply Qmult_le_0_compat; lra).
  assert (0 <= (c0 - f) * (1 - u)) by (apply Qmult_le_0_compat; lra).
  assert (0 <= (t_ - c0) * u) by (apply Qmult_le_0_compat; lra).
  assert (0 <= (u - s) * ((c0 - f) * (1 - s) + (t_ - c0) * s + (c0 - f) * (1 - u) + (t_ - c0) * u))
    by (apply Qmult_le_0_compat; lra).
  lra.
Qed.

Lemma quad_mono_dec f c0 t_ : t_ <= c0 -> c0 <= f ->
  forall s u, 0 <= s -> s <= u -> u <= 1 -> q_coord f c0 t_ u <= q_coord f c0 t_ s.
Proof.
  intros A B s u H0 H1 H2. pose proof (q_coord_diff f c0 t_ s u) as E.
  assert (0 <= (f - c0) * (1 - s)) by (apply Qmult_le_0_compat; lra).
  assert (0 <= (c0 - t_) * s) by (apply Qmult_le_0_compat; lra).
  assert (0 <= (f - c0) * (1 - u)) by (apply Qmult_le_0_compat; lra).
  assert (0 <= (c0 - t_) * u) by (apply Qmult_le_0_compat; lra).
  assert (0 <= (u - s) * ((f - c0) * (1 - s) + (c0 - t_) * s + (f - c0) * (1 - u) + (c0 - t_) * u))
    by (apply Qmult_le_0_compat; lra).
  lra.
Qed.

Lemma quad_none_monotone : forall f c0 t_, q_local_extremum f c0 t_ = None ->
  (forall s u, 0 <= s -> s <= u -> u <= 1 -> q_coord f c0 t_ s <= q_coord f c0 t_ u) \/
  (forall s u, 0 <= s -> s <= u -> u <= 1 -> q_coord f c0 t_ u <= q_coord f c0 t_ s).
Proof.
  intros f c0 t_ H. apply q_local_extremum_None in H. destruct H as [[A B]|[A B]].
  - left. apply quad_mono_inc; auto.
  - right. apply quad_mono_dec; auto.
Qed.

(* ------------------------------------------------ bounding range *)
Lemma q_coord_0 f c0 t_ : q_coord f c0 t_ 0 == f.
Proof. unfold q_coord. ring. Qed.
Lemma q_coord_1 f c0 t_ : q_coord f c0 t_ 1 == t_.
Proof. unfold q_coord. ring. Qed.
Lemma q_coord_chord f c0 t_ s :
  q_coord f c0 t_ s == (1 - s) * f + s * t_ - s * (1 - s) * (f - 2 * c0 + t_).
Proof. unfold q_coord. ring. Qed.
Lemma q_coord_vertex f c0 t_ t s : t * (f - 2 * c0 + t_) == f - c0 ->
  q_coord f c0 t_ s == q_coord f c0 t_ t + (s - t) * (s - t) * (f - 2 * c0 + t_).
Proof.
  intros H. unfold q_coord.
  setoid_replace (f * ((1 - s) * (1 - s)) + c0 * 2 * (1 - s) * s + t_ * (s * s))
    with (f - 2 * (f - c0) * s + (f - 2 * c0 + t_) * (s * s)) by ring.
  setoid_replace (f * ((1 - t) * (1 - t)) + c0 * 2 * (1 - t) * t + t_ * (t * t))
    with (f - 2 * (f - c0) * t + (f - 2 * c0 + t_) * (t * t)) by ring.
  rewrite <- H. ring.
Qed.

Lemma sq_nonneg (x : Q) : 0 <= x * x.
Proof. nra. Qed.
Lemma sq_pos (x : Q) : ~ x == 0 -> 0 < x * x.
Proof. intros H. destruct (Qlt_le_dec 0 x); [|destruct (Qlt_le_dec x 0)]; [nra|nra|exfalso; apply H; lra]. Qed.
Lemma sqmul_pos x d : 0 < x * x * d -> 0 < d.
Proof.
  intros H. destruct (Qlt_le_dec 0 d); auto. exfalso.
  assert (0 <= x * x * (- d)) by (apply Qmult_le_0_compat; [apply sq_nonneg|lra]). lra.
Qed.
Lemma sqmul_neg x d : x * x * d < 0 -> d < 0.
Proof.
  intros H. destruct (Qlt_le_dec d 0); auto. exfalso.
  assert (0 <= x * x * d) by (apply Qmult_le_0_compat; [apply sq_nonneg|lra]). lra.
Qed.
Lemma sqmul_nonneg x d : ~ x == 0 -> 0 <= x * x * d -> 0 <= d.
Proof.
  intros Hx H. destruct (Qlt_le_dec d 0); auto. exfalso. apply sq_pos in Hx.
  assert (0 < x * x * (- d)) by (apply Qmult_lt_0_compat; lra). lra.
Qed.
Lemma sqmul_nonpos x d : ~ x == 0 -> x * x * d <= 0 -> d <= 0.
Proof.
  intros Hx H. destruct (Qlt_le_dec 0 d); auto. exfalso. apply sq_pos in Hx.
  assert (0 < x * x * d) by (apply Qmult_lt_0_compat; lra). lra.
Qed.

Lemma q_minimum_spec f c0 t_ :
  (0 <= q_minimum_t f c0 t_ /\ q_minimum_t f c0 t_ <= 1) /\
  forall s, 0 <= s -> s <= 1 -> q_coord f c0 t_ (q_minimum_t f c0 t_) <= q_coord f c0 t_ s.
Proof.
  unfold q_minimum_t. destruct (q_local_extremum f c0 t_) as [t|] eqn:E.
  - apply q_local_extremum_Some in E. destruct E as (Hd & Ht & H0 & H1).
    pose proof (q_coord_vertex f c0 t_ t 0 Ht) as V0. rewrite q_coord_0 in V0.
    pose proof (q_coord_vertex f c0 t_ t 1 Ht) as V1. rewrite q_coord_1 in V1.
    set (d := f - 2 * c0 + t_) in *.
    destruct (Qltb (q_coord f c0 t_ t) f && Qltb (q_coord f c0 t_ t) t_) eqn:E2; boolq.
    + split; [lra|]. intros s Hs0 Hs1.
      rewrite (q_coord_vertex f c0 t_ t s Ht). fold d.
      assert (0 <= d) by (apply Qlt_le_weak, (sqmul_pos (0 - t)); lra).
      pose proof (sq_nonneg (s - t)).
      assert (0 <= (s - t) * (s - t) * d) by (apply Qmult_le_0_compat; auto). lra.
    + assert (Dn : d <= 0).
      { destruct E2; boolq; [apply (sqmul_nonpos (0 - t))|apply (sqmul_nonpos (1 - t))]; lra. }
      assert (C : forall s, 0 <= s -> s <= 1 -> (1 - s) * f + s * t_ <= q_coord f c0 t_ s).
      { intros s Hs0 Hs1. rewrite (q_coord_chord f c0 t_ s). fold d.
        assert (0 <= s * (1 - s)) by (apply Qmult_le_0_compat; lra). nra. }
      destruct (Qltb f t_) eqn:E3; boolq.
      * split; [lra|]. intros s Hs0 Hs1. rewrite q_coord_0. specialize (C s Hs0 Hs1). nra.
      * split; [lra|]. intros s Hs0 Hs1. rewrite q_coord_1. specialize (C s Hs0 Hs1). nra.
  - apply q_local_extremum_None in E.
    destruct (Qltb f t_) eqn:E3; boolq; (split; [lra|]); intros s Hs0 Hs1.
    + destruct E as [[A B]|[A B]]; [|exfalso; lra].
      apply quad_mono_inc; auto; lra.
    + destruct E as [[A B]|[A B]].
      * assert (t_ == f) by lra.
        apply Qle_trans with (q_coord f c0 t_ 0).
        { rewrite q_coord_0, q_coord_1. lra. }
        apply quad_mono_inc; auto; lra.
      * apply quad_mono_dec; auto; lra.
Qed.

Lemma q_maximum_spec f c0 t_ :
  (0 <= q_maximum_t f c0 t_ /\ q_maximum_t f c0 t_ <= 1) /\
  forall s, 0 <= s -> s <= 1 -> q_coord f c0 t_ s <= q_coord f c0 t_ (q_maximum_t f c0 t_).
Proof.
  unfold q_maximum_t. destruct (q_local_extremum f c0 t_) as [t|] eqn:E.
  - apply q_local_extremum_Some in E. destruct E as (Hd & Ht & H0 & H1).
    pose proof (q_coord_vertex f c0 t_ t 0 Ht) as V0. rewrite q_coord_0 in V0.
    pose proof (q_coord_vertex f c0 t_ t 1 Ht) as V1. rewrite q_coord_1 in V1.
    set (d := f - 2 * c0 + t_) in *.
    destruct (Qltb f (q_coord f c0 t_ t) && Qltb t_ (q_coord f c0 t_ t)) eqn:E2; boolq.
    + split; [lra|]. intros s Hs0 Hs1.
      rewrite (q_coord_vertex f c0 t_ t s Ht). fold d.
      assert (d <= 0) by (apply Qlt_le_weak, (sqmul_neg (0 - t)); lra).
      pose proof (sq_nonneg (s - t)).
      assert (0 <= (s - t) * (s - t) * (- d)) by (apply Qmult_le_0_compat; lra). lra.
    + assert (Dn : 0 <= d).
      { destruct E2; boolq; [apply (sqmul_nonneg (0 - t))|apply (sqmul_nonneg (1 - t))]; lra. }
      assert (C : forall s, 0 <= s -> s <= 1 -> q_coord f c0 t_ s <= (1 - s) * f + s * t_).
      { intros s Hs0 Hs1. rewrite (q_coord_chord f c0 t_ s). fold d.
        assert (0 <= s * (1 - s)) by (apply Qmult_le_0_compat; lra). nra. }
      destruct (Qltb t_ f) eqn:E3; boolq.
      * split; [lra|]. intros s Hs0 Hs1. rewrite q_coord_0. specialize (C s Hs0 Hs1). nra.
      * split; [lra|]. intros s Hs0 Hs1. rewrite q_coord_1. specialize (C s Hs0 Hs1). nra.
  - apply q_local_extremum_None in E.
    destruct (Qltb t_ f) eqn:E3; boolq; (split; [lra|]); intros s Hs0 Hs1.
    + destruct E as [[A B]|[A B]]; [exfalso; lra|].
      apply quad_mono_dec; auto; lra.
    + destruct E as [[A B]|[A B]].
      * apply quad_mono_inc; auto; lra.
      * assert (t_ == f) by lra.
        apply Qle_trans with (q_coord f c0 t_ 0).
        { apply quad_mono_dec; auto; lra. }
        rewrite q_coord_0, q_coord_1. lra.
Qed.

Lemma quad_range_contains : forall f c0 t_ t, 0 <= t -> t <= 1 ->
  fst (q_bounding_range f c0 t_) <= q_coord f c0 t_ t /\
  q_coord f c0 t_ t <= snd (q_bounding_range f c0 t_).
Proof.
  intros f c0 t_ t H0 H1. unfold q_bounding_range; cbn [fst snd]. split.
  - apply q_minimum_spec; auto.
  - apply q_maximum_spec; auto.
Qed.

Lemma quad_range_tight : forall f c0 t_,
  (0 <= q_minimum_t f c0 t_ /\ q_minimum_t f c0 t_ <= 1) /\
  (0 <= q_maximum_t f c0 t_ /\ q_maximum_t f c0 t_ <= 1) /\
  fst (q_bounding_range f c0 t_) == q_coord f c0 t_ (q_minimum_t f c0 t_) /\
  snd (q_bounding_range f c0 t_) == q_coord f c0 t_ (q_maximum_t f c0 t_).
Proof.
  intros. split; [apply q_minimum_spec|]. split; [apply q_maximum_spec|].
  unfold q_bounding_range; cbn [fst snd]. split; reflexivity.
Qed.

(* convex hull *)
Lemma q_coord_hull_lo f c0 t_ lo s : lo <= f -> lo <= c0 -> lo <= t_ -> 0 <= s -> s <= 1 ->
  lo <= q_coord f c0 t_ s.
Proof.
  intros A B C H0 H1.
  assert (E : q_coord f c0 t_ s - lo ==
              (f - lo) * ((1 - s) * (1 - s)) + 2 * ((c0 - lo) * ((1 - s) * s)) + (t_ - lo) * (s * s))
    by (unfold q_coord; ring).
  assert (0 <= (f - lo) * ((1 - s) * (1 - s))) by (apply Qmult_le_0_compat; [lra|apply sq_nonneg]).
  assert (0 <= (c0 - lo) * ((1 - s) * s)) by (apply Qmult_le_0_compat; [lra|apply Qmult_le_0_compat; lra]).
  assert (0 <= (t_ - lo) * (s * s)) by (apply Qmult_le_0_compat; [lra|apply sq_nonneg]).
  lra.
Qed.
Lemma q_coord_hull_hi f c0 t_ hi s : f <= hi -> c0 <= hi -> t_ <= hi -> 0 <= s -> s <= 1 ->
  q_coord f c0 t_ s <= hi.
Proof.
  intros A B C H0 H1.
  assert (E : hi - q_coord f c0 t_ s ==
              (hi - f) * ((1 - s) * (1 - s)) + 2 * ((hi - c0) * ((1 - s) * s)) + (hi - t_) * (s * s))
    by (unfold q_coord; ring).
  assert (0 <= (hi - f) * ((1 - s) * (1 - s))) by (apply Qmult_le_0_compat; [lra|apply sq_nonneg]).
  assert (0 <= (hi - c0) * ((1 - s) * s)) by (apply Qmult_le_0_compat; [lra|apply Qmult_le_0_compat; lra]).
  assert (0 <= (hi - t_) * (s * s)) by (apply Qmult_le_0_compat; [lra|apply sq_nonneg]).
  lra.
Qed.

Lemma quad_fast_contains_exact : forall f c0 t_,
  fst (q_fast_bounding_range f c0 t_) <= fst (q_bounding_range f c0 t_) /\
  snd (q_bounding_range f c0 t_) <= snd (q_fast_bounding_range f c0 t_).
Proof.
  intros. unfold q_fast_bounding_range, q_bounding_range; cbn [fst snd].
  destruct (q_minimum_spec f c0 t_) as [[A B] _]. destruct (q_maximum_spec f c0 t_) as [[C D] _].
  split.
  - apply q_coord_hull_lo; auto.
    + eapply Qle_trans; [apply Q.le_min_l|apply Q.le_min_l].
    + eapply Qle_trans; [apply Q.le_min_l|apply Q.le_min_r].
    + apply Q.le_min_r.
  - apply q_coord_hull_hi; auto.
    + eapply Qle_trans; [|apply Q.le_max_l]. apply Q.le_max_l.
    + eapply Qle_trans; [|apply Q.le_max_l]. apply Q.le_max_r.
    + apply Q.le_max_r.
Qed.
